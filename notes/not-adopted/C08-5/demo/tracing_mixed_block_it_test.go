package backend_test

// Demonstration for property C08 (tracing predicts execution).
//
// debug_traceTransaction (Backend.TraceTransaction -> Query/TraceTx) of a delivered transaction must reproduce its
// execution: the gas reported by the trace equals the gas used written in the receipt of the transaction.
//
// The block that is built here has the shape
//
//	[ bank send (Cosmos tx) , store(11) by A (Ethereum tx) , store(12) by B (Ethereum tx) ]
//
// on a freshly deployed storage contract. The 2nd Ethereum tx overwrites the non-zero slot written by the 1st one,
// so its gas used is that of a non-zero -> non-zero SSTORE. If the replay of the predecessors misses the 1st Ethereum tx,
// the traced tx is executed against an empty slot (zero -> non-zero SSTORE) and the trace reports a different gas.
//
// Run (from the root of the repository):
//
//	go test -vet=off -count=1 -run TestTraceTransactionInBlockWithCosmosTxAhead ./rpc/backend/

import (
	"encoding/json"
	"math/big"
	"testing"

	"github.com/ethereum/go-ethereum/common"
	"github.com/ethereum/go-ethereum/common/hexutil"
	ethtypes "github.com/ethereum/go-ethereum/core/types"
	"github.com/stretchr/testify/require"

	"github.com/EscanBE/evermint/v12/integration_test_util"
	rpctypes "github.com/EscanBE/evermint/v12/rpc/types"
)

func TestTraceTransactionInBlockWithCosmosTxAhead(t *testing.T) {
	cits := integration_test_util.CreateChainIntegrationTestSuite(t, require.New(t))
	cits.EnsureCometBFT() // RPC requires CometBFT
	defer cits.Cleanup()

	deployer := cits.WalletAccounts.Number(1)
	cosmosSender := cits.WalletAccounts.Number(2)
	ethSenderA := cits.WalletAccounts.Number(3)
	ethSenderB := cits.WalletAccounts.Number(4)
	receiver := cits.WalletAccounts.Number(5)

	const maxAttempts = 6
	for attempt := 1; attempt <= maxAttempts; attempt++ {
		// a fresh contract for every attempt, so the slot is empty before the test block
		contractAddr, _, _, err := cits.TxDeploy1StorageContract(deployer)
		require.NoError(t, err)
		cits.Commit()

		dataA, err := integration_test_util.Contract1Storage.ABI.Pack("store", big.NewInt(11))
		require.NoError(t, err)
		dataB, err := integration_test_util.Contract1Storage.ABI.Pack("store", big.NewInt(12))
		require.NoError(t, err)

		// wait for a new block then broadcast the 3 txs (async), so they are included in the same (next) block
		cits.WaitNextBlockOrCommit()

		require.NoError(t, cits.TxSendAsync(cosmosSender, receiver, 1)) // bank send, a Cosmos tx
		msgA, err := cits.TxSendEvmTxAsync(cits.CurrentContext, ethSenderA, &contractAddr, nil, dataA)
		require.NoError(t, err)
		msgB, err := cits.TxSendEvmTxAsync(cits.CurrentContext, ethSenderB, &contractAddr, nil, dataB)
		require.NoError(t, err)

		cits.WaitNextBlockOrCommit() // the test block
		cits.Commit()                // passive trigger the EVM tx indexer
		cits.Commit()

		hashA := msgA.AsTransaction().Hash()
		hashB := msgB.AsTransaction().Hash()

		indexedA, errA := cits.RpcBackend.GetTxByEthHash(hashA)
		indexedB, errB := cits.RpcBackend.GetTxByEthHash(hashB)
		if errA != nil || errB != nil || indexedA == nil || indexedB == nil {
			t.Logf("attempt %d: txs are not indexed (%v, %v), retry", attempt, errA, errB)
			continue
		}
		if indexedA.Height != indexedB.Height ||
			indexedA.TxIndex != 1 || indexedA.EthTxIndex != 0 ||
			indexedB.TxIndex != 2 || indexedB.EthTxIndex != 1 {
			t.Logf("attempt %d: block does not have the wanted shape (A: %v, B: %v), retry", attempt, indexedA, indexedB)
			continue
		}
		require.False(t, indexedA.Failed)
		require.False(t, indexedB.Failed)

		height := indexedB.Height

		// gas used of the delivered tx, from its receipt
		receipt, err := cits.RpcBackend.GetTransactionReceipt(hashB)
		require.NoError(t, err)
		require.NotNil(t, receipt)
		deliveredGasUsed := uint64(receipt.GasUsed)
		require.Equal(t, hexutil.Uint(ethtypes.ReceiptStatusSuccessful), receipt.Status)

		// trace the delivered tx, the query context is the end of the previous block
		traceResult, err := cits.RpcBackendAt(height-1).TraceTransaction(hashB, nil)
		require.NoError(t, err, "the delivered transaction must be traceable")

		bz, err := json.Marshal(traceResult)
		require.NoError(t, err)
		var trace struct {
			Gas         uint64 `json:"gas"`
			Failed      bool   `json:"failed"`
			ReturnValue string `json:"returnValue"`
		}
		require.NoError(t, json.Unmarshal(bz, &trace))

		t.Logf("block %d = [cosmos tx, %s, %s]; delivered gas used = %d, traced gas = %d",
			height, hashA.Hex(), hashB.Hex(), deliveredGasUsed, trace.Gas)

		require.False(t, trace.Failed, "the delivered transaction succeed, so must the trace")
		require.Equal(t, deliveredGasUsed, trace.Gas,
			"the trace of a delivered transaction must report the gas it used in the block (were all the preceding Ethereum txs of the block replayed?)",
		)

		// the state is not touched by the trace
		latest := rpctypes.EthLatestBlockNumber
		res, err := cits.RpcBackend.GetStorageAt(contractAddr, common.Hash{}.Hex(), rpctypes.BlockNumberOrHash{BlockNumber: &latest})
		require.NoError(t, err)
		require.Equal(t, common.BigToHash(big.NewInt(12)).Hex(), res.String())

		return
	}

	t.Skipf("could not build a block with the shape [cosmos tx, eth tx, eth tx] after %d attempts (machine under load?)", maxAttempts)
}
