package feemarket_test

import (
	"testing"

	sdkmath "cosmossdk.io/math"
	"github.com/stretchr/testify/require"

	"github.com/EscanBE/evermint/v12/app/helpers"
	"github.com/EscanBE/evermint/v12/constants"
	"github.com/EscanBE/evermint/v12/x/feemarket"
)

// The fee market state (including the current base fee) exported from one chain
// and imported into a fresh chain must be reproduced exactly, and a second export
// must equal the first one.
func TestDemoFeeMarketGenesisRoundTripKeepsBaseFee(t *testing.T) {
	chainID := constants.TestnetFullChainId

	// source chain: the min gas price was raised above the current base fee
	// (param update taking effect before the next EndBlock recomputes the base fee)
	src := helpers.Setup(false, nil, chainID)
	srcCtx := src.BaseApp.NewContext(false).WithChainID(chainID)
	params := src.FeeMarketKeeper.GetParams(srcCtx)
	params.BaseFee = sdkmath.NewInt(1_000_000_000)
	params.MinGasPrice = sdkmath.LegacyNewDec(5_000_000_000)
	require.NoError(t, src.FeeMarketKeeper.SetParams(srcCtx, params))

	exported := feemarket.ExportGenesis(srcCtx, src.FeeMarketKeeper)
	require.NoError(t, exported.Validate())
	require.Equal(t, "1000000000", exported.Params.BaseFee.String())

	// fresh chain initialised from the export
	dst := helpers.Setup(false, nil, chainID)
	dstCtx := dst.BaseApp.NewContext(false).WithChainID(chainID)
	feemarket.InitGenesis(dstCtx, dst.FeeMarketKeeper, *exported)

	require.Equal(t,
		src.FeeMarketKeeper.GetBaseFee(srcCtx).String(),
		dst.FeeMarketKeeper.GetBaseFee(dstCtx).String(),
		"base fee observed on the re-initialised chain differs from the exported chain",
	)
	require.Equal(t, src.FeeMarketKeeper.GetParams(srcCtx), dst.FeeMarketKeeper.GetParams(dstCtx))

	reExported := feemarket.ExportGenesis(dstCtx, dst.FeeMarketKeeper)
	require.Equal(t, exported, reExported, "second export differs from the first export")
}
