#!/bin/sh
# Builds the framework from files on disk only (offline). Warms the Go build cache.
export GOFLAGS=-mod=mod GOPROXY=off GOSUMDB=off GOTOOLCHAIN=local
cd /verif/harness || exit 2
mkdir -p /verif/bin /verif/.work /verif/evidence /verif/replays
cp /repo/go.sum go.sum
go build -o /verif/bin/vcheck ./cmd/vcheck || exit 2
echo "setup ok"
