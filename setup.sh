#!/bin/sh
# Builds the framework from files on disk only (offline). Warms the Go build cache for all three binaries.
export GOFLAGS=-mod=mod GOPROXY=off GOSUMDB=off GOTOOLCHAIN=local
cd /verif/harness || exit 2
mkdir -p /verif/bin /verif/.work /verif/evidence /verif/replays
cp /repo/go.sum go.sum
go build -o /verif/bin/vcheck ./cmd/vcheck || exit 2
/verif/tools/build_vsched.sh || exit 2
/verif/tools/build_vcheck_i.sh || exit 2
echo "setup ok"
