#!/bin/sh
# Builds the framework from files on disk only (offline). Warms the Go build cache for all three binaries.
export GOFLAGS=-mod=mod GOPROXY=off GOSUMDB=off GOTOOLCHAIN=local
: "${VERIF_ROOT:=$(cd "$(dirname "$0")" && pwd)}"
export VERIF_ROOT
# the repository under verification (the harness go.mod points at it with a replace directive)
REPO="${VERIF_REPO:-/repo}"
cd $VERIF_ROOT/harness || exit 2
mkdir -p $VERIF_ROOT/bin $VERIF_ROOT/.work $VERIF_ROOT/evidence $VERIF_ROOT/replays
cp $REPO/go.sum go.sum
go build -o $VERIF_ROOT/bin/vcheck ./cmd/vcheck || exit 2
$VERIF_ROOT/tools/build_vsched.sh || exit 2
$VERIF_ROOT/tools/build_vcheck_i.sh || exit 2
echo "setup ok"
