#!/bin/sh
# Regenerates the consensus-profile overlay (map ranges, wall-clock reads, go statements of consensus packages put behind
# package vrt's environment hooks) from /repo's current working tree and builds $VERIF_ROOT/bin/vcheck-i with it.
export GOFLAGS=-mod=mod GOPROXY=off GOSUMDB=off GOTOOLCHAIN=local
: "${VERIF_ROOT:=$(cd "$(dirname "$0")/.." && pwd)}"
export VERIF_ROOT
# the repository under verification (the harness go.mod points at it with a replace directive)
REPO="${VERIF_REPO:-/repo}"
cd $VERIF_ROOT/harness || exit 2
mkdir -p $VERIF_ROOT/bin $VERIF_ROOT/.work
cmp -s $REPO/go.sum go.sum || cp $REPO/go.sum go.sum
go build -o $VERIF_ROOT/bin/instr ./cmd/instr || exit 2
OV=$VERIF_ROOT/.work/ov-cons
rm -rf "$OV" && mkdir -p "$OV"
PKGS=$(cd $REPO && go list ./x/... ./app/... ./types/... ./utils/... ./crypto/... ./ethereum/... | grep -v -e '/client/cli$' -e '/types/tests$' -e '/upgrades/v13_sample$' | tr '\n' ' ')
[ -n "$PKGS" ] || { echo "HARNESS: go list of /repo failed" >&2; exit 2; }
$VERIF_ROOT/bin/instr -repo "$REPO" -out "$OV" -profile consensus $PKGS >"$OV/instr.log" 2>&1 || { cat "$OV/instr.log" >&2; exit 2; }
go build -tags verif -overlay "$OV/overlay.json" -o $VERIF_ROOT/bin/vcheck-i ./cmd/vcheck || exit 2
