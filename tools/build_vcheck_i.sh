#!/bin/sh
# Regenerates the consensus-profile overlay (map ranges, wall-clock reads, go statements of consensus packages put behind
# package vrt's environment hooks) from /repo's current working tree and builds $VERIF_ROOT/bin/vcheck-i with it.
export GOFLAGS=-mod=mod GOPROXY=off GOSUMDB=off GOTOOLCHAIN=local
: "${VERIF_ROOT:=$(cd "$(dirname "$0")/.." && pwd)}"
export VERIF_ROOT
# the repository under verification (the harness go.mod points at it with a replace directive)
REPO="${VERIF_REPO:-/repo}"
cd $VERIF_ROOT/harness || exit 2
mkdir -p $VERIF_ROOT/bin $VERIF_ROOT/.work
cmp -s $REPO/go.sum go.sum || cp $REPO/go.sum go.sum
go build -o $VERIF_ROOT/bin/instr ./cmd/instr || exit 2
OV=$VERIF_ROOT/.work/ov-cons
rm -rf "$OV" && mkdir -p "$OV"
PKGS=$(cd $REPO && go list ./x/... ./app/... ./types/... ./utils/... ./crypto/... ./ethereum/... | grep -v -e '/client/cli$' -e '/types/tests$' -e '/upgrades/v13_sample$' | tr '\n' ' ')
[ -n "$PKGS" ] || { echo "HARNESS: go list of /repo failed" >&2; exit 2; }
# statement-level points (vrt.Point) in the files that set up and run one EVM message: the concurrent-request pass of C01 serves
# a request at every one of them
POINTS='/x/evm/keeper/[a-z_0-9]+\.go$|/x/evm/vm/state_db[a-z_]*\.go$|/x/cpc/keeper/(keeper|precompiles)\.go$'
$VERIF_ROOT/bin/instr -repo "$REPO" -out "$OV" -profile consensus -points "$POINTS" $PKGS >"$OV/instr.log" 2>&1 || { cat "$OV/instr.log" >&2; exit 2; }
# the go-ethereum fork (module cache, go1.17) iterates the map of custom precompiled contracts: own that iteration too.
# The replacement is hand-written for one exact file; if the fork's file is not that file the site stays unowned (reported by C01).
FORK_DIR=$(cd $REPO && go list -m -f '{{.Dir}}' github.com/ethereum/go-ethereum 2>/dev/null)
FORK_FILE="$FORK_DIR/core/vm/evm_evermint.go"
if [ -f "$FORK_FILE" ] && [ "$(sha256sum "$FORK_FILE" | cut -d' ' -f1)" = "00899c6929ef4774877c4943fa5baf5f19298df708c1794e2aedf07b1ae3a9e0" ]; then
  mkdir -p "$OV/fork" && cp overlays/geth_core_vm_evm_evermint.go.txt "$OV/fork/evm_evermint.go"
  python3 - "$OV/overlay.json" "$FORK_FILE" "$OV/fork/evm_evermint.go" <<'PY' || exit 2
import json, sys
ov = json.load(open(sys.argv[1]))
ov["Replace"][sys.argv[2]] = sys.argv[3]
json.dump(ov, open(sys.argv[1], "w"), indent=1)
PY
else
  echo "build_vcheck_i: go-ethereum fork file $FORK_FILE is not the version the hand-written overlay was made for; its map iteration stays unowned" >&2
fi
# goindex=0: the go command's module index ignores overlays of module-cache files
GODEBUG=goindex=0 go build -tags verif -overlay "$OV/overlay.json" -o $VERIF_ROOT/bin/vcheck-i ./cmd/vcheck || exit 2
