#!/usr/bin/env python3
"""usage: tools/seeded_process.py <Cxx> <n> <first-evaluation: caught|missed> [strengthening text]
Confirms the change of /tmp/mut/<Cxx> (worktree) with /tmp/mut/<Cxx>-out (agent deliverables), stores it as
seeded/<Cxx>-<n>/, runs it the recorded way and writes meta.json."""
import json, os, re, subprocess, sys, glob, shutil
c, n, first = sys.argv[1], sys.argv[2], sys.argv[3]
strength = sys.argv[4] if len(sys.argv) > 4 else None
root = os.path.dirname(os.path.dirname(os.path.abspath(__file__)))
wt, out = f'/tmp/mut/{c}', f'/tmp/mut/{c}-out'
a = json.load(open(f'{out}/meta.json'))
cmd = a.get('demo_cmd') or ''
m = re.search(r'go test (.*)', cmd)
args = m.group(1)
args = re.split(r'\s+#|\s+\(', args)[0]
args = [x for x in args.replace("'", '').replace('"', '').split() if x not in ('-vet=off', '-count=1', '-v')]
demo_files = []
for f in glob.glob(f'{out}/demo/*.go'):
    r = subprocess.run(['find', wt, '-name', os.path.basename(f), '-not', '-path', '*/.git/*'], capture_output=True, text=True).stdout.split()
    demo_files += [os.path.relpath(x, wt) for x in r]
pk = sorted({'./' + os.path.dirname(f) + '/...' for f in a.get('files_changed', [])})
env = dict(os.environ, DEMO_FILES=' '.join(demo_files))
r = subprocess.run([f'{root}/tools/seeded_confirm.sh', c, wt, f'{out}/patch.diff', ' '.join(pk), '--'] + args, capture_output=True, text=True, env=env)
conf = [l for l in r.stdout.splitlines() if l.startswith(c + ' ')]
print('\n'.join(l for l in conf if 'existing-tests:  ' not in l))
ok = any('demo-with-change: fails' in l for l in conf) and any('demo-without-change: passes' in l for l in conf) and any('build-with-change: ok' in l for l in conf) and not any('FAIL' in l for l in conf if 'existing-tests' in l)
if not ok:
    print('CONFIRMATION FAILED'); sys.exit(1)
d = f'{root}/seeded/{c}-{n}'
os.makedirs(d + '/demo', exist_ok=True)
shutil.copy(f'{out}/patch.diff', d); shutil.copy(f'{out}/meta.json', d + '/agent_meta.json')
for f in glob.glob(f'{out}/demo/*'): shutil.copy(f, d + '/demo/')
if os.environ.get('SEEDED_SKIP_RUN'):
    # confirmation and storage only (other work is building from /repo right now); tools/seeded_rerun.py does the recorded run later
    viol, pending = [], True
else:
    pending = False
    r = subprocess.run([f'{root}/tools/seeded_apply_run.sh', f'{c}-{n}', c], capture_output=True, text=True)
    print(r.stdout.strip(), r.stderr.strip()[-300:])
    log = open(f'{d}/runs/{c}.log').read()
    viol = [l for l in log.splitlines() if l.startswith('VIOLATION') or l.strip().startswith('clause=')]
meta = {'id': f'{c}-{n}', 'property': c,
  'origin': 'written by a fresh sub-agent that was given only the property record and its own git worktree of /repo (nothing from /verif)' + ('; it was told which idea an earlier attempt had used and asked for a different mechanism' if n != '1' else ''),
  'summary': a.get('summary'), 'why_it_breaks': a.get('why_it_breaks'), 'needs_to_manifest': a.get('needs_to_manifest'), 'files_changed': a.get('files_changed'),
  'confirmed_by_me': {'how': 'tools/seeded_confirm.sh in the scratch worktree: go build ./... with the change; demonstration fails with the change and passes with the change reverted (git apply -R); existing tests of the touched packages pass with the change (demonstration files moved aside). The full suite was run by the authoring agent with the change applied (see agent_meta.json tests_run).',
     'demo_cmd': cmd, 'confirmation_lines': conf[:12], 'demo_fails_with_change': True, 'demo_passes_without_change': True, 'builds': True},
  'runs': {'first_evaluation_before_any_strengthening': first, 'strengthening': strength, 'recorded_run': f'tools/seeded_apply_run.sh {c}-{n} {c}',
     'result': 'pending' if pending else ('exit 1' if viol else 'exit 0 (MISSED)'), 'violation_lines': [v[:400] for v in viol][:6], 'log': f'runs/{c}.log'}}
json.dump(meta, open(d + '/meta.json', 'w'), indent=1, ensure_ascii=False)
print('stored', d, meta['runs']['result'])
