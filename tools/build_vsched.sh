#!/bin/sh
# Regenerates the schedule-exploration overlay from /repo's current working tree and builds /verif/bin/vsched with it.
export GOFLAGS=-mod=mod GOPROXY=off GOSUMDB=off GOTOOLCHAIN=local
cd /verif/harness || exit 2
mkdir -p /verif/bin /verif/.work
cmp -s /repo/go.sum go.sum || cp /repo/go.sum go.sum
go build -o /verif/bin/instr ./cmd/instr || exit 2
OV=/verif/.work/ov-sched
rm -rf "$OV" && mkdir -p "$OV"
/verif/bin/instr -out "$OV" -profile sched \
  -drop PublicFilterAPI.NewPendingTransactions,PublicFilterAPI.NewHeads,PublicFilterAPI.Logs \
  github.com/EscanBE/evermint/v12/rpc/ethereum/pubsub \
  github.com/EscanBE/evermint/v12/rpc/namespaces/ethereum/eth/filters >"$OV/instr.log" 2>&1 || { cat "$OV/instr.log" >&2; exit 2; }
go build -tags verif -overlay "$OV/overlay.json" -o /verif/bin/vsched ./cmd/vsched || exit 2
