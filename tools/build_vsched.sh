#!/bin/sh
# Regenerates the schedule-exploration overlay from /repo's current working tree and builds $VERIF_ROOT/bin/vsched with it.
export GOFLAGS=-mod=mod GOPROXY=off GOSUMDB=off GOTOOLCHAIN=local
: "${VERIF_ROOT:=$(cd "$(dirname "$0")/.." && pwd)}"
export VERIF_ROOT
# the repository under verification (the harness go.mod points at it with a replace directive)
REPO="${VERIF_REPO:-/repo}"
cd $VERIF_ROOT/harness || exit 2
mkdir -p $VERIF_ROOT/bin $VERIF_ROOT/.work
cmp -s $REPO/go.sum go.sum || cp $REPO/go.sum go.sum
go build -o $VERIF_ROOT/bin/instr ./cmd/instr || exit 2
OV=$VERIF_ROOT/.work/ov-sched
rm -rf "$OV" && mkdir -p "$OV"
$VERIF_ROOT/bin/instr -repo "$REPO" -out "$OV" -profile sched \
  -drop PublicFilterAPI.NewPendingTransactions,PublicFilterAPI.NewHeads,PublicFilterAPI.Logs \
  github.com/EscanBE/evermint/v12/rpc/ethereum/pubsub \
  github.com/EscanBE/evermint/v12/rpc/namespaces/ethereum/eth/filters >"$OV/instr.log" 2>&1 || { cat "$OV/instr.log" >&2; exit 2; }
go build -tags verif -overlay "$OV/overlay.json" -o $VERIF_ROOT/bin/vsched ./cmd/vsched || exit 2
