#!/bin/sh
# usage: tools/seeded_eval.sh <worktree-with-change> <out-dir> <Cxx>...
# Evaluates quick checks against a scratch copy of this framework whose harness points at the given worktree
# (nothing is applied to /repo). Used while other work still reads /repo; the recorded runs in seeded/<id>/meta.json
# come from applying the patch to /repo itself (tools/seeded_apply_run.sh).
WT="$1"; OUT="$2"; shift 2
SRC="$(cd "$(dirname "$0")/.." && pwd)"
S=/tmp/seval/$(basename "$WT")
rm -rf "$S"; mkdir -p "$S" "$OUT"
rsync -a --exclude .git --exclude bin --exclude .work --exclude evidence --exclude replays "$SRC/" "$S/"
mkdir -p "$S/evidence" "$S/replays"
export GOFLAGS=-mod=mod GOPROXY=off GOSUMDB=off GOTOOLCHAIN=local
(cd "$S/harness" && go mod edit -replace "github.com/EscanBE/evermint/v12=$WT")
for c in "$@"; do
  VERIF_REPO="$WT" "$S/run.sh" "$c" quick >"$OUT/$c.log" 2>&1
  echo "$c exit=$? $(grep -c '^VIOLATION' "$OUT/$c.log") violation line(s)"
  grep -A1 '^VIOLATION' "$OUT/$c.log" | cut -c1-400 | head -6
done
rm -rf "$S"
