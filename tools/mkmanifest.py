#!/usr/bin/env python3
"""Generates /verif/MANIFEST.json from the table below (single source of truth for what is claimed)."""
import json, os, sys

ROOT = os.path.dirname(os.path.dirname(os.path.abspath(__file__)))
ALL = ["C%02d" % i for i in range(1, 21)]

# id -> dict(level, text, note, technique, design_ref, engine)
CHECKS = {}

def chk(id, level, text, note, technique, design_ref, engine):
    CHECKS[id] = dict(level=level, text=text, note=note, technique=technique, design_ref=design_ref, engine=engine)

chk("C13", "model_checking",
    "Explicit-state exploration of the real application: every block of up to 3 (thorough: 4) transactions over an 11-kind outcome alphabet, in two block-gas worlds, plus two-block histories, is executed through FinalizeBlock/Commit on a fresh app and the receipt/index/cumulative-gas/bloom laws are evaluated on every transaction result. No abstract model: the transition function is the implementation.",
    "Trusts cosmos-sdk baseapp, the event plumbing and go-ethereum's receipt/bloom encoding; alphabet and depth bounds as stated in the evidence file.",
    "exhaustive bounded enumeration of block histories on the real app (explicit-state, replay states)",
    "DESIGN.md §5 C13", "seqx-replay")

LEDGER_NOTE = "Trusts cosmos-sdk baseapp / bank / auth and go-ethereum's interpreter; bounds (alphabet, block length, history depth) as stated in the evidence file. Mint inflation is forced to 0 in the worlds."

chk("C04", "model_checking",
    "Explicit-state exploration of the real application at ABCI level: every single-tx block of the product kind × fee shape × gas limit × block-gas world, every two-tx block over (kind × fee/gas combo)², and two-block histories are executed on fresh apps; after every block the supply of every denomination, the sum of all bank balances, the fee collector and the EVM module account are compared with an independent ledger computed from the receipts.",
    LEDGER_NOTE, "exhaustive bounded enumeration of block histories on the real app, ledger oracle", "DESIGN.md §5 C04", "seqx-replay")
chk("C05", "model_checking",
    "Same exhaustive history space as C04 with the charge oracle: per wallet and block, the balance change must equal −Σ(gas × effective price + value moved) with gas = receipt gas used for committed executions and the gas limit for failures after admission; intrinsic ≤ gas used ≤ limit; consensus gas used = receipt gas used; cumulative gas is the running sum; histories containing a non-admitted tx are re-run without it and must reach the same AppHash.",
    LEDGER_NOTE, "exhaustive bounded enumeration of block histories on the real app, ledger oracle + twin runs", "DESIGN.md §5 C05", "seqx-replay")
chk("C06", "model_checking",
    "Exhaustive enumeration of adversarial encodings (13 Ethereum variants × 2 tx types × 5 outcome kinds, 5 Cosmos variants) at every position of short blocks, and of byte-exact replays of every accepted tx kind at 7 later positions across up to 3 blocks, on the real app. Authorisation is known by construction; every history with a rejected item is executed twice (with and without the rejected items) and all stores except the fee market's are compared; account sequences must advance exactly once per admitted tx.",
    "Trusts cosmos-sdk baseapp and secp256k1; a rejected tx still counts towards block gas (cosmos-sdk accounting) and therefore moves the next base fee - this is not counted as a state change by the sender (DESIGN.md §5 C06).",
    "exhaustive bounded enumeration of adversarial histories on the real app + differential twin runs", "DESIGN.md §5 C06", "seqx-replay")
chk("C09", "model_checking",
    "The real CalculateBaseFee is evaluated on the full product grid of base fees (0..2^255), MaxGas settings (−1,0,1,…,2^63−1), gas-used boundary values and min gas prices and compared with an independent big-integer transcription of the property's formula; all 1-/2-block fill-level histories in five MaxGas worlds are executed through FinalizeBlock and the stored base fee compared with the formula; an admission grid (price offsets around the floor × legacy/dynamic × heights) checks that a tx executes iff its effective price ≥ max(base fee, ⌊min gas price⌋).",
    "Trusts baseapp's block gas meter; for a gas target of 0 only absence of failure is required.",
    "exhaustive grid over the real keeper function + exhaustive bounded block histories", "DESIGN.md §5 C09", "seqx-replay")

chk("C10", "model_checking",
    "Explicit-state breadth-first search over CacheContext branches of the real state: two ERC-20 precompiles, three holders and a forwarder contract; every operation of three alphabets (full: 1042 ops to depth 2, reduced to depth 2/3, tiny to depth 4/8) is executed through the real NewStateDB + NewEVM + evm.Call + CommitMultiStore, states are deduplicated on a canonical dump of all stores, and in every distinct state all views of both tokens and the bank keeper are compared with a map-based reference model; failing calls must leave the canonical state unchanged.",
    "Keeper-level driving (no ante handler, no fees); state identity ignores auth account numbers; trusts go-ethereum's interpreter and the bank keeper.",
    "explicit-state BFS over real branch states with reference model, sharded on the first operation", "DESIGN.md §5 C10", "seqx-branch")

chk("C17", "model_checking",
    "Explicit-state BFS over CacheContext branches from 8 genesis worlds (cpc flags × whitelist): every operation of a 100+-op alphabet (UpdateParams, DeployErc20Contract, DeployStakingContract through ValidateBasic + the real message server; the upgrade-handler keeper op SetCustomPrecompiledContractMeta) to depth 4 (thorough 7); in every distinct state the registry invariants (unique addresses, one ERC-20 per denom with positive supply, denom index = inverse of metadata, type never changes, version never decreases, only whitelisted deployers / governance) and the exposure oracle (view call to registered, neighbouring, next-dynamic and foreign addresses through the real NewEVM in deliver/check/recheck/EthCall modes answers iff registered and enabled) are evaluated.",
    "Message-server level (no ante handler); trusts go-ethereum's interpreter dispatch.",
    "explicit-state BFS over real branch states, invariant + exposure oracle", "DESIGN.md §5 C17", "seqx-branch")

chk("C16", "model_checking",
    "Part 1: explicit-state BFS to fixpoint over CacheContext branches with a 90-op proof-submission alphabet (3 submitters × 3 accounts × 10 signature variants) through ValidateBasic + the real vauth message server, full store hash as state identity, compared after every transition with a 3-field reference model (proven set, balances, supply) - a proof is stored only with a signature made by the account's key, never twice, never altered, the fee is burnt exactly once, refusals change nothing. Part 2: 126 complete-transaction cases through FinalizeBlock (proven sets × 3 vesting-creation messages × targets × routing top-level / MsgExec depth 1..5 with grantee = granter / MsgGrant): a vesting account appears only for a proven address and only through a top-level message.",
    "Trusts secp256k1 recovery and cosmos-sdk authz/vesting; upper-case and malleated encodings of a valid signature carry no expectation on acceptance.",
    "explicit-state BFS to fixpoint over real branch states with reference model + exhaustive routing product at ABCI level", "DESIGN.md §5 C16", "seqx-branch")

chk("C01", "model_checking",
    "Environment exploration (envx) of the real application built with a generated overlay that routes every Go map range, wall-clock read and go statement of the consensus packages of the current tree through choice hooks: for every history of a 20-kind block alphabet (single txs, order-sensitive kinds paired within a block and across two blocks) every environment policy with at most 1 (thorough: 2) non-default answers over the sites actually hit (iteration order sorted/reversed/rotated per map-range site, wall clock = block time/2000/2100 per site, node min-gas-prices, every accepted evm.tracer value, a CheckTx/Simulate/eth_call between FinalizeBlock and Commit) is executed on a fresh app, plus fresh-process vs warm-process runs; all executions of one history must give the same AppHash, tx results (code, data, gas wanted/used), events and validator updates. Concurrent-request pass: the EVM execution files get a scheduling point before every statement; for a small history set x 5 request kinds x 2 (3) orders of the go-ethereum fork's precompile map, a request (eth_call / estimateGas / CheckTx at latest or latest-1) is served completely at every point FinalizeBlock passes (preemption bound 1) and the block results must equal the undisturbed run.",
    "Nondeterminism below evermint (cosmos-sdk, IAVL, CometBFT, go-ethereum fork except its custom-precompile map iteration, Go runtime) is not owned; an answer is fixed per site for a whole execution; three orders per map range, not all permutations; concurrent requests are atomic at one point (no torn overlaps), points only in x/evm/keeper, x/evm/vm, x/cpc/keeper files. The overlay is generated from the working tree at check time (typed rewrite, cmd/instr), nothing is committed to /repo.",
    "deviation-bounded exhaustive exploration of environment answers (map order, clock, config, query interleaving) over bounded block histories of the real app, instrumented by a generated overlay",
    "DESIGN.md §3.3, §4, §5 C01", "envx")

chk("C18", "model_checking",
    "Every history of <=2 (thorough <=3) one-block steps over a 10 (12)-step alphabet (empty/full block, SSTORE non-zero / zero, SELFDESTRUCT, contract creation with a zero-valued slot, MsgDeployErc20Contract, ERC-20 approve / approve 0, vauth proof, MsgDeployStakingContract, code-less creation) in 8 (12) genesis worlds (cpc flags x 2 (3) evm/fee-market parameter configurations) is executed through FinalizeBlock/Commit on a fresh real application, exported with ExportAppStateAndValidators, imported into a fresh application by InitChain (exported state, consensus params, validators, initial height); original and re-imported chain are compared right after import and after one more identical block: key-level diff of the evm/feemarket/cpc/vauth stores, gRPC queries of all four modules, view calls through EthCall, ValidateGenesis and canonical-JSON equality of the four module sections of a second export.",
    "Parameters are varied through genesis, not governance; block hashes, orphan code and storage of code-less accounts are outside the oracle; IBC/SDK modules are not compared; the on-disk genesis.json and CometBFT are not exercised (InitChain is called directly).",
    "explicit-state enumeration of replayed block histories on the real app, export -> fresh-app InitChain -> twin comparison (store diff + module queries + EVM view calls + re-export)",
    "DESIGN.md §5 C18", "seqx-replay")

chk("C19", "model_checking",
    "Exhaustive products over listed finite domains on the real crypto, hd and eip712 packages: 7 (thorough 15) keys x 8 messages x 3 signature forms full verification matrix (true exactly for the signing key and the signed message or its EIP-712 rendering); all signature, public-key and sign-document single-bit flips; address and 11 codecs per key; 287 (4 538) derivations against an independent BIP-32 implementation and published vectors; 900 (1 232) sign documents = 7 base txs x 2 encodings x every single-field perturbation: pairwise-distinct EIP-712 digests and 121 560 (1 750 280) cross-document signature checks; staking-precompile typed messages, all pairs. Verification and rendering of arbitrary bytes must return a verdict, never panic.",
    "Decides that the code binds key, message and every listed field within the alphabet; says nothing about the 2^256-key cryptographic claim. The 32-byte-digest behaviour of Sign and the ignored V byte are modelled as documented. Fee payer, granter, tip, public key and sign mode are probed informationally only.",
    "bounded exhaustive enumeration (grid / product) with independent reference oracles (own Keccak, go-ethereum curve arithmetic, cosmos-sdk hd, embedded vectors)",
    "DESIGN.md §5 C19", "grid")

C20_TEXT_E = "Schedules (clause: no interleaving of requests, subscriptions and event deliveries crashes or deadlocks): stateless model checking of the real rpc/ethereum/pubsub and rpc/namespaces/ethereum/eth/filters code. A typed AST rewriter generates, from the current tree, an overlay in which channels, select, go, sync and time are operations of a cooperative scheduler; ten closed scenarios (subscribe/poll/Unsubscribe clients on one or two topics, re-subscription, error responses, the event bus alone, polling filters with the timeout loop) are explored depth-first over all schedules with at most 2 (thorough: 3) deviations from the default schedule plus a preemption-bounded (CHESS) pass on the smallest systems; every execution runs to quiescence; a panic in any goroutine, a blocked driver thread, a goroutine that spins forever while nothing else can run, two map accesses not ordered by any lock / channel operation / spawn (vector clocks; the Go runtime aborts the process on concurrent map access) or a foreign event delivered to a subscriber is a violation; every failing schedule is a replayable choice list. Scenarios S7-S9 drive the polling-filter half of the filter API (eth_newBlockFilter / newFilter / newPendingTransactionFilter / getFilterChanges / uninstallFilter and the timeout loop under a virtual clock)."
C20_TEXT_AD = "Inputs (a-d): every byte string of length <= 2 and every truncation / single-byte substitution of six seed transactions (also of the embedded MarshalledTx and the From field) through CheckTx (new, recheck), PrepareProposal, ProcessProposal, FinalizeBlock+Commit and Simulate of the real app; for every method of every registered custom precompile (enumerated from the registry and the ABI) selector-only, truncated, word-substituted and garbage-extended call data as transactions and through EthCall / EstimateGas; every gRPC query method of x/evm, x/cpc, x/feemarket, x/vauth (enumerated from the service descriptors) with empty, valid, field-perturbed and short raw requests; consensus MaxGas in {-1, 0, 1, 2, 21000, 2^63-1} x MaxBytes x block shapes, every failing tx kind at every position of 3-tx blocks, fee-market histories up to base fee >= 2^64 and governance proposals carrying Ethereum messages: no panic escapes an ABCI call, FinalizeBlock / Commit never fail; isolation: blocks [t1, X.., t2] against twin blocks [t1, t2] for every failing X - results of t1 and t2 are identical up to the documented index / cumulative-gas shifts. Quick: 210 320 inputs, 469 122 ABCI calls. "
chk("C20", "model_checking", C20_TEXT_AD + C20_TEXT_E,
    "Only map accesses are race-checked (happens-before vector clocks), other unsynchronised memory accesses are invisible to a cooperative scheduler; rpc/websockets.go and the rpc.Notifier based methods of filters/api.go are not driven; CometBFT's websocket client is a shim; bounds as stated in the evidence file.",
    "stateless model checking (controlled cooperative scheduler over instrumented real code, deviation-bounded DFS of schedules, vector-clock race detection) + exhaustive bounded input enumeration through all ABCI phases with twin-block isolation oracle",
    "DESIGN.md §3.4, §5 C20, §10", "schedx")

chk("C15", "model_checking",
    "Exhaustive product program x account kind x vesting end time x clock placement on the real app: 49 (thorough 77) target accounts per world (module accounts, base accounts, contract, the four vesting kinds as zero-balance zero-sequence and as funded multi-denom accounts with end times around the block time) x 19 (40) programs (plain tx / CALL / STATICCALL / BALANCE / EXTCODE* / value transfer / SELFDESTRUCT beneficiary / the account as sender spending into locked coins, through FinalizeBlock on a fresh app; CreateAccount / DestroyAccount / Suicide / SubBalance at StateDB level on CacheContext branches) in two worlds whose block time lies before (2001) and after (2100) any plausible wall clock. After every case all auth accounts, balances of every denom, code hash and storage are compared with the pre-state: protected accounts survive with the same type and locked coins unless the tx fails as a whole, only empty or self-destructed accounts disappear, deleted accounts leave nothing behind, and the vesting cut-off follows block time.",
    "Exhaustive over the stated finite alphabet. The oracle uses block time only; the wall clock is read only to label findings of the (fixed) wall-clock defect. Locked amounts are taken from the SDK's LockedCoins(blockTime). Permanently locked accounts count as never-ending vesting.",
    "exhaustive product of programs x account kinds x times on the real app (FinalizeBlock and StateDB API on branch states) with full pre/post account observation",
    "DESIGN.md §5 C15", "grid")

chk("C12", "model_checking",
    "Exhaustive enumeration of every call chain E->F0->...->precompile with op[i] in {CALL, DELEGATECALL, CALLCODE, STATICCALL}^L, L = 0..3 (thorough 0..6), through generic forwarder contracts (bubbling and swallowing) x every method of every custom precompiled contract read from the live registry (49 methods: 2 ERC-20, staking, bech32) x 1-3 argument lists per method and caller (EIP-712 messages signed by the calling frame's key), each executed by the real NewStateDB + NewEVM + evm.Call + CommitMultiStore on a branch of one state prepared by real blocks (delegations by signed txs, rewards from distributed fees). A sequence containing a STATICCALL must leave the dump of all stores unchanged and emit no log; its STATICCALL-free twin is the normal-context reference (succeeds, a writer changes state, a ReadOnly() method changes nothing). Per writer: RequireGas() > 0, under-funded calls fail without effect, a funded call consumes gas. Three programs are repeated as signed transactions in a committed block and must agree with the keeper-level result.",
    "One prepared initial state and call value 0 everywhere; keeper-level driving (no ante handler/fees) cross-checked by three ABCI-level transactions; state comparison ignores the auth global account number and account-number-only differences; argument lists are representatives, not all arguments; depth-major enumeration with a time budget that can only lower chain_length_completed / set exhaustive=false.",
    "bounded-exhaustive program enumeration (call-opcode sequences x registry methods) with twin-run differential oracle on full store dumps, defect-aware classification, process-sharded",
    "DESIGN.md §5 C12", "seqx-branch")

chk("C02", "model_checking",
    "Differential exhaustive enumeration against go-ethereum's own state transition: every (pre-state, frame-tree program, transaction) of a bounded grammar (SSTORE/SLOAD/LOG, the four call opcodes to child / self / EOA / 0x0 / fresh / ecrecover with value and gas variants, CREATE/CREATE2 of four init codes, SELFDESTRUCT, REVERT/INVALID/RETURN, BALANCE/EXTCODE*, gas burner; trees of depth 2 (thorough 3); 5 tx forms x 4 gas limits x value x call/creation; every program also as second message after 13 prefixes) is executed by the real Keeper.ApplyMessageWithConfig(commit) on a branch of the app state and by core.ApplyMessage over go-ethereum's core/state with the same block context, chain config and message. Compared: error class, return data, gas used, logs, and existence/nonce/balance/code/storage of every account (universe, anything else in evermint's stores, every possible CREATE/CREATE2 address). A subset also runs through complete FinalizeBlock with non-zero prices. 148 932 (thorough 1 117 358) differential pairs.",
    "Both sides share the interpreter of the forked go-ethereum (core/vm), so opcode semantics that live only there are not under test. Keeper passes use zero prices; the two insufficient-funds sentinels are one class (buyGas disabled). Storage is compared as a total map; evermint leaves zero-valued slot entries. Coinbase, fee collector and the x/evm module account are not compared. The 'no custom precompile' control world is synthetic, since genesis always deploys bech32.",
    "exhaustive bounded enumeration of programs x transactions x pre-states on the real keeper / real app, differential oracle = go-ethereum reference transition, defect-aware classification by an emulated reference",
    "DESIGN.md §3.6, §5 C02", "gethref")

chk("C07", "model_checking",
    "Exhaustive enumeration of a bounded product of transaction shapes on the real application: message lists of length <= 3 over {MsgEthereumTx legacy/dynamic-fee, bank send, the three vesting-creation messages, MsgGrant of a generic authorisation for each disabled type and for bank send, MsgExec nested to depth 5 (narrow and with a sibling message at every level) around each of them} x the Ethereum envelope factors (extension options, signature, signer info, fee payer, fee granter, memo, timeout height, declared fee, declared gas limit; full product in thorough, all single and pairwise deviations in quick). Each shape is hand-assembled as protobuf and run in Simulate, CheckTx, ReCheck and FinalizeBlock on a fresh app. An independent reference predicate transcribed from the property decides which shapes must be refused in every mode; delivered transactions must show exactly their lane's events; refused transactions must leave all stores but the fee market's equal to an empty-block twin. 4 321 (78 440) shapes, 13 157 (235 793) mode executions.",
    "No state dedupe: exhaustive means the stated finite product was enumerated completely. Only refusals are demanded (plus sanity shapes); top-level vesting creation belongs to C16; ReCheck only after CheckTx acceptance. Trusts the cosmos-sdk tx decoder, baseapp and authz, and the generated protobuf types used by the reference. Routes other than the ante handler (x/gov proposal execution) are outside this property's sentence and are not judged here (DESIGN.md §10.3).",
    "exhaustive bounded enumeration of hand-built transaction shapes x 4 ABCI modes on fresh apps, independent acceptance predicate + lane-event and twin-state oracles",
    "DESIGN.md §5 C07", "grid")

chk("C11", "model_checking",
    "Twin-branch explicit-state BFS on CacheContext branches of the real state (3 validators, one slashed world so that shares differ from tokens; callers EOA A/B, forwarder contract by CALL and DELEGATECALL, a contract calling twice): from every state the operation is applied once through evm.Call on the staking precompile (P) and once as the corresponding native staking / distribution messages through the SDK message servers (N) from the same parent context. Alphabet: every ABI method (asserted against the ABI json), amounts {0, 1, 1e18, all, all+1}, validators {V1, V2, unknown}, 6 redelegate pairs, signed-message variants {valid, signer != delegator, delegator != caller, chain id + 1, tampered, relayed}, reward allocation, next block, unbonding period + real staking EndBlocker. Per transition: P and N both succeed or both fail; all stores byte-identical (distribution modulo period renumbering); non-callers untouched; the log multiset of P equals the one derived from N's module events; every view equals the native querier; forged messages change nothing. Quick: 7 544 states, 34 060 transitions (full alphabet depth 2, reduced depth 3); thorough depth 3-4.",
    "Keeper-level driving (no ante handler, no fees); distribution store compared modulo period renumbering; withdraw-all compared threshold-aware (0.001 coin); slashing only before exploration; the thorough tier's last search can be cut by its time cap (evidence then reports exhaustive: false).",
    "twin-branch explicit-state BFS (precompile by evm.Call vs native message servers from the same parent branch), dedup on canonical state key, process-sharded",
    "DESIGN.md §5 C11", "seqx-branch")

chk("C14", "model_checking",
    "Bounded exhaustive block histories (chains of <= 3 blocks of <= 3 txs over the 11-kind alphabet incl. failing, block-gas-exhausted, rejected and Cosmos txs; MaxGas 100k / 40M) executed on the real app; the real cmttypes.Block and ExecTxResults are fed to the real KVIndexer and served by a recorded-chain CometBFT client to the real rpc/backend.Backend and eth filters. After every IndexBlock: GetByTxHash / GetByBlockAndIndex for every tx, height and index (incl. unknown / out of range) against the position computed from consensus events; GetTransactionReceipt / ByHash / ByBlockAndIndex / GetBlockByNumber|Hash / GetLogs / filters against the consensus results (sender, status, gas used, cumulative gas, logs, indices, contract address); re-indexing and every block permutation give the same index dump; fault enumeration: the real EVMIndexerService is killed at every DB write (write lost / write durable) and restarted at every later chain height, the final index must equal the uninterrupted run. Quick: 1 859 chains, 4 306 states, 16 797 transitions, 303 597 RPC lookups, 836 crash points x 1 562 restarts.",
    "One crash per run; batch writes atomic (torn batches and the 'write returns error' mode not enumerated); node replaced by a recorded-chain client (placeholder validator hash/signatures); reads concurrent with IndexBlock are not explored; fields the property does not list (effective gas price, type, miner, block hash of standalone logs) are not compared.",
    "bounded exhaustive block histories on the real app -> real KVIndexer + rpc backend over a recorded-chain client; index dump vs chain model; DB-write crash-point x restart-height enumeration of the real indexer service",
    "DESIGN.md §3.5, §5 C14", "seqx-replay")

chk("C03", "model_checking",
    "Bounded-exhaustive. Part A: every sequence (modulo reference-state dedup) of <= 3 (thorough <= 4) operations from the full CStateDB alphabet over 3 addresses x 2 slots - balance, nonce, code, storage, transient storage, logs, refund, access list, Suicide, CreateAccount, Touch, bank / cpc-allowance / staking writes through GetCurrentContext, Snapshot and every go-ethereum-valid RevertToSnapshot - and of <= 5-7 operations from three focused sub-alphabets, each replayed on a fresh real StateDB over a CacheContext branch. Every getter and every foreign-module read is compared with a map-based reference (stack of deep copies) after every operation, all stores and the in-memory sets are compared across every revert, and every distinct state is committed and compared with the reference and byte-for-byte with the snapshot-free execution of the surviving operations; discarding leaves the parent unchanged. Part B: all call trees of depth <= 3 and fan-out <= 2 whose frames do SSTORE / LOG1 / erc20 approve / erc20 transfer / staking delegate and end in RETURN / REVERT / INVALID, through the real EVM; failed top frames (call and create) through FinalizeBlock+Commit against an empty block and a no-op transaction of the same sender (only nonce, fee and fee collector may differ). Quick: 72 402 states, 196 472 transitions, 27 996 call trees.",
    "The implementation is re-executed from scratch for every transition (no clone). States are deduplicated on the reference model's (state, snapshot stack, reverted-flag) rendering. Reward withdrawal, CREATE/SELFDESTRUCT inside Part B frames, gas/refund observation at EVM level and RevertToSnapshot with ids go-ethereum no longer considers valid are out of scope. The mutant 'Logs.Copy returns the receiver' is equivalent (append-only list under stack discipline) and not detectable.",
    "explicit-state BFS over StateDB operation sequences (replay states, reference-model dedup) + exhaustive bounded call-tree enumeration + ABCI store-diff differential",
    "DESIGN.md §5 C03", "seqx-replay")

chk("C08", "model_checking",
    "Exhaustive enumeration of (history of <= 2 blocks over a 20-kind tx alphabet) x (1-2 requests from a ~200-request alphabet: eth_call / estimateGas of 18 programs incl. create, selfdestruct, storage clear with refund, precompile transfer / approve / delegate, gas-dependent branch, 63/64 chain; every gRPC query method of evm / feemarket / cpc / vauth with in-range, out-of-range and malformed arguments; CheckTx new / recheck of 18 tx kinds; Simulate; TraceTx / TraceBlock with several tracers) x 3 interleaving points around block h+1 (before FinalizeBlock, between FinalizeBlock and Commit, after Commit) on the real app through BaseApp.Query / CheckTx / Simulate. Oracles: full dump of the root multistore, LastCommitID and check state byte-equal before and after each request; twin run without requests gives the same AppHash and tx results; answers pinned to height h equal at all three points; for predictive calls the delivered transaction returns the same data, logs and gas used, and delivery with the estimate as gas limit does not run out of gas. Quick: 3 902 cases, 60 states, 18 266 requests.",
    "Sequential interleavings only (no request concurrent with FinalizeBlock); JSON-RPC layer not included; answers compared on the named fields only; the mechanism-level clause 'handler leaves its query-context stores unchanged' is stricter than the property text (BaseApp discards the query context) and exempts tracing.",
    "exhaustive bounded histories x request interleaving points on the real app, twin-run differential + store-dump equality + prediction against delivery",
    "DESIGN.md §5 C08", "seqx-replay")

NOT_YET = "check not built yet in this round (planned, see DESIGN.md §9)"

def main():
    checks = []
    for id in ALL:
        if id not in CHECKS:
            continue
        c = CHECKS[id]
        checks.append({
            "property_id": id,
            "quick_cmd": "./run.sh %s quick" % id,
            "thorough_cmd": "./run.sh %s thorough" % id,
            "evidence_file": "/verif/evidence/%s.json" % id,
            "replay_cmd_template": "./run.sh %s replay {path}" % id,
            "engine": c["engine"],
            "level_claimed": {"category": c["level"], "text": c["text"], "design_ref": c["design_ref"]},
            "level_note": c["note"],
            "technique": c["technique"],
        })
    na = [{"property_id": id, "reason": NOT_YET} for id in ALL if id not in CHECKS]
    m = {
        "version": 1,
        "setup_cmd": "./setup.sh",
        "hooks": {
            "guard": "verif",
            "enable": "no hook is committed to /repo: instrumentation is generated from the current working tree at check time and passed to the Go tool with -overlay together with -tags verif (DESIGN.md §4)",
            "baseline_off_cmd": "cd /repo && GOFLAGS=-mod=mod GOPROXY=off GOSUMDB=off go test -json -vet=off -count=1 -timeout 25m ./...",
            "source_commits": [],
            "add_only": True,
        },
        "engines": [
            {"name": "seqx-branch", "path": "harness/checks", "serves_properties": [k for k,v in sorted(CHECKS.items()) if v["engine"]=="seqx-branch"],
             "kind_free_text": "explicit-state BFS below the ABCI level: a state is an sdk.Context over a copy-on-write branch of the real multistore, a transition is one real keeper / EVM call on CacheContext(), dedup on a canonical hash of all stores"},
            {"name": "seqx-replay", "path": "harness/checks", "serves_properties": [k for k,v in sorted(CHECKS.items()) if v["engine"]=="seqx-replay"],
             "kind_free_text": "explicit-state search over operation sequences on the real application; a state is the block list that reaches it, successors are computed by replay on a fresh app instance; sharded over 16 worker processes"},
            {"name": "grid", "path": "harness/checks", "serves_properties": [k for k,v in sorted(CHECKS.items()) if v["engine"]=="grid"],
             "kind_free_text": "exhaustive product of small per-field domains evaluated on the real functions against independent reference oracles"},
            {"name": "gethref", "path": "harness/checks/c02_gethref.go", "serves_properties": [k for k,v in sorted(CHECKS.items()) if v["engine"]=="gethref"],
             "kind_free_text": "go-ethereum reference executor: account universe loaded into go-ethereum's own core/state over an in-memory database, core.ApplyMessage with the block context and chain config evermint uses; differential oracle for exhaustive program enumeration"},
            {"name": "envx", "path": "harness/checks/c01.go, harness/cmd/instr, harness/vrt/env.go", "serves_properties": [k for k,v in sorted(CHECKS.items()) if v["engine"]=="envx"],
             "kind_free_text": "deviation-bounded DFS over environment answers: a typed AST rewriter generates a -overlay that puts every map range, wall-clock read and go statement of the consensus packages behind hooks; the explorer enumerates all policies with <= B non-default answers over the sites hit"},
            {"name": "schedx", "path": "harness/vrt, harness/sched, harness/cmd/vsched, harness/cmd/instr", "serves_properties": [k for k,v in sorted(CHECKS.items()) if v["engine"]=="schedx"],
             "kind_free_text": "stateless model checker for the real concurrent code: a generated overlay redirects channels, select, go, sync and time of the target packages to a cooperative scheduler (one thread runs at a time, every visible operation is a scheduling point, enabledness computed from shim state); depth-first enumeration of all schedules with <= B deviations from the default schedule, every execution runs to quiescence; panics in any goroutine and blocked driver threads are violations"},
        ],
        "checks": checks,
        "not_applicable": na,
        "notes": "All checks explore the real implementation exhaustively within stated bounds; see DESIGN.md.",
    }
    with open(os.path.join(ROOT, "MANIFEST.json"), "w") as f:
        json.dump(m, f, indent=1)
        f.write("\n")

if __name__ == "__main__":
    main()
