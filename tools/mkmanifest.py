#!/usr/bin/env python3
"""Generates /verif/MANIFEST.json from the table below (single source of truth for what is claimed)."""
import json, os, sys

ROOT = os.path.dirname(os.path.dirname(os.path.abspath(__file__)))
ALL = ["C%02d" % i for i in range(1, 21)]

# id -> dict(level, text, note, technique, design_ref, engine)
CHECKS = {}

def chk(id, level, text, note, technique, design_ref, engine):
    CHECKS[id] = dict(level=level, text=text, note=note, technique=technique, design_ref=design_ref, engine=engine)

chk("C13", "model_checking",
    "Explicit-state exploration of the real application: every block of up to 3 (thorough: 4) transactions over an 11-kind outcome alphabet, in two block-gas worlds, plus two-block histories, is executed through FinalizeBlock/Commit on a fresh app and the receipt/index/cumulative-gas/bloom laws are evaluated on every transaction result. No abstract model: the transition function is the implementation.",
    "Trusts cosmos-sdk baseapp, the event plumbing and go-ethereum's receipt/bloom encoding; alphabet and depth bounds as stated in the evidence file.",
    "exhaustive bounded enumeration of block histories on the real app (explicit-state, replay states)",
    "DESIGN.md §5 C13", "seqx-replay")

NOT_YET = "check not built yet in this round (planned, see DESIGN.md §9)"

def main():
    checks = []
    for id in ALL:
        if id not in CHECKS:
            continue
        c = CHECKS[id]
        checks.append({
            "property_id": id,
            "quick_cmd": "./run.sh %s quick" % id,
            "thorough_cmd": "./run.sh %s thorough" % id,
            "evidence_file": "/verif/evidence/%s.json" % id,
            "replay_cmd_template": "./run.sh %s replay {path}" % id,
            "engine": c["engine"],
            "level_claimed": {"category": c["level"], "text": c["text"], "design_ref": c["design_ref"]},
            "level_note": c["note"],
            "technique": c["technique"],
        })
    na = [{"property_id": id, "reason": NOT_YET} for id in ALL if id not in CHECKS]
    m = {
        "version": 1,
        "setup_cmd": "./setup.sh",
        "hooks": {
            "guard": "verif",
            "enable": "no hook is committed to /repo: instrumentation is generated from the current working tree at check time and passed to the Go tool with -overlay together with -tags verif (DESIGN.md §4)",
            "baseline_off_cmd": "cd /repo && GOFLAGS=-mod=mod GOPROXY=off GOSUMDB=off go test -json -vet=off -count=1 -timeout 25m ./...",
            "source_commits": [],
            "add_only": True,
        },
        "engines": [
            {"name": "seqx-replay", "path": "harness/checks", "serves_properties": sorted(CHECKS.keys()),
             "kind_free_text": "explicit-state search over operation sequences on the real application; a state is the block list that reaches it, successors are computed by replay on a fresh app instance; sharded over 16 worker processes"},
        ],
        "checks": checks,
        "not_applicable": na,
        "notes": "All checks explore the real implementation exhaustively within stated bounds; see DESIGN.md.",
    }
    with open(os.path.join(ROOT, "MANIFEST.json"), "w") as f:
        json.dump(m, f, indent=1)
        f.write("\n")

if __name__ == "__main__":
    main()
