#!/bin/sh
# usage: tools/seeded_apply_run.sh <seeded-id> <Cxx>...
# The recorded way of running checks against a seeded change: apply seeded/<id>/patch.diff to /repo itself, run the quick
# checks (from a scratch copy of this framework so that /verif's evidence and replays stay those of the unchanged tree),
# undo the change straight afterwards. Logs go to seeded/<id>/runs/.
ID="$1"; shift
ROOT="$(cd "$(dirname "$0")/.." && pwd)"
P="$ROOT/seeded/$ID/patch.diff"
[ -f "$P" ] || { echo "no $P" >&2; exit 2; }
[ -z "$(git -C /repo status --porcelain)" ] || { echo "/repo is not clean" >&2; exit 2; }
S=/tmp/sapply/verif
rm -rf /tmp/sapply; mkdir -p "$S" "$ROOT/seeded/$ID/runs"
rsync -a --exclude .git --exclude .work --exclude evidence --exclude replays --exclude seeded "$ROOT/" "$S/"
mkdir -p "$S/evidence" "$S/replays"
trap 'git -C /repo checkout -- . ; rm -rf /tmp/sapply' EXIT INT TERM
git -C /repo apply "$P" || exit 2
for c in "$@"; do
  "$S/run.sh" "$c" quick >"$ROOT/seeded/$ID/runs/$c.log" 2>&1
  rc=$?
  sed -i '/^#### /d' "$ROOT/seeded/$ID/runs/$c.log"
  echo "$ID $c exit=$rc violation_lines=$(grep -c '^VIOLATION' "$ROOT/seeded/$ID/runs/$c.log")"
done
