#!/usr/bin/env python3
"""usage: tools/seeded_rerun.py <Cxx-n>...   (re)does the recorded run of stored seeded changes: applies seeded/<id>/patch.diff to /repo,
runs the quick check of the property, undoes the patch (tools/seeded_apply_run.sh) and updates seeded/<id>/meta.json."""
import json, os, subprocess, sys
root = os.path.dirname(os.path.dirname(os.path.abspath(__file__)))
for sid in sys.argv[1:]:
    c = sid.split('-')[0]
    d = f'{root}/seeded/{sid}'
    r = subprocess.run([f'{root}/tools/seeded_apply_run.sh', sid, c], capture_output=True, text=True)
    print(r.stdout.strip(), r.stderr.strip()[-300:])
    log = open(f'{d}/runs/{c}.log').read()
    viol = [l for l in log.splitlines() if l.startswith('VIOLATION') or l.strip().startswith('clause=')]
    m = json.load(open(f'{d}/meta.json'))
    m['runs']['result'] = 'exit 1' if viol else 'exit 0 (MISSED)'
    m['runs']['violation_lines'] = [v[:400] for v in viol][:6]
    m['runs']['log'] = f'runs/{c}.log'
    json.dump(m, open(f'{d}/meta.json', 'w'), indent=1, ensure_ascii=False)
    print(sid, m['runs']['result'])
