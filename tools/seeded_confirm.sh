#!/bin/sh
# usage: tools/seeded_confirm.sh <ID> <worktree> <patch.diff> <package-pattern-of-touched-code> -- <demo go test args...>
# Confirms a seeded change in its scratch worktree: builds, demo FAILS with the change, demo PASSES without it, the tests of
# the touched packages pass with it. Prints one summary line per step.
ID="$1"; WT="$2"; PATCH="$3"; PKGS="$4"; shift 5
export GOFLAGS=-mod=mod GOPROXY=off GOSUMDB=off GOTOOLCHAIN=local
cd "$WT" || exit 2
git apply --check -R "$PATCH" 2>/dev/null || { git apply --check "$PATCH" && git apply "$PATCH"; }
go build ./... >/dev/null 2>&1 && echo "$ID build-with-change: ok" || echo "$ID build-with-change: FAILED"
go test -vet=off -count=1 "$@" >/tmp/seeded_confirm_$ID.with.log 2>&1 && echo "$ID demo-with-change: passes (unexpected)" || echo "$ID demo-with-change: fails (expected)"
git apply -R "$PATCH"
go test -vet=off -count=1 "$@" >/tmp/seeded_confirm_$ID.without.log 2>&1 && echo "$ID demo-without-change: passes (expected)" || echo "$ID demo-without-change: FAILS (unexpected)"
git apply "$PATCH"
# existing tests of the touched packages, with the demonstration files (DEMO_FILES, relative to the worktree) moved aside
mkdir -p /tmp/seeded_confirm_aside_$ID
for f in $DEMO_FILES; do [ -f "$f" ] && mv "$f" /tmp/seeded_confirm_aside_$ID/; done
# existing tests of the touched packages (demo files moved aside would be ideal; they pass or fail independently of these packages' own tests)
go test -vet=off -count=1 -skip "Demo|TestC[0-9][0-9]|Test_C[0-9][0-9]" $PKGS 2>&1 | grep -v "no test files" | sed "s/^/$ID existing-tests: /" | tail -12
for f in $DEMO_FILES; do [ -f "/tmp/seeded_confirm_aside_$ID/$(basename $f)" ] && mv "/tmp/seeded_confirm_aside_$ID/$(basename $f)" "$f"; done
rm -rf /tmp/seeded_confirm_aside_$ID /tmp/-_tmp_mut_* 2>/dev/null
