package checks

// C20 part (c), reachable states, governance route: a proposal whose message list contains a MsgEthereumTx is accepted by x/gov when
// the message's free-text From field names the gov module account (x/gov only compares the declared signer with its authority). When
// the proposal passes, gov's EndBlocker executes the EVM message handler without any ante handler, on EndBlock's context. The unit
// submits such a proposal (embedded tx signed by wallet 0), lets all validators vote yes in the same block, and runs the block in which
// the voting period ends plus one more. End-of-block processing must not fail whatever the embedded transaction does.

import (
	"fmt"
	"math/big"
	"strings"

	sdkmath "cosmossdk.io/math"
	storetypes "cosmossdk.io/store/types"
	sdk "github.com/cosmos/cosmos-sdk/types"
	authtypes "github.com/cosmos/cosmos-sdk/x/auth/types"
	banktypes "github.com/cosmos/cosmos-sdk/x/bank/types"
	govtypes "github.com/cosmos/cosmos-sdk/x/gov/types"
	govv1 "github.com/cosmos/cosmos-sdk/x/gov/types/v1"
	"github.com/ethereum/go-ethereum/common"
	ethtypes "github.com/ethereum/go-ethereum/core/types"

	evmtypes "github.com/EscanBE/evermint/v12/x/evm/types"

	"verif/harness/world"
)

// c20GovVariants: the embedded message. The first three fail inside ApplyTransaction, the others are controls.
var c20GovVariants = []string{"eth-bad-nonce", "eth-price-below-base-fee", "eth-value-above-balance", "eth-intrinsic-gas-low",
	"eth-valid-transfer", "eth-valid-revert", "bank-send-from-gov", "eth-bad-nonce/not-voted"}

const c20SigGovEthMsg = "C20/gov-proposal-with-failing-ethereum-msg-halts-chain"

func c20GovUnits(tier string) []c20Unit {
	var out []c20Unit
	for _, v := range c20GovVariants {
		out = append(out, c20Unit{Part: "c-gov", Tier: tier, Shape: v})
	}
	return out
}

func c20RunCGov(u c20Unit, rec *c20Rec) {
	w := world.New(world.Config{NumWallets: 3, Contracts: StdContracts(), MinGasPrice: "1000000000"})
	w.Block(nil)
	gov := authtypes.NewModuleAddress(govtypes.ModuleName)
	variant := strings.TrimSuffix(u.Shape, "/not-voted")
	voted := variant == u.Shape
	signer := w.Wallets[0]
	sink, rev := AddrSink, AddrLogRev
	failing := false
	var inner sdk.Msg
	eth := func(td *ethtypes.LegacyTx) sdk.Msg {
		msg := &evmtypes.MsgEthereumTx{}
		if err := msg.FromEthereumTx(w.SignEth(signer, td), common.BytesToAddress(gov)); err != nil {
			panic(err)
		}
		return msg
	}
	switch variant {
	case "eth-bad-nonce":
		inner, failing = eth(&ethtypes.LegacyTx{Nonce: 7, GasPrice: Gwei, Gas: 21_000, To: &sink, Value: big.NewInt(1)}), true
	case "eth-price-below-base-fee":
		inner, failing = eth(&ethtypes.LegacyTx{Nonce: 0, GasPrice: big.NewInt(0), Gas: 21_000, To: &sink, Value: big.NewInt(1)}), true
	case "eth-value-above-balance":
		inner, failing = eth(&ethtypes.LegacyTx{Nonce: 0, GasPrice: Gwei, Gas: 21_000, To: &sink, Value: new(big.Int).Lsh(big.NewInt(1), 100)}), true
	case "eth-intrinsic-gas-low":
		inner, failing = eth(&ethtypes.LegacyTx{Nonce: 0, GasPrice: Gwei, Gas: 20_999, To: &sink, Value: big.NewInt(1)}), true
	case "eth-valid-transfer":
		inner = eth(&ethtypes.LegacyTx{Nonce: 0, GasPrice: Gwei, Gas: 21_000, To: &sink, Value: big.NewInt(1)})
	case "eth-valid-revert":
		inner = eth(&ethtypes.LegacyTx{Nonce: 0, GasPrice: Gwei, Gas: 100_000, To: &rev, Value: big.NewInt(0)})
	case "bank-send-from-gov":
		inner = &banktypes.MsgSend{FromAddress: gov.String(), ToAddress: w.Wallets[2].Bech(), Amount: sdk.NewCoins(sdk.NewCoin(world.Denom, sdkmath.NewInt(1)))}
	default:
		panic("c20 gov variant " + u.Shape)
	}
	proposer := w.Wallets[1]
	submit, err := govv1.NewMsgSubmitProposal([]sdk.Msg{inner}, sdk.NewCoins(sdk.NewCoin(world.Denom, sdkmath.NewInt(10))), proposer.Bech(), "", "c20", "c20 "+u.Shape, false)
	if err != nil {
		panic(err)
	}
	gas := uint64(1_000_000)
	fee := bigMul(gas, Gwei)
	txs := [][]byte{w.CosmosTx(proposer, uint64(len(w.Validators)+1), 0, gas, fee, submit)}
	if voted {
		for i, v := range w.Validators {
			txs = append(txs, w.CosmosTx(v, uint64(i), 0, gas, fee, govv1.NewMsgVote(v.Acc(), 1, govv1.OptionYes, "")))
		}
	}
	where := "gov proposal [" + u.Shape + "]"
	status := func() string {
		p, err := w.App.GovKeeper.Proposals.Get(w.Ctx(), 1)
		if err != nil {
			return "absent"
		}
		return strings.TrimPrefix(p.Status.String(), "PROPOSAL_STATUS_")
	}
	var vec []string
	for b, blk := range [][][]byte{txs, nil, nil} { // submit + votes; the block in which the voting period ends; one more
		before := status()
		br := w.Block(blk)
		rec.count("abci_calls", 2)
		rec.count("blocks", 1)
		rec.count("inputs", int64(len(blk)))
		if prob := c20BlockProblem(br, len(blk)); prob != "" {
			// defect-aware: the proposal was in its voting period with every validator's yes vote, its message is a MsgEthereumTx
			// declared to come from the gov account whose transaction fails in ApplyTransaction (error path: ResetGasMeterAndConsumeGas
			// with the Limit() of EndBlock's infinite gas meter), and the crash is the store-gas overflow of the next store access
			sig := ""
			if b == 1 && voted && failing && before == "VOTING_PERIOD" && c20IsStoreGasOverflow(prob) {
				sig = c20SigGovEthMsg
			}
			rec.fail("begin-end-block-never-fail", sig, fmt.Sprintf("%s: block +%d (height %d, proposal status before the block: %s): %s", where, b, br.Height, before, prob), u)
			rec.outcome("c-gov: crash in block +" + fmt.Sprint(b))
			return
		}
		if b == 0 {
			var codes []string
			for _, r := range br.Res.TxResults {
				codes = append(codes, c20Code(r.Codespace, r.Code))
			}
			vec = append(vec, "submit+votes["+strings.Join(codes, ",")+"]")
			if variant == "bank-send-from-gov" {
				for i, r := range br.Res.TxResults {
					if r.Code != 0 {
						rec.fail("alphabet-sanity", "", fmt.Sprintf("%s: tx %d of the control proposal must be accepted: %s", where, i, r.Log), u)
						return
					}
				}
			}
		}
		vec = append(vec, status())
	}
	v := "c-gov: " + u.Shape + " " + strings.Join(vec, " -> ")
	rec.outcome(v)
	rec.distinct("c-gov|" + v)
}

// c20IsStoreGasOverflow recognises the rendering of a storetypes.ErrorGasOverflow panic raised by a gas-metered store access
// (fmt.Sprint of the struct: "{<gas descriptor>}").
func c20IsStoreGasOverflow(problem string) bool {
	for _, d := range []string{storetypes.GasReadCostFlatDesc, storetypes.GasReadPerByteDesc, storetypes.GasWriteCostFlatDesc, storetypes.GasWritePerByteDesc,
		storetypes.GasIterNextCostFlatDesc, storetypes.GasValuePerByteDesc, storetypes.GasHasDesc, storetypes.GasDeleteDesc} {
		if strings.HasSuffix(problem, ": {"+d+"}") {
			return true
		}
	}
	return false
}
