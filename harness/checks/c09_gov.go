package checks

import (
	"fmt"
	"math/big"
	"strings"

	sdkmath "cosmossdk.io/math"
	sdk "github.com/cosmos/cosmos-sdk/types"
	authtypes "github.com/cosmos/cosmos-sdk/x/auth/types"
	govtypes "github.com/cosmos/cosmos-sdk/x/gov/types"
	govv1 "github.com/cosmos/cosmos-sdk/x/gov/types/v1"

	feemarkettypes "github.com/EscanBE/evermint/v12/x/feemarket/types"

	"verif/harness/ev"
	"verif/harness/world"
)

// Parameter changes through governance (C09: "never below the integer part of the configured minimum gas price" — also
// right after the parameters change): a passed proposal carrying x/feemarket MsgUpdateParams is executed by the gov end
// blocker; every block that starts afterwards must see a base fee >= floor(min gas price) and >= 0.

type c09GovCase struct {
	NewMinGas  string `json:"new_min_gas_price"` // legacy dec
	NewBaseFee string `json:"new_base_fee"`      // "" = keep the current one
	WithTx     bool   `json:"with_tx"`           // a burn tx in the block whose end blocker executes the proposal
}

func c09GovCases() []c09GovCase {
	var out []c09GovCase
	for _, mgp := range []string{"5000000000.5", "1000000000", "0"} {
		for _, nb := range []string{"", "1", "7000000000"} {
			for _, tx := range []bool{false, true} {
				out = append(out, c09GovCase{NewMinGas: mgp, NewBaseFee: nb, WithTx: tx})
			}
		}
	}
	return out
}

func c09RunGov(c c09GovCase) (fs []ev.Finding, outcome string) {
	fail := func(clause, detail string) {
		fs = append(fs, ev.Finding{Clause: clause, Detail: detail, Replay: map[string]interface{}{"gov": c}})
	}
	w := world.New(world.Config{NumWallets: 5, Contracts: StdContracts()})
	w.Block(nil)
	var oc []string
	check := func(when string) {
		p := w.App.FeeMarketKeeper.GetParams(w.Ctx())
		floor := p.MinGasPrice.TruncateInt().BigInt()
		if b := p.BaseFee.BigInt(); b.Cmp(floor) < 0 || b.Sign() < 0 {
			fail("base-fee-at-least-floor-of-min-gas-price", fmt.Sprintf("%s: block %d starts with base fee %s, below floor(min gas price %s) = %s", when, w.Height+1, b, p.MinGasPrice, floor))
			oc = append(oc, "below-floor")
		} else {
			oc = append(oc, "ok")
		}
	}
	np := w.App.FeeMarketKeeper.GetParams(w.Ctx())
	mgp, err := sdkmath.LegacyNewDecFromStr(c.NewMinGas)
	if err != nil {
		panic(err)
	}
	np.MinGasPrice = mgp
	if c.NewBaseFee != "" {
		b, _ := new(big.Int).SetString(c.NewBaseFee, 10)
		np.BaseFee = sdkmath.NewIntFromBigInt(b)
	}
	gov := authtypes.NewModuleAddress(govtypes.ModuleName)
	inner := &feemarkettypes.MsgUpdateParams{Authority: gov.String(), Params: np}
	proposer := w.Wallets[4]
	submit, err := govv1.NewMsgSubmitProposal([]sdk.Msg{inner}, sdk.NewCoins(sdk.NewCoin(world.Denom, sdkmath.NewInt(10))), proposer.Bech(), "", "c09", "c09 fee market params", false)
	if err != nil {
		panic(err)
	}
	gas := uint64(1_000_000)
	base := w.App.FeeMarketKeeper.GetBaseFee(w.Ctx()).BigInt()
	fee := new(big.Int).Mul(new(big.Int).SetUint64(gas), new(big.Int).Mul(base, big.NewInt(2)))
	txs := [][]byte{w.CosmosTx(proposer, uint64(len(w.Validators)+4), 0, gas, fee, submit)}
	for i, v := range w.Validators {
		txs = append(txs, w.CosmosTx(v, uint64(i), 0, gas, fee, govv1.NewMsgVote(v.Acc(), 1, govv1.OptionYes, "")))
	}
	br := w.Block(txs)
	if br.Panic != "" || br.Err != nil {
		fail("block-executes", fmt.Sprintf("submission block: panic=%q err=%v", br.Panic, br.Err))
		return fs, "HALT"
	}
	for i, r := range br.Res.TxResults {
		if r.Code != 0 {
			fail("alphabet-sanity", fmt.Sprintf("proposal tx %d refused: %s", i, r.Log))
			return fs, "setup-failed"
		}
	}
	check("after the submission block")
	// the voting period (30 min) ends before the next block (+1 h): its end blocker executes the proposal
	var execTxs [][]byte
	if c.WithTx {
		b := w.App.FeeMarketKeeper.GetBaseFee(w.Ctx()).BigInt()
		execTxs = append(execTxs, BuildTx(w, TxSpec{Kind: KBurn, Sender: 0, Fee: FLegacy2B, Nonce: 0}, b))
	}
	for i, blk := range [][][]byte{execTxs, nil, nil} {
		br := w.Block(blk)
		if br.Panic != "" || br.Err != nil {
			fail("block-executes", fmt.Sprintf("block +%d: panic=%q err=%v", i+1, br.Panic, br.Err))
			return fs, "HALT"
		}
		check(fmt.Sprintf("%d block(s) after the end of the voting period", i+1))
	}
	p, err := w.App.GovKeeper.Proposals.Get(w.Ctx(), 1)
	status := "absent"
	if err == nil {
		status = strings.TrimPrefix(p.Status.String(), "PROPOSAL_STATUS_")
	}
	got := w.App.FeeMarketKeeper.GetParams(w.Ctx())
	if status == "PASSED" && !got.MinGasPrice.Equal(mgp) {
		fail("alphabet-sanity", fmt.Sprintf("proposal passed but min gas price is %s, want %s", got.MinGasPrice, mgp))
	}
	if status != "PASSED" {
		fail("alphabet-sanity", "the parameter-change proposal did not pass: "+status)
	}
	return fs, status + ":" + strings.Join(oc, ",")
}
