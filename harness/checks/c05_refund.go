package checks

import (
	"fmt"
	"math/big"
	"time"

	"github.com/ethereum/go-ethereum/common"
	"github.com/ethereum/go-ethereum/core"
	ethtypes "github.com/ethereum/go-ethereum/core/types"
	corevm "github.com/ethereum/go-ethereum/core/vm"

	evmvm "github.com/EscanBE/evermint/v12/x/evm/vm"

	"verif/harness/asm"
	"verif/harness/ev"
	"verif/harness/world"
)

// Refund clause of C05: "the storage refund never exceeds one fifth of the gas consumed" and the reported gas used is a
// function of the execution, not of the unused gas attached to it.
//
// Keeper-level pass: contracts that clear k = 0..8 pre-set storage slots (and one that sets fresh slots, no refund) are
// called through the real ApplyMessageWithConfig with a counting tracer. The tracer sees the gas consumed by the EVM before
// any refund (CaptureEnd of the top frame) — together with the intrinsic gas that is the consumption the cap refers to.
// EIP-3529 gives 4 800 per slot cleared (non-zero original value -> 0), so the reported gas used must be exactly
//     consumed − min(4 800·k, ⌊consumed / 5⌋)
// for every gas limit ≥ consumed, in particular it must not depend on the gas limit.

type c05Tracer struct {
	depth0GasUsed uint64
	ended         bool
}

func (t *c05Tracer) CaptureTxStart(uint64) {}
func (t *c05Tracer) CaptureTxEnd(uint64)   {}
func (t *c05Tracer) CaptureStart(*corevm.EVM, common.Address, common.Address, bool, []byte, uint64, *big.Int) {
}
func (t *c05Tracer) CaptureEnd(_ []byte, gasUsed uint64, _ time.Duration, _ error) {
	t.depth0GasUsed, t.ended = gasUsed, true
}
func (t *c05Tracer) CaptureEnter(corevm.OpCode, common.Address, common.Address, []byte, uint64, *big.Int) {
}
func (t *c05Tracer) CaptureExit([]byte, uint64, error) {}
func (t *c05Tracer) CaptureState(uint64, corevm.OpCode, uint64, uint64, *corevm.ScopeContext, []byte, int, error) {
}
func (t *c05Tracer) CaptureFault(uint64, corevm.OpCode, uint64, uint64, *corevm.ScopeContext, int, error) {
}

type c05RefundCase struct {
	Part     string `json:"part"` // "refund"
	Clears   int    `json:"clears"`
	GasLimit uint64 `json:"gas_limit"`
}

func c05ClearAddr(k int) common.Address {
	return common.BigToAddress(new(big.Int).Add(big.NewInt(0xc0500), big.NewInt(int64(k))))
}

var c05SetAddr = common.HexToAddress("0x00000000000000000000000000000000000c05ff")

func c05RefundWorld() *world.World {
	var cs []world.Contract
	for k := 0; k <= 8; k++ {
		code := asm.New()
		st := map[common.Hash]common.Hash{}
		for i := 0; i < k; i++ {
			code.Sstore(uint64(i), 0)
			st[h(uint64(i))] = h(7)
		}
		cs = append(cs, world.Contract{Addr: c05ClearAddr(k), Code: code.Stop().Bytes(), Storage: st})
	}
	cs = append(cs, world.Contract{Addr: c05SetAddr, Code: asm.New().Sstore(0, 1).Sstore(1, 1).Stop().Bytes()})
	w := world.New(world.Config{NumWallets: 2, Contracts: cs, BaseFee: new(big.Int)}) // zero base fee: the pass uses zero prices
	w.Block(nil)
	return w
}

// c05RefundRun executes one case; it returns (reported gas used, consumed before refund, findings).
func c05RefundRun(w *world.World, c c05RefundCase) (reported, consumed uint64, fs []ev.Finding) {
	fail := func(clause, detail string) { fs = append(fs, ev.Finding{Clause: clause, Detail: detail, Replay: c}) }
	to := c05ClearAddr(c.Clears)
	if c.Clears < 0 {
		to = c05SetAddr
	}
	ctx, _ := w.Ctx().CacheContext()
	k := w.App.EvmKeeper
	cfg, err := k.EVMConfig(ctx, nil)
	if err != nil {
		panic(err)
	}
	zero := new(big.Int)
	from := w.Wallets[0].Eth()
	msg := ethtypes.NewMessage(from, &to, w.Nonce(ctx, from), zero, c.GasLimit, zero, zero, zero, nil, nil, false)
	txType := uint8(ethtypes.LegacyTxType)
	tr := &c05Tracer{}
	res, err := k.ApplyMessageWithConfig(ctx, msg, tr, true, cfg, evmvm.TxConfig{BlockHash: common.BytesToHash(ctx.HeaderHash()), TxHash: common.BigToHash(big.NewInt(5)), TxType: &txType})
	if err != nil {
		fail("refund-pass-executes", fmt.Sprintf("clears=%d limit=%d: %v", c.Clears, c.GasLimit, err))
		return 0, 0, fs
	}
	if res.VmError != "" || !tr.ended {
		fail("refund-pass-executes", fmt.Sprintf("clears=%d limit=%d: vm error %q, tracer ended=%v", c.Clears, c.GasLimit, res.VmError, tr.ended))
		return 0, 0, fs
	}
	intrinsic, _ := core.IntrinsicGas(nil, nil, false, true, true)
	consumed = intrinsic + tr.depth0GasUsed
	reported = res.GasUsed
	clears := c.Clears
	if clears < 0 {
		clears = 0
	}
	refund := uint64(4800 * clears)
	if cap5 := consumed / 5; refund > cap5 {
		refund = cap5
	}
	if reported > consumed {
		fail("gas-used-at-most-consumed", fmt.Sprintf("clears=%d limit=%d: reported %d > consumed %d", c.Clears, c.GasLimit, reported, consumed))
	}
	if consumed-reported > consumed/5 {
		fail("refund-at-most-one-fifth-of-consumed", fmt.Sprintf("clears=%d limit=%d: consumed %d, reported gas used %d: refund %d exceeds consumed/5 = %d", c.Clears, c.GasLimit, consumed, reported, consumed-reported, consumed/5))
	} else if reported != consumed-refund {
		fail("gas-used-is-consumed-minus-capped-refund", fmt.Sprintf("clears=%d limit=%d: consumed %d, refund counter %d capped at %d, want gas used %d, reported %d", c.Clears, c.GasLimit, consumed, 4800*clears, refund, consumed-refund, reported))
	}
	return reported, consumed, fs
}

// c05RefundPass enumerates clears × gas limits; the gas limits are derived from the consumption measured with an ample limit.
func c05RefundPass(run *ev.Run, w *world.World) {
	c05GuardRunner()
	for k := -1; k <= 8; k++ {
		_, consumed, fs := c05RefundRun(w, c05RefundCase{Part: "refund", Clears: k, GasLimit: 3_000_000})
		for _, f := range fs {
			run.Fail(f)
		}
		if consumed == 0 {
			continue
		}
		var ref uint64
		for i, limit := range []uint64{3_000_000, consumed, consumed + 1, 2 * consumed, 5 * consumed, 6_000_000, 30_000_000} {
			c := c05RefundCase{Part: "refund", Clears: k, GasLimit: limit}
			rep, _, fs := c05RefundRun(w, c)
			for _, f := range fs {
				run.Fail(f)
			}
			run.Count("transitions", 1)
			run.Count("refund_pass_executions", 1)
			run.Outcome(fmt.Sprintf("refund-pass/clears=%d", k))
			run.Distinct(fmt.Sprintf("refund-pass/%d/%d", k, i))
			if i == 0 {
				ref = rep
			} else if rep != ref && len(fs) == 0 {
				run.Fail(ev.Finding{Clause: "gas-used-independent-of-gas-limit", Detail: fmt.Sprintf("clears=%d: gas used %d with limit %d but %d with limit 3000000", k, rep, limit, ref), Replay: c})
			}
		}
	}
}
