package checks

import (
	"bytes"
	"encoding/hex"
	"encoding/json"
	"fmt"
	"math/big"
	"os"
	"reflect"
	"sort"
	"strings"

	sdkmath "cosmossdk.io/math"
	sdk "github.com/cosmos/cosmos-sdk/types"
	authtypes "github.com/cosmos/cosmos-sdk/x/auth/types"
	stakingtypes "github.com/cosmos/cosmos-sdk/x/staking/types"
	ethabi "github.com/ethereum/go-ethereum/accounts/abi"
	"github.com/ethereum/go-ethereum/common"
	ethtypes "github.com/ethereum/go-ethereum/core/types"

	cpcabi "github.com/EscanBE/evermint/v12/x/cpc/abi"
	"github.com/EscanBE/evermint/v12/x/cpc/eip712"
	cpctypes "github.com/EscanBE/evermint/v12/x/cpc/types"

	"verif/harness/asm"
	"verif/harness/ev"
	"verif/harness/world"
)

// C12 — read-only EVM contexts cannot change state through custom precompiles.
//
// Programs: EOA E --tx--> F0 --op[0]--> F1 ... --op[L-2]--> F(L-1) --op[L-1]--> precompile.method(args)
// with op[i] ∈ {CALL, DELEGATECALL, CALLCODE, STATICCALL}; every Fi is the same generic forwarder contract
// (asm.Forwarder) installed at its own address, so the whole chain is described by the call data.
// A program with at least one STATICCALL is a "static" program (the precompile is reached inside a read-only
// context), a program without one is a "normal" program (its twin: every STATICCALL replaced by CALL, which
// keeps the storage-context addresses and therefore the caller the precompile sees).

func init() { Registry["C12"] = runC12 }

const (
	c12KnownSig    = "C12/static-context-write-through-nested-call"
	c12PeriodSig   = "C12/readonly-reward-view-increments-validator-period"
	c12MaxFrames   = 6 // forwarder frames installed per mode (F0..F5) whatever the tier, so that replays do not depend on the tier
	c12Gas         = 30_000_000
	c12ModeBubble  = 0 // forwarders revert when the inner call fails
	c12ModeSwallow = 1 // forwarders return successfully even when the inner call failed
)

var c12ModeName = []string{"bubble", "swallow"}

var c12Kinds = []asm.CallKind{asm.KCall, asm.KDelegateCall, asm.KCallCode, asm.KStaticCall}

func c12KindByName(s string) asm.CallKind {
	for _, k := range c12Kinds {
		if k.String() == s {
			return k
		}
	}
	panic("call kind " + s)
}

// c12Actor is an address whose private key the harness holds (needed for the EIP-712 methods: the signer must be the caller).
type c12Actor struct {
	Name string
	Acct *world.Acct
	Addr common.Address
}

// c12Method is one executor of one registered custom precompiled contract, as read from the live registry.
type c12Method struct {
	Label    string // e.g. erc20[wei].approve
	CType    uint32
	Contract string // erc20[wei] | erc20[utwo] | staking | bech32
	Addr     common.Address
	Name     string // ABI name, or 0x<selector> when the ABI does not know the selector
	Sel      []byte
	ReadOnly bool
	Gas      uint64
	Abi      *ethabi.Method
	Denom    string // erc20 only
}

type c12Variant struct {
	Label    string
	Args     []interface{}
	Tailored bool
	Raw      bool // no ABI: selector only
}

type c12World struct {
	w       *world.World
	root    sdk.Context
	pre     map[string][][2][]byte
	eoa     c12Actor
	holder  c12Actor
	frames  [2][]c12Actor
	vals    []common.Address
	valoper []string
	methods []*c12Method
	chainID *big.Int
	hrp     string
	// periodBumps are the exact store diffs produced by DistrKeeper.IncrementValidatorPeriod for the validator sets {0}, {1}, {0,1}
	periodBumps [][]world.DiffEntry
}

func c12Setup() *c12World {
	cw := &c12World{}
	big1e18 := new(big.Int).Exp(big.NewInt(10), big.NewInt(18), nil)
	coins := sdk.NewCoins(sdk.NewCoin(world.Denom, sdkmath.NewIntFromBigInt(big1e18)), sdk.NewCoin("utwo", sdkmath.NewIntFromBigInt(big1e18)))
	var contracts []world.Contract
	for mode := 0; mode < 2; mode++ {
		for i := 0; i < c12MaxFrames; i++ {
			name := fmt.Sprintf("c12-%s-F%d", c12ModeName[mode], i)
			a := world.NewAcct(name)
			cw.frames[mode] = append(cw.frames[mode], c12Actor{Name: fmt.Sprintf("F%d", i), Acct: a, Addr: a.Eth()})
			contracts = append(contracts, world.Contract{Addr: a.Eth(), Code: asm.Forwarder(mode == c12ModeSwallow), Coins: coins})
		}
	}
	e := world.NewAcct("c12-eoa")
	cw.eoa = c12Actor{Name: "E", Acct: e, Addr: e.Eth()}
	w := world.New(world.Config{
		NumWallets: 2, DeployErc20: true, DeployStaking: true,
		Extra:     []world.ExtraAccount{{Account: authtypes.NewBaseAccount(e.Acc(), nil, 0, 0), Coins: coins}},
		Contracts: contracts,
	})
	w.Block(nil)
	cw.w = w
	cw.holder = c12Actor{Name: "H", Acct: w.Wallets[0], Addr: w.Wallets[0].Eth()}
	must := func(err error) {
		if err != nil {
			panic(fmt.Sprintf("C12 setup: %v", err))
		}
	}
	for _, v := range w.Validators {
		cw.vals = append(cw.vals, v.Eth())
		cw.valoper = append(cw.valoper, v.Val().String())
	}
	// block 2: every possible caller delegates to validators 0 and 1 by an ordinary signed Cosmos transaction and pays a
	// large fee; block 3: the distribution module hands those fees to the validators, so every caller has rewards to
	// withdraw; the programs run in the context of block 4 (a delegation earns nothing in the block it was made in).
	{
		pre := w.Ctx()
		var txs [][]byte
		fee := new(big.Int).Div(big1e18, big.NewInt(10))
		for _, a := range cw.actors() {
			acc := w.App.AccountKeeper.GetAccount(pre, a.Acct.Acc())
			txs = append(txs, w.CosmosTx(a.Acct, acc.GetAccountNumber(), acc.GetSequence(), 1_000_000, fee,
				stakingtypes.NewMsgDelegate(a.Acct.Bech(), cw.valoper[0], sdk.NewCoin(world.Denom, sdkmath.NewInt(200_000_000_000_000_000))),
				stakingtypes.NewMsgDelegate(a.Acct.Bech(), cw.valoper[1], sdk.NewCoin(world.Denom, sdkmath.NewInt(100_000_000_000_000_000)))))
		}
		br := w.Block(txs)
		if br.Err != nil || br.Panic != "" {
			panic(fmt.Sprintf("C12 setup block: %v %s", br.Err, br.Panic))
		}
		for i, r := range br.Res.TxResults {
			if r.Code != 0 {
				panic(fmt.Sprintf("C12 setup: delegation tx %d failed: %s", i, r.Log))
			}
		}
		if br := w.Block(nil); br.Err != nil || br.Panic != "" {
			panic(fmt.Sprintf("C12 setup block: %v %s", br.Err, br.Panic))
		}
	}
	root := w.Ctx()
	// a second ERC-20 precompile, deployed the way the module's message server does it
	_, err := w.App.CPCKeeper.DeployErc20CustomPrecompiledContract(root, "Token utwo", cpctypes.Erc20CustomPrecompiledContractMeta{Symbol: "TK2", Decimals: 6, MinDenom: "utwo"})
	must(err)
	// every possible caller gets an allowance from the holder
	for _, a := range cw.actors() {
		w.App.CPCKeeper.SetErc20CpcAllowance(root, cw.holder.Addr, a.Addr, big.NewInt(1000))
	}
	cw.root = root.WithEventManager(sdk.NewEventManager())
	cw.pre = w.Dump(cw.root)
	cw.chainID = big.NewInt(int64(world.EvmChainID))
	cw.hrp = sdk.GetConfig().GetBech32AccountAddrPrefix()
	cw.methods = cw.enumerate()
	for _, set := range [][]int{{0}, {1}, {0, 1}} {
		ctx, _ := cw.root.CacheContext()
		for _, vi := range set {
			val, err := w.App.StakingKeeper.Validator(ctx, sdk.ValAddress(cw.vals[vi].Bytes()))
			must(err)
			_, err = w.App.DistrKeeper.IncrementValidatorPeriod(ctx, val)
			must(err)
		}
		d, _ := cw.filter(world.Diff(cw.pre, w.Dump(ctx)))
		if len(d) == 0 {
			panic("C12 setup: IncrementValidatorPeriod changed nothing")
		}
		cw.periodBumps = append(cw.periodBumps, d)
	}
	return cw
}

// periodBumpOnly tells whether an observation is exactly what the second known defect predicts: the reward views of the
// staking precompile (rewardOf, rewardsOf, balanceOf — all declared ReadOnly) call the distribution module's gRPC queriers
// DelegationRewards / DelegationTotalRewards on the live transaction context; since SDK 0.50 those queriers call
// IncrementValidatorPeriod on the context they are given (a gRPC query context is thrown away, a transaction context is
// not). Predicted: no log, and a store diff byte-for-byte equal to IncrementValidatorPeriod of the queried validator(s).
func (cw *c12World) periodBumpOnly(m *c12Method, o *c12Obs) bool {
	if !m.ReadOnly || m.CType != cpctypes.CpcTypeStaking || len(o.Res.Logs) != 0 || o.Res.Panic != "" {
		return false
	}
	for _, d := range cw.periodBumps {
		if c12DiffEqual(o.Diff, d) {
			return true
		}
	}
	return false
}

func (cw *c12World) actors() []c12Actor {
	out := []c12Actor{cw.eoa}
	out = append(out, cw.frames[0]...)
	return append(out, cw.frames[1]...)
}

// enumerate reads every method executor of every registered custom precompiled contract from the live registry
// (the same call NewEVM uses), so a newly added contract or method is picked up without touching this file.
func (cw *c12World) enumerate() []*c12Method {
	var out []*c12Method
	for _, c := range cw.w.App.CPCKeeper.GetAllCustomPrecompiledContracts(cw.root) {
		meta := c.GetMetadata()
		addr := common.BytesToAddress(meta.Address)
		var info *cpcabi.CustomPrecompiledContractInfo
		label, denom := fmt.Sprintf("type%d[%s]", meta.CustomPrecompiledType, addr.Hex()), ""
		switch meta.CustomPrecompiledType {
		case cpctypes.CpcTypeErc20:
			info = &cpcabi.Erc20CpcInfo
			var em cpctypes.Erc20CustomPrecompiledContractMeta
			if err := json.Unmarshal([]byte(meta.TypedMeta), &em); err != nil {
				panic(err)
			}
			denom = em.MinDenom
			label = "erc20[" + denom + "]"
		case cpctypes.CpcTypeStaking:
			info, label = &cpcabi.StakingCpcInfo, "staking"
		case cpctypes.CpcTypeBech32:
			info, label = &cpcabi.Bech32CpcInfo, "bech32"
		}
		for _, ex := range c.GetMethodExecutors() {
			sel := append([]byte{}, ex.Method4BytesSignatures()...)
			m := &c12Method{CType: meta.CustomPrecompiledType, Contract: label, Addr: addr, Sel: sel, ReadOnly: ex.ReadOnly(), Gas: ex.RequireGas(), Denom: denom,
				Name: "0x" + hex.EncodeToString(sel)}
			if info != nil {
				var names []string
				for n := range info.ABI.Methods {
					names = append(names, n)
				}
				sort.Strings(names)
				for _, n := range names {
					am := info.ABI.Methods[n]
					if bytes.Equal(am.ID, sel) {
						amc := am
						m.Abi, m.Name = &amc, am.Name
					}
				}
			}
			m.Label = label + "." + m.Name
			out = append(out, m)
		}
	}
	return out
}

// variants returns the argument lists used for method m when the precompile sees `caller`. Every tailored variant is built to
// succeed in a normal context and — for a state-changing method — to change state. A method this table does not know
// (added to the registry later) gets arguments derived from its ABI types and is not required to succeed.
func (cw *c12World) variants(m *c12Method, caller c12Actor) []c12Variant {
	c, h := caller.Addr, cw.holder.Addr
	n := func(v int64) *big.Int { return big.NewInt(v) }
	t := func(label string, args ...interface{}) c12Variant {
		return c12Variant{Label: label, Args: args, Tailored: true}
	}
	// u: an edge-case argument list that is not required to succeed (counted when it fails in a normal context)
	u := func(label string, args ...interface{}) c12Variant {
		return c12Variant{Label: label, Args: args}
	}
	zero := common.Address{}
	sign := func(msg eip712.TypedMessage) (r, s [32]byte, v uint8) {
		hash, err := eip712.EIP712HashingTypedMessage(msg, cw.chainID)
		if err != nil {
			panic(err)
		}
		sig, err := caller.Acct.Priv.Sign(hash)
		if err != nil {
			panic(err)
		}
		copy(r[:], sig[:32])
		copy(s[:], sig[32:64])
		return r, s, sig[64]
	}
	var out []c12Variant
	switch m.CType {
	case cpctypes.CpcTypeErc20:
		switch m.Name {
		case "name", "symbol", "decimals", "totalSupply":
			out = []c12Variant{t("()")}
		case "balanceOf":
			out = []c12Variant{t("(caller)", c), t("(0x0)", zero)}
		case "allowance":
			out = []c12Variant{t("(H,caller)", h, c), t("(caller,caller)", c, c)}
		case "transfer":
			out = []c12Variant{t("(H,7)", h, n(7)), t("(H,0)/log only", h, n(0)), u("(0x0,1)/invalid receiver", zero, n(1))}
		case "transferFrom":
			out = []c12Variant{t("(caller,H,5)", c, h, n(5)), t("(H,caller,3)/allowance", h, c, n(3))}
		case "approve":
			out = []c12Variant{t("(H,11)", h, n(11)), t("(H,0)/log only", h, n(0))}
		case "burnFrom":
			out = []c12Variant{t("(caller,2)", c, n(2)), t("(H,2)/allowance", h, n(2))}
		case "burn":
			out = []c12Variant{t("(4)", n(4))}
		}
	case cpctypes.CpcTypeStaking:
		v0, v2 := cw.vals[0], cw.vals[2]
		switch m.Name {
		case "name", "symbol", "decimals":
			out = []c12Variant{t("()")}
		case "delegatedValidators", "totalDelegationOf", "rewardsOf", "balanceOf":
			out = []c12Variant{t("(caller)", c), u("(H)/not a delegator", h)}
		case "delegationOf", "rewardOf":
			out = []c12Variant{t("(caller,val0)", c, v0), u("(H,val0)/no delegation", h, v0), u("(caller,H)/not a validator", c, h)}
		case "delegate":
			out = []c12Variant{t("(val0,1000)", v0, n(1000)), u("(H,1000)/not a validator", h, n(1000))}
		case "undelegate":
			out = []c12Variant{t("(val0,1000)", v0, n(1000))}
		case "redelegate":
			out = []c12Variant{t("(val0,val2,1000)", v0, v2, n(1000))}
		case "withdrawReward":
			out = []c12Variant{t("(val0)", v0)}
		case "withdrawRewards":
			out = []c12Variant{t("()")}
		case "transfer":
			out = []c12Variant{t("(caller,1000)", c, n(1000))}
		case "delegateByActionMessage":
			for _, a := range []struct{ action, val, old string }{
				{cpcabi.StakingMessageActionDelegate, cw.valoper[0], "-"},
				{cpcabi.StakingMessageActionUndelegate, cw.valoper[0], "-"},
				{cpcabi.StakingMessageActionRedelegate, cw.valoper[2], cw.valoper[0]},
			} {
				msg := cpcabi.StakingMessage{Action: a.action, Delegator: c, Validator: a.val, Amount: n(1000), Denom: world.Denom, OldValidator: a.old}
				r, s, v := sign(msg)
				out = append(out, t("("+a.action+" signed by caller)", msg, r, s, v))
			}
		case "withdrawRewardsByMessage":
			for _, from := range []string{cpcabi.WithdrawRewardMessageActionWithdrawFromAllValidators, cw.valoper[0]} {
				msg := cpcabi.WithdrawRewardMessage{Delegator: c, FromValidator: from}
				r, s, v := sign(msg)
				lab := "all"
				if from != lab {
					lab = "val0"
				}
				out = append(out, t("("+lab+" signed by caller)", msg, r, s, v))
			}
		}
	case cpctypes.CpcTypeBech32:
		switch m.Name {
		case "bech32EncodeAddress":
			out = []c12Variant{t("(hrp,caller)", cw.hrp, c)}
		case "bech32Encode32BytesAddress":
			var b [32]byte
			copy(b[12:], c.Bytes())
			out = []c12Variant{t("(hrp,bytes32)", cw.hrp, b)}
		case "bech32EncodeBytes":
			out = []c12Variant{t("(hrp,bytes)", cw.hrp, []byte{1, 2, 3, 4, 5}), u("(hrp,300 bytes)/over the limit", cw.hrp, bytes.Repeat([]byte{7}, 300))}
		case "bech32Decode":
			out = []c12Variant{t("(bech32 of caller)", caller.Acct.Bech()), u("(not bech32)", "not-bech32")}
		case "bech32AccountAddrPrefix", "bech32ValidatorAddrPrefix", "bech32ConsensusAddrPrefix",
			"bech32AccountPubPrefix", "bech32ValidatorPubPrefix", "bech32ConsensusPubPrefix":
			out = []c12Variant{t("()")}
		}
	}
	if len(out) > 0 {
		return out
	}
	// unknown method: generic arguments from the ABI types (address = caller, integers = 1, everything else the zero value)
	if m.Abi == nil {
		return []c12Variant{{Label: "(selector only)", Raw: true}}
	}
	var args []interface{}
	for _, in := range m.Abi.Inputs {
		switch {
		case in.Type.T == ethabi.AddressTy:
			args = append(args, c)
		case (in.Type.T == ethabi.UintTy || in.Type.T == ethabi.IntTy) && in.Type.Size > 64:
			args = append(args, n(1))
		default:
			args = append(args, reflect.Zero(in.Type.GetType()).Interface())
		}
	}
	return []c12Variant{{Label: "(generic)", Args: args}}
}

func (cw *c12World) pack(m *c12Method, v c12Variant) (data []byte) {
	data = append([]byte{}, m.Sel...)
	if v.Raw || m.Abi == nil {
		return data
	}
	defer func() {
		if r := recover(); r != nil {
			data = append([]byte{}, m.Sel...)
		}
	}()
	bz, err := m.Abi.Inputs.Pack(v.Args...)
	if err != nil {
		if v.Tailored {
			panic(fmt.Sprintf("C12: cannot pack %s%s: %v", m.Label, v.Label, err))
		}
		return data
	}
	return append(data, bz...)
}

// c12Case identifies one program; it is the replay value.
type c12Case struct {
	Kind     string   `json:"kind"`     // chain | low-gas
	Contract string   `json:"contract"` // precompile address
	Selector string   `json:"selector"` // hex, 4 bytes
	Method   string   `json:"method"`   // informative
	Variant  int      `json:"variant"`
	Mode     string   `json:"mode"` // bubble | swallow
	Ops      []string `json:"ops"`  // op[i] is executed by frame Fi; the last one targets the precompile; empty = the EOA calls the precompile directly
	Gas      uint64   `json:"gas,omitempty"`
	// kind "prestate" / "prestate-sanity" (c12_prestate.go): the named pre-state, the exact call data and a readable argument list
	Pre      string `json:"pre,omitempty"`
	Data     string `json:"data,omitempty"`
	ArgLabel string `json:"args,omitempty"`
}

func (c c12Case) String() string {
	chain := "E→direct"
	if len(c.Ops) > 0 {
		chain = "E→F0→" + strings.Join(c.Ops, "→")
	}
	s := fmt.Sprintf("%s#%d %s→precompile [%s]", c.Method, c.Variant, chain, c.Mode)
	if c.Kind == "prestate" || c.Kind == "prestate-sanity" {
		s = fmt.Sprintf("pre-state %q: %s%s %s→precompile [%s]", c.Pre, c.Method, c.ArgLabel, chain, c.Mode)
	}
	if c.Kind == "low-gas" {
		s += fmt.Sprintf(" gas=%d", c.Gas)
	}
	return s
}

func (cw *c12World) find(contract, selector string) *c12Method {
	for _, m := range cw.methods {
		if strings.EqualFold(m.Addr.Hex(), contract) && hex.EncodeToString(m.Sel) == selector {
			return m
		}
	}
	return nil
}

// caller returns the address the precompile sees: the storage-context address of the last frame (CALL / STATICCALL switch
// the context to the callee, DELEGATECALL / CALLCODE keep the caller's), or the EOA for a direct call.
func (cw *c12World) caller(ops []asm.CallKind, mode int) (c12Actor, int) {
	if len(ops) == 0 {
		return cw.eoa, -1
	}
	idx := 0
	for i := 1; i < len(ops); i++ {
		if ops[i-1] == asm.KCall || ops[i-1] == asm.KStaticCall {
			idx = i
		}
	}
	return cw.frames[mode][idx], idx
}

// c12Obs is what one execution did.
type c12Obs struct {
	Res  CallResult
	Diff []world.DiffEntry // filtered
	Bump bool              // the auth global account number moved (call machinery, ignored)
}

func (o *c12Obs) ok() bool { return o.Res.Err == nil && o.Res.Panic == "" }

func (o *c12Obs) fingerprint() string {
	var b strings.Builder
	fmt.Fprintf(&b, "err=%v panic=%q ret=%x gasleft=%d\n", o.Res.Err, o.Res.Panic, o.Res.Ret, o.Res.GasLeft)
	b.WriteString(c12DiffString(o.Diff, 0))
	b.WriteString(fmtLogs(o.Res.Logs))
	return b.String()
}

func c12DiffString(d []world.DiffEntry, max int) string {
	var s []string
	for i, e := range d {
		if max > 0 && i >= max {
			s = append(s, fmt.Sprintf("… %d more", len(d)-max))
			break
		}
		s = append(s, e.String())
	}
	return "{" + strings.Join(s, "; ") + "}"
}

func c12DiffEqual(a, b []world.DiffEntry) bool {
	if len(a) != len(b) {
		return false
	}
	for i := range a {
		if a[i].Store != b[i].Store || !bytes.Equal(a[i].Key, b[i].Key) || !bytes.Equal(a[i].A, b[i].A) || !bytes.Equal(a[i].B, b[i].B) ||
			(a[i].B == nil) != (b[i].B == nil) || (a[i].A == nil) != (b[i].A == nil) {
			return false
		}
	}
	return true
}

func c12LogsEqual(a, b []*ethtypes.Log) bool {
	if len(a) != len(b) {
		return false
	}
	for i := range a {
		if a[i].Address != b[i].Address || !bytes.Equal(a[i].Data, b[i].Data) || len(a[i].Topics) != len(b[i].Topics) {
			return false
		}
		for j := range a[i].Topics {
			if a[i].Topics[j] != b[i].Topics[j] {
				return false
			}
		}
	}
	return true
}

// filter drops what the call machinery itself writes for any callee, precompile or not: evm.Call on an address that has no
// auth account (every precompile address) calls CreateAccount, which consumes a global account number although the empty
// account is removed again at commit. Only the auth module's global-account-number key is ignored, and an auth account entry
// that differs in nothing but its account number.
func (cw *c12World) filter(d []world.DiffEntry) (out []world.DiffEntry, bump bool) {
	for _, e := range d {
		if e.Store == authtypes.StoreKey {
			if bytes.Equal(e.Key, authtypes.GlobalAccountNumberKey.Bytes()) {
				bump = true
				continue
			}
			if len(e.Key) > 0 && e.Key[0] == authtypes.AddressStoreKeyPrefix.Bytes()[0] && e.A != nil && e.B != nil {
				var a, b sdk.AccountI
				if cw.w.Enc.Codec.UnmarshalInterface(e.A, &a) == nil && cw.w.Enc.Codec.UnmarshalInterface(e.B, &b) == nil {
					if a.SetAccountNumber(0) == nil && b.SetAccountNumber(0) == nil {
						ba, ea := cw.w.Enc.Codec.MarshalInterface(a)
						bb, eb := cw.w.Enc.Codec.MarshalInterface(b)
						if ea == nil && eb == nil && bytes.Equal(ba, bb) {
							bump = true
							continue
						}
					}
				}
			}
		}
		out = append(out, e)
	}
	return out, bump
}

// exec runs one program on a fresh branch of the root state.
func (cw *c12World) exec(m *c12Method, data []byte, ops []asm.CallKind, mode int, gas uint64) *c12Obs {
	ctx, _ := cw.root.CacheContext()
	o := &c12Obs{}
	if len(ops) == 0 {
		o.Res = CallEVM(cw.w, ctx, cw.eoa.Addr, m.Addr, data, nil, gas)
	} else {
		payload, target := data, m.Addr
		for i := len(ops) - 1; i >= 0; i-- {
			if len(payload) > 1000 {
				panic("C12: payload too long for asm.Forwarder (size slot at 0x400)")
			}
			payload = asm.ForwardData(ops[i], target, payload)
			target = cw.frames[mode][i].Addr
		}
		o.Res = CallEVM(cw.w, ctx, cw.eoa.Addr, target, payload, nil, gas)
	}
	o.Diff, o.Bump = cw.filter(world.Diff(cw.pre, cw.w.Dump(ctx)))
	return o
}

func c12Twin(ops []asm.CallKind) ([]asm.CallKind, bool) {
	out := make([]asm.CallKind, len(ops))
	static := false
	for i, k := range ops {
		out[i] = k
		if k == asm.KStaticCall {
			out[i] = asm.KCall
			static = true
		}
	}
	return out, static
}

func c12OpsKey(ops []asm.CallKind, mode int) string {
	var s []string
	for _, k := range ops {
		s = append(s, k.String())
	}
	return c12ModeName[mode] + ":" + strings.Join(s, ">")
}

func c12OpNames(ops []asm.CallKind) []string {
	s := []string{}
	for _, k := range ops {
		s = append(s, k.String())
	}
	return s
}

// c12Eval is the evaluator shared by exploration and replay. normal() memoises the executions of normal programs of
// one (method, variant) unit; a static program is judged against its twin.
type c12Eval struct {
	cw    *c12World
	run   *ev.Run
	m     *c12Method
	vi    int
	cache map[string]*c12Obs
	varOf func(caller c12Actor) c12Variant
}

func (cw *c12World) evaluator(run *ev.Run, m *c12Method, vi int) *c12Eval {
	memo := map[common.Address]c12Variant{} // the argument list depends on the caller only (EIP-712 signatures are costly)
	return &c12Eval{cw: cw, run: run, m: m, vi: vi, cache: map[string]*c12Obs{}, varOf: func(caller c12Actor) c12Variant {
		if v, ok := memo[caller.Addr]; ok {
			return v
		}
		vs := cw.variants(m, caller)
		if vi >= len(vs) {
			panic(fmt.Sprintf("C12: %s has no variant %d", m.Label, vi))
		}
		memo[caller.Addr] = vs[vi]
		return vs[vi]
	}}
}

func (e *c12Eval) mkCase(kind string, ops []asm.CallKind, mode int, gas uint64) c12Case {
	return c12Case{Kind: kind, Contract: e.m.Addr.Hex(), Selector: hex.EncodeToString(e.m.Sel), Method: e.m.Label, Variant: e.vi, Mode: c12ModeName[mode], Ops: c12OpNames(ops), Gas: gas}
}

func (e *c12Eval) count(name string) {
	if e.run != nil {
		e.run.Count(name, 1)
	}
}

func (e *c12Eval) execute(ops []asm.CallKind, mode int, gas uint64) (*c12Obs, c12Variant, int) {
	caller, idx := e.cw.caller(ops, mode)
	v := e.varOf(caller)
	e.count("evm_executions")
	return e.cw.exec(e.m, e.cw.pack(e.m, v), ops, mode, gas), v, idx
}

// normal evaluates a normal program (no STATICCALL): clauses for read-only methods, alphabet sanity for tailored arguments.
func (e *c12Eval) normal(ops []asm.CallKind, mode int) (*c12Obs, []ev.Finding) {
	key := c12OpsKey(ops, mode)
	if o, ok := e.cache[key]; ok {
		return o, nil
	}
	o, v, idx := e.execute(ops, mode, c12Gas)
	e.cache[key] = o
	var fs []ev.Finding
	cs := e.mkCase("chain", ops, mode, 0)
	fail := func(clause, f string, a ...interface{}) {
		fs = append(fs, ev.Finding{Clause: clause, Detail: cs.String() + " " + v.Label + ": " + fmt.Sprintf(f, a...), Replay: cs})
	}
	e.count("programs_normal")
	if o.Res.Panic != "" {
		fail("no-panic", "panic in a normal context: %s", o.Res.Panic)
		return o, fs
	}
	roWrites := e.m.ReadOnly && (len(o.Diff) > 0 || len(o.Res.Logs) > 0)
	if roWrites {
		fail("readonly-method-never-writes", "method declared ReadOnly changed state or logged in a normal context: diff=%s logs=%s", c12DiffString(o.Diff, 6), fmtLogs(o.Res.Logs))
		if e.cw.periodBumpOnly(e.m, o) {
			fs[len(fs)-1].Signature = c12PeriodSig
		}
	}
	if !o.ok() && (len(o.Diff) > 0 || len(o.Res.Logs) > 0) && mode == c12ModeBubble {
		fail("failed-call-changes-nothing", "failing top-level call left diff=%s logs=%s", c12DiffString(o.Diff, 6), fmtLogs(o.Res.Logs))
	}
	cls := "ok"
	if mode == c12ModeBubble {
		if !o.ok() {
			cls = "fails"
			e.count("normal_context_call_fails")
			if v.Tailored {
				fail("alphabet-sanity", "call built to succeed failed in a normal context: %v", o.Res.Err)
			}
		} else if !e.m.ReadOnly && len(o.Diff) == 0 && len(o.Res.Logs) == 0 {
			cls = "ok-no-effect"
			e.count("normal_context_write_without_effect")
			if v.Tailored {
				fail("alphabet-sanity", "state-changing method built to change state changed nothing in a normal context")
			}
		}
	} else if !e.m.ReadOnly && v.Tailored && len(o.Diff) == 0 && len(o.Res.Logs) == 0 {
		// (the frames of the two modes live at different addresses, so the effects are not comparable key by key)
		cls = "no-effect"
		fail("alphabet-sanity", "state-changing method built to change state changed nothing in a normal context (swallowing forwarders)")
	}
	if roWrites {
		cls += "+RO-METHOD-WRITES"
	}
	if e.run != nil {
		rw := "rw"
		if e.m.ReadOnly {
			rw = "ro"
		}
		e.run.Outcome(fmt.Sprintf("normal/%s/%s/%s/%s", strings.SplitN(e.m.Contract, "[", 2)[0], rw, c12ModeName[mode], cls))
		e.run.Distinct(fmt.Sprintf("normal|%s|v%d|%s|caller=%d|%s", e.m.Label, e.vi, c12ModeName[mode], idx, cls))
	}
	return o, fs
}

// static evaluates a program with at least one STATICCALL.
func (e *c12Eval) static(ops []asm.CallKind, mode int) (*c12Obs, []ev.Finding) {
	twinOps, isStatic := c12Twin(ops)
	if !isStatic {
		panic("not a static program")
	}
	var fs []ev.Finding
	twin, tf := e.normal(twinOps, mode)
	fs = append(fs, tf...)
	twinB := twin
	if mode != c12ModeBubble {
		var bf []ev.Finding
		twinB, bf = e.normal(twinOps, c12ModeBubble)
		fs = append(fs, bf...)
	}
	o, v, idx := e.execute(ops, mode, c12Gas)
	e.count("programs_static")
	cs := e.mkCase("chain", ops, mode, 0)
	L := len(ops)
	last := ops[L-1]
	earlier := false
	for _, k := range ops[:L-1] {
		if k == asm.KStaticCall {
			earlier = true
		}
	}
	cls := ""
	switch {
	case o.Res.Panic != "":
		cls = "PANIC"
		fs = append(fs, ev.Finding{Clause: "no-panic", Detail: cs.String() + " " + v.Label + ": panic inside a read-only context: " + o.Res.Panic, Replay: cs})
	case len(o.Diff) == 0 && len(o.Res.Logs) == 0:
		switch {
		case !o.ok():
			cls = "rejected"
		case mode == c12ModeSwallow:
			cls = "no-effect(swallowed)"
		default:
			cls = "ok-no-effect"
		}
		if !twinB.ok() {
			e.count("static_programs_whose_normal_twin_fails")
		}
		// a read-only method must keep answering inside a read-only context exactly as outside
		if e.m.ReadOnly && mode == c12ModeBubble && twinB.ok() && (!o.ok() || !bytes.Equal(o.Res.Ret, twinB.Res.Ret)) {
			fs = append(fs, ev.Finding{Clause: "alphabet-sanity", Detail: fmt.Sprintf("%s %s: read-only method answers differently inside a read-only context: err=%v ret=%x, normal ret=%x", cs, v.Label, o.Res.Err, o.Res.Ret, twinB.Res.Ret), Replay: cs})
		}
	default:
		// state changed and/or a log was emitted inside a read-only context
		f := ev.Finding{Clause: "static-context-no-write-no-log", Replay: cs,
			Detail: fmt.Sprintf("%s %s: inside a read-only context (caller seen by the precompile: F%d, call status err=%v): diff=%s logs=%s", cs, v.Label, idx, o.Res.Err, c12DiffString(o.Diff, 6), fmtLogs(o.Res.Logs))}
		// defect-aware classification: the fork hands RunCustom the readOnly *parameter* of the innermost call (false for
		// CALL / CALLCODE / DELEGATECALL) instead of the interpreter's inherited flag. That predicts exactly: the last opcode
		// is not STATICCALL, an enclosing frame was entered by STATICCALL, the method is a declared writer, the call succeeds,
		// and the effects (every key, every value, every log) are those of the same call in a normal context.
		explained := last != asm.KStaticCall && earlier && !e.m.ReadOnly && twinB.ok() && twin.Res.Panic == "" &&
			(mode == c12ModeSwallow || o.ok()) && c12DiffEqual(o.Diff, twin.Diff) && c12LogsEqual(o.Res.Logs, twin.Res.Logs)
		switch {
		case explained:
			f.Signature = c12KnownSig
			cls = "WRITE(as in normal context, last op not STATICCALL)"
		case e.cw.periodBumpOnly(e.m, o) && (mode == c12ModeSwallow || o.ok()):
			f.Signature = c12PeriodSig
			cls = "WRITE(validator period bump by a reward view)"
		default:
			cls = "WRITE(unexplained)"
		}
		fs = append(fs, f)
	}
	if e.run != nil {
		rw := "rw"
		if e.m.ReadOnly {
			rw = "ro"
		}
		lastS := "last=" + last.String()
		e.run.Outcome(fmt.Sprintf("static/%s/%s/%s/%s", strings.SplitN(e.m.Contract, "[", 2)[0], rw, lastS, cls))
		e.run.Distinct(fmt.Sprintf("static|%s|v%d|%s|caller=%d|%s|earlier=%v|%s", e.m.Label, e.vi, c12ModeName[mode], idx, lastS, earlier, cls))
	}
	return o, fs
}

// lowGas: a state-changing method must fail, without effects, when it is given less gas than it declares, and a successful
// direct call must consume a non-zero amount of gas.
func (e *c12Eval) lowGas(ops []asm.CallKind, gas uint64) []ev.Finding {
	o, v, _ := e.execute(ops, c12ModeBubble, gas)
	e.count("low_gas_probes")
	cs := e.mkCase("low-gas", ops, c12ModeBubble, gas)
	var fs []ev.Finding
	switch {
	case o.Res.Panic != "":
		fs = append(fs, ev.Finding{Clause: "no-panic", Detail: cs.String() + ": panic: " + o.Res.Panic, Replay: cs})
	case gas < e.m.Gas:
		if o.ok() || len(o.Diff) > 0 || len(o.Res.Logs) > 0 {
			fs = append(fs, ev.Finding{Clause: "write-method-charges-gas", Replay: cs,
				Detail: fmt.Sprintf("%s %s: RequireGas=%d but the call with gas=%d: err=%v diff=%s logs=%d", cs, v.Label, e.m.Gas, gas, o.Res.Err, c12DiffString(o.Diff, 4), len(o.Res.Logs))})
		}
		if e.run != nil {
			e.run.Outcome("low-gas/fails=" + fmt.Sprint(!o.ok()))
		}
	default:
		// direct call with exactly RequireGas: the boundary is sharp (sanity) and the gas is really taken
		used := gas - o.Res.GasLeft
		if !o.ok() && v.Tailored {
			fs = append(fs, ev.Finding{Clause: "alphabet-sanity", Detail: fmt.Sprintf("%s %s: direct call with exactly RequireGas=%d failed: %v", cs, v.Label, gas, o.Res.Err), Replay: cs})
		}
		if o.ok() && used == 0 {
			fs = append(fs, ev.Finding{Clause: "write-method-charges-gas", Detail: fmt.Sprintf("%s %s: successful state-changing call consumed no gas", cs, v.Label), Replay: cs})
		}
		if e.run != nil {
			e.run.Outcome(fmt.Sprintf("exact-gas/ok=%v/used>0=%v", o.ok(), used > 0))
		}
	}
	return fs
}

// c12AbciConfirm repeats three programs as real signed Ethereum transactions in a real block of a fresh world and compares
// what consensus committed with what the keeper-level execution of the same program reports, so that a finding of the
// exploration cannot be an artefact of driving the EVM below the ABCI level:
//
//	(a) E → F0 →STATICCALL→ F1 →CALL→ erc20[native].approve(H, 11)      (b) E → F0 →STATICCALL→ staking.rewardOf(F0, val0)
//	(c) E → F2 →STATICCALL→ erc20[native].approve(H, 11)  — the control: write protection must hold here
func c12AbciConfirm() (fs []ev.Finding, obs map[string]interface{}) {
	cw := c12Setup()
	w := cw.w
	var approve, rewardOf *c12Method
	for _, m := range cw.methods {
		if m.CType == cpctypes.CpcTypeErc20 && m.Denom == world.Denom && m.Name == "approve" {
			approve = m
		}
		if m.CType == cpctypes.CpcTypeStaking && m.Name == "rewardOf" {
			rewardOf = m
		}
	}
	obs = map[string]interface{}{}
	if approve == nil || rewardOf == nil {
		obs["skipped"] = "approve / rewardOf not registered"
		return nil, obs
	}
	type prog struct {
		name   string
		m      *c12Method
		frames []c12Actor // frames used, in order
		ops    []asm.CallKind
	}
	f := cw.frames[c12ModeBubble]
	progs := []prog{
		{"a", approve, []c12Actor{f[0], f[1]}, []asm.CallKind{asm.KStaticCall, asm.KCall}},
		{"b", rewardOf, []c12Actor{f[0]}, []asm.CallKind{asm.KStaticCall}},
		{"c", approve, []c12Actor{f[2]}, []asm.CallKind{asm.KStaticCall}},
	}
	period := func(ctx sdk.Context) uint64 {
		cr, err := w.App.DistrKeeper.GetValidatorCurrentRewards(ctx, sdk.ValAddress(cw.vals[0].Bytes()))
		if err != nil {
			panic(err)
		}
		return cr.Period
	}
	allow := func(ctx sdk.Context, owner common.Address) *big.Int {
		return w.App.CPCKeeper.GetErc20CpcAllowance(ctx, owner, cw.holder.Addr)
	}
	pre := w.Ctx()
	nonce := w.Nonce(pre, cw.eoa.Addr)
	var txs [][]byte
	var keeperWrote []bool
	for i, p := range progs {
		caller := p.frames[len(p.frames)-1]
		data := cw.pack(p.m, cw.variants(p.m, caller)[0])
		payload, target := data, p.m.Addr
		for j := len(p.ops) - 1; j >= 0; j-- {
			payload = asm.ForwardData(p.ops[j], target, payload)
			target = p.frames[j].Addr
		}
		// keeper-level execution of exactly this call
		kctx, _ := cw.root.CacheContext()
		kres := CallEVM(w, kctx, cw.eoa.Addr, target, payload, nil, 2_000_000)
		kd, _ := cw.filter(world.Diff(cw.pre, w.Dump(kctx)))
		keeperWrote = append(keeperWrote, len(kd) > 0 || len(kres.Logs) > 0)
		to := target
		txs = append(txs, w.EthTx(cw.eoa.Acct, &ethtypes.LegacyTx{Nonce: nonce + uint64(i), GasPrice: new(big.Int).Mul(big.NewInt(10), Gwei), Gas: 2_000_000, To: &to, Value: big.NewInt(0), Data: payload}))
	}
	p0, a0, c0 := period(pre), allow(pre, f[1].Addr), allow(pre, f[2].Addr)
	br := w.Block(txs)
	if br.Err != nil || br.Panic != "" || len(br.Res.TxResults) != 3 {
		panic(fmt.Sprintf("C12 abci confirmation block: %v %s", br.Err, br.Panic))
	}
	post := w.Ctx()
	p1, a1, c1 := period(post), allow(post, f[1].Addr), allow(post, f[2].Addr)
	var vmErr []string
	var nLogs []int
	for i, r := range br.Res.TxResults {
		resp := w.EthResponse(r)
		rc, err := world.ParseReceipt(i, r)
		if r.Code != 0 || resp == nil || err != nil || rc.R == nil {
			// the transaction did not reach (or did not survive) execution: nothing to compare, but an ordinary call into a
			// forwarder contract that cannot even be executed is reported, not swallowed
			p := progs[i]
			log := strings.SplitN(r.Log, "\n", 2)[0]
			if len(log) > 300 {
				log = log[:300]
			}
			fs = append(fs, ev.Finding{Clause: "no-panic", Detail: fmt.Sprintf("program %s as a signed transaction was not executed (code %d): %s", p.name, r.Code, log),
				Replay: c12Case{Kind: "abci", Contract: p.m.Addr.Hex(), Selector: hex.EncodeToString(p.m.Sel), Method: p.m.Label, Mode: "bubble", Ops: c12OpNames(p.ops)}})
			obs["transaction_"+p.name+"_not_executed"] = log
			continue
		}
		vmErr = append(vmErr, resp.VmError)
		nLogs = append(nLogs, len(rc.R.Logs))
	}
	if len(vmErr) != len(progs) {
		return fs, obs
	}
	abciWrote := []bool{a1.Cmp(a0) != 0 || nLogs[0] > 0, p1 != p0, c1.Cmp(c0) != 0 || nLogs[2] > 0}
	obs["a_static_then_call_approve"] = map[string]interface{}{"allowance_before": a0.String(), "allowance_after": a1.String(), "logs_in_receipt": nLogs[0], "vm_error": vmErr[0], "keeper_level_wrote": keeperWrote[0]}
	obs["b_static_rewardOf"] = map[string]interface{}{"val0_period_before": p0, "val0_period_after": p1, "vm_error": vmErr[1], "keeper_level_wrote": keeperWrote[1]}
	obs["c_direct_static_approve_control"] = map[string]interface{}{"allowance_before": c0.String(), "allowance_after": c1.String(), "logs_in_receipt": nLogs[2], "vm_error": vmErr[2], "keeper_level_wrote": keeperWrote[2]}
	sigs := []string{c12KnownSig, c12PeriodSig, ""}
	for i, p := range progs {
		cs := c12Case{Kind: "abci", Contract: p.m.Addr.Hex(), Selector: hex.EncodeToString(p.m.Sel), Method: p.m.Label, Mode: "bubble", Ops: c12OpNames(p.ops)}
		if abciWrote[i] != keeperWrote[i] {
			fs = append(fs, ev.Finding{Clause: "harness-consistency", Replay: cs,
				Detail: fmt.Sprintf("program %s (%s): a real transaction in a real block wrote=%v, the keeper-level execution wrote=%v", p.name, cs, abciWrote[i], keeperWrote[i])})
			continue
		}
		if abciWrote[i] {
			fs = append(fs, ev.Finding{Clause: "static-context-no-write-no-log", Signature: sigs[i], Replay: cs,
				Detail: fmt.Sprintf("program %s as a signed transaction in a committed block (%s): %v", p.name, cs, obs[map[string]string{"a": "a_static_then_call_approve", "b": "b_static_rewardOf", "c": "c_direct_static_approve_control"}[p.name]])})
		}
	}
	return fs, obs
}

// c12Sequences enumerates every opcode sequence of length l in lexicographic order of c12Kinds.
func c12Sequences(l int) [][]asm.CallKind {
	if l == 0 {
		return [][]asm.CallKind{{}}
	}
	var out [][]asm.CallKind
	for _, p := range c12Sequences(l - 1) {
		for _, k := range c12Kinds {
			out = append(out, append(append([]asm.CallKind{}, p...), k))
		}
	}
	return out
}

// registryClauses are the clauses that need no execution.
func (cw *c12World) registryClauses() []ev.Finding {
	var fs []ev.Finding
	for _, m := range cw.methods {
		if !m.ReadOnly && m.Gas == 0 {
			fs = append(fs, ev.Finding{Clause: "write-method-charges-gas", Detail: m.Label + ": ReadOnly() == false but RequireGas() == 0",
				Replay: c12Case{Kind: "registry", Contract: m.Addr.Hex(), Selector: hex.EncodeToString(m.Sel), Method: m.Label}})
		}
	}
	return fs
}

func (cw *c12World) replay(c c12Case) []ev.Finding {
	if c.Kind == "abci" {
		var out []ev.Finding
		fs, _ := c12AbciConfirm()
		for _, f := range fs {
			if fc := f.Replay.(c12Case); fc.Selector == c.Selector && strings.Join(fc.Ops, ",") == strings.Join(c.Ops, ",") {
				out = append(out, f)
			}
		}
		return out
	}
	if c.Kind == "prestate" || c.Kind == "prestate-sanity" {
		return c12PreReplay(c)
	}
	if c.Kind == "registry" {
		var fs []ev.Finding
		for _, f := range cw.registryClauses() {
			if f.Replay.(c12Case).Selector == c.Selector && strings.EqualFold(f.Replay.(c12Case).Contract, c.Contract) {
				fs = append(fs, f)
			}
		}
		return fs
	}
	m := cw.find(c.Contract, c.Selector)
	if m == nil {
		fmt.Fprintf(os.Stderr, "C12 replay: no registered method %s on %s\n", c.Selector, c.Contract)
		os.Exit(2)
	}
	var ops []asm.CallKind
	for _, s := range c.Ops {
		ops = append(ops, c12KindByName(s))
	}
	mode := c12ModeBubble
	if c.Mode == c12ModeName[c12ModeSwallow] {
		mode = c12ModeSwallow
	}
	e := cw.evaluator(nil, m, c.Variant)
	if c.Kind == "low-gas" {
		return e.lowGas(ops, c.Gas)
	}
	if _, static := c12Twin(ops); static {
		_, fs := e.static(ops, mode)
		return fs
	}
	_, fs := e.normal(ops, mode)
	return fs
}

func runC12(replay string) int {
	run := ev.NewRun("C12", "model_checking")
	run.Assumptions = []string{
		"programs are executed at keeper level through the real NewStateDB + NewEVM + evm.Call + CommitMultiStore on CacheContext branches of one prepared state (no ante handler, no fees, value 0 on every call)",
		"every frame is the same generic forwarder contract at its own address; forwarders write nothing themselves, so every observed effect comes from the precompile",
		"state = dump of every KV store; ignored: the auth module's global account number (consumed by evm.Call's CreateAccount for any callee without an auth account) and account-number-only differences",
		"the methods, their ReadOnly()/RequireGas() declarations and their selectors are read from CPCKeeper.GetAllCustomPrecompiledContracts at run time; argument lists are tailored per method name, methods unknown to the table get ABI-derived arguments and are only counted when they fail in a normal context",
	}
	cw := c12Setup()
	if replay != "" {
		return replayCase(run, replay, func(raw json.RawMessage) []ev.Finding {
			var c c12Case
			if err := json.Unmarshal(raw, &c); err != nil {
				fmt.Fprintln(os.Stderr, err)
				os.Exit(2)
			}
			return cw.replay(c)
		})
	}
	maxOps := 3 // chains of ≤ 2 intermediate frames (F0 + F1..F2)
	if run.Thorough() {
		maxOps = 6 // chains of ≤ 5 intermediate frames
	}
	if maxOps > c12MaxFrames {
		panic("not enough frames")
	}
	// units: (method, variant); the number of variants does not depend on the caller
	type unit struct {
		m  *c12Method
		vi int
	}
	var units []unit
	nRO, nRW, untailored := 0, 0, 0
	for _, m := range cw.methods {
		vs := cw.variants(m, cw.eoa)
		for vi := range vs {
			units = append(units, unit{m, vi})
		}
		if m.ReadOnly {
			nRO++
		} else {
			nRW++
		}
		if !vs[0].Tailored {
			untailored++
			run.Note("method %s is not known to the argument table: ABI-derived arguments", m.Label)
		}
	}
	var seqs [][]asm.CallKind
	for l := 0; l <= maxOps; l++ {
		seqs = append(seqs, c12Sequences(l)...)
	}
	budget := 40
	if run.Thorough() {
		budget = 900
	}
	run.Sharded(Shards(), func(shard, n int) {
		// pre-state dimension (c12_prestate.go): every read-only method × arguments drawn from the special addresses of each
		// pre-state × call chains; bounded by its own alphabet, complete whatever the time budget of the chain exploration below
		c12PreExplore(run, shard, n)
		dl := ev.NewDeadline(secs(budget))
		if shard == 0 {
			for _, f := range cw.registryClauses() {
				run.Fail(f)
			}
			fs, obs := c12AbciConfirm()
			for _, f := range fs {
				run.Fail(f)
			}
			run.Coverage["abci_level_confirmation"] = obs
			run.Count("abci_level_transactions", 3)
		}
		type job struct {
			u       unit
			e       *c12Eval
			checked int
		}
		var jobs []*job
		for ui, u := range units {
			if ui%n == shard {
				jobs = append(jobs, &job{u: u, e: cw.evaluator(run, u.m, u.vi)})
			}
		}
		// gas clauses first: they do not depend on the chain depth
		for _, j := range jobs {
			if !j.u.m.ReadOnly && j.u.m.Gas > 0 {
				for _, g := range []uint64{0, 1, j.u.m.Gas / 2, j.u.m.Gas - 1, j.u.m.Gas} {
					for _, f := range j.e.lowGas(nil, g) {
						run.Fail(f)
					}
				}
			}
		}
		// depth-major: every method is explored with all sequences of length l before any sequence of length l+1, so
		// that the time budget (which only ever stops the expansion) cuts the deepest chains, never a method
		run.Coverage["chain_length_completed"] = maxOps
		for l := 0; l <= maxOps; l++ {
			seqsL := c12Sequences(l)
			for _, j := range jobs {
				if dl.Hit() {
					run.Coverage["exhaustive"] = false
					run.Coverage["chain_length_completed"] = l - 1
					run.Note("shard %d: time budget of %d s hit while exploring opcode sequences of length %d; all shorter ones are complete", shard, budget, l)
					return
				}
				e, u := j.e, j.u
				for mode := 0; mode < 2; mode++ {
					// normal programs first (they are the twins of the static ones), then the static programs
					for pass := 0; pass < 2; pass++ {
						for _, ops := range seqsL {
							_, static := c12Twin(ops)
							if static != (pass == 1) || (len(ops) == 0 && mode == c12ModeSwallow) {
								continue
							}
							var o *c12Obs
							var fs []ev.Finding
							if static {
								o, fs = e.static(ops, mode)
							} else {
								o, fs = e.normal(ops, mode)
							}
							for _, f := range fs {
								run.Fail(f)
							}
							if o.Bump {
								run.Count("executions_with_account_number_bump_ignored", 1)
							}
							// determinism: the first programs of every unit are executed twice
							if j.checked < 6 && len(ops) > 0 {
								j.checked++
								o2, _, _ := e.execute(ops, mode, c12Gas)
								if o.fingerprint() != o2.fingerprint() {
									fmt.Fprintf(os.Stderr, "HARNESS-NONDETERMINISM in C12: %s %v\n%s\n---\n%s\n", u.m.Label, ops, o.fingerprint(), o2.fingerprint())
									os.Exit(2)
								}
								run.Count("determinism_reexecutions", 1)
							}
							if static && len(ops) == 2 && mode == c12ModeBubble && u.vi == 0 && ops[1] == asm.KCall && (u.m.Name == "approve" || u.m.Name == "delegate" || u.m.Name == "bech32Decode") {
								run.Sample(map[string]interface{}{"case": e.mkCase("chain", ops, mode, 0), "err": fmt.Sprint(o.Res.Err), "diff": c12DiffString(o.Diff, 3), "logs": len(o.Res.Logs)})
							}
						}
					}
				}
			}
		}
	})
	nStatic, nNormal := 0, 0
	for _, ops := range seqs {
		if _, s := c12Twin(ops); s {
			nStatic++
		} else {
			nNormal++
		}
	}
	run.Coverage["evaluations"] = int(run.Counter("evm_executions"))
	run.Coverage["registered_contracts"] = len(cw.w.App.CPCKeeper.GetAllCustomPrecompiledContracts(cw.root))
	run.Coverage["methods"] = len(cw.methods)
	run.Coverage["methods_readonly"] = nRO
	run.Coverage["methods_state_changing"] = nRW
	run.Coverage["methods_without_tailored_arguments"] = untailored
	run.Coverage["method_argument_variants"] = len(units)
	run.Coverage["opcode_sequences_static"] = nStatic
	run.Coverage["opcode_sequences_normal"] = nNormal
	run.Coverage["max_intermediate_frames"] = maxOps - 1
	if _, ok := run.Coverage["exhaustive"]; !ok {
		run.Coverage["exhaustive"] = true
	}
	run.Coverage["prestate_evaluations"] = int(run.Counter("prestate_evm_executions"))
	run.Coverage["rule"] = fmt.Sprintf("every opcode sequence op[0..L-1] ∈ {CALL, DELEGATECALL, CALLCODE, STATICCALL}^L for L = 0..%d (L = 0: the EOA calls the precompile directly; otherwise frame Fi executes op[i], F0 is the top frame entered by the transaction, the last opcode targets the precompile; %d sequences with ≥ 1 STATICCALL, %d without) × every method of every registered custom precompiled contract (%d methods of %d contracts read from the live registry: 2 ERC-20, staking, bech32) × 1–3 argument lists per method (chosen per caller so that the call succeeds in a normal context, plus edge cases such as zero amounts, foreign delegators, malformed input that need not succeed; %d method/argument units) × forwarders that {bubble, swallow} an inner failure; all from one prepared state (callers funded, delegated to two validators with rewards allocated, allowances from a holder). Oracle: a sequence with a STATICCALL leaves the store dump unchanged and emits no log; its twin without STATICCALL is the normal-context reference (succeeds, changes state for a writer, changes nothing for a ReadOnly() method). Plus, per state-changing method: RequireGas() > 0, direct calls with gas ∈ {0, 1, g/2, g−1} fail without effect, a direct call with exactly g succeeds and consumes gas. Plus three programs repeated as signed transactions in a committed block (abci_level_confirmation). Enumeration is depth-major (all methods at length l before length l+1); a time budget of %d s per worker may only stop the expansion: chain_length_completed is the largest L enumerated completely for every method, exhaustive tells whether that is the stated bound. PRE-STATE DIMENSION (always complete, no budget): %s",
		maxOps, nStatic, nNormal, len(cw.methods), len(cw.w.App.CPCKeeper.GetAllCustomPrecompiledContracts(cw.root)), len(units), budget, c12PreRule(run.Thorough()))
	return run.Finish()
}
