package checks

// C20 part (f): user-supplied log-filter criteria x delivered log shapes, on the code that evaluates the criteria inside goroutines
// that have no recover: PublicFilterAPI.NewFilter (eth_newFilter), PublicFilterAPI.Logs (eth_subscribe logs) in
// rpc/namespaces/ethereum/eth/filters/api.go and pubSubAPI.subscribeLogs in rpc/websockets.go all hand every delivered receipt to
// filters.FilterLogs with the criteria of the user. A panic there is not an error response: nothing between the goroutine and the Go
// runtime recovers it, the node process dies.
//
//   f-grid  the real filters.FilterLogs on the full product criteria x logs (called under recover; a panic is the violation, because
//           of the goroutine context it runs in), compared with an independent reference predicate (differences are information: C20
//           is about crashes, not about filter semantics).
//   f-live  (c20_filters_live.go) the real goroutines: eth_newFilter through a real go-ethereum rpc.Server and eth_subscribe(logs)
//           through the real websocket server of rpc/websockets.go, both fed by a real CometBFT WSClient, in child processes whose
//           death is the observation.

import (
	"fmt"
	"math/big"
	"os"
	"strings"

	"github.com/ethereum/go-ethereum/common"
	ethtypes "github.com/ethereum/go-ethereum/core/types"
	ethfilters "github.com/ethereum/go-ethereum/eth/filters"

	"github.com/EscanBE/evermint/v12/rpc/namespaces/ethereum/eth/filters"

	"verif/harness/sched/logalpha"
)

// c20ClauseGoroutinePanic: code that runs in a goroutine without recover panics (observed under recover in this process: it is the
// goroutine context that makes the panic fatal). c20ClauseLiveDeath: the same observed for real — the process running the real
// goroutine died.
const (
	c20ClauseGoroutinePanic = "unrecovered-goroutine-code-never-panics"
	c20ClauseLiveDeath      = "no-delivered-event-kills-the-node-process"
)

// c20FRange is one block range of a criteria.
type c20FRange struct {
	Label    string
	From, To *big.Int
}

func c20FRanges() []c20FRange {
	huge := new(big.Int).Add(new(big.Int).Lsh(big.NewInt(1), 64), big.NewInt(5)) // low 64 bits = 5
	huge200 := new(big.Int).Lsh(big.NewInt(1), 200)
	return []c20FRange{
		{"nil..nil", nil, nil},
		{"5..5", big.NewInt(5), big.NewInt(5)},
		{"from>to 7..3", big.NewInt(7), big.NewInt(3)},
		{"latest -1..-1", big.NewInt(-1), big.NewInt(-1)},
		{"negative -2..-3", big.NewInt(-2), big.NewInt(-3)},
		{"0..2^63-1", big.NewInt(0), new(big.Int).SetUint64(1<<63 - 1)},
		{"huge 2^64+5..nil", huge, nil},
		{"nil..huge 2^200", nil, huge200},
	}
}

type c20FSpace struct {
	ranges  []c20FRange
	addrs   [][]common.Address
	topics  [][][]common.Hash
	logs    []*ethtypes.Log
	maxPos  int
	maxLogT int
}

var c20FSpaceCache = map[bool]*c20FSpace{}

// c20FilterSpace: criteria = block range x addresses {none, [A], [A,B]} x every topics list of <= maxPos positions, each position one
// of {null, [], [T0], [T1], [T0,T1]}; logs = every topic list of <= maxLogT topics over {T0, T1, T2} x emitting contract {A, B, C} x
// block number {0, 5, 6, 2^63, 2^64-1}.
func c20FilterSpace(thorough bool) *c20FSpace {
	if s := c20FSpaceCache[thorough]; s != nil {
		return s
	}
	s := &c20FSpace{ranges: c20FRanges(), maxPos: 3, maxLogT: 4}
	if thorough {
		s.maxPos, s.maxLogT = 4, 5
	}
	s.addrs = [][]common.Address{nil, {logalpha.LogAddr(0)}, {logalpha.LogAddr(0), logalpha.LogAddr(1)}}
	s.topics = logalpha.TopicsCriteria(s.maxPos, [][]int{nil, {}, {0}, {1}, {0, 1}})
	idx := uint(0)
	for _, tl := range logalpha.TopicLists(s.maxLogT, 3) {
		for a := 0; a < 3; a++ {
			for _, bn := range []uint64{0, 5, 6, 1 << 63, 1<<64 - 1} {
				s.logs = append(s.logs, logalpha.MkLog(a, bn, idx, tl...))
				idx++
			}
		}
	}
	c20FSpaceCache[thorough] = s
	return s
}

func (s *c20FSpace) nCrit() int { return len(s.topics) * len(s.addrs) * len(s.ranges) }

// crit: simplest first — topics outermost (short lists first), then addresses, then the block range.
func (s *c20FSpace) crit(i int) (ethfilters.FilterCriteria, c20FRange) {
	r := s.ranges[i%len(s.ranges)]
	i /= len(s.ranges)
	a := s.addrs[i%len(s.addrs)]
	i /= len(s.addrs)
	return ethfilters.FilterCriteria{FromBlock: r.From, ToBlock: r.To, Addresses: a, Topics: s.topics[i]}, r
}

func c20FilterUnits(tier string) []c20Unit {
	s := c20FilterSpace(tier == "thorough")
	us := c20Ranges("f-grid", tier, "FilterLogs", s.nCrit(), 128, 0)
	return append(us, c20LiveUnits(tier)...)
}

func c20FilterRule(thorough bool) string {
	s := c20FilterSpace(thorough)
	return fmt.Sprintf("(f) log-filter criteria x delivered logs on the code run by the recover-less goroutines of eth_newFilter / eth_subscribe(logs): "+
		"filters.FilterLogs on %d criteria (%d block ranges {nil, equal, from>to, latest, negative, 0..2^63-1, above 2^64} x addresses {none,[A],[A,B]} x every topics list of <= %d positions over {null, [], [T0], [T1], [T0,T1]}) "+
		"x %d logs (every list of <= %d topics over {T0,T1,T2} x contract {A,B,C} x block number {0,5,6,2^63,2^64-1}); %s",
		s.nCrit(), len(s.ranges), s.maxPos, len(s.logs), s.maxLogT, c20LiveRule(thorough))
}

// c20FilterCall runs the real FilterLogs under recover.
func c20FilterCall(c ethfilters.FilterCriteria, logs []*ethtypes.Log) (out []*ethtypes.Log, p string) {
	p = c20Guard(func() { out = filters.FilterLogs(logs, c.FromBlock, c.ToBlock, c.Addresses, c.Topics) })
	return
}

func c20RunFGrid(u c20Unit, rec *c20Rec) {
	s := c20FilterSpace(u.thorough())
	for _, ci := range u.indices() {
		if ci < 0 || ci >= s.nCrit() {
			fmt.Fprintf(os.Stderr, "C20: criteria index %d out of range\n", ci)
			os.Exit(2)
		}
		one := u
		one.Only = []int{ci}
		c, r := s.crit(ci)
		rec.count("inputs", 1)
		rec.count("filter_pairs", int64(len(s.logs)))
		got, p := c20FilterCall(c, s.logs)
		if p != "" {
			// minimal delivered log: the first single log on which the call panics
			minLog := "(only with the whole list)"
			for _, l := range s.logs {
				if _, p1 := c20FilterCall(c, []*ethtypes.Log{l}); p1 != "" {
					minLog, p = logalpha.LogString(l), p1
					break
				}
			}
			rec.fail(c20ClauseGoroutinePanic, "", fmt.Sprintf("filters.FilterLogs panics for criteria {%s} on delivered log %s: %s — FilterLogs is called with the user's criteria on every delivered receipt by the goroutines of "+
				"PublicFilterAPI.NewFilter / PublicFilterAPI.Logs (filters/api.go) and pubSubAPI.subscribeLogs (rpc/websockets.go), none of which recovers: the panic terminates the node", logalpha.CritString(c), minLog, p), one)
			rec.outcome("f-grid: PANIC")
			continue
		}
		// reference semantics (information only)
		var want, loose []*ethtypes.Log
		for _, l := range s.logs {
			if logalpha.RefMatch(c.FromBlock, c.ToBlock, c.Addresses, c.Topics, l) {
				want = append(want, l)
			}
			if logalpha.RefMatchLoose(c.FromBlock, c.ToBlock, c.Addresses, c.Topics, l) {
				loose = append(loose, l)
			}
		}
		class := "no log matches"
		if len(got) > 0 {
			class = "some logs match"
		}
		if len(got) == len(s.logs) {
			class = "every log matches"
		}
		rec.distinct(fmt.Sprintf("f-grid:%s:%d", r.Label, len(got)))
		switch {
		case (c.FromBlock != nil && !c.FromBlock.IsInt64()) || (c.ToBlock != nil && !c.ToBlock.IsInt64()):
			// a bound that is not a block number of any client: only the absence of a panic is asked
			rec.outcome("f-grid: " + class + " (block range outside int64: not compared with the reference predicate)")
		case c20SameLogs(got, want):
			rec.outcome("f-grid: " + class + ", as the go-ethereum reference predicate")
		default:
			rec.count("filter_semantics_differences", 1)
			tag := "differs from the reference predicate (information, not a C20 clause)"
			if c20SameLogs(got, loose) {
				tag = "differs from the reference predicate, equals the trailing-wildcard-tolerant reading (information, not a C20 clause)"
			}
			rec.outcome("f-grid: " + class + ", " + tag)
			if rec.run != nil && !c20NotedFilterDiff {
				c20NotedFilterDiff = true
				rec.run.Note("f-grid: FilterLogs(%s) returns %d logs, the reference predicate %d (first difference: %s); information only", logalpha.CritString(c), len(got), len(want), c20FirstDiff(got, want))
			}
		}
		// alphabet sanity: the empty criteria is a filter that lets every delivered log through
		if len(c.Topics) == 0 && len(c.Addresses) == 0 && c.FromBlock == nil && c.ToBlock == nil && len(got) != len(s.logs) {
			rec.fail("alphabet-sanity", "", fmt.Sprintf("FilterLogs with the empty criteria returns %d of %d logs", len(got), len(s.logs)), one)
		}
	}
}

var c20NotedFilterDiff bool

func c20SameLogs(a, b []*ethtypes.Log) bool {
	if len(a) != len(b) {
		return false
	}
	for i := range a {
		if a[i] != b[i] {
			return false
		}
	}
	return true
}

func c20FirstDiff(got, want []*ethtypes.Log) string {
	in := func(l *ethtypes.Log, s []*ethtypes.Log) bool {
		for _, x := range s {
			if x == l {
				return true
			}
		}
		return false
	}
	for _, l := range got {
		if !in(l, want) {
			return "returned but not expected: " + logalpha.LogString(l)
		}
	}
	for _, l := range want {
		if !in(l, got) {
			return "expected but not returned: " + logalpha.LogString(l)
		}
	}
	return "order " + strings.TrimSpace(fmt.Sprint(len(got)))
}
