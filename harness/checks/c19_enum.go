package checks

// C19: deterministic enumeration of all cases, and the run-global checks (digest collisions, informational probes).

import (
	"fmt"
	"os"
	"strings"

	"verif/harness/ev"
)

var c19Mnemonics = []string{
	"test test test test test test test test test test test junk", // Hardhat / Anvil default
	"abandon abandon abandon abandon abandon abandon abandon abandon abandon abandon abandon about",
	"abandon abandon abandon abandon abandon abandon abandon abandon abandon abandon abandon abandon abandon abandon abandon abandon abandon abandon abandon abandon abandon abandon abandon art",
	"legal winner thank year wave sausage worth useful legal winner thank year wave sausage worth useful legal winner thank year wave sausage worth title",
	// thorough
	"legal winner thank year wave sausage worth useful legal winner thank yellow",
	"letter advice cage absurd amount doctor acoustic avoid letter advice cage above",
	"zoo zoo zoo zoo zoo zoo zoo zoo zoo zoo zoo wrong",
	"zoo zoo zoo zoo zoo zoo zoo zoo zoo zoo zoo zoo zoo zoo zoo zoo zoo zoo zoo zoo zoo zoo zoo vote",
}

type c19Vector struct{ mn, pass, path, key, addr string }

// published vectors (Hardhat default accounts; the well-known first MetaMask/Ledger account of the all-zero-entropy mnemonic)
var c19Vectors = []c19Vector{
	{c19Mnemonics[0], "", "m/44'/60'/0'/0/0", "ac0974bec39a17e36ba4a6b4d238ff944bacb478cbed5efcae784d7bf4f2ff80", "0xf39Fd6e51aad88F6F4ce6aB8827279cffFb92266"},
	{c19Mnemonics[0], "", "m/44'/60'/0'/0/1", "59c6995e998f97a5a0044966f0945389dc9e86dae88c7a8412f4603b6b78690d", "0x70997970C51812dc3A010C7d01b50e0d17dc79C8"},
	{c19Mnemonics[0], "", "m/44'/60'/0'/0/2", "5de4111afa1a4b94908f83103eb1f1706367c2e68ca870fc3fb9a804cdab365a", "0x3C44CdDdB6a900fa2b585dd299e03d12FA4293BC"},
	{c19Mnemonics[1], "", "m/44'/60'/0'/0/0", "", "0x9858EfFD232B4033E47d90003D41EC34EcaEda94"},
}

func (e *c19Env) enumerate() []c19Enum {
	th := e.run.Thorough()
	var out []c19Enum
	add := func(c c19Case, clause, input string) { out = append(out, c19Enum{c, clause, input}) }

	// (1a) matrix
	for _, ki := range e.keys {
		for _, kk := range e.keys {
			for _, mj := range e.msgs {
				for _, ml := range e.msgs {
					for _, form := range []string{"", "v+27", "rs64"} {
						add(c19Case{Matrix: &c19MatrixCase{PubOf: ki, Signer: kk, VerifyMsg: mj.Name, SignedMsg: ml.Name, SigForm: form}}, "matrix", mj.Name+"<-"+ml.Name+":"+form)
					}
				}
			}
		}
	}
	// (1b) flips: keys simplest-first; quick = {1, n-1, sha256(a)}
	flipKeys := []c19Key{e.keys[0], e.keys[3], e.keys[5]}
	if th {
		flipKeys = e.keys
	}
	combos := [][2]string{{"long-1000", "raw"}, {"amino-send-doc", "eip712"}, {"proto-send-doc", "eip712"}, {"bytes32", "raw"}}
	for _, k := range flipKeys {
		for ci, cb := range combos {
			if cb[0] == "bytes32" {
				// Sign treats 32 bytes as a digest: the signature is for the pre-image, not for the 32-byte message; covered by the matrix
				continue
			}
			for _, what := range []string{"sig65", "sig64", "pubkey"} {
				bits := map[string]int{"sig65": 520, "sig64": 512, "pubkey": 264}[what]
				for b := -1; b < bits; b++ {
					reg := "rs"
					if b >= 512 {
						reg = "v"
					} else if b < 0 {
						reg = "unmodified"
					}
					add(c19Case{Flip: &c19FlipCase{Key: k, Msg: cb[0], Kind: cb[1], What: what, Bit: b}}, "flip", cb[1]+":"+what+":"+reg)
				}
			}
			if ci < 2 {
				for _, v := range c19LenVariants {
					add(c19Case{Flip: &c19FlipCase{Key: k, Msg: cb[0], Kind: cb[1], What: "len:" + v, Bit: -1}}, "flip", cb[1]+":"+v)
				}
			}
		}
	}
	// (1c) document bit flips
	for _, doc := range []string{"amino-send-doc", "proto-send-doc"} {
		for _, kind := range []string{"eip712", "raw"} {
			nb := len(e.msg(doc)) * 8
			for b := -1; b < nb; b++ {
				add(c19Case{MsgFlip: &c19MsgFlipCase{Key: e.signerKey(), Msg: doc, Kind: kind, Bit: b}}, "docflip", doc+":"+kind)
			}
		}
	}
	// (2) keys
	for _, k := range e.keys {
		add(c19Case{Key: &c19KeyCase{Key: k, What: "address"}}, "key", "address:"+k.Name)
		for _, cd := range c19Codecs {
			add(c19Case{Key: &c19KeyCase{Key: k, What: "codec:" + cd}}, "key", cd)
		}
	}
	for _, h := range []string{strings.Repeat("00", 32), c19CurveN, c19CurveN[:62] + "42", strings.Repeat("ff", 32), strings.Repeat("01", 31), strings.Repeat("01", 33), ""} {
		add(c19Case{Key: &c19KeyCase{Key: c19Key{Name: "invalid:" + h, Hex: h}, What: "invalid"}}, "key", "invalid:"+h)
	}
	// (3) derivation
	mns, passes := c19Mnemonics[:4], []string{"", "x"}
	maxA, maxI := 2, 3
	if th {
		mns, passes = c19Mnemonics, []string{"", "x", "TREZOR", "pässwörd"}
		maxA, maxI = 5, 9
	}
	var paths []string
	for a := 0; a <= maxA; a++ {
		for c := 0; c <= 1; c++ {
			for i := 0; i <= maxI; i++ {
				paths = append(paths, fmt.Sprintf("m/44'/60'/%d'/%d/%d", a, c, i))
			}
		}
	}
	if th {
		paths = append(paths, "m/44'/118'/0'/0/0", "m/44'/0'/0'/0/0", "m/44'/60'/0'", "m/0", "m/0'", "m/2147483647'/2147483647", "m/44'/60'/0'/0/0/0/0", "m/44'/60'/2147483647'/0/2147483647", "m/44'/60'/0'/0/0'")
	}
	kr := 0
	for mi, mn := range mns {
		ps := passes
		if mi == 0 {
			ps = append(append([]string{}, passes...), "x30", "x266", "x303") // parents m/44'/60', m/44', m with a leading zero byte
		}
		for _, pass := range ps {
			for pi, path := range paths {
				c := c19DeriveCase{Mnemonic: mn, Pass: pass, Path: path}
				for _, v := range c19Vectors {
					if v.mn == mn && v.pass == pass && v.path == path {
						c.ExpectKey, c.ExpectAddr = v.key, v.addr
					}
				}
				// keyring integration on a thin deterministic subset (argon2 armor is slow)
				if pi == 0 || (th && pi%16 == 1) {
					c.Keyring = true
					kr++
				}
				pc := "bip44-index"
				if strings.HasSuffix(path, "'/0/0") {
					pc = "ledger-live(account-indexed)"
				}
				cc := c
				add(c19Case{Derive: &cc}, "derive", fmt.Sprintf("mn%d:%dwords:pass=%q:%s", mi, len(strings.Fields(mn)), pass, pc))
			}
		}
	}
	valid := c19Mnemonics[1]
	for _, bad := range []struct {
		mn, path string
		must     bool
	}{
		{strings.TrimSuffix(c19Mnemonics[0], "junk") + "test", "m/44'/60'/0'/0/0", true}, // bad checksum
		{strings.Join(strings.Fields(valid)[:11], " "), "m/44'/60'/0'/0/0", true},        // 11 words
		{valid + " about", "m/44'/60'/0'/0/0", true},                                     // 13 words
		{strings.Replace(valid, "about", "zzzzzz", 1), "m/44'/60'/0'/0/0", true},         // unknown word
		{"", "m/44'/60'/0'/0/0", true},
		{valid, "", true}, {valid, "m/44'/60'/x", true}, {valid, "m/2147483648'", true}, {valid, "m/4294967296", true}, {valid, "m/-1", true}, {valid, "m/44'/60'/0'/0/0x", true},
		// unusual inputs: the path grammar is go-ethereum's; only absence of panics is demanded
		{valid, "m", false}, {valid, "m/", false}, {valid, "m//0", false}, {valid, "m/44'/60'/0'/0/0/", false}, {valid, "0/1", false}, {valid, "m/0x2c'/60'/0'/0/0", false},
		{valid, " m/44'/60'/0'/0/0", false}, {valid, "/", false}, {valid, "m/'", false}, {valid, "m/44''/60'", false}, {valid, strings.Repeat("m/", 50), false}, {valid, "m/" + strings.Repeat("0/", 300) + "0", false},
	} {
		add(c19Case{Derive: &c19DeriveCase{Mnemonic: bad.mn, Path: bad.path, Invalid: true, MustError: bad.must}}, "derive", fmt.Sprintf("invalid:%.12q:%.20q", bad.mn, bad.path))
	}
	// (4) documents
	for _, d := range e.docs {
		add(c19Case{DocCase: &c19DocCase{Doc: d.Doc, MustWork: d.Idx == 0}}, "doc", fmt.Sprintf("%s:%s:%s", e.fams[d.Fam].Name, d.Doc.Enc, strings.SplitN(d.How, "=", 2)[0]))
	}
	{ // a protobuf sign document without the (optional, in protobuf) fee message: must be refused or rendered, not crash
		d := e.fams[0].Base.set("nofee", "1")
		d.Enc = "proto"
		add(c19Case{DocCase: &c19DocCase{Doc: d}}, "doc", "send:proto:absent-fee")
	}
	signers := []c19Key{e.signerKey()}
	if th {
		signers = append(signers, e.keys[3])
	}
	for si, s := range signers {
		for i, d := range e.docs {
			add(c19Case{Row: &c19RowCase{Signer: s, DocIdx: i, Cross: th && si == 0, AllRaw: th}}, "pairs", e.fams[d.Fam].Name+":"+d.Doc.Enc)
		}
	}
	// (4b) precompile typed messages
	ms, how := c19CpcMsgs(e.addrs.ValA, e.addrs.ValB)
	for i, a := range ms {
		for j, b := range ms {
			add(c19Case{Cpc: &c19CpcCase{A: a, B: b, Signer: e.signerKey(), Claimed: e.signerKey(), V: "as-is"}}, "cpc", how[i]+"->"+how[j])
		}
		for _, v := range []string{"+27", "flipped", "2", "29", "255"} {
			add(c19Case{Cpc: &c19CpcCase{A: a, B: a, Signer: e.signerKey(), Claimed: e.signerKey(), V: v}}, "cpc", how[i]+":v="+v)
		}
	}
	for _, ks := range e.keys {
		for _, kc := range e.keys {
			add(c19Case{Cpc: &c19CpcCase{A: ms[0], B: ms[0], Signer: ks, Claimed: kc, V: "as-is"}}, "cpc", "keys")
		}
	}
	return out
}

// globalChecks run once (shard 0): reference self-check, digest collisions over ALL documents, informational probes.
func (e *c19Env) globalChecks() {
	if err := c19RefSelfCheck(); err != nil {
		fmt.Fprintln(os.Stderr, "C19 harness: reference derivation fails its published vectors:", err)
		os.Exit(2)
	}
	rs := e.rendered()
	byDigest := map[string]int{}
	nRendered, nRefused, nSameAcrossEnc := 0, 0, 0
	logicalDigest := map[string]string{}
	for i, r := range rs {
		if r.eip == nil {
			nRefused++
			continue
		}
		nRendered++
		dg := string(c19Keccak(r.eip))
		e.run.Count("evaluations", 1)
		if j, ok := byDigest[dg]; ok {
			if rs[j].logical != r.logical {
				fs, _ := e.evalCollide(c19CollideCase{A: e.docs[j].Doc, B: e.docs[i].Doc})
				for _, f := range fs {
					e.run.Fail(f)
				}
				if len(fs) == 0 {
					// The two documents collided in the enumeration pass but do not collide when rendered again: the rendering of
					// at least one of them changed between two evaluations in this process. The harness builds the documents from
					// fixed values, so the EIP-712 rendering is not a function of the sign document alone (hidden state in the
					// encoder) - which is what let the two different documents share a digest.
					da, _ := e.digestOf(e.docs[j].Doc)
					db, _ := e.digestOf(e.docs[i].Doc)
					e.run.Fail(ev.Finding{Clause: "eip712-rendering-is-a-function-of-the-document", Detail: fmt.Sprintf(
						"documents %s and %s (differ in %s) shared the typed-data hash %x in the enumeration pass; rendered again they give %x and %x: the rendering of one document depends on what was rendered before it",
						e.docs[j].Doc.id(), e.docs[i].Doc.id(), c19DiffDocs(e.docs[j].Doc, e.docs[i].Doc), []byte(dg), da, db),
						Replay: map[string]interface{}{"collision": c19CollideCase{A: e.docs[j].Doc, B: e.docs[i].Doc}, "history_dependent": true}})
				}
			} else {
				nSameAcrossEnc++
			}
			continue
		}
		byDigest[dg] = i
		if prev, ok := logicalDigest[r.logical]; ok && prev != dg {
			e.run.Outcome("digest:amino-and-proto-of-same-document-differ")
		}
		logicalDigest[r.logical] = dg
	}
	e.run.Count("documents_rendered", int64(nRendered))
	e.run.Count("documents_refused", int64(nRefused))
	e.run.Count("distinct_digests", int64(len(byDigest)))
	e.run.Count("amino_proto_pairs_with_equal_digest", int64(nSameAcrossEnc))
	if nRendered < 100 {
		e.run.Fail(ev.Finding{Clause: "alphabet-sanity", Detail: fmt.Sprintf("only %d documents rendered", nRendered), Replay: map[string]interface{}{}})
	}
	// informational: fields the property does not list
	base := e.fams[0].Base.clone()
	base.Enc = "proto"
	bd, ok := e.digestOf(base)
	if ok {
		for _, pr := range [][2]string{{"granter", e.addrs.B}, {"payer", e.addrs.B}, {"tip", "5"}, {"pubkey", "none"}, {"mode", "amino"}, {"timeout", "100"}} {
			d := base.set(pr[0], pr[1])
			dg, ok2 := e.digestOf(d)
			e.run.Count("evaluations", 1)
			cls := "refused"
			if ok2 {
				cls = "renders:different-digest"
				if string(dg) == string(bd) {
					cls = "renders:SAME-digest-as-base(field not bound by the EIP-712 rendering; not listed by the property)"
				}
			}
			e.run.Note("unlisted protobuf field %s=%s: %s", pr[0], pr[1], cls)
			e.run.Outcome("unlisted:" + pr[0] + ":" + strings.SplitN(cls, "(", 2)[0])
		}
		ab := e.fams[0].Base.clone()
		ab.Enc = "amino"
		for _, pr := range [][2]string{{"granter", e.addrs.B}, {"payer", e.addrs.B}, {"timeout", "100"}} {
			_, ok2 := e.digestOf(ab.set(pr[0], pr[1]))
			e.run.Count("evaluations", 1)
			e.run.Note("unlisted amino field %s: renders=%v", pr[0], ok2)
		}
	}
}
