package checks

// gethref: go-ethereum's own state transition (core.ApplyMessage) over go-ethereum's own state database
// (core/state on an in-memory rawdb), used as the reference side of the C02 differential check.
//
// The module that evermint's go.mod substitutes for go-ethereum (EscanBE/go-ethereum-for-evermint v1.10.28) still
// contains the unmodified core.ApplyMessage / core/state / core/rawdb; evermint itself uses neither (it has its own
// copy of the state transition in x/evm/keeper/state_transition_core.go and its own StateDB in x/evm/vm).
// The interpreter (core/vm) is shared by both sides, so a difference between the two sides isolates evermint's
// StateDB + its copy of the transition, which is what C02 is about.

import (
	"errors"
	"fmt"
	"math/big"
	"sort"

	"github.com/ethereum/go-ethereum/common"
	"github.com/ethereum/go-ethereum/core"
	"github.com/ethereum/go-ethereum/core/rawdb"
	"github.com/ethereum/go-ethereum/core/state"
	ethtypes "github.com/ethereum/go-ethereum/core/types"
	corevm "github.com/ethereum/go-ethereum/core/vm"
	ethparams "github.com/ethereum/go-ethereum/params"
)

// c02Acct is one account of a universe (pre-state) or of an observed post-state.
type c02Acct struct {
	Exists  bool
	Nonce   uint64
	Balance *big.Int
	Code    []byte
	Storage map[common.Hash]common.Hash // non-zero slots only
}

func (a c02Acct) String() string {
	if !a.Exists {
		return "absent"
	}
	var keys []string
	for k, v := range a.Storage {
		keys = append(keys, fmt.Sprintf("%s=%s", k.Big().String(), v.Big().String()))
	}
	sort.Strings(keys)
	return fmt.Sprintf("{nonce=%d bal=%s code=%x storage=%v}", a.Nonce, a.Balance, a.Code, keys)
}

// c02Equal compares two accounts as the property does: nonce, balance, code and storage (a total map, zero = unset);
// existence is reported separately (an absent account and an existing empty one have equal nonce/balance/code/storage).
func c02AcctDiff(a, b c02Acct) (content bool, existence bool) {
	an, bn := a.Nonce, b.Nonce
	ab, bb := a.Balance, b.Balance
	if ab == nil {
		ab = new(big.Int)
	}
	if bb == nil {
		bb = new(big.Int)
	}
	if an != bn || ab.Cmp(bb) != 0 || string(a.Code) != string(b.Code) {
		content = true
	}
	for k, v := range a.Storage {
		if v != (common.Hash{}) && b.Storage[k] != v {
			content = true
		}
	}
	for k, v := range b.Storage {
		if v != (common.Hash{}) && a.Storage[k] != v {
			content = true
		}
	}
	return content, a.Exists != b.Exists
}

// c02UAcct is an account of a universe with its address.
type c02UAcct struct {
	Addr common.Address
	c02Acct
}

// c02Log is the consensus content of a log.
type c02Log struct {
	Addr   common.Address
	Topics []common.Hash
	Data   []byte
}

// c02Outcome is what one side reports for one message.
type c02Outcome struct {
	CoreErr string // "" or class of the consensus-level error (message not applicable)
	VmErr   string // "" or the VM error string
	Ret     []byte
	GasUsed uint64
	Logs    []c02Log
	Panic   string
}

func (o c02Outcome) Class() string {
	switch {
	case o.Panic != "":
		return "panic"
	case o.CoreErr != "":
		return "core:" + o.CoreErr
	case o.VmErr != "":
		return "vm:" + o.VmErr
	}
	return "ok"
}

func (o c02Outcome) String() string {
	return fmt.Sprintf("{%s gas=%d ret=%x logs=%d%s}", o.Class(), o.GasUsed, o.Ret, len(o.Logs), func() string {
		if o.Panic != "" {
			return " panic=" + o.Panic
		}
		return ""
	}())
}

func c02OutcomeEqualExceptGas(a, b c02Outcome) bool {
	if a.Panic != b.Panic || a.CoreErr != b.CoreErr || a.VmErr != b.VmErr || string(a.Ret) != string(b.Ret) || len(a.Logs) != len(b.Logs) {
		return false
	}
	for i := range a.Logs {
		x, y := a.Logs[i], b.Logs[i]
		if x.Addr != y.Addr || string(x.Data) != string(y.Data) || len(x.Topics) != len(y.Topics) {
			return false
		}
		for j := range x.Topics {
			if x.Topics[j] != y.Topics[j] {
				return false
			}
		}
	}
	return true
}

func c02OutcomeEqual(a, b c02Outcome) bool {
	return a.GasUsed == b.GasUsed && c02OutcomeEqualExceptGas(a, b)
}

// c02CoreErrClass maps a consensus-level error of either transition to its class. Both transitions wrap the same
// sentinel errors of package core. The two "insufficient funds" sentinels form one class: go-ethereum's buyGas checks
// balance >= gas*feeCap + value before anything else, evermint's buyGas is disabled (the fee is pre-paid in the ante
// handler - the documented difference), so with a zero price the same condition (balance < value) surfaces as
// ErrInsufficientFunds on the reference side and as ErrInsufficientFundsForTransfer on evermint's.
func c02CoreErrClass(err error) string {
	if err == nil {
		return ""
	}
	for _, c := range []struct {
		e error
		n string
	}{
		{core.ErrNonceTooLow, "nonce-too-low"}, {core.ErrNonceTooHigh, "nonce-too-high"}, {core.ErrNonceMax, "nonce-max"},
		{core.ErrGasLimitReached, "gas-limit-reached"},
		{core.ErrInsufficientFundsForTransfer, "insufficient-funds"}, {core.ErrInsufficientFunds, "insufficient-funds"},
		{core.ErrGasUintOverflow, "gas-overflow"}, {core.ErrIntrinsicGas, "intrinsic-gas"},
		{core.ErrTipAboveFeeCap, "tip-above-cap"}, {core.ErrTipVeryHigh, "tip-very-high"}, {core.ErrFeeCapVeryHigh, "cap-very-high"},
		{core.ErrFeeCapTooLow, "cap-below-basefee"}, {core.ErrSenderNoEOA, "sender-not-eoa"},
	} {
		if errors.Is(err, c.e) {
			return c.n
		}
	}
	return "other:" + err.Error()
}

func c02Logs(in []*ethtypes.Log) []c02Log {
	var out []c02Log
	for _, l := range in {
		out = append(out, c02Log{Addr: l.Address, Topics: append([]common.Hash{}, l.Topics...), Data: append([]byte{}, l.Data...)})
	}
	return out
}

// gethRef is one reference state.
type gethRef struct {
	sdb      *state.StateDB
	cfg      *ethparams.ChainConfig
	blockCtx corevm.BlockContext
	nMsg     int
	// warm lists addresses added to the access list next to the active precompiles (empty for the faithful reference;
	// the defect-emulating variant puts address 0 here).
	warm []common.Address
}

// warmStateDB is go-ethereum's StateDB with extra addresses handed to PrepareAccessList as if they were precompiles.
type warmStateDB struct {
	*state.StateDB
	extra []common.Address
}

func (w warmStateDB) PrepareAccessList(sender common.Address, dest *common.Address, precompiles []common.Address, list ethtypes.AccessList) {
	w.StateDB.PrepareAccessList(sender, dest, append(append([]common.Address{}, precompiles...), w.extra...), list)
}

// newGethRef loads the universe into a fresh in-memory go-ethereum state, commits it (so that "committed state"
// exists for the SSTORE gas rules) and re-opens the state at the committed root.
func newGethRef(u []c02UAcct, cfg *ethparams.ChainConfig, blockCtx corevm.BlockContext, warm []common.Address) *gethRef {
	db := state.NewDatabase(rawdb.NewMemoryDatabase())
	sdb, err := state.New(common.Hash{}, db, nil)
	if err != nil {
		panic(err)
	}
	for _, a := range u {
		if !a.Exists {
			continue
		}
		sdb.CreateAccount(a.Addr)
		sdb.SetNonce(a.Addr, a.Nonce)
		if a.Balance != nil {
			sdb.SetBalance(a.Addr, a.Balance)
		}
		if len(a.Code) > 0 {
			sdb.SetCode(a.Addr, a.Code)
		}
		for k, v := range a.Storage {
			sdb.SetState(a.Addr, k, v)
		}
	}
	root, err := sdb.Commit(false) // false: an existing empty account of the universe stays in the trie
	if err != nil {
		panic(err)
	}
	sdb, err = state.New(root, db, nil)
	if err != nil {
		panic(err)
	}
	return &gethRef{sdb: sdb, cfg: cfg, blockCtx: blockCtx, warm: warm}
}

// Apply runs go-ethereum's state transition for msg; like a block processor it finalises the state afterwards
// (EIP-158 deletions, self-destructs) and, like the miner, rolls the state back when the message is not applicable.
func (g *gethRef) Apply(msg core.Message) (out c02Outcome) {
	defer func() {
		if r := recover(); r != nil {
			out.Panic = fmt.Sprint(r)
		}
	}()
	g.nMsg++
	thash := common.BigToHash(big.NewInt(int64(g.nMsg)))
	g.sdb.Prepare(thash, g.nMsg-1)
	var sdb corevm.StateDB = g.sdb
	if len(g.warm) > 0 {
		sdb = warmStateDB{StateDB: g.sdb, extra: g.warm}
	}
	evm := corevm.NewEVM(g.blockCtx, core.NewEVMTxContext(msg), sdb, g.cfg, corevm.Config{})
	snap := g.sdb.Snapshot()
	res, err := core.ApplyMessage(evm, msg, new(core.GasPool).AddGas(msg.Gas()))
	if err != nil {
		g.sdb.RevertToSnapshot(snap)
		g.sdb.Finalise(true)
		out.CoreErr = c02CoreErrClass(err)
		return out
	}
	out.Ret = append([]byte{}, res.ReturnData...)
	out.GasUsed = res.UsedGas
	if res.Err != nil {
		out.VmErr = res.Err.Error()
	}
	out.Logs = c02Logs(g.sdb.GetLogs(thash, common.Hash{}))
	g.sdb.Finalise(true)
	return out
}

// Account reads one account of the reference state (after Finalise); keys are the storage keys to report.
func (g *gethRef) Account(addr common.Address, keys []common.Hash) c02Acct {
	a := c02Acct{Exists: g.sdb.Exist(addr), Storage: map[common.Hash]common.Hash{}}
	if !a.Exists {
		a.Balance = new(big.Int)
		return a
	}
	a.Nonce = g.sdb.GetNonce(addr)
	a.Balance = new(big.Int).Set(g.sdb.GetBalance(addr))
	a.Code = append([]byte{}, g.sdb.GetCode(addr)...)
	for _, k := range keys {
		if v := g.sdb.GetState(addr, k); v != (common.Hash{}) {
			a.Storage[k] = v
		}
	}
	return a
}
