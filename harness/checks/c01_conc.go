package checks

// Concurrent-request pass of C01 ("the outcome never depends on goroutine scheduling").
//
// A node serves gRPC / JSON-RPC requests (eth_call, estimateGas, CheckTx of the mempool connection) on other goroutines
// while FinalizeBlock runs. Block execution itself starts no goroutine (every `go` statement of consensus code is reported
// by the spawn hook), so the only schedule-dependence left is interference through memory shared between the request
// path and block execution: package-level variables, caches kept in keepers, slices with spare capacity.
//
// The files that set up and execute one EVM message are instrumented with a point before every statement (instr -points);
// the pass enumerates, for every history of a small set, every request of a small alphabet and every point P that
// FinalizeBlock of every block passes through, the execution in which the request is served completely at P (one preemption
// of the block thread, none of the request thread), and demands the block results and app hash of the undisturbed run.
// The order in which the go-ethereum fork iterates its map of custom precompiled contracts is owned as well (three orders).

import (
	"context"
	"encoding/json"
	"fmt"
	"os"
	"strings"

	abci "github.com/cometbft/cometbft/abci/types"

	evmtypes "github.com/EscanBE/evermint/v12/x/evm/types"

	"verif/harness/ev"
	"verif/harness/world"
)

const c01ForkMapSite = "map:go-ethereum/core/vm/evm_evermint.go:15"

// c01Conc places one request inside FinalizeBlock of block Block (index into the history) at the At-th point (1-based).
type c01Conc struct {
	Req   int `json:"req"`
	Block int `json:"block"`
	At    int `json:"at"`
}

var c01ReqNames = []string{"", "eth_call(probe)@latest", "eth_call(probe)@latest-1", "estimateGas(sstore)@latest", "eth_call(suicide)@latest-1", "CheckTx(transfer)", "eth_call(sclear)@latest"}

// c01Request serves one request through the entry points a node uses for it (BaseApp.Query / BaseApp.CheckTx).
func c01Request(w *world.World, which int) {
	defer func() { _ = recover() }()
	query := func(path string, height int64, args map[string]interface{}) {
		bzArgs, _ := json.Marshal(args)
		req := &evmtypes.EthCallRequest{Args: bzArgs, GasCap: 1_000_000}
		bz, _ := req.Marshal()
		_, _ = w.App.Query(context.Background(), &abci.RequestQuery{Path: path, Data: bz, Height: height})
	}
	from := w.Wallets[3].Eth().Hex()
	older := w.Height - 1
	if older < 1 {
		older = 1
	}
	switch which {
	case 1:
		query("/ethermint.evm.v1.Query/EthCall", 0, map[string]interface{}{"from": from, "to": c01AddrProbe.Hex(), "gas": "0x30d40", "data": "0x" + fmt.Sprintf("%x", c01ProbeData(w))})
	case 2:
		query("/ethermint.evm.v1.Query/EthCall", older, map[string]interface{}{"from": from, "to": c01AddrProbe.Hex(), "gas": "0x30d40", "data": "0x" + fmt.Sprintf("%x", c01ProbeData(w))})
	case 3:
		query("/ethermint.evm.v1.Query/EstimateGas", 0, map[string]interface{}{"from": from, "to": AddrSstore.Hex()})
	case 4:
		query("/ethermint.evm.v1.Query/EthCall", older, map[string]interface{}{"from": from, "to": AddrSuicide.Hex(), "gas": "0x30d40"})
	case 6: // reads and writes the storage of another contract than any tx of the histories (a storage key prefix built for another address)
		query("/ethermint.evm.v1.Query/EthCall", 0, map[string]interface{}{"from": from, "to": AddrSclear.Hex(), "gas": "0x30d40"})
	case 5:
		base := w.App.FeeMarketKeeper.GetBaseFee(w.Ctx()).BigInt()
		tx := BuildTx(w, TxSpec{Kind: KTransfer, Sender: 3, Nonce: w.Nonce(w.Ctx(), w.Wallets[3].Eth())}, base)
		_, _ = w.App.CheckTx(&abci.RequestCheckTx{Tx: tx, Type: abci.CheckTxType_New})
	}
}

func c01ConcHistories(thorough bool) []c01Case {
	h := []c01Case{
		{Blocks: [][]c01Kind{{"probe-cpcs"}}},
		{Blocks: [][]c01Kind{{"cpc-deploy-utwo"}, {"probe-cpcs"}}},
		{Blocks: [][]c01Kind{{"cpc-deploy-utwo", "probe-cpcs"}}},
		{Blocks: [][]c01Kind{{"sstore"}}},
		{Blocks: [][]c01Kind{{"create-ok"}}},
	}
	if thorough {
		h = append(h,
			c01Case{Blocks: [][]c01Kind{{"cpc-deploy-utwo"}, {"erc20-utwo-transfer"}}},
			c01Case{Blocks: [][]c01Kind{{"staking-transfer"}}},
			c01Case{Blocks: [][]c01Kind{{"erc20-transfer"}}},
			c01Case{Blocks: [][]c01Kind{{"double-suicide"}}},
			c01Case{Blocks: [][]c01Kind{{"log-revert", "transfer"}}},
			c01Case{Blocks: [][]c01Kind{{"cosmos-send"}}},
		)
	}
	return h
}

// c01ConcUnit is one (history, fork-map order, request) cell; the placements inside it are enumerated by the worker.
type c01ConcUnit struct {
	Case  c01Case
	Order int
	Req   int
}

func c01ConcUnits(thorough bool) []c01ConcUnit {
	var out []c01ConcUnit
	for hi, c := range c01ConcHistories(thorough) {
		probe := strings.Contains(c.String(), "probe-cpcs")
		orders, reqs := []int{0}, []int{2, 3, 5}
		if probe {
			orders = []int{0, 2} // the order of the fork's precompile map matters only where the access list is observable
		}
		if thorough {
			reqs = []int{1, 2, 3, 4, 5, 6}
			if probe {
				orders = []int{0, 1, 2}
			}
		} else if !probe {
			reqs = []int{2, 6}
		}
		_ = hi
		for _, o := range orders {
			for _, r := range reqs {
				out = append(out, c01ConcUnit{Case: c, Order: o, Req: r})
			}
		}
	}
	return out
}

// c01ConcCheck enumerates every placement of the unit's request; returns executions and placements.
// Placements are dealt round-robin to the n worker processes (every worker runs the undisturbed reference itself).
func c01ConcCheck(run *ev.Run, u c01ConcUnit, everyHit bool, shard, nShards int) (execs, placements int) {
	p := c01Policy{}
	if u.Order != 0 {
		p[c01ForkMapSite] = u.Order
	}
	ref, hits, _, points := c01ExecConc(u.Case, p, nil)
	execs++
	if _, owned := hits[c01ForkMapSite]; !owned && u.Order != 0 {
		// the fork's map iteration is not owned in this build (build_vcheck_i.sh said why): the order dimension is void
		run.Coverage["exhaustive"] = false
		if shard == 0 {
			run.Note("fork map-iteration site not owned: order %d of history %s not explored", u.Order, u.Case)
		}
		return execs, 0
	}
	total := 0
	for _, sites := range points {
		total += len(sites)
	}
	if total == 0 {
		fmt.Fprintln(os.Stderr, "HARNESS: no statement-level point was hit — C01 must run in the binary built with the consensus overlay (vcheck-i, instr -points)")
		os.Exit(2)
	}
	idx := 0
	for b, sites := range points {
		n := len(sites)
		seen := map[string]bool{}
		for at := 1; at <= n; at++ {
			if !everyHit {
				// quick tier: the first dynamic hit of every statement
				if seen[sites[at-1]] {
					continue
				}
				seen[sites[at-1]] = true
			}
			idx++
			if idx%nShards != shard {
				continue
			}
			run.Distinct("point:" + sites[at-1])
			conc := c01Conc{Req: u.Req, Block: b, At: at}
			got, _, _, pts2 := c01ExecConc(u.Case, p, &conc)
			execs++
			placements++
			if strings.Join(got, "|") != strings.Join(ref, "|") {
				run.Distinct("conc-diff:" + u.Case.String() + "|" + p.String() + fmt.Sprintf("|%d", u.Req))
				run.Fail(ev.Finding{Clause: "independent-of-concurrently-served-requests",
					Detail: fmt.Sprintf("history %s, environment {%s}: request %s served while FinalizeBlock of block %d is at point %d of %d: %s", u.Case, p, c01ReqNames[u.Req], b, at, n, c01Diff(ref, got)),
					Replay: c01Replay{Case: u.Case, Policy: p, Conc: &conc}})
			}
			if len(pts2) > b && len(pts2[b]) != n && strings.Join(got, "|") == strings.Join(ref, "|") {
				// the block took another path through the instrumented files although its results are the same: still schedule dependence
				// of the execution, but not of the outcome — counted, not judged
				run.Count("placements_with_different_path_same_outcome", 1)
			}
		}
	}
	return execs, placements
}
