package checks

// C15 — the time dimension of the vesting targets.
//
// Every time field of every vesting account type is enumerated over boundary values:
//   - EndTime (all kinds): around the block time of the executing block, ordinary past / future dates, and the boundaries
//     of every representation a unix-seconds int64 is commonly converted into: time.Time's internal seconds counter
//     (unix + 62135596800, wraps for EndTime > MaxInt64 − 62135596800), nanoseconds / microseconds / milliseconds in an
//     int64 (MaxInt64/1e9, /1e6, /1e3), int32 / uint32 seconds, the last second of year 9999 (protobuf Timestamp, RFC 3339),
//     MaxInt64 itself;
//   - StartTime (continuous, periodic): around the block time, 0, 1, −1, one second before the end, equal to the end;
//   - period lengths (periodic): 1 + rest, rest + 1, zero-length first period, four equal periods, a period boundary
//     exactly one second before / at / one second after the block time, lengths whose running sum wraps around the int64
//     range but lands on the declared end time ("wrap"), lengths whose sum overflows ("over").
//
// Reachability is decided by the SDK itself: the account is built with the x/auth/vesting constructor, which runs the
// account's Validate() — the function auth's ValidateGenesis applies to every genesis account. What the SDK rejects is
// unreachable and is skipped with a counted reason. A schedule on which the SDK's own LockedCoins / GetVestingCoins panics
// at the block time has no reference value and is skipped with its own counted reason.
//
// Nothing in this file (or in the oracle) converts an end time into a time.Time: end times are int64 unix seconds, compared as
// x/auth/vesting and x/bank compare them.

import (
	"fmt"
	"math"
	"regexp"
	"strings"
	"time"

	sdk "github.com/cosmos/cosmos-sdk/types"
	authtypes "github.com/cosmos/cosmos-sdk/x/auth/types"
	vestexported "github.com/cosmos/cosmos-sdk/x/auth/vesting/exported"
	vestingtypes "github.com/cosmos/cosmos-sdk/x/auth/vesting/types"
)

const (
	// c15UnixToInternal is the offset time.Unix adds to its argument (seconds between year 1 and 1970).
	c15UnixToInternal int64 = 62135596800
	// c15Wrap is the largest unix time time.Unix represents without wrapping its internal counter.
	c15Wrap int64 = math.MaxInt64 - c15UnixToInternal
	// c15Year9999 is 9999-12-31T23:59:59Z, the largest protobuf Timestamp / RFC 3339 second.
	c15Year9999 int64 = 253402300799
)

// end-time labels, simplest first; the two controls come first. "2200" is the far but ordinary future.
var c15EndsQuick = []string{"1990", "2200", "T-1s", "T", "T+1s", "2010", "2090",
	"W-1", "W", "W+1", "MAX-1", "MAX", "NS+1", "Y9999+1"}
var c15EndsThorough = []string{"1990", "2200", "T-1s", "T", "T+1s", "2010", "2090",
	"W-1", "W", "W+1", "MAX-1", "MAX", "NS+1", "Y9999+1",
	"T-1h", "T+1h", "T-1y", "T+1y", "0", "1", "I32", "I32+1", "U32", "U32+1", "Y9999", "NS", "US", "US+1", "MS", "MS+1"}

const (
	c15CtlPast   = "1990"
	c15CtlFuture = "2200"
)

// c15EndUnix is the end time (unix seconds) a label stands for in the world of the given clock placement.
func c15EndUnix(clock, label string) int64 {
	t := c15ExecTime(clock)
	date := func(y int) int64 { return time.Date(y, 1, 1, 0, 0, 0, 0, time.UTC).Unix() }
	switch label {
	case "1990":
		return date(1990)
	case "2010":
		return date(2010)
	case "2090":
		return date(2090)
	case "2200":
		return date(2200)
	case "T-1s":
		return t.Unix() - 1
	case "T":
		return t.Unix()
	case "T+1s":
		return t.Unix() + 1
	case "T-1h":
		return t.Unix() - 3600
	case "T+1h":
		return t.Unix() + 3600
	case "T-1y":
		return t.AddDate(-1, 0, 0).Unix()
	case "T+1y":
		return t.AddDate(1, 0, 0).Unix()
	case "0":
		return 0
	case "1":
		return 1
	case "I32":
		return math.MaxInt32
	case "I32+1":
		return math.MaxInt32 + 1
	case "U32":
		return math.MaxUint32
	case "U32+1":
		return math.MaxUint32 + 1
	case "Y9999":
		return c15Year9999
	case "Y9999+1":
		return c15Year9999 + 1
	case "NS":
		return math.MaxInt64 / 1_000_000_000
	case "NS+1":
		return math.MaxInt64/1_000_000_000 + 1
	case "US":
		return math.MaxInt64 / 1_000_000
	case "US+1":
		return math.MaxInt64/1_000_000 + 1
	case "MS":
		return math.MaxInt64 / 1000
	case "MS+1":
		return math.MaxInt64/1000 + 1
	case "W-1":
		return c15Wrap - 1
	case "W":
		return c15Wrap
	case "W+1":
		return c15Wrap + 1
	case "MAX-1":
		return math.MaxInt64 - 1
	case "MAX":
		return math.MaxInt64
	}
	panic("end " + label)
}

// schedule shapes ("" = start 1980-01-01, two periods of equal length)
var c15StartShapesQuick = []string{"s=T-1s", "s=T", "s=T+1s", "s=E-1", "s=0", "s=1"}
var c15StartShapesThorough = []string{"s=T-1s", "s=T", "s=T+1s", "s=E-1", "s=0", "s=1", "s=-1", "s=E"}
var c15PeriodShapes = []string{"p=1+rest", "p=rest+1", "p=0+rest", "p=x4", "p=@T-1s", "p=@T", "p=@T+1s", "p=wrap", "p=over"}

// end labels the shapes are crossed with: in the quick tier under one clock placement only, in the thorough tier under both
var c15ShapeEndsQuick = []string{"T+1s", "MAX"}
var c15ShapeEndsThorough = []string{"1990", "2200", "T-1s", "T", "T+1s", "W", "W+1", "MAX"}

const c15ShapeClockQuick = "2100"

func c15Shapes(family string, thorough bool) []string {
	var out []string
	if family != "vest-continuous" && family != "vest-periodic" {
		return nil
	}
	if thorough {
		out = append(out, c15StartShapesThorough...)
	} else {
		out = append(out, c15StartShapesQuick...)
	}
	if family == "vest-periodic" {
		out = append(out, c15PeriodShapes...)
	}
	return out
}

// c15SchedLabels lists the "end" / "end~shape" labels of a timed family, the two controls first.
func c15SchedLabels(family string, thorough bool, clock string) []string {
	ends, shapeEnds := c15EndsQuick, c15ShapeEndsQuick
	if thorough {
		ends, shapeEnds = c15EndsThorough, c15ShapeEndsThorough
	}
	out := append([]string{}, ends...)
	if !thorough && clock != c15ShapeClockQuick {
		return out
	}
	for _, s := range c15Shapes(family, thorough) {
		for _, e := range shapeEnds {
			if s == "p=over" && e != "MAX" {
				continue // the shape does not depend on the end label
			}
			out = append(out, e+"~"+s)
		}
	}
	return out
}

func c15SplitSched(label string) (end, shape string) {
	if i := strings.IndexByte(label, '~'); i >= 0 {
		return label[:i], label[i+1:]
	}
	return label, ""
}

func (t c15Target) sched() string {
	if t.Shape != "" {
		return t.End + "~" + t.Shape
	}
	return t.End
}

// c15Schedule computes start time and period lengths of a timed target. ok=false: the shape cannot be written down for this end
// time at all (it would need a negative number where the shape says "the rest"); such a schedule is handed to the SDK as it is
// and the SDK rejects it.
func c15Schedule(t c15Target, clock string) (start int64, lengths []int64, end int64) {
	T := c15ExecTime(clock).Unix()
	end = c15EndUnix(clock, t.End)
	start = c15VestStart.Unix()
	switch t.Shape {
	case "s=T-1s":
		start = T - 1
	case "s=T":
		start = T
	case "s=T+1s":
		start = T + 1
	case "s=E-1":
		start = end - 1
	case "s=E":
		start = end
	case "s=0":
		start = 0
	case "s=1":
		start = 1
	case "s=-1":
		start = -1
	}
	total := end - start // may wrap for s=-1 / huge ends: the SDK decides
	switch t.Shape {
	case "p=1+rest":
		lengths = []int64{1, total - 1}
	case "p=rest+1":
		lengths = []int64{total - 1, 1}
	case "p=0+rest":
		lengths = []int64{0, total}
	case "p=x4":
		q := total / 4
		lengths = []int64{q, q, q, total - 3*q}
	case "p=@T-1s":
		lengths = []int64{T - 1 - start, end - (T - 1)}
	case "p=@T":
		lengths = []int64{T - start, end - T}
	case "p=@T+1s":
		lengths = []int64{T + 1 - start, end - (T + 1)}
	case "p=wrap":
		// MaxInt64 + MaxInt64 + 2 = 2^64: the running sum wraps around once and lands on the declared end
		lengths = []int64{math.MaxInt64, math.MaxInt64, 2, total}
	case "p=over":
		lengths = []int64{math.MaxInt64, 1}
	default:
		lengths = []int64{total / 2, total - total/2}
	}
	return start, lengths, end
}

var c15Digits = regexp.MustCompile(`-?[0-9]+`)

// c15BuildVesting builds the genesis account of a vesting target with the SDK's constructors. skip != "" = unreachable (the SDK
// rejects the account) or without a reference value (the SDK's own schedule arithmetic panics at the block time).
func c15BuildVesting(t c15Target, clock string) (acc authtypes.GenesisAccount, skip string) {
	base := authtypes.NewBaseAccount(t.acct().Acc(), nil, 0, 0)
	var err error
	func() {
		defer func() {
			if r := recover(); r != nil {
				skip = "sdk-constructor-panics: " + c15Digits.ReplaceAllString(c15FirstLine(fmt.Sprint(r)), "N")
			}
		}()
		switch t.Family {
		case "vest-permanent":
			acc, err = vestingtypes.NewPermanentLockedAccount(base, c15OriginalVest)
		case "vest-delayed":
			acc, err = vestingtypes.NewDelayedVestingAccount(base, c15OriginalVest, c15EndUnix(clock, t.End))
		case "vest-continuous":
			start, _, end := c15Schedule(t, clock)
			acc, err = vestingtypes.NewContinuousVestingAccount(base, c15OriginalVest, start, end)
		case "vest-periodic":
			start, lengths, end := c15Schedule(t, clock)
			var periods vestingtypes.Periods
			n := int64(len(lengths))
			for _, l := range lengths {
				amt := sdk.NewCoins()
				for _, c := range c15OriginalVest {
					amt = amt.Add(sdk.NewCoin(c.Denom, c.Amount.QuoRaw(n)))
				}
				periods = append(periods, vestingtypes.Period{Length: l, Amount: amt})
			}
			var pva *vestingtypes.PeriodicVestingAccount
			pva, err = vestingtypes.NewPeriodicVestingAccount(base, c15OriginalVest, start, periods)
			acc = pva
			if err == nil && pva.EndTime != end {
				// the constructor derives the end from the periods: a shape that does not add up to the labelled end is a different case
				err = fmt.Errorf("harness: periods end at %d, label says %d", pva.EndTime, end)
			}
		default:
			panic("family " + t.Family)
		}
	}()
	if skip != "" {
		return nil, skip
	}
	if err != nil {
		return nil, "sdk-rejects-account: " + c15Digits.ReplaceAllString(err.Error(), "N")
	}
	if t.Variant == "delegated" {
		// the account record as it stands after everything was delegated: no balance, all of the original vesting delegated
		switch a := acc.(type) {
		case *vestingtypes.PermanentLockedAccount:
			a.DelegatedVesting = c15OriginalVest
		case *vestingtypes.DelayedVestingAccount:
			a.DelegatedVesting = c15OriginalVest
		case *vestingtypes.ContinuousVestingAccount:
			a.DelegatedVesting = c15OriginalVest
		case *vestingtypes.PeriodicVestingAccount:
			a.DelegatedVesting = c15OriginalVest
		}
		if err := acc.Validate(); err != nil {
			return nil, "sdk-rejects-account: " + c15Digits.ReplaceAllString(err.Error(), "N")
		}
	}
	// the reference (the SDK's schedule at the block time) must be defined
	func() {
		defer func() {
			if r := recover(); r != nil {
				skip = "sdk-schedule-panics-at-block-time: " + c15Digits.ReplaceAllString(c15FirstLine(fmt.Sprint(r)), "N")
			}
		}()
		va := acc.(vestexported.VestingAccount)
		T := c15ExecTime(clock)
		_ = va.LockedCoins(T)
		_ = va.GetVestingCoins(T)
		_ = va.GetVestedCoins(T)
	}()
	if skip != "" {
		return nil, skip
	}
	return acc, ""
}
