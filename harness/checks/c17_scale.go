package checks

import (
	"crypto/sha256"
	"fmt"
	"os"
	"sort"

	sdk "github.com/cosmos/cosmos-sdk/types"
	"github.com/ethereum/go-ethereum/common"

	cpctypes "github.com/EscanBE/evermint/v12/x/cpc/types"

	"verif/harness/ev"
)

// Scale dimension of C17: registries with many registered contracts.
//
// One world (all three kinds of contract deployed at genesis, the deployer whitelisted at genesis, one bank denomination
// with genesis supply per future contract) is grown on a single branch of the committed state by DeployErc20Contract
// messages through the real message server, one distinct denomination / name / symbol per message, exactly as the
// successful transactions of one block would. Dynamic addresses are keccak-derived, so the address order of the registry
// is a pseudo-random permutation of the deployment order and the fixed addresses (0xcc01…, 0xcc02…) sit in the middle of it.
//
//   - growth: after EVERY deployment (every registry size from the genesis size to the maximum) the newest contract, the
//     first and the last one in address order must answer name() with the name in their own stored record in deliver and
//     EthCall modes (a new contract must never push an old one out, whatever its place in address order);
//   - milestones: when the registry reaches one of the stated sizes, every disabled-pattern of the alphabet is applied on a
//     branch (SetCustomPrecompiledContractMeta, the upgrade-handler operation) and the complete invariants + exposure
//     oracle of the small-state search run in that state: every registered contract (or the stated positions of the
//     address order when the registry is too big for the tier) and its unregistered successor address, in all six modes.
//
// The reference is what the KV store of that state holds (c17World.storedMetas), never the keeper's listing.

type c17Scale struct {
	N       int    `json:"registered_contracts"`
	Pattern string `json:"disabled_pattern"`
}

// c17ScaleBoundaries are registry positions (1-based, in address order) around which disabled/enabled contracts are
// placed and which are always probed: page sizes and powers of two that a listing, a cache or a fixed table could have.
var c17ScaleBoundaries = []int{10, 16, 32, 50, 64, 100, 128, 200, 256, 500, 512, 1000, 1024}

var c17ScalePatterns = []string{"none", "boundary-th-disabled", "after-boundary-disabled", "odd-disabled", "only-edges-enabled"}

func c17ScaleDenom(i int) string { return fmt.Sprintf("usc%04d", i) }

func c17ScaleDenoms(n int) []string {
	var ds []string
	for i := 0; i < n; i++ {
		ds = append(ds, c17ScaleDenom(i))
	}
	return ds
}

// c17ScaleDisabled tells which positions (0-based, address order) of an n-contract registry a pattern disables.
func c17ScaleDisabled(pattern string, n int) map[int]bool {
	d := map[int]bool{}
	edges := map[int]bool{0: true, n - 1: true}
	for _, b := range c17ScaleBoundaries {
		if b < n {
			edges[b-1], edges[b] = true, true
		}
	}
	switch pattern {
	case "none":
	case "boundary-th-disabled": // the b-th contract is disabled, the (b+1)-th is not; so is the last one
		for _, b := range c17ScaleBoundaries {
			if b <= n {
				d[b-1] = true
			}
		}
		d[n-1] = true
	case "after-boundary-disabled": // the (b+1)-th contract is disabled, the b-th is not; so is the first one
		for _, b := range c17ScaleBoundaries {
			if b < n {
				d[b] = true
			}
		}
		d[0] = true
	case "odd-disabled":
		for i := 1; i < n; i += 2 {
			d[i] = true
		}
	case "only-edges-enabled":
		for i := 0; i < n; i++ {
			if !edges[i] {
				d[i] = true
			}
		}
	default:
		panic("pattern " + pattern)
	}
	return d
}

// c17ScaleProbed are the positions whose exposure is evaluated when not every contract can be: first, last, and three on
// each side of every boundary.
func c17ScaleProbed(n int) map[int]bool {
	s := map[int]bool{0: true, 1: true, n - 2: true, n - 1: true}
	for _, b := range c17ScaleBoundaries {
		for i := b - 3; i <= b+2; i++ {
			if i >= 0 && i < n {
				s[i] = true
			}
		}
	}
	return s
}

// c17ScaleTask is one piece of scale work: either the growth probes up to size N, or the evaluation of the state
// (N, Pattern). A bundle of tasks is executed by one shard on one growth chain.
type c17ScaleTask struct {
	Growth  bool
	N       int
	Pattern string
	All     bool // probe every registered contract (else the positions of c17ScaleProbed)
}

// c17ScalePlan lists the bundles (at most 8: one per shard next to the 8 worlds of the small-state search).
func c17ScalePlan(thorough bool) [][]c17ScaleTask {
	states := func(n int, all bool, patterns ...string) (ts []c17ScaleTask) {
		if len(patterns) == 0 {
			patterns = c17ScalePatterns
		}
		for _, p := range patterns {
			ts = append(ts, c17ScaleTask{N: n, Pattern: p, All: all})
		}
		return ts
	}
	join := func(tss ...[]c17ScaleTask) (out []c17ScaleTask) {
		for _, ts := range tss {
			out = append(out, ts...)
		}
		return out
	}
	P := c17ScalePatterns
	// bundles in ascending size: the findings of the smallest failing registry are the ones reported first
	if thorough {
		return [][]c17ScaleTask{
			join(states(17, true), states(64, true), states(65, true), states(99, true), states(100, true), states(101, true), states(129, true)),
			join([]c17ScaleTask{{Growth: true, N: 1025}}, states(257, true)),
			states(513, true),
			states(1025, true, P[0]),
			states(1025, true, P[1]),
			states(1025, true, P[2]),
			states(1025, true, P[3]),
			states(1025, true, P[4]),
		}
	}
	return [][]c17ScaleTask{
		join(states(17, true), states(99, true)),
		states(100, true),
		join([]c17ScaleTask{{Growth: true, N: 257}}, states(101, true)),
		states(129, true),
		states(257, true, P[0], P[1]),
		states(257, true, P[2], P[3]),
		states(257, true, P[4]),
	}
}

// c17ScaleSizes lists the registry sizes whose states the plan evaluates.
func c17ScaleSizes(plan [][]c17ScaleTask) []int {
	seen := map[int]bool{}
	var out []int
	for _, b := range plan {
		for _, t := range b {
			if !t.Growth && !seen[t.N] {
				seen[t.N] = true
				out = append(out, t.N)
			}
		}
	}
	sort.Ints(out)
	return out
}

func c17ScaleRule(plan [][]c17ScaleTask) string {
	growth := 0
	all := true
	for _, b := range plan {
		for _, t := range b {
			if t.Growth && t.N > growth {
				growth = t.N
			}
			if !t.Growth && !t.All {
				all = false
			}
		}
	}
	which := "every registered contract and its unregistered successor address"
	if !all {
		which = "the first two, the last two and the contracts three on each side of every boundary position (address order), and their unregistered successor addresses"
	}
	return fmt.Sprintf("scale pass: one registry (three kinds of contract at genesis) grown by DeployErc20Contract messages with distinct denominations / names; at every size up to %d the newest, the first and the last contract in address order must answer name() with their stored name in deliver and EthCall modes; at the sizes %v × the disabled-patterns %v (boundary positions %v, 1-based in address order) the complete registry invariants and the exposure oracle (%s, six modes, the answer of an enabled ERC-20 / staking contract must be the name in its own stored record) are evaluated", growth, c17ScaleSizes(plan), c17ScalePatterns, c17ScaleBoundaries, which)
}

func c17ScaleCase(n int, pattern string) c17Case {
	return c17Case{Erc20: true, Staking: true, WlGen: true, Scale: &c17Scale{N: n, Pattern: pattern}}
}

// c17Grow deploys ERC-20 precompiles on ctx (in place) until the store holds n registrations; at every size reached
// (including the initial one) it calls at(size). A refused deployment is reported by the returned error.
func (cw *c17World) grow(ctx sdk.Context, n int, at func(size int, newest *common.Address)) error {
	size := len(cw.metas(ctx))
	at(size, nil)
	for i := 0; size < n; i++ {
		msg := &cpctypes.MsgDeployErc20ContractRequest{Authority: cw.auth("W"), Name: fmt.Sprintf("Tok%04d", i), Symbol: fmt.Sprintf("S%d", i), Decimals: uint32(1 + i%18), MinDenom: c17ScaleDenom(i)}
		if err := msg.ValidateBasic(); err != nil {
			return fmt.Errorf("deployment %d: %v", i, err)
		}
		res, err := cw.ms.DeployErc20Contract(ctx, msg)
		if err != nil {
			return fmt.Errorf("deployment %d: %v", i, err)
		}
		if got := len(cw.metas(ctx)); got != size+1 {
			return fmt.Errorf("deployment %d accepted, the store holds %d registrations instead of %d", i, got, size+1)
		}
		size++
		a := common.HexToAddress(res.ContractAddress)
		at(size, &a)
	}
	return nil
}

// applyPattern disables the contracts a pattern names, on a branch of ctx.
func (cw *c17World) applyPattern(ctx sdk.Context, pattern string) (sdk.Context, error) {
	b, _ := ctx.CacheContext()
	ms := cw.metas(ctx)
	dis := c17ScaleDisabled(pattern, len(ms))
	var idx []int
	for i := range dis {
		idx = append(idx, i)
	}
	sort.Ints(idx)
	for _, i := range idx {
		m := ms[i]
		m.Disabled = true
		if err := cw.w.App.CPCKeeper.SetCustomPrecompiledContractMeta(b, m, false); err != nil {
			return b, fmt.Errorf("disable #%d %x: %v", i, m.Address, err)
		}
	}
	return b, nil
}

// growthProbe: the newest, the first and the last contract (address order) answer with their own record.
func (cw *c17World) growthProbe(ctx sdk.Context, newest *common.Address) (bad []string, probes int) {
	ms := cw.metas(ctx)
	targets := map[common.Address]cpctypes.CustomPrecompiledContractMeta{}
	for _, i := range []int{0, len(ms) - 1} {
		targets[common.BytesToAddress(ms[i].Address)] = ms[i]
	}
	if newest != nil {
		found := false
		for _, m := range ms {
			if common.BytesToAddress(m.Address) == *newest {
				targets[*newest], found = m, true
			}
		}
		if !found {
			bad = append(bad, fmt.Sprintf("the store has no record for the address %s the deployment returned", newest.Hex()))
		}
	}
	var as []common.Address
	for a := range targets {
		as = append(as, a)
	}
	sort.Slice(as, func(i, j int) bool { return as[i].Hex() < as[j].Hex() })
	for _, a := range as {
		m := targets[a]
		for _, mode := range []string{"deliver", "ethcall"} {
			ret, err := cw.probe(ctx, mode, a, viewData(m.CustomPrecompiledType))
			probes++
			want := []byte(nil)
			if m.CustomPrecompiledType != cpctypes.CpcTypeBech32 {
				want = abiString(m.Name)
			}
			if len(ret) == 0 || (want != nil && string(ret) != string(want)) {
				bad = append(bad, fmt.Sprintf("%s (registered, enabled, %d contracts registered) in %s mode: answer=%x err=%v, its stored record says name %q", a.Hex(), len(ms), mode, ret, err, m.Name))
			}
		}
	}
	return bad, probes
}

// c17ScaleEval evaluates one (size, pattern) state reached on ctx (which holds the all-enabled registry of that size).
func (cw *c17World) scaleEval(ctx sdk.Context, pattern string, all bool, only map[int]bool) (bad []struct{ clause, sig, detail string }, digest [32]byte) {
	h := sha256.New()
	prev := cw.obs
	cw.obs = func(class string) {
		h.Write([]byte(class + ";"))
		if prev != nil {
			prev(class)
		}
	}
	defer func() { cw.obs = prev }()
	b, err := cw.applyPattern(ctx, pattern)
	if err != nil {
		return []struct{ clause, sig, detail string }{{"alphabet-sanity", "", err.Error()}}, digest
	}
	sel := only
	if sel == nil && !all {
		sel = c17ScaleProbed(len(cw.metas(b)))
	}
	bad = cw.invariantsAt(ctx, b, nil, false, sel)
	// the pattern is in place: the stored flags are what the pattern says
	dis := c17ScaleDisabled(pattern, len(cw.metas(b)))
	for i, m := range cw.metas(b) {
		if m.Disabled != dis[i] {
			bad = append(bad, struct{ clause, sig, detail string }{"alphabet-sanity", "", fmt.Sprintf("#%d disabled=%v, pattern %s says %v", i, m.Disabled, pattern, dis[i])})
		}
	}
	for _, x := range bad {
		h.Write([]byte(x.clause + "|" + x.detail + ";"))
	}
	copy(digest[:], h.Sum(nil))
	return bad, digest
}

// c17ScalePass runs the scale tasks of this shard: one world, one growth chain, states evaluated on the way.
func c17ScalePass(run *ev.Run, tasks []c17ScaleTask) {
	if len(tasks) == 0 {
		return
	}
	max, growthTo := 0, 0
	at := map[int][]c17ScaleTask{}
	for _, t := range tasks {
		if t.N > max {
			max = t.N
		}
		if t.Growth {
			if t.N > growthTo {
				growthTo = t.N
			}
			continue
		}
		at[t.N] = append(at[t.N], t)
	}
	cw := c17Setup(c17ScaleCase(max, "none"))
	count := func(class string) { run.Outcome("scale-" + class); run.Count("scale_observations", 1) }
	ctx, _ := cw.root.CacheContext()
	first := true
	err := cw.grow(ctx, max, func(size int, newest *common.Address) {
		if size <= growthTo {
			bad, probes := cw.growthProbe(ctx, newest)
			run.Count("scale_growth_sizes", 1)
			run.Count("scale_growth_probes", int64(probes))
			for _, d := range bad {
				run.Fail(ev.Finding{Clause: "exactly-registered-enabled-contracts-callable", Detail: "growth: " + d, Replay: c17ScaleCase(size, "none")})
			}
		}
		for _, t := range at[size] {
			before := run.Counter("scale_observations")
			cw.obs = count
			bad, _ := cw.scaleEval(ctx, t.Pattern, t.All, nil)
			cw.obs = nil
			if first {
				// determinism: the same state evaluated twice (exposure of the first two and the last two contracts and
				// of those around the 100th) gives the same observations
				first = false
				det := map[int]bool{0: true, 1: true, size - 2: true, size - 1: true, 98: true, 99: true, 100: true, 101: true}
				_, dg1 := cw.scaleEval(ctx, t.Pattern, false, det)
				if _, dg2 := cw.scaleEval(ctx, t.Pattern, false, det); dg2 != dg1 {
					fmt.Fprintf(os.Stderr, "HARNESS-NONDETERMINISM: C17 scale state N=%d %s\n", size, t.Pattern)
					os.Exit(2)
				}
			}
			run.Count("scale_states", 1)
			run.Distinct(fmt.Sprintf("scale/%d/%s", size, t.Pattern))
			if run.Counter("scale_observations") == before {
				bad = append(bad, struct{ clause, sig, detail string }{"alphabet-sanity", "", "no exposure observation"})
			}
			c17Report(run, c17ScaleCase(size, t.Pattern), nil, bad)
		}
		delete(at, size)
	})
	if err != nil {
		run.Fail(ev.Finding{Clause: "alphabet-sanity", Detail: "scale growth: " + err.Error(), Replay: c17ScaleCase(max, "none")})
	}
	for size := range at {
		run.Fail(ev.Finding{Clause: "alphabet-sanity", Detail: fmt.Sprintf("scale growth never passed through size %d", size), Replay: c17ScaleCase(max, "none")})
	}
}

// c17ScaleReplay rebuilds one scale state and evaluates it completely (every registered contract).
func c17ScaleReplay(c c17Case) (fs []ev.Finding) {
	cw := c17Setup(c)
	ctx, _ := cw.root.CacheContext()
	if err := cw.grow(ctx, c.Scale.N, func(int, *common.Address) {}); err != nil {
		return []ev.Finding{{Clause: "alphabet-sanity", Detail: "scale growth: " + err.Error()}}
	}
	gb, _ := cw.growthProbe(ctx, nil)
	for _, d := range gb {
		fs = append(fs, ev.Finding{Clause: "exactly-registered-enabled-contracts-callable", Detail: "growth: " + d})
	}
	bad, _ := cw.scaleEval(ctx, c.Scale.Pattern, true, nil)
	for _, b := range bad {
		fs = append(fs, ev.Finding{Clause: b.clause, Signature: b.sig, Detail: b.detail})
	}
	return fs
}
