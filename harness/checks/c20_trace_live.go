package checks

// C20 part (q-trace): trace configurations of Query/TraceTx and Query/TraceBlock, served by child processes.
//
// Keeper.traceTx starts a goroutine per traced transaction (the timeout watchdog: it waits for the deadline derived from the user's
// TraceConfig.Timeout and then stops the tracer built from the user's TraceConfig.Tracer). That goroutine has no recover: a panic in it
// is not an error answer, it terminates the node. An in-process check cannot observe that (it would die itself), so the requests are
// served in child processes exactly as c20_filters_live.go does: the child announces a case on stdout, serves the request through
// BaseApp.Query, waits so that the goroutines the request left behind get to run, and reports the answer; the parent attributes a Go
// runtime crash report to the case the child had announced.
//
// Space: TraceConfig.Tracer x TraceConfig.Timeout x request kind (all other TraceConfig fields default), see c20TraceSpaceOf.
// Oracle: the child survives. An answer may be a result or an error. The wall clock only paces the waiting; it never decides a verdict
// (a hung child or a panic of the driver is a harness error, exit 2).

import (
	"bufio"
	"bytes"
	"context"
	"encoding/json"
	"fmt"
	"math/big"
	"os"
	"os/exec"
	"sort"
	"strings"
	"sync"
	"time"

	abci "github.com/cometbft/cometbft/abci/types"
	ethtypes "github.com/ethereum/go-ethereum/core/types"

	evmtypes "github.com/EscanBE/evermint/v12/x/evm/types"
)

const (
	c20ClauseTraceDeath = "no-query-argument-kills-the-node-process"
	c20TraceEnv         = "VERIF_C20_TRACE"
	c20TraceFamily      = "trace-config"

	c20TraceDefaultTimeout = 5 * time.Second        // defaultTraceTimeout of x/evm/keeper/grpc_query.go (only paces the waiting)
	c20TraceSettle         = 300 * time.Millisecond // time given to the goroutines of a request after the answer / after its deadline
	c20TraceGiveUp         = 10 * time.Minute       // a hung child is a harness error, never a verdict
)

// ---------------------------------------------------------------------------
// the case space
// ---------------------------------------------------------------------------

type c20TraceTracer struct {
	Label string
	Code  string
	Valid bool // a tracer that must produce a result when the timeout cannot expire (alphabet sanity)
	Slow  bool // spins for about 200 ms (wall clock inside the JavaScript; pacing only)
}

const (
	c20JsSpin   = `var t = Date.now(); while (Date.now() - t < 200) {}`
	c20JsObject = `{n: 0, step: function(log) { this.n++ }, fault: function(log) {}, result: function() { return this.n }}`
)

func c20TraceTracers(thorough bool) []c20TraceTracer {
	ts := []c20TraceTracer{
		{Label: "struct logger (empty name)", Code: "", Valid: true},
		{Label: "callTracer", Code: "callTracer", Valid: true},
		{Label: "prestateTracer", Code: "prestateTracer", Valid: true},
		{Label: "4byteTracer", Code: "4byteTracer", Valid: true},
		{Label: "noopTracer", Code: "noopTracer", Valid: true},
		{Label: "unknown tracer name", Code: "c20NoSuchTracer"},
		{Label: "js: minimal object", Code: c20JsObject, Valid: true},
		{Label: "js: syntax error", Code: `{step: function(log) { , result: `},
		{Label: "js: throws at top level", Code: `(function() { throw new Error("c20") })()`},
		{Label: "js: top level spins 200ms, then a valid object", Code: `(function() { ` + c20JsSpin + ` return ` + c20JsObject + ` })()`, Valid: true, Slow: true},
		{Label: "js: valid object whose first step() and result() spin 200ms", Valid: true, Slow: true,
			Code: `{n: 0, spin: function() { ` + c20JsSpin + ` }, step: function(log) { if (this.n++ == 0) { this.spin() } }, fault: function(log) {}, result: function() { this.spin(); return this.n }}`},
		{Label: "js: a number instead of an object", Code: `42`},
	}
	if thorough {
		ts = append(ts,
			c20TraceTracer{Label: "js: null instead of an object", Code: `null`},
			c20TraceTracer{Label: "js: object without fault()", Code: `{step: function(log) {}, result: function() { return 1 }}`},
			c20TraceTracer{Label: "js: setup() spins 200ms", Valid: true, Slow: true,
				Code: `{setup: function(cfg) { ` + c20JsSpin + ` }, step: function(log) {}, fault: function(log) {}, result: function() { return 1 }}`},
			c20TraceTracer{Label: "js: result() throws", Code: `{step: function(log) {}, fault: function(log) {}, result: function() { throw new Error("c20") }}`},
		)
	}
	return ts
}

func c20TraceTimeouts(thorough bool) []string {
	ts := []string{"", "1ns", "1ms", "300ms", "5s", "0s", "-1s", "garbage", "9999999h"}
	if thorough {
		ts = append(ts, "100us", "50ms", "150ms", "250ms", "1.5s")
	}
	return ts
}

// c20TraceSlowTimeouts: the quick tier combines the slow tracers with these timeouts only.
var c20TraceSlowTimeouts = map[string]bool{"1ns": true, "1ms": true, "300ms": true, "5s": true}

var c20TraceKinds = []string{"TraceTx of a committed plain transfer", "TraceTx of a committed contract call (13 steps) with the transfer as predecessor", "TraceBlock of their block"}

type c20TraceCase struct {
	Tracer  c20TraceTracer
	Timeout string
	Kind    int
}

func (c c20TraceCase) String() string {
	return fmt.Sprintf("%s with TraceConfig{Tracer: %s, Timeout: %q}", c20TraceKinds[c.Kind], c.Tracer.Label, c.Timeout)
}

// duration: the timeout as traceTx reads it; ok=false when it refuses the string.
func (c c20TraceCase) duration() (d time.Duration, ok bool) {
	if c.Timeout == "" {
		return c20TraceDefaultTimeout, true
	}
	d, err := time.ParseDuration(c.Timeout)
	return d, err == nil
}

// timed: the deadline can expire while the request is served, so whether the answer is a result or a timeout error is decided by the
// scheduler; such cases are recorded under one outcome class (the run must be reproducible).
func (c c20TraceCase) timed() bool {
	d, ok := c.duration()
	return ok && d < c20TraceDefaultTimeout
}

type c20TraceSpace struct{ cases []c20TraceCase }

func c20TraceSpaceOf(thorough bool) *c20TraceSpace {
	s := &c20TraceSpace{}
	// request kind outermost, tracer innermost: the slow cases are spread evenly over the units
	for k := range c20TraceKinds {
		for _, to := range c20TraceTimeouts(thorough) {
			for _, t := range c20TraceTracers(thorough) {
				if t.Slow && !thorough && !c20TraceSlowTimeouts[to] {
					continue
				}
				s.cases = append(s.cases, c20TraceCase{Tracer: t, Timeout: to, Kind: k})
			}
		}
	}
	return s
}

func (s *c20TraceSpace) n() int { return len(s.cases) }

func c20TraceUnits(tier string) []c20Unit {
	s := c20TraceSpaceOf(tier == "thorough")
	return c20Ranges("q-trace", tier, c20TraceFamily, s.n(), 5*c20TraceChunk, 0)
}

func c20TraceRule(thorough bool) string {
	s := c20TraceSpaceOf(thorough)
	var tl []string
	for _, t := range c20TraceTracers(thorough) {
		tl = append(tl, t.Label)
	}
	slow := "the slow tracers with every timeout"
	if !thorough {
		slow = `the slow (200ms) tracers only with timeouts {"1ns","1ms","300ms","5s"}`
	}
	return fmt.Sprintf("(q-trace) trace configurations served by child processes through BaseApp.Query (survival of the process is the observation; after every answer the child waits min(timeout, 300ms) + 300ms and, before it ends, until every deadline <= 10s has passed + 300ms): "+
		"%d cases = {%s} x TraceConfig.Tracer {%s} x TraceConfig.Timeout %q (%s), other TraceConfig fields default.",
		s.n(), strings.Join(c20TraceKinds, "; "), strings.Join(tl, "; "), c20TraceTimeouts(thorough), slow)
}

// ---------------------------------------------------------------------------
// parent side
// ---------------------------------------------------------------------------

type c20TraceSpec struct {
	Tier    string `json:"tier"`
	Indices []int  `json:"indices"`
}

// c20TraceChildRun is what one child process left behind.
type c20TraceChildRun struct {
	stdout, stderr bytes.Buffer
	err            error
}

func c20TraceSpawn(tier string, indices []int) *c20TraceChildRun {
	r := &c20TraceChildRun{}
	spec, _ := json.Marshal(c20TraceSpec{Tier: tier, Indices: indices})
	cmd := exec.Command(os.Args[0], "C20")
	var env []string
	for _, e := range os.Environ() {
		if !strings.HasPrefix(e, "VERIF_SHARD") && !strings.HasPrefix(e, c20TraceEnv+"=") && !strings.HasPrefix(e, "VERIF_C20_LIVE=") {
			env = append(env, e)
		}
	}
	cmd.Env = append(env, c20TraceEnv+"="+string(spec))
	cmd.Stdout, cmd.Stderr = &r.stdout, &r.stderr
	r.err = cmd.Run()
	return r
}

// c20TraceChunk: cases per child process. The children of a unit run side by side (they mostly wait); their reports are folded into
// the record one after the other, in index order.
const c20TraceChunk = 12

func c20RunQTrace(u c20Unit, rec *c20Rec) {
	s := c20TraceSpaceOf(u.thorough())
	all := u.indices()
	for _, i := range all {
		if i < 0 || i >= s.n() {
			fmt.Fprintf(os.Stderr, "C20: trace case index %d out of range\n", i)
			os.Exit(2)
		}
	}
	var chunks [][]int
	for from := 0; from < len(all); from += c20TraceChunk {
		to := from + c20TraceChunk
		if to > len(all) {
			to = len(all)
		}
		chunks = append(chunks, all[from:to])
	}
	first := make([]*c20TraceChildRun, len(chunks))
	var wg sync.WaitGroup
	for k := range chunks {
		wg.Add(1)
		go func(k int) {
			defer wg.Done()
			first[k] = c20TraceSpawn(u.Tier, chunks[k])
		}(k)
	}
	wg.Wait()
	for k := range chunks {
		c20TraceFold(u, rec, s, chunks[k], first[k])
	}
}

// c20TraceFold reads the report of the child that served todo; behind a fatal case it starts a new child for the rest.
func c20TraceFold(u c20Unit, rec *c20Rec, s *c20TraceSpace, todo []int, child *c20TraceChildRun) {
	for len(todo) > 0 {
		if child == nil {
			child = c20TraceSpawn(u.Tier, todo)
		}
		stdout, stderr, err := &child.stdout, &child.stderr, child.err
		child = nil
		// protocol on stdout: "CASE i" before a case, "DONE i <class>" after it (and after its wait), "LINGER i j .." before the final
		// wait for the deadlines of these cases, "END" after it
		current, done := -1, map[int]bool{}
		var linger []int
		ended := false
		sc := bufio.NewScanner(stdout)
		sc.Buffer(make([]byte, 1<<20), 1<<20)
		for sc.Scan() {
			l := sc.Text()
			var i int
			switch {
			case strings.HasPrefix(l, "CASE "):
				fmt.Sscanf(l, "CASE %d", &i)
				current = i
			case strings.HasPrefix(l, "DONE "):
				fmt.Sscanf(l, "DONE %d", &i)
				class := ""
				if parts := strings.SplitN(l, " ", 3); len(parts) == 3 {
					class = parts[2]
				}
				done[i] = true
				current = -1
				c := s.cases[i]
				one := u
				one.Only = []int{i}
				rec.count("inputs", 1)
				rec.count("trace_live_cases", 1)
				rec.count("abci_calls", 1)
				if strings.HasPrefix(class, "ESCAPE ") {
					// the calling goroutine: in a node nothing above BaseApp.Query recovers either
					rec.fail("no-panic-escapes-Query", "", fmt.Sprintf("%s: panic escapes BaseApp.Query: %s", c, strings.TrimPrefix(class, "ESCAPE ")), one)
					rec.outcome("q-trace: PANIC ESCAPES QUERY")
					continue
				}
				if strings.HasPrefix(class, "recovered-panic") {
					rec.recovered("q-trace "+c.String(), strings.TrimPrefix(class, "recovered-panic "))
					class = "recovered-panic"
				}
				if c.Tracer.Valid && (c.Timeout == "" || c.Timeout == "5s") && class != "result" {
					rec.fail("alphabet-sanity", "", fmt.Sprintf("%s: a valid tracer with a timeout that cannot expire must produce a trace, got: %s", c, class), one)
				}
				if c.timed() {
					class = "answered, result or timeout error (the deadline can expire while the request is served)"
				}
				rec.outcome("q-trace: " + class)
				rec.distinct(fmt.Sprintf("q-trace:%d:%s:%s:%s", c.Kind, c.Tracer.Label, c.Timeout, class))
			case strings.HasPrefix(l, "LINGER"):
				linger = nil
				for _, f := range strings.Fields(l)[1:] {
					if _, err := fmt.Sscanf(f, "%d", &i); err == nil {
						linger = append(linger, i)
					}
				}
			case l == "END":
				ended = true
			}
		}
		if err == nil && ended {
			for _, i := range todo {
				if !done[i] {
					fmt.Fprintf(os.Stderr, "HARNESS: C20 trace child finished without handling case %d\n", i)
					os.Exit(2)
				}
			}
			return
		}
		// the child died. Only a report of the Go runtime about a goroutine of the code under test is a verdict.
		report := stderr.String()
		code := -1
		if ee, ok := err.(*exec.ExitError); ok {
			code = ee.ExitCode()
		}
		msg, frames := c20ParseGoPanic(report)
		if code != 2 || (current < 0 && len(linger) == 0) || msg == "" || !strings.Contains(frames, "EscanBE/evermint") {
			fmt.Fprintf(os.Stderr, "HARNESS: C20 trace child failed (exit %d, err %v, case %d) without a runtime panic report from the code under test:\n%s\n", code, err, current, c20Tail(report, 3000))
			os.Exit(2)
		}
		one := u
		if current >= 0 {
			one.Only = []int{current}
			rec.fail(c20ClauseTraceDeath, "", fmt.Sprintf("the node process dies while / right after it serves %s: a goroutine without recover panics, so the Go runtime terminates the process: %s; frames: %s",
				s.cases[current], msg, frames), one)
		} else {
			// all cases were answered; the process died while waiting for the deadlines of the lingering cases
			one.Only = append([]int{}, linger...)
			var names []string
			for _, i := range linger {
				names = append(names, s.cases[i].String())
			}
			rec.fail(c20ClauseTraceDeath, "", fmt.Sprintf("the node process dies after it answered, when the deadline of one of these requests passes: [%s]: a goroutine without recover panics: %s; frames: %s",
				strings.Join(names, " | "), msg, frames), one)
		}
		rec.outcome("q-trace: PROCESS DIED")
		rec.count("inputs", 1)
		rec.count("trace_live_cases", 1)
		if current < 0 {
			return
		}
		// continue behind the fatal case
		var rest []int
		for _, i := range todo {
			if !done[i] && i != current {
				rest = append(rest, i)
			}
		}
		todo = rest
	}
}

// ---------------------------------------------------------------------------
// child side
// ---------------------------------------------------------------------------

func c20TraceHarnessFail(format string, a ...interface{}) {
	fmt.Fprintf(os.Stderr, "C20-TRACE-HARNESS: "+format+"\n", a...)
	os.Exit(3)
}

func c20OneLine(s string, n int) string {
	s = strings.Join(strings.Fields(s), " ")
	if len(s) > n {
		s = s[:n]
	}
	return s
}

// c20TraceChild never returns.
func c20TraceChild(specJSON string) {
	var spec c20TraceSpec
	if err := json.Unmarshal([]byte(specJSON), &spec); err != nil {
		c20TraceHarnessFail("bad spec: %v", err)
	}
	defer func() {
		// a panic of the driver itself (main goroutine) is a harness problem
		if r := recover(); r != nil {
			c20TraceHarnessFail("driver panic: %v", r)
		}
	}()
	time.AfterFunc(c20TraceGiveUp, func() { c20TraceHarnessFail("the child hangs (a request or the driver does not return)") })
	out := bufio.NewWriter(os.Stdout)
	say := func(format string, a ...interface{}) {
		fmt.Fprintf(out, format+"\n", a...)
		out.Flush()
	}
	s := c20TraceSpaceOf(spec.Tier == "thorough")

	// the world: block 1 empty, block 2 = [A -> B plain transfer, A calls the contract that clears four storage slots]
	w := c20World()
	a := w.Wallets[c20A]
	bAddr := w.Wallets[c20B].Eth()
	nonce := w.Nonce(w.Ctx(), a.Eth())
	target := AddrSclear
	txs := [][]byte{
		w.EthTx(a, &ethtypes.LegacyTx{Nonce: nonce, GasPrice: Gwei, Gas: 21000, To: &bAddr, Value: big.NewInt(1000)}),
		w.EthTx(a, &ethtypes.LegacyTx{Nonce: nonce + 1, GasPrice: Gwei, Gas: 200000, To: &target, Value: big.NewInt(0)}),
	}
	br := w.Block(txs)
	if p := c20BlockProblem(br, len(txs)); p != "" {
		c20TraceHarnessFail("block of the traced transactions: %s", p)
	}
	var msgs []*evmtypes.MsgEthereumTx
	for i, r := range br.Res.TxResults {
		if r.Code != 0 {
			c20TraceHarnessFail("traced transaction %d fails: %s", i, r.Log)
		}
		if resp := w.EthResponse(r); resp == nil || resp.VmError != "" {
			c20TraceHarnessFail("traced transaction %d has a vm error", i)
		}
		tx, err := w.Enc.TxConfig.TxDecoder()(txs[i])
		if err != nil {
			c20TraceHarnessFail("decode: %v", err)
		}
		msgs = append(msgs, tx.GetMsgs()[0].(*evmtypes.MsgEthereumTx))
	}
	height := br.Height
	blockHash := fmt.Sprintf("%x", br.Req.Hash)
	build := func(c c20TraceCase) (string, []byte) {
		cfg := &evmtypes.TraceConfig{Tracer: c.Tracer.Code, Timeout: c.Timeout}
		var bz []byte
		var err error
		path := "/ethermint.evm.v1.Query/TraceTx"
		switch c.Kind {
		case 0:
			bz, err = (&evmtypes.QueryTraceTxRequest{Msg: msgs[0], TraceConfig: cfg, BlockNumber: height, BlockHash: blockHash,
				BlockTime: w.BlockTime(height), ProposerAddress: w.Validators[0].Cons()}).Marshal()
		case 1:
			bz, err = (&evmtypes.QueryTraceTxRequest{Msg: msgs[1], Predecessors: msgs[:1], TraceConfig: cfg, BlockNumber: height, BlockHash: blockHash,
				BlockTime: w.BlockTime(height), ProposerAddress: w.Validators[0].Cons()}).Marshal()
		default:
			path = "/ethermint.evm.v1.Query/TraceBlock"
			bz, err = (&evmtypes.QueryTraceBlockRequest{Txs: msgs, TraceConfig: cfg, BlockNumber: height, BlockHash: blockHash,
				BlockTime: w.BlockTime(height), ProposerAddress: w.Validators[0].Cons()}).Marshal()
		}
		if err != nil {
			c20TraceHarnessFail("marshal: %v", err)
		}
		return path, bz
	}

	// cases whose deadline lies far behind the answer first: the final wait for their deadlines is mostly over when the others are done
	idxs := append([]int{}, spec.Indices...)
	far := func(i int) bool {
		d, ok := s.cases[i].duration()
		return ok && d > c20TraceSettle && d <= 10*time.Second
	}
	sort.SliceStable(idxs, func(x, y int) bool { return far(idxs[x]) && !far(idxs[y]) })
	var lingering []string
	var last time.Time
	for _, i := range idxs {
		c := s.cases[i]
		say("CASE %d", i)
		path, data := build(c)
		start := time.Now()
		// as rpc/backend/tracing.go does: the query context is the state before the block of the traced transaction
		var class string
		var res *abci.ResponseQuery
		panicked := c20Guard(func() {
			var err error
			res, err = w.App.Query(context.Background(), &abci.RequestQuery{Path: path, Data: data, Height: height - 1})
			switch {
			case err != nil:
				class = "abci-error " + c20OneLine(err.Error(), 90)
			case res == nil:
				class = "nil-response"
			default:
				class = c20Code(res.Codespace, res.Code)
			}
		})
		switch {
		case panicked != "":
			class = "ESCAPE " + c20OneLine(panicked, 300)
		case res != nil && c20IsRecoveredPanic(res.Codespace, res.Code):
			class = "recovered-panic " + c20OneLine(res.Log, 200)
		case class == "ok":
			class = "result"
		case res != nil:
			class = "error " + class + " " + c20OneLine(res.Log, 90)
		default:
			class = "error " + class
		}
		// let the goroutines the request left behind run: a watchdog whose deadline is near fires now
		d, ok := c.duration()
		if !ok || d < 0 {
			d = 0
		}
		wait := d
		if wait > c20TraceSettle {
			wait = c20TraceSettle
		}
		time.Sleep(wait + c20TraceSettle)
		if far(i) {
			lingering = append(lingering, fmt.Sprint(i))
			if dl := start.Add(d); dl.After(last) {
				last = dl
			}
		}
		say("DONE %d %s", i, class)
	}
	if len(lingering) > 0 {
		// a watchdog that outlives its request fires at the request's deadline
		say("LINGER %s", strings.Join(lingering, " "))
		if rest := time.Until(last.Add(c20TraceSettle)); rest > 0 {
			time.Sleep(rest)
		}
	}
	say("END")
	os.Exit(0)
}
