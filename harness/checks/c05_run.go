package checks

import (
	"encoding/json"
	"fmt"
	"os"

	"verif/harness/ev"
)

// C05 owns its runner: ledger pass (shared case list of c04.go with c05Oracle) + refund pass (c05_refund.go) + fee-market pass
// (c05_feemarket.go). c04.go also registers "C05" with the shared ledger runner; the go tool hands the files of a package to
// the compiler in file-name order and init functions run in that order, so this registration (c05_run.go > c04.go) is the one
// in force. c05RefundPass refuses to run under the old runner (c05OwnRunner), so a silent fallback is impossible.
func init() { Registry["C05"] = runC05 }

var c05OwnRunner bool

func c05GuardRunner() {
	if !c05OwnRunner {
		fmt.Fprintln(os.Stderr, "HARNESS-ERROR: C05 was dispatched through the shared ledger runner of c04.go, not through runC05 (c05_run.go)")
		os.Exit(2)
	}
}

func runC05(replay string) int {
	c05OwnRunner = true
	run := ev.NewRun("C05", "model_checking")
	run.Assumptions = []string{
		"mint inflation is forced to 0 in the worlds so that supply is constant outside transactions",
		"effective price is recomputed independently: min(tip + baseFee, feeCap) for dynamic-fee txs, gas price for legacy / access-list txs, from the numbers the tx was built from and the x/feemarket base fee read from the state the block executes on",
		"x/feemarket of this fork has no NoBaseFee parameter and its base fee is never nil (Params.Validate), so 'fee market disabled' is not a reachable configuration; base fee 0, base fee 0 under a positive min gas price (block 1 only), tiny and floor base fees are",
	}
	if replay != "" {
		return replayCase(run, replay, func(raw json.RawMessage) []ev.Finding {
			var probe struct {
				Part string `json:"part"`
			}
			_ = json.Unmarshal(raw, &probe)
			bad := func(err error) {
				if err != nil {
					fmt.Fprintln(os.Stderr, err)
					os.Exit(2)
				}
			}
			switch probe.Part {
			case "refund":
				var rc c05RefundCase
				bad(json.Unmarshal(raw, &rc))
				_, _, fs := c05RefundRun(c05RefundWorld(), rc)
				return fs
			case "feemarket":
				var c c05FmCase
				bad(json.Unmarshal(raw, &c))
				w, bl := c05FmRun(c)
				for bi, b := range bl {
					fmt.Printf("block %d: base fee %s, min gas price %s, outcome %s\n", bi, b.BaseFee, b.MinGas, b.outcome())
					for i, t := range b.Txs {
						fmt.Printf("  tx %d %s: %s code=%d gas wanted/used=%d/%d log=%.200s\n", i, t.Spec, t.Class, t.Code, t.GasWanted, t.GasUsedR, t.Log)
					}
				}
				return append(c05FmOracle(c, w, bl), c05FmSanity(c, bl)...)
			}
			var c ledgerCase
			bad(json.Unmarshal(raw, &c))
			_, bl := ledgerRun(c)
			fmt.Println("outcome:", outcomeOf(bl))
			return c05Oracle(c, bl)
		})
	}
	cases := ledgerCases("C05", run.Thorough())
	fm := c05FmCases(run.Thorough())
	run.Sharded(Shards(), func(shard, n int) {
		if shard == 0 {
			c05RefundPass(run, c05RefundWorld())
		}
		// ledger pass
		for i, c := range cases {
			if i%n != shard {
				continue
			}
			_, bl := ledgerRun(c)
			oc := outcomeOf(bl)
			fs := c05Oracle(c, bl)
			if i < 2*n {
				_, bl2 := ledgerRun(c)
				if outcomeOf(bl2) != oc || len(c05Oracle(c, bl2)) != len(fs) {
					fmt.Fprintf(os.Stderr, "HARNESS-NONDETERMINISM in C05 ledger case %d\n", i)
					os.Exit(2)
				}
			}
			run.Count("transitions", int64(len(c.Blocks)))
			run.Count("traces_validated_against_impl", 1)
			run.Count("ledger_pass_cases", 1)
			nt := 0
			for _, b := range c.Blocks {
				nt += len(b)
			}
			run.Count("txs_executed", int64(nt))
			run.Outcome(oc)
			nontrivial := false
			for _, b := range bl {
				for _, t := range b.Txs {
					if (t.Class == "committed-ok" || t.Class == "committed-vmerr") && t.Eth != nil && t.Rc.GasUsed < t.Eth.Gas() {
						nontrivial = true // a refund of unused gas was due
					}
					if t.Class == "failed-after-admission" {
						nontrivial = true
					}
				}
			}
			if nontrivial {
				key, _ := json.Marshal(c)
				run.Distinct(string(key))
			}
			if i%(len(cases)/3+1) == 0 {
				run.Sample(map[string]interface{}{"case": c, "outcome": oc})
			}
			for _, f := range fs {
				run.Fail(f)
			}
		}
		// fee-market pass
		for i, c := range fm {
			if (i+len(cases))%n != shard {
				continue
			}
			w, bl := c05FmRun(c)
			fs := append(c05FmOracle(c, w, bl), c05FmSanity(c, bl)...)
			oc := ""
			for _, b := range bl {
				oc += "|" + b.outcome()
			}
			if i < 2*n {
				w2, bl2 := c05FmRun(c)
				oc2 := ""
				for _, b := range bl2 {
					oc2 += "|" + b.outcome()
				}
				if oc2 != oc || len(c05FmOracle(c, w2, bl2)) != len(fs)-len(c05FmSanity(c, bl)) {
					fmt.Fprintf(os.Stderr, "HARNESS-NONDETERMINISM in C05 fee-market case %d\n", i)
					os.Exit(2)
				}
			}
			run.Count("transitions", int64(len(c.Blocks)))
			run.Count("traces_validated_against_impl", 1)
			run.Count("feemarket_pass_cases", 1)
			nontrivial := false
			for _, b := range bl {
				for _, t := range b.Txs {
					if !t.Built {
						run.Count("feemarket_pass_shapes_not_expressible_under_this_base_fee", 1)
						continue
					}
					run.Count("txs_executed", 1)
					run.Count("feemarket_pass_txs", 1)
					// one class per (world, relation of the fee fields to the base fee in force, outcome)
					run.Outcome(fmt.Sprintf("fm[%s] %s -> %s", c.World, c05ShapeClass(t.Spec.Fee, b.BaseFee), t.Class))
					if c05IsALSection(c) {
						// one class per (tx type, behaviour, access list, gas limit relative to the reference intrinsic gas, outcome)
						in, rel := c05RefIntrinsic(t.Spec), "limit>intrinsic"
						switch {
						case t.Spec.GasLimit < in:
							rel = "limit<intrinsic"
						case t.Spec.GasLimit == in:
							rel = "limit=intrinsic"
						}
						run.Outcome(fmt.Sprintf("fm-al %s %s access-list=%q %s -> %s", t.Spec.Fee.Typ, t.Spec.Kind, t.Spec.AL, rel, t.Class))
						run.Count("feemarket_pass_access_list_section_txs", 1)
						if t.Rc != nil && t.Rc.HasReceipt && in > 21_000 && t.Spec.Kind == "transfer" {
							run.Count("feemarket_pass_plain_transfers_with_nonempty_access_list_committed", 1)
						}
					}
					if t.Class != "not-admitted" && t.Price.Sign() > 0 {
						nontrivial = true // a positive charge was due
						if t.Spec.Fee.Typ == "dyn" && b.BaseFee.Sign() == 0 {
							run.Count("feemarket_pass_dynamic_fee_txs_charged_under_zero_base_fee", 1)
						}
					}
				}
			}
			if nontrivial {
				key, _ := json.Marshal(c)
				run.Distinct(string(key))
			}
			if i%(len(fm)/2+1) == 1 {
				run.Sample(map[string]interface{}{"case": c, "outcome": oc})
			}
			for _, f := range fs {
				run.Fail(f)
			}
		}
	})
	run.Coverage["states"] = int(run.Counter("transitions")) + 1
	run.Coverage["evaluations"] = len(cases) + len(fm)
	run.Coverage["exhaustive"] = true
	run.Coverage["max_depth"] = 2
	kinds := c05KindsQuick
	if run.Thorough() {
		kinds = c05KindsThorough
	}
	var shapeNames []string
	for _, s := range c05Shapes(run.Thorough()) {
		shapeNames = append(shapeNames, s.Name)
	}
	var alFeeNames []string
	for _, s := range c05ALFees(run.Thorough()) {
		alFeeNames = append(alFeeNames, s.Name)
	}
	var worldNames []string
	for _, w := range c05FmWorlds(run.Thorough()) {
		worldNames = append(worldNames, fmt.Sprintf("%s(genesis base fee %s, min gas price %s, max gas %d, %d empty block(s) first)", w.World, w.BaseFee, w.MinGas, w.MaxGas, w.Lead))
	}
	run.Coverage["rule"] = fmt.Sprintf("refund pass (keeper level, counting tracer): contracts clearing 0..8 pre-set slots and one setting fresh slots x 7 gas limits {3M, consumed, consumed+1, 2x, 5x, 6M, 30M}: reported gas used = consumed - min(4800 x clears, consumed/5) and independent of the limit. "+
		"ledger pass: single-tx blocks: full product of %d kinds × %d fee shapes (multiples of the base fee) × 4 gas limits {used, used+1, 2×used, 6M} × MaxGas∈{40M,100k}; two-tx blocks: (kind × fee/gas combo)² × {same, different sender} × both worlds; two-block histories after 2 fixed first blocks%s. "+
		"fee-market pass: fee fields = B×baseFee+Abs; worlds %v; behaviours %v; fee shapes %v; (1) single-tx blocks: full product world × behaviour × shape × gas limits {used, 1M%s} (out-of-gas: {30000, 45000}); (2) four-sender blocks, wallet i using shape j+5i, for every world × behaviour × j; (3) two txs of one sender in a block: all ordered shape pairs × %d behaviour pair(s) × %s; (4) two-block histories in 100k-gas worlds with genesis base fee 0 and 1 gwei after a more-than-half-full first block (base fee moved), and the same two txs in one block (block gas exhaustion), every behaviour × shape; (5) access-list dimension, single-tx blocks: full product world × behaviours %v × fee shapes %v × access lists %q × gas limits {I, I-1, I+1, 1M}, I = reference intrinsic gas = 21000 (53000 creation) + 16/4 per non-zero/zero data byte + 2400 per listed address + 1900 per listed storage key computed from the case's fields (no EIP-3860 in the linked go-ethereum v1.10.26); (6) four-sender blocks, wallet i using access list j+2i, fee shape i, gas limit option i+j, for every world × behaviour × j. "+
		"distinct_nontrivial = distinct histories in which an unused-gas refund was due, a tx failed after admission, or (fee-market pass) a positive charge was due",
		len(ledgerKinds), len(ledgerFees), map[bool]string{false: "", true: "; three-tx blocks with a Cosmos tx in the middle"}[run.Thorough()],
		worldNames, kinds, shapeNames, map[bool]string{false: "", true: ", used+1, 2×used, 6M"}[run.Thorough()],
		map[bool]int{false: 1, true: 3}[run.Thorough()], map[bool]string{false: "the first 2 worlds", true: "every world"}[run.Thorough()],
		c05ALKinds, alFeeNames, c05ALNames(run.Thorough()))
	return run.Finish()
}
