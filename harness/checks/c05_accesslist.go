package checks

import (
	"fmt"
	"math/big"

	sdkmath "cosmossdk.io/math"
	"github.com/ethereum/go-ethereum/common"
	ethtypes "github.com/ethereum/go-ethereum/core/types"
	"github.com/ethereum/go-ethereum/crypto"

	"verif/harness/ev"
)

// Access-list dimension of the fee-market pass of C05 ("gas used is at least the intrinsic gas and at most the gas limit").
//
// The intrinsic gas of a tx has three summands: the base (21000, 53000 for a creation), the call data (16 per non-zero byte,
// 4 per zero byte) and the EIP-2930 access list (2400 per listed address, 1900 per listed storage key, duplicates counted).
// go-ethereum v1.10.26 (the fork this chain links) has no EIP-3860 init-code word cost: core.IntrinsicGas takes
// (data, accessList, isCreation, isHomestead, isEIP2028) only, and every fork block of the chain config is 0.
// The other sections of the pass only build txs without access list, so the third summand was always 0 there; here it is a
// dimension of its own, crossed with the behaviours that switch the other two summands on and off:
//
//	tx type      access-list | dynamic-fee
//	access list  none | empty | 1 address 0 keys | 1 address 2 keys | 3 addresses with 0/1/2 keys | the recipient itself
//	             (a creation: the address being created) + slot 0 | a precompile (0x04) + 1 key
//	             thorough also: the same address twice, 1 key each | the sender itself, 0 keys
//	behaviour    transfer (empty data) | call-data (5 data bytes to AddrSstore) | create (init code)
//	gas limit    I | I − 1 | I + 1 | 1M         with I = the reference intrinsic gas of (behaviour, access list)
//
// The reference I is c05RefIntrinsic: own arithmetic over the fields the case was built from. The oracle of the pass
// (c05FmOracle) applies unchanged; c05ALSanity adds the outcome classes the alphabet was built for.

type c05ALEntry struct {
	Addr string // hex address | "recipient" | "sender"
	Keys int    // storage keys 0..Keys-1
}

var c05ALNamesQuick = []string{"none", "empty", "1addr-0keys", "1addr-2keys", "3addr-0+1+2keys", "recipient+slot0", "precompile4+1key"}
var c05ALNamesThorough = append(append([]string{}, c05ALNamesQuick...), "same-addr-twice-1key-each", "sender-0keys")

// c05ALTable: ok=false for an unknown name; present=false for "no access list".
func c05ALTable(name string) (entries []c05ALEntry, present bool) {
	switch name {
	case "", "none": // "" = a tx of the other sections, "none" = the access-list sections' own "no access list"
		return nil, false
	case "empty":
		return []c05ALEntry{}, true
	case "1addr-0keys":
		return []c05ALEntry{{AddrBurn.Hex(), 0}}, true
	case "1addr-2keys":
		return []c05ALEntry{{AddrSclear.Hex(), 2}}, true
	case "3addr-0+1+2keys":
		return []c05ALEntry{{AddrLog1.Hex(), 0}, {AddrBurn.Hex(), 1}, {AddrSclear.Hex(), 2}}, true
	case "recipient+slot0":
		return []c05ALEntry{{"recipient", 1}}, true
	case "precompile4+1key":
		return []c05ALEntry{{common.BytesToAddress([]byte{4}).Hex(), 1}}, true
	case "same-addr-twice-1key-each":
		return []c05ALEntry{{AddrBurn.Hex(), 1}, {AddrBurn.Hex(), 1}}, true
	case "sender-0keys":
		return []c05ALEntry{{"sender", 0}}, true
	}
	panic("c05: unknown access list " + name)
}

// c05AccessList builds the list for a tx of sender/nonce to `to` (nil: creation).
func c05AccessList(name string, to *common.Address, sender common.Address, nonce uint64) ethtypes.AccessList {
	entries, present := c05ALTable(name)
	if !present {
		return nil
	}
	al := ethtypes.AccessList{}
	for _, e := range entries {
		var a common.Address
		switch e.Addr {
		case "recipient":
			if to != nil {
				a = *to
			} else {
				a = crypto.CreateAddress(sender, nonce)
			}
		case "sender":
			a = sender
		default:
			a = common.HexToAddress(e.Addr)
		}
		t := ethtypes.AccessTuple{Address: a, StorageKeys: []common.Hash{}}
		for k := 0; k < e.Keys; k++ {
			t.StorageKeys = append(t.StorageKeys, common.BigToHash(big.NewInt(int64(k))))
		}
		al = append(al, t)
	}
	return al
}

// c05RefIntrinsic: the reference intrinsic gas of a tx of the pass, from its spec.
func c05RefIntrinsic(s c05FmTx) uint64 {
	to, data, _ := c05Behaviour(s.Kind)
	g := uint64(21_000)
	if to == nil {
		g = 53_000
	}
	for _, b := range data {
		if b == 0 {
			g += 4
		} else {
			g += 16
		}
	}
	entries, _ := c05ALTable(s.AL)
	for _, e := range entries {
		g += 2_400 + 1_900*uint64(e.Keys)
	}
	return g
}

var c05ALKinds = []string{"transfer", "call-data", "create"}

// c05ALFees: one access-list-typed and one dynamic-fee shape (thorough: four), all acceptable in every world of the pass.
func c05ALFees(thorough bool) []c05Fee {
	want := map[string]bool{"al=b+1gwei": true, "dyn tip=1gwei cap=b+3gwei": true}
	if thorough {
		want["dyn tip=cap=b+1gwei"] = true
		want["dyn tip=3gwei cap=b+100gwei"] = true
	}
	var out []c05Fee
	for _, f := range c05Shapes(thorough) {
		if want[f.Name] {
			out = append(out, f)
		}
	}
	if len(out) != len(want) {
		panic("c05: access-list fee shapes missing from c05Shapes")
	}
	return out
}

func c05ALNames(thorough bool) []string {
	if thorough {
		return c05ALNamesThorough
	}
	return c05ALNamesQuick
}

func c05ALLimits(s c05FmTx) []uint64 {
	i := c05RefIntrinsic(s)
	return []uint64{i, i - 1, i + 1, 1_000_000}
}

func c05ALCases(thorough bool, worlds []c05FmCase) []c05FmCase {
	fees, names := c05ALFees(thorough), c05ALNames(thorough)
	var cases []c05FmCase
	// 5. single-tx blocks: full product world × behaviour × tx type/fee shape × access list × gas limit
	for _, w := range worlds {
		for _, k := range c05ALKinds {
			for _, f := range fees {
				for _, al := range names {
					t := c05FmTx{Kind: k, Sender: 0, Fee: f, AL: al}
					for _, g := range c05ALLimits(t) {
						t.GasLimit = g
						c := w
						c.Blocks = [][]c05FmTx{{t}}
						cases = append(cases, c)
					}
				}
			}
		}
	}
	// 6. four-sender blocks: wallet i sends behaviour k with access list j+2i, fee shape i, gas limit option i+j — cumulative
	// gas, fee collector and block gas sum four different intrinsic costs
	for _, w := range worlds {
		for _, k := range c05ALKinds {
			for j := range names {
				var blk []c05FmTx
				for i := 0; i < 4; i++ {
					t := c05FmTx{Kind: k, Sender: i, Fee: fees[i%len(fees)], AL: names[(j+2*i)%len(names)]}
					t.GasLimit = c05ALLimits(t)[(i+j)%4]
					blk = append(blk, t)
				}
				c := w
				c.Blocks = [][]c05FmTx{blk}
				cases = append(cases, c)
			}
		}
	}
	return cases
}

// c05IsALSection: the tx belongs to the access-list sections (their kinds/fees are acceptable in every world).
func c05IsALSection(c c05FmCase) bool {
	for _, b := range c.Blocks {
		for _, t := range b {
			if t.AL != "" {
				return true
			}
		}
	}
	return false
}

// c05ALSanity: non-vacuity of the access-list alphabet. Every tx of these sections has an acceptable price, so
//   - a transfer whose limit covers the reference intrinsic gas is committed and succeeds; any behaviour is committed
//   - a tx whose limit is below the reference intrinsic gas is admitted (the ante handler has no intrinsic-gas rule) and
//     fails outside EVM execution with "intrinsic gas too low" — the charge clause of the oracle then wants the full limit
func c05ALSanity(c c05FmCase, blocks []*c05FmBlock) []ev.Finding {
	var out []ev.Finding
	if !c05IsALSection(c) {
		return nil
	}
	for bi, b := range blocks {
		floor := new(big.Int).Set(b.BaseFee)
		if mg, err := sdkmath.LegacyNewDecFromStr(b.MinGas); err == nil && mg.TruncateInt().BigInt().Cmp(floor) > 0 {
			floor = mg.TruncateInt().BigInt()
		}
		for i, t := range b.Txs {
			if !t.Built || t.Price.Cmp(floor) < 0 {
				continue
			}
			in := c05RefIntrinsic(t.Spec)
			bad := ""
			switch {
			case t.Spec.GasLimit < in:
				if t.Class != "failed-after-admission" {
					bad = "has a gas limit below its intrinsic gas " + fmt.Sprint(in) + " and was built to fail for it after admission"
				}
			case t.Spec.Kind == "transfer":
				if t.Class != "committed-ok" {
					bad = "was built to succeed"
				}
			default:
				if t.Class != "committed-ok" && t.Class != "committed-vmerr" {
					bad = "was built to be committed"
				}
			}
			if bad != "" {
				out = append(out, ev.Finding{Clause: "alphabet-sanity", Detail: fmt.Sprintf("[%s] block %d tx %d (%s) %s but is %s: code=%d log=%.200s", c.World, bi, i, t.Spec, bad, t.Class, t.Code, t.Log), Replay: c})
			}
		}
	}
	return out
}
