package checks

import (
	"bytes"
	"encoding/json"
	"fmt"
	"math/big"
	"os"

	sdkmath "cosmossdk.io/math"
	"github.com/ethereum/go-ethereum/common"
	"github.com/ethereum/go-ethereum/core"
	ethtypes "github.com/ethereum/go-ethereum/core/types"

	evmtypes "github.com/EscanBE/evermint/v12/x/evm/types"

	"verif/harness/ev"
	"verif/harness/world"
)

// Fee-market pass of C05: the price dimension of the tx alphabet crossed with the fee-market configuration of the chain.
//
// The ledger pass (c05.go) runs every fee shape as a multiple of the base fee in worlds whose base fee is ~1 gwei; in a world
// whose base fee is 0 all those prices collapse to 0 and the charge law is vacuous. Here fee fields are  B × baseFee + Abs
// (B, Abs integers), so that tip and fee cap stay apart whatever the base fee is, and the world is a parameter of the case:
//
//	world  = (genesis base fee, global min gas price, block max gas, number of empty blocks before the first tx block)
//	tx     = (behaviour, sender, tx type legacy | access-list | dynamic-fee, price/fee cap, tip, gas limit)
//
// Reference (independent of the implementation, computed from the numbers the case was BUILT from, not from the decoded tx):
//
//	effective price = gasPrice                      for legacy and access-list txs
//	                = min(tip + baseFee, feeCap)    for dynamic-fee txs
//
// with baseFee = the x/feemarket base fee stored in the state the block executes on (written by the previous EndBlock).
// x/feemarket of this fork has exactly two parameters, BaseFee >= 0 (never nil: Params.Validate) and MinGasPrice >= 0; there is
// no NoBaseFee / "fee market disabled" parameter and the EVM-config NoBaseFee flag is only set by queries and tests, so
// "base fee nil" is not a reachable configuration of the ABCI path. Reachable and enumerated: base fee > 0, base fee == 0 with
// min gas price 0 (stays 0 while blocks are at most half full, becomes 1 wei after a fuller one), base fee == 0 while the min
// gas price is > 0 (only in block 1, before the first EndBlock lifts the base fee to the floor), base fee == min gas price floor.
//
// Oracle per block, from the bank ledger before/after:
//   - every wallet's Δ(evm denom) == −Σ over its txs of (gas charged × effective price + value if the tx succeeded), where
//     gas charged = receipt gas used for committed txs, the full gas limit for txs failing after admission, 0 if not admitted
//   - fee collector balance after the block == Σ gas charged × effective price (the previous balance is swept in BeginBlock)
//   - the receipt reports the reference effective price; GasWanted == limit; consensus gas used == receipt gas used;
//     intrinsic <= gas used <= limit, the intrinsic gas being the harness's own formula over the fields the tx was built from
//     (c05_accesslist.go: base, call data bytes, access list); cumulative gas is the running sum
//   - the history without the non-admitted txs reaches the same AppHashes

// c05Amt is  B × (base fee in force) + Abs  wei.
type c05Amt struct {
	B   int64 `json:"b,omitempty"`
	Abs int64 `json:"abs,omitempty"`
}

func (a c05Amt) at(base *big.Int) *big.Int {
	v := new(big.Int).Mul(big.NewInt(a.B), base)
	return v.Add(v, big.NewInt(a.Abs))
}

// c05Fee: Typ legacy | al | dyn; Price is the gas price (legacy, al) or the fee cap (dyn); Tip only for dyn.
type c05Fee struct {
	Name  string `json:"name"`
	Typ   string `json:"typ"`
	Price c05Amt `json:"price"`
	Tip   c05Amt `json:"tip"`
}

type c05FmTx struct {
	Kind     string `json:"kind"`
	Sender   int    `json:"sender"`
	Fee      c05Fee `json:"fee"`
	GasLimit uint64 `json:"gas_limit"`
	// AL names the EIP-2930 access list of the tx (c05_accesslist.go); "" or "none" = none. Only for tx types al and dyn.
	AL string `json:"al,omitempty"`
}

func (t c05FmTx) String() string {
	if t.AL != "" {
		return fmt.Sprintf("%s/w%d/%s/access-list=%s/gas=%d", t.Kind, t.Sender, t.Fee.Name, t.AL, t.GasLimit)
	}
	return fmt.Sprintf("%s/w%d/%s/gas=%d", t.Kind, t.Sender, t.Fee.Name, t.GasLimit)
}

type c05FmCase struct {
	Part    string      `json:"part"` // "feemarket"
	World   string      `json:"world"`
	BaseFee string      `json:"base_fee"` // genesis base fee, decimal wei
	MinGas  string      `json:"min_gas_price"`
	MaxGas  int64       `json:"max_gas"`
	Lead    int         `json:"lead"` // empty blocks before the first block of the case
	Blocks  [][]c05FmTx `json:"blocks"`
}

const c05G = 1_000_000_000

// c05Shapes: the price alphabet, simplest first. n = how many to take (quick / thorough).
func c05Shapes(thorough bool) []c05Fee {
	s := []c05Fee{
		{Name: "legacy=b+1gwei", Typ: "legacy", Price: c05Amt{B: 1, Abs: c05G}},
		{Name: "legacy=b", Typ: "legacy", Price: c05Amt{B: 1}},
		{Name: "legacy=b-1", Typ: "legacy", Price: c05Amt{B: 1, Abs: -1}},
		{Name: "al=b+1gwei", Typ: "al", Price: c05Amt{B: 1, Abs: c05G}},
		{Name: "dyn tip=cap=b+1gwei", Typ: "dyn", Price: c05Amt{B: 1, Abs: c05G}, Tip: c05Amt{B: 1, Abs: c05G}},
		{Name: "dyn tip=1gwei cap=b+3gwei", Typ: "dyn", Price: c05Amt{B: 1, Abs: 3 * c05G}, Tip: c05Amt{Abs: c05G}},
		{Name: "dyn tip=1gwei cap=b+1gwei", Typ: "dyn", Price: c05Amt{B: 1, Abs: c05G}, Tip: c05Amt{Abs: c05G}},
		{Name: "dyn tip=cap-1 cap=b+1gwei", Typ: "dyn", Price: c05Amt{B: 1, Abs: c05G}, Tip: c05Amt{B: 1, Abs: c05G - 1}},
		{Name: "dyn tip=0 cap=b+1gwei", Typ: "dyn", Price: c05Amt{B: 1, Abs: c05G}},
		{Name: "dyn tip=1wei cap=b+1gwei", Typ: "dyn", Price: c05Amt{B: 1, Abs: c05G}, Tip: c05Amt{Abs: 1}},
		{Name: "dyn tip=b+2gwei cap=b+1gwei", Typ: "dyn", Price: c05Amt{B: 1, Abs: c05G}, Tip: c05Amt{B: 1, Abs: 2 * c05G}},
		{Name: "dyn tip=0 cap=b-1", Typ: "dyn", Price: c05Amt{B: 1, Abs: -1}},
	}
	if thorough {
		s = append(s,
			c05Fee{Name: "legacy=b+1", Typ: "legacy", Price: c05Amt{B: 1, Abs: 1}},
			c05Fee{Name: "legacy=2b+7", Typ: "legacy", Price: c05Amt{B: 2, Abs: 7}},
			c05Fee{Name: "al=b", Typ: "al", Price: c05Amt{B: 1}},
			c05Fee{Name: "al=b-1", Typ: "al", Price: c05Amt{B: 1, Abs: -1}},
			c05Fee{Name: "dyn tip=0 cap=b", Typ: "dyn", Price: c05Amt{B: 1}},
			c05Fee{Name: "dyn tip=3gwei cap=b+100gwei", Typ: "dyn", Price: c05Amt{B: 1, Abs: 100 * c05G}, Tip: c05Amt{Abs: 3 * c05G}},
			c05Fee{Name: "dyn tip=b cap=2b+5", Typ: "dyn", Price: c05Amt{B: 2, Abs: 5}, Tip: c05Amt{B: 1}},
			c05Fee{Name: "dyn tip=2gwei cap=2b+1gwei", Typ: "dyn", Price: c05Amt{B: 2, Abs: c05G}, Tip: c05Amt{Abs: 2 * c05G}},
			c05Fee{Name: "dyn tip=5 cap=12", Typ: "dyn", Price: c05Amt{Abs: 12}, Tip: c05Amt{Abs: 5}},
		)
	}
	return s
}

// c05Behaviours: what the tx does (to, data, value) — the outcome dimension.
var c05KindsQuick = []string{"transfer", "sclear", "revert-with-value", "out-of-gas", "value-too-high", "create"}
var c05KindsThorough = []string{"transfer", "sclear", "revert-with-value", "out-of-gas", "value-too-high", "create", "burn", "sstore", "invalid-op", "create-fail", "suicide", "intrinsic-low"}

var c05TooMuch = new(big.Int).Mul(big.NewInt(1000), new(big.Int).Exp(big.NewInt(10), big.NewInt(18), nil))

func c05Behaviour(kind string) (to *common.Address, data []byte, value *big.Int) {
	set := func(a common.Address) { to = &a }
	value = new(big.Int)
	switch kind {
	case "transfer", "intrinsic-low":
		set(AddrSink)
		value = big.NewInt(3)
	case "call-data":
		set(AddrSstore)
		data = []byte{0xde, 0x00, 0xbe, 0xef, 0x00} // 3 non-zero + 2 zero bytes of call data; the contract ignores them
	case "sclear":
		set(AddrSclear)
	case "revert-with-value":
		set(AddrLogRev)
		value = big.NewInt(3)
	case "out-of-gas", "burn":
		set(AddrBurn)
	case "value-too-high":
		set(AddrSink)
		value = c05TooMuch
	case "create":
		data = createOKInit()
		value = big.NewInt(4)
	case "create-fail":
		data = createFailInit()
	case "sstore":
		set(AddrSstore)
	case "invalid-op":
		set(AddrInvalid)
	case "suicide":
		set(AddrSuicide)
	default:
		panic("c05: unknown behaviour " + kind)
	}
	return
}

// c05RefPrice is the reference effective price of fee shape f under base fee b, and the (tip, cap) numbers it was built from.
func c05RefPrice(f c05Fee, b *big.Int) (p, tip, cap *big.Int) {
	cap = f.Price.at(b)
	if f.Typ != "dyn" {
		return cap, nil, cap
	}
	tip = f.Tip.at(b)
	p = new(big.Int).Add(tip, b)
	if p.Cmp(cap) > 0 {
		p = cap
	}
	return p, tip, cap
}

// c05ShapeClass names the relation of the fee fields to the base fee (for the outcome histogram).
func c05ShapeClass(f c05Fee, b *big.Int) string {
	_, tip, cap := c05RefPrice(f, b)
	rel := func(x, y *big.Int, name string) string {
		switch x.Cmp(y) {
		case -1:
			return name + "<b"
		case 0:
			return name + "=b"
		}
		return name + ">b"
	}
	if f.Typ != "dyn" {
		return f.Typ + ":" + rel(cap, b, "price")
	}
	s := "dyn:"
	switch {
	case tip.Sign() == 0:
		s += "tip=0,"
	case tip.Cmp(cap) == 0:
		s += "tip=cap,"
	case tip.Cmp(cap) > 0:
		s += "tip>cap,"
	default:
		s += "tip<cap,"
	}
	switch new(big.Int).Add(tip, b).Cmp(cap) {
	case -1:
		s += "tip+b<cap"
	case 0:
		s += "tip+b=cap"
	default:
		s += "tip+b>cap"
	}
	return s + "," + rel(cap, b, "cap")
}

type c05FmTxObs struct {
	Spec      c05FmTx
	Built     bool // false: the fee shape has a negative field under this base fee, the tx was left out of the block
	Price     *big.Int
	Value     *big.Int
	Eth       *ethtypes.Transaction
	Code      uint32
	Log       string
	GasWanted int64
	GasUsedR  int64
	Rc        *world.Receipt
	Class     string
}

type c05FmBlock struct {
	Height  int64
	BaseFee *big.Int
	MinGas  string
	Txs     []c05FmTxObs
	Pre     map[string]map[string]*big.Int
	Post    map[string]map[string]*big.Int
	Panic   string
	Err     error
	AppHash []byte
}

func (b *c05FmBlock) outcome() string {
	s := ""
	for i, t := range b.Txs {
		if i > 0 {
			s += ","
		}
		s += t.Class
	}
	return s
}

func c05FmWorld(c c05FmCase) *world.World {
	b, ok := new(big.Int).SetString(c.BaseFee, 10)
	if !ok {
		panic("c05: bad base fee " + c.BaseFee)
	}
	return world.New(world.Config{MaxGas: c.MaxGas, NumWallets: 4, Contracts: StdContracts(), BaseFee: b, MinGasPrice: c.MinGas})
}

// c05FmRun executes the case on a fresh world.
func c05FmRun(c c05FmCase) (w *world.World, blocks []*c05FmBlock) {
	w = c05FmWorld(c)
	for i := 0; i < c.Lead; i++ {
		w.Block(nil)
	}
	for _, blk := range c.Blocks {
		ctx := w.Ctx()
		fp := w.App.FeeMarketKeeper.GetParams(ctx)
		bo := &c05FmBlock{Height: w.Height + 1, BaseFee: fp.BaseFee.BigInt(), MinGas: fp.MinGasPrice.String()}
		bo.Pre = allBalances(w, ctx)
		next := map[int]uint64{}
		var txs [][]byte
		for _, s := range blk {
			o := c05FmTxObs{Spec: s, Class: "not-built"}
			p, tip, cap := c05RefPrice(s.Fee, bo.BaseFee)
			if cap.Sign() < 0 || (tip != nil && tip.Sign() < 0) {
				bo.Txs = append(bo.Txs, o) // e.g. "b-1" under a zero base fee: no such tx exists
				continue
			}
			a := w.Wallets[s.Sender]
			if _, ok := next[s.Sender]; !ok {
				next[s.Sender] = w.Nonce(ctx, a.Eth())
			}
			nonce := next[s.Sender]
			next[s.Sender]++ // optimistic; a later tx of the same sender after a non-admitted one is itself not admitted
			to, data, value := c05Behaviour(s.Kind)
			al := c05AccessList(s.AL, to, a.Eth(), nonce)
			var td ethtypes.TxData
			switch s.Fee.Typ {
			case "legacy":
				if al != nil {
					panic("c05: a legacy tx has no access list: " + s.String())
				}
				td = &ethtypes.LegacyTx{Nonce: nonce, GasPrice: cap, Gas: s.GasLimit, To: to, Value: value, Data: data}
			case "al":
				td = &ethtypes.AccessListTx{ChainID: big.NewInt(world.EvmChainID), Nonce: nonce, GasPrice: cap, Gas: s.GasLimit, To: to, Value: value, Data: data, AccessList: al}
			case "dyn":
				td = &ethtypes.DynamicFeeTx{ChainID: big.NewInt(world.EvmChainID), Nonce: nonce, GasTipCap: tip, GasFeeCap: cap, Gas: s.GasLimit, To: to, Value: value, Data: data, AccessList: al}
			default:
				panic("c05: tx type " + s.Fee.Typ)
			}
			signed := w.SignEth(a, td)
			bz, err := w.WrapEthE(signed, a.Eth(), nil)
			if err != nil && s.Fee.Typ == "dyn" && tip.Cmp(cap) > 0 {
				// the honest message constructor refuses tip > cap; anybody can still put such a tx into the envelope by hand:
				// wrap the same tx with tip = cap (same declared fee cap × gas) and swap the payload for the real one
				real, merr := signed.MarshalBinary()
				if merr != nil {
					panic(merr)
				}
				twin := w.SignEth(a, &ethtypes.DynamicFeeTx{ChainID: big.NewInt(world.EvmChainID), Nonce: nonce, GasTipCap: cap, GasFeeCap: cap, Gas: s.GasLimit, To: to, Value: value, Data: data, AccessList: al})
				bz, err = w.WrapEthE(twin, a.Eth(), func(msg *evmtypes.MsgEthereumTx) { msg.MarshalledTx = real })
			}
			if err != nil {
				panic(fmt.Sprintf("c05: cannot wrap %s: %v", s, err))
			}
			o.Built, o.Price, o.Value, o.Eth, o.Class = true, p, value, signed, ""
			txs = append(txs, bz)
			bo.Txs = append(bo.Txs, o)
		}
		br := w.Block(txs)
		bo.Panic, bo.Err = br.Panic, br.Err
		blocks = append(blocks, bo)
		if br.Panic != "" || br.Err != nil {
			return
		}
		ri := 0
		for i := range bo.Txs {
			t := &bo.Txs[i]
			if !t.Built {
				continue
			}
			r := br.Res.TxResults[ri]
			t.Code, t.Log, t.GasWanted, t.GasUsedR = r.Code, r.Log, r.GasWanted, r.GasUsed
			rc, _ := world.ParseReceipt(ri, r)
			ri++
			t.Rc = rc
			switch {
			case rc != nil && rc.HasReceipt && rc.HasVmError:
				t.Class = "committed-vmerr"
			case rc != nil && rc.HasReceipt:
				t.Class = "committed-ok"
			case rc != nil && rc.HasEthTx:
				t.Class = "failed-after-admission"
			default:
				t.Class = "not-admitted"
			}
		}
		bo.Post = allBalances(w, w.Ctx())
		bo.AppHash = append([]byte{}, w.LastHash...)
	}
	return
}

var c05TwinHashes = map[string][][]byte{}

func c05FmOracle(c c05FmCase, w *world.World, blocks []*c05FmBlock) []ev.Finding {
	var out []ev.Finding
	fail := func(clause, sig, detail string) {
		out = append(out, ev.Finding{Clause: clause, Signature: sig, Detail: "[" + c.World + "] " + detail, Replay: c})
	}
	needTwin := false
	for bi, b := range blocks {
		if b.Panic != "" || b.Err != nil {
			fail("block-executes", "", fmt.Sprintf("block %d: panic=%q err=%v", bi, b.Panic, b.Err))
			return out
		}
		want := map[int]*big.Int{}
		fees := new(big.Int)
		cum := uint64(0)
		for i := range b.Txs {
			t := &b.Txs[i]
			if !t.Built {
				continue
			}
			if want[t.Spec.Sender] == nil {
				want[t.Spec.Sender] = new(big.Int)
			}
			where := fmt.Sprintf("block %d (base fee %s, min gas price %s) tx %d (%s)", bi, b.BaseFee, b.MinGas, i, t.Spec)
			if t.Class == "not-admitted" {
				needTwin = true
				continue
			}
			limit := t.Spec.GasLimit
			if uint64(t.GasWanted) != limit {
				fail("gas-wanted-is-limit", "", fmt.Sprintf("%s: GasWanted=%d limit=%d", where, t.GasWanted, limit))
			}
			g := limit // failed after admission: the full gas limit
			if t.Class != "failed-after-admission" {
				g = t.Rc.GasUsed
				if uint64(t.GasUsedR) != g {
					fail("consensus-gas-used-equals-receipt", "", fmt.Sprintf("%s: ExecTxResult.GasUsed=%d receipt=%d", where, t.GasUsedR, g))
				}
				// the reference intrinsic gas comes from the fields the tx was BUILT from (c05RefIntrinsic), not from the code path
				// under test; go-ethereum's formula on the decoded tx only cross-checks the harness's own arithmetic and builder
				intrinsic := c05RefIntrinsic(t.Spec)
				if geth, err := core.IntrinsicGas(t.Eth.Data(), t.Eth.AccessList(), t.Eth.To() == nil, true, true); err != nil || geth != intrinsic {
					fmt.Fprintf(os.Stderr, "HARNESS-ERROR: C05 reference intrinsic gas of %s is %d, go-ethereum says %d (%v)\n", t.Spec, intrinsic, geth, err)
					os.Exit(2)
				}
				if g < intrinsic || g > limit {
					fail("intrinsic-le-gas-used-le-limit", "", fmt.Sprintf("%s: used=%d intrinsic=%d limit=%d", where, g, intrinsic, limit))
				}
				if t.Rc.R.CumulativeGasUsed != cum+g {
					fail("cumulative-gas-running-sum", "", fmt.Sprintf("%s: cumulative=%d want %d", where, t.Rc.R.CumulativeGasUsed, cum+g))
				}
				if t.Rc.EffPrice == nil || t.Rc.EffPrice.Cmp(t.Price) != 0 {
					fail("receipt-effective-price", "", fmt.Sprintf("%s: receipt says %v, min(tip+baseFee, cap) resp. gas price = %s", where, t.Rc.EffPrice, t.Price))
				}
			}
			cum += g
			charge := new(big.Int).Mul(new(big.Int).SetUint64(g), t.Price)
			fees.Add(fees, charge)
			if t.Class == "committed-ok" {
				charge = new(big.Int).Add(charge, t.Value)
			}
			want[t.Spec.Sender].Sub(want[t.Spec.Sender], charge)
		}
		for wi := 0; wi < 4; wi++ {
			got := new(big.Int).Sub(bal(b.Post, walletAddr(wi), world.Denom), bal(b.Pre, walletAddr(wi), world.Denom))
			wnt, involved := want[wi]
			if !involved {
				if got.Sign() != 0 {
					fail("uninvolved-wallet-untouched", "", fmt.Sprintf("block %d (%s): wallet %d Δ=%s", bi, b.outcome(), wi, got))
				}
				continue
			}
			if got.Cmp(wnt) != 0 {
				var txs []string
				for _, t := range b.Txs {
					if t.Built && t.Spec.Sender == wi {
						used := "-"
						if t.Rc != nil && t.Rc.HasReceipt {
							used = fmt.Sprint(t.Rc.GasUsed)
						}
						txs = append(txs, fmt.Sprintf("%s:%s used=%s price=%s", t.Spec, t.Class, used, t.Price))
					}
				}
				fail("sender-charged-gas-used-times-effective-price-plus-value", "", fmt.Sprintf("block %d (base fee %s, min gas price %s): wallet %d Δ=%s want %s; its txs: %v", bi, b.BaseFee, b.MinGas, wi, got, wnt, txs))
			}
		}
		if fc := bal(b.Post, feeCollector, world.Denom); fc.Cmp(fees) != 0 {
			fail("fee-collector-holds-gas-used-times-effective-price", "", fmt.Sprintf("block %d (base fee %s, %s): fee collector holds %s after the block, Σ gas charged × effective price = %s", bi, b.BaseFee, b.outcome(), fc, fees))
		}
	}
	if needTwin {
		twin := c
		twin.Blocks = nil
		for bi, b := range blocks {
			var keep []c05FmTx
			for i, t := range b.Txs {
				if t.Class != "not-admitted" {
					keep = append(keep, c.Blocks[bi][i])
				}
			}
			twin.Blocks = append(twin.Blocks, keep)
		}
		// many cases share a twin (a lone rejected tx leaves the empty block): AppHashes per twin are computed once per process
		tkey, _ := json.Marshal(twin)
		th, cached := c05TwinHashes[string(tkey)]
		if !cached {
			_, tb := c05FmRun(twin)
			for _, b := range tb {
				th = append(th, b.AppHash)
			}
			c05TwinHashes[string(tkey)] = th
		}
		for bi := range blocks {
			if bi >= len(th) || !bytes.Equal(th[bi], blocks[bi].AppHash) {
				diff, sig := "", ""
				tw, tb := c05FmRun(twin) // again, for the state
				if bi == len(blocks)-1 && len(tb) == len(blocks) {
					// Defect-aware classification (C05/rejected-before-ante-charges-block-gas): baseapp.runTx charges
					// ctx.GasMeter().GasConsumedToLimit() to the block gas meter in a defer for EVERY tx of a block; for a tx refused
					// before the ante handler installed a tx gas meter (message ValidateBasic) that meter is the block context's own
					// one, so the rejected tx (GasWanted 0) reports and charges the gas BeginBlock spent, and x/feemarket derives the
					// next base fee from the block gas meter. Exactly that and nothing else: the final states differ in the
					// x/feemarket params only, the base fee with the rejected txs is the higher one, and such a tx is in the block.
					ds := world.Diff(w.Dump(w.Ctx()), tw.Dump(tw.Ctx()))
					onlyFeeMarketParams := len(ds) > 0
					for i, d := range ds {
						if d.Store != "feemarket" || string(d.Key) != "Params" {
							onlyFeeMarketParams = false
						}
						if i < 4 {
							diff += " " + d.String()
						}
					}
					phantom := false
					for _, t := range blocks[bi].Txs {
						if t.Class == "not-admitted" && t.GasWanted == 0 && t.GasUsedR > 0 {
							phantom = true
						}
					}
					with, without := w.App.FeeMarketKeeper.GetParams(w.Ctx()).BaseFee, tw.App.FeeMarketKeeper.GetParams(tw.Ctx()).BaseFee
					if onlyFeeMarketParams && phantom && with.GT(without) {
						sig = "C05/rejected-before-ante-charges-block-gas"
					}
					diff += fmt.Sprintf("; next base fee with/without %s/%s", with, without)
				}
				fail("not-admitted-tx-changes-nothing", sig, fmt.Sprintf("block %d (%s): AppHash differs from the block without the non-admitted txs; state with/without:%s", bi, blocks[bi].outcome(), diff))
				break
			}
		}
	}
	return out
}

// c05FmWorlds: the fee-market configurations. Name, genesis base fee, min gas price, max gas, lead.
func c05FmWorlds(thorough bool) []c05FmCase {
	ws := []c05FmCase{
		{World: "base>0", BaseFee: "1000000000", MinGas: "0", MaxGas: 40_000_000, Lead: 1},
		{World: "base=0", BaseFee: "0", MinGas: "0", MaxGas: 40_000_000, Lead: 1},
		{World: "base=0,min-gas-price>0,block-1", BaseFee: "0", MinGas: "1000000000", MaxGas: 40_000_000, Lead: 0},
		{World: "base=min-gas-price-floor", BaseFee: "0", MinGas: "1000000000", MaxGas: 40_000_000, Lead: 1},
		{World: "base=7wei", BaseFee: "7", MinGas: "0", MaxGas: 40_000_000, Lead: 1},
	}
	if thorough {
		ws = append(ws,
			c05FmCase{World: "base>0,block-1", BaseFee: "1000000000", MinGas: "0", MaxGas: 40_000_000, Lead: 0},
			c05FmCase{World: "base=0,block-1", BaseFee: "0", MinGas: "0", MaxGas: 40_000_000, Lead: 0},
			c05FmCase{World: "base=1wei", BaseFee: "1", MinGas: "0", MaxGas: 40_000_000, Lead: 1},
			c05FmCase{World: "base<min-gas-price,block-1", BaseFee: "1000000000", MinGas: "2500000000.5", MaxGas: 40_000_000, Lead: 0},
			c05FmCase{World: "base=0,max-gas-unlimited", BaseFee: "0", MinGas: "0", MaxGas: -1, Lead: 1},
		)
	}
	for i := range ws {
		ws[i].Part = "feemarket"
	}
	return ws
}

// c05FmPilot measures the gas used by each behaviour with an ample limit in the default world.
func c05FmPilot(kinds []string) map[string]uint64 {
	out := map[string]uint64{}
	w0 := c05FmWorlds(false)[0]
	for _, k := range kinds {
		c := w0
		c.Blocks = [][]c05FmTx{{{Kind: k, Sender: 0, Fee: c05Shapes(false)[0], GasLimit: 1_000_000}}}
		_, bl := c05FmRun(c)
		t := bl[0].Txs[0]
		if t.Rc != nil && t.Rc.HasReceipt {
			out[k] = t.Rc.GasUsed
		} else {
			out[k] = 100_000
		}
	}
	return out
}

func c05FmCases(thorough bool) []c05FmCase {
	kinds := c05KindsQuick
	if thorough {
		kinds = c05KindsThorough
	}
	shapes := c05Shapes(thorough)
	worlds := c05FmWorlds(thorough)
	used := c05FmPilot(kinds)
	gas := func(k string) []uint64 {
		switch k {
		case "out-of-gas":
			return []uint64{30_000, 45_000}
		case "intrinsic-low":
			return []uint64{20_999}
		}
		u := used[k]
		if thorough {
			return []uint64{u, u + 1, 2 * u, 1_000_000, 6_000_000}
		}
		return []uint64{u, 1_000_000}
	}
	mk := func(w c05FmCase, blocks ...[]c05FmTx) c05FmCase {
		w.Blocks = blocks
		return w
	}
	var cases []c05FmCase
	// 1. single-tx blocks: full product world × behaviour × fee shape × gas limit
	for _, w := range worlds {
		for _, k := range kinds {
			for _, f := range shapes {
				for _, g := range gas(k) {
					cases = append(cases, mk(w, []c05FmTx{{Kind: k, Sender: 0, Fee: f, GasLimit: g}}))
				}
			}
		}
	}
	// 2. four-sender blocks: wallet i sends behaviour k with shape (j+i) — the fee collector sums four different prices
	for _, w := range worlds {
		for _, k := range kinds {
			for j := range shapes {
				var blk []c05FmTx
				for i := 0; i < 4; i++ {
					gv := gas(k)
					blk = append(blk, c05FmTx{Kind: k, Sender: i, Fee: shapes[(j+i*5)%len(shapes)], GasLimit: gv[(i+j)%len(gv)]})
				}
				cases = append(cases, mk(w, blk))
			}
		}
	}
	// 3. two txs of the same sender in one block: all ordered pairs of fee shapes
	pairKinds := [][2]string{{"transfer", "sclear"}}
	if thorough {
		pairKinds = [][2]string{{"transfer", "sclear"}, {"revert-with-value", "transfer"}, {"value-too-high", "create"}}
	}
	for wi, w := range worlds {
		if !thorough && wi >= 2 {
			break
		}
		for _, pk := range pairKinds {
			for _, f1 := range shapes {
				for _, f2 := range shapes {
					cases = append(cases, mk(w, []c05FmTx{
						{Kind: pk[0], Sender: 0, Fee: f1, GasLimit: 1_000_000},
						{Kind: pk[1], Sender: 0, Fee: f2, GasLimit: gas(pk[1])[0] + 5_000},
					}))
				}
			}
		}
	}
	// 4. two-block histories in 100k-gas worlds: the first block is more than half full, so the base fee of the second block
	// has moved (0 -> 1 wei; 1 gwei -> more), and a second tx can exhaust the block gas
	first := []c05FmTx{{Kind: "burn", Sender: 3, Fee: shapes[0], GasLimit: 70_000}}
	for _, w := range []c05FmCase{
		{Part: "feemarket", World: "base=0,100k-blocks", BaseFee: "0", MinGas: "0", MaxGas: 100_000, Lead: 1},
		{Part: "feemarket", World: "base>0,100k-blocks", BaseFee: "1000000000", MinGas: "0", MaxGas: 100_000, Lead: 1},
	} {
		for _, k := range kinds {
			for _, f := range shapes {
				g := gas(k)[0]
				if g > 90_000 {
					g = 90_000
				}
				cases = append(cases, mk(w, first, []c05FmTx{{Kind: k, Sender: 0, Fee: f, GasLimit: g}}))
				cases = append(cases, mk(w, []c05FmTx{{Kind: "burn", Sender: 3, Fee: f, GasLimit: 70_000}, {Kind: k, Sender: 0, Fee: f, GasLimit: g}}))
			}
		}
	}
	// 5., 6. the access-list dimension (c05_accesslist.go)
	cases = append(cases, c05ALCases(thorough, worlds)...)
	return cases
}

// c05FmSanity: cases built to succeed must succeed in every world (non-vacuity of the alphabet).
func c05FmSanity(c c05FmCase, blocks []*c05FmBlock) []ev.Finding {
	var out []ev.Finding
	for bi, b := range blocks {
		for i, t := range b.Txs {
			if !t.Built || t.Spec.Kind != "transfer" || t.Spec.GasLimit < c05RefIntrinsic(t.Spec) || i > 0 {
				continue
			}
			floor := new(big.Int).Set(b.BaseFee) // the lowest price the chain accepts: the larger of base fee and global min gas price
			if mg, err := sdkmath.LegacyNewDecFromStr(b.MinGas); err == nil && mg.TruncateInt().BigInt().Cmp(floor) > 0 {
				floor = mg.TruncateInt().BigInt()
			}
			switch t.Spec.Fee.Name {
			case "legacy=b+1gwei", "al=b+1gwei", "dyn tip=cap=b+1gwei", "dyn tip=1gwei cap=b+3gwei", "dyn tip=1gwei cap=b+1gwei":
				if t.Class != "committed-ok" && t.Price.Cmp(floor) >= 0 {
					out = append(out, ev.Finding{Clause: "alphabet-sanity", Detail: fmt.Sprintf("[%s] block %d tx %d (%s) was built to succeed but is %s: code=%d log=%s", c.World, bi, i, t.Spec, t.Class, t.Code, t.Log), Replay: c})
				}
			}
		}
	}
	return append(out, c05ALSanity(c, blocks)...)
}
