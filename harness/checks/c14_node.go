package checks

// C14 helpers: a recorded chain (real cmttypes.Block + the FinalizeBlock responses of the real app, plus the ground truth
// parsed from the consensus events) and a fake CometBFT RPC client serving it to the real KVIndexer, the real
// rpc/backend.Backend and the real server.EVMIndexerService.

import (
	"context"
	"crypto/sha256"
	"fmt"
	"strings"
	"sync"

	abci "github.com/cometbft/cometbft/abci/types"
	cmtbytes "github.com/cometbft/cometbft/libs/bytes"
	cmtproto "github.com/cometbft/cometbft/proto/tendermint/types"
	cmtversion "github.com/cometbft/cometbft/proto/tendermint/version"
	rpcclient "github.com/cometbft/cometbft/rpc/client"
	ctypes "github.com/cometbft/cometbft/rpc/core/types"
	cmttypes "github.com/cometbft/cometbft/types"
	"github.com/cometbft/cometbft/version"
	"github.com/ethereum/go-ethereum/common"
	ethtypes "github.com/ethereum/go-ethereum/core/types"

	"verif/harness/world"
)

// c14Tx is the consensus-side truth about one transaction of a block (derived from the tx bytes and the ExecTxResult
// events only, with world.ParseReceipt as in C13).
type c14Tx struct {
	Pos   int
	Spec  TxSpec
	Eth   *ethtypes.Transaction // nil for Cosmos txs
	Hash  common.Hash
	From  common.Address
	Class string // cosmos | rejected | dropped | ok | vmerr | failed

	Admitted   bool  // has the ethereum_tx event: passed the ante handler, counts for the eth tx index
	EthIdx     int32 // txIndex attribute of the ethereum_tx event
	HasReceipt bool
	Status     uint64
	GasUsed    uint64
	Cum        uint64 // cumulative gas after this tx (receipt value, or running sum + gas limit when there is no receipt)
	Logs       []*ethtypes.Log
	Contract   *common.Address
	GasLimit   uint64
}

type c14Block struct {
	Height   int64
	Blk      *cmttypes.Block
	ID       cmttypes.BlockID
	Hash     common.Hash
	Res      *ctypes.ResultBlockResults
	Txs      []*c14Tx
	Admitted []*c14Tx
	Bloom    ethtypes.Bloom
	TotalGas uint64
	NLogs    int
}

type c14Chain struct {
	W      *world.World
	Blocks map[int64]*c14Block // by height (1 = the empty first block)
	Tip    int64
	// Problems found while building the ground truth (C13-level laws the C14 expectations rely on)
	Problems []string
}

func (c *c14Chain) heights() []int64 {
	var hs []int64
	for h := int64(1); h <= c.Tip; h++ {
		hs = append(hs, h)
	}
	return hs
}

// c14ValHash is an arbitrary but fixed 32-byte stand-in for the validator-set hash (the harness has no CometBFT
// validator set; the header only needs a non-empty value to have a hash).
func c14ValHash(w *world.World) []byte {
	hh := sha256.New()
	for _, v := range w.Validators {
		hh.Write(v.Cons())
	}
	return hh.Sum(nil)
}

// c14Extend executes one more block on the chain's world: builds the real cmttypes.Block first (so that FinalizeBlock
// receives the real block hash), runs FinalizeBlock + Commit and records block, results and ground truth.
func (c *c14Chain) extend(specs []TxSpec) error {
	w := c.W
	h := w.Height + 1
	base := w.App.FeeMarketKeeper.GetBaseFee(w.Ctx()).BigInt()
	var raws [][]byte
	fixed := make([]TxSpec, len(specs))
	for i, s := range specs {
		s.Nonce = w.Nonce(w.Ctx(), w.Wallets[s.Sender].Eth()) // every tx of a block has its own sender
		fixed[i] = s
		raws = append(raws, BuildTx(w, s, base))
	}

	var prev *c14Block
	if h > 1 {
		prev = c.Blocks[h-1]
	}
	var lastID cmttypes.BlockID
	lastCommit := &cmttypes.Commit{}
	var lastResults []byte
	if prev != nil {
		lastID = prev.ID
		var sigs []cmttypes.CommitSig
		for _, v := range w.Validators {
			sigs = append(sigs, cmttypes.CommitSig{BlockIDFlag: cmttypes.BlockIDFlagCommit, ValidatorAddress: cmtbytes.HexBytes(v.Cons()), Timestamp: w.BlockTime(h - 1), Signature: make([]byte, 64)})
		}
		lastCommit = &cmttypes.Commit{Height: h - 1, Round: 0, BlockID: lastID, Signatures: sigs}
		lastResults = cmttypes.NewResults(prev.Res.TxsResults).Hash()
	}
	txs := make([]cmttypes.Tx, len(raws))
	for i := range raws {
		txs[i] = raws[i]
	}
	blk := cmttypes.MakeBlock(h, txs, lastCommit, nil)
	vh := c14ValHash(w)
	cp := cmttypes.ConsensusParamsFromProto(*w.ConsParams)
	blk.Header.Populate(cmtversion.Consensus{Block: version.BlockProtocol, App: 0}, world.ChainID, w.BlockTime(h), lastID,
		vh, vh, cp.Hash(), w.LastHash, lastResults, cmtbytes.HexBytes(w.Validators[0].Cons()))
	hash := blk.Hash()
	if len(hash) != 32 {
		return fmt.Errorf("block %d has no hash", h)
	}
	ps, err := blk.MakePartSet(cmttypes.BlockPartSizeBytes)
	if err != nil {
		return err
	}
	id := cmttypes.BlockID{Hash: hash, PartSetHeader: ps.Header()}

	var votes []abci.VoteInfo
	for _, v := range w.Validators {
		votes = append(votes, abci.VoteInfo{Validator: abci.Validator{Address: v.Cons(), Power: 1}, BlockIdFlag: cmtproto.BlockIDFlagCommit})
	}
	req := &abci.RequestFinalizeBlock{Height: h, Txs: raws, Hash: hash, Time: w.BlockTime(h), ProposerAddress: w.Validators[0].Cons(),
		DecidedLastCommit: abci.CommitInfo{Votes: votes}, NextValidatorsHash: vh}
	br := &world.BlockResult{Height: h, Req: req}
	func() {
		defer func() {
			if r := recover(); r != nil {
				br.Panic = fmt.Sprint(r)
			}
		}()
		br.Res, br.Err = w.App.FinalizeBlock(req)
	}()
	w.CommitBlock(br)
	if br.Panic != "" || br.Err != nil {
		return fmt.Errorf("block %d: panic=%q err=%v", h, br.Panic, br.Err)
	}
	// what a node serves is the stored (proto round-tripped) response
	bz, err := br.Res.Marshal()
	if err != nil {
		return err
	}
	var stored abci.ResponseFinalizeBlock
	if err := stored.Unmarshal(bz); err != nil {
		return err
	}
	b := &c14Block{Height: h, Blk: blk, ID: id, Hash: common.BytesToHash(hash),
		Res: &ctypes.ResultBlockResults{Height: h, TxsResults: stored.TxResults, FinalizeBlockEvents: stored.Events,
			ValidatorUpdates: stored.ValidatorUpdates, ConsensusParamUpdates: stored.ConsensusParamUpdates, AppHash: stored.AppHash}}
	c.truth(b, fixed, raws, br.Res)
	c.Blocks[h] = b
	c.Tip = h
	return nil
}

// truth derives the expected (consensus) view of the block.
func (c *c14Chain) truth(b *c14Block, specs []TxSpec, raws [][]byte, res *abci.ResponseFinalizeBlock) {
	w := c.W
	problem := func(f string, a ...interface{}) {
		c.Problems = append(c.Problems, fmt.Sprintf("block %d: ", b.Height)+fmt.Sprintf(f, a...))
	}
	cum, nlogs, idx := uint64(0), 0, int32(0)
	for i, r := range res.TxResults {
		t := &c14Tx{Pos: i, Spec: specs[i], EthIdx: -1}
		b.Txs = append(b.Txs, t)
		rc, err := world.ParseReceipt(i, r)
		if err != nil {
			problem("tx %d: %v", i, err)
			continue
		}
		if !specs[i].Kind.IsEth() {
			t.Class = "cosmos"
			if rc.HasEthTx || rc.HasReceipt {
				problem("tx %d: cosmos tx with eth events", i)
			}
			continue
		}
		t.Eth = decodeEth(w, raws[i])
		if t.Eth == nil {
			problem("tx %d: not decodable as eth tx", i)
			continue
		}
		t.Hash = t.Eth.Hash()
		t.GasLimit = t.Eth.Gas()
		from, err := ethtypes.Sender(w.EthSigner, t.Eth)
		if err != nil || from != w.Wallets[specs[i].Sender].Eth() {
			problem("tx %d: sender recovery %v %s", i, err, from)
		}
		t.From = from
		if !rc.HasEthTx {
			if rc.HasReceipt || r.Code == 0 {
				problem("tx %d: receipt/code 0 without admission event", i)
			}
			if strings.Contains(r.Log, "no block gas left") {
				t.Class = "dropped"
			} else {
				t.Class = "rejected"
			}
			continue
		}
		t.Admitted = true
		t.EthIdx = int32(rc.EthTxIndex)
		if t.EthIdx != idx {
			problem("tx %d: ethereum_tx.txIndex=%d, %d admitted before", i, t.EthIdx, idx)
		}
		if !strings.EqualFold(rc.EthTxHash, t.Hash.Hex()) {
			problem("tx %d: ethereum_tx hash %s want %s", i, rc.EthTxHash, t.Hash.Hex())
		}
		idx++
		b.Admitted = append(b.Admitted, t)
		if !rc.HasReceipt {
			if r.Code == 0 {
				problem("tx %d: committed without receipt", i)
			}
			t.Class = "failed"
			t.Status = 0
			t.GasUsed = t.GasLimit
			cum += t.GasLimit
			t.Cum = cum
			continue
		}
		if r.Code != 0 {
			problem("tx %d: receipt on failed tx", i)
		}
		t.HasReceipt = true
		t.Status = rc.R.Status
		t.GasUsed = rc.GasUsed
		if rc.R.CumulativeGasUsed != cum+rc.GasUsed {
			problem("tx %d: consensus cumulative gas %d is not the running sum %d", i, rc.R.CumulativeGasUsed, cum+rc.GasUsed)
		}
		cum = rc.R.CumulativeGasUsed
		t.Cum = cum
		if int64(t.EthIdx) != rc.TxIdx {
			problem("tx %d: tx_receipt.txIdx=%d, ethereum_tx.txIndex=%d", i, rc.TxIdx, t.EthIdx)
		}
		if rc.ContractAddr != "" {
			a := common.HexToAddress(rc.ContractAddr)
			t.Contract = &a
		}
		if len(rc.R.Logs) > 0 && rc.LogIdx != int64(nlogs) {
			problem("tx %d: consensus logIdx=%d, %d logs before", i, rc.LogIdx, nlogs)
		}
		for j, l := range rc.R.Logs {
			t.Logs = append(t.Logs, &ethtypes.Log{Address: l.Address, Topics: append([]common.Hash{}, l.Topics...), Data: append([]byte{}, l.Data...),
				BlockNumber: uint64(b.Height), TxHash: t.Hash, TxIndex: uint(t.EthIdx), BlockHash: b.Hash, Index: uint(rc.LogIdx) + uint(j)})
		}
		nlogs += len(rc.R.Logs)
		if t.Status == ethtypes.ReceiptStatusSuccessful {
			t.Class = "ok"
			if rc.HasVmError {
				problem("tx %d: status 1 with vm error", i)
			}
		} else {
			t.Class = "vmerr"
		}
	}
	b.TotalGas = cum
	b.NLogs = nlogs
	if bloomHex, n := world.BlockBloom(res); n == 1 && bloomHex != "" {
		b.Bloom = ethtypes.BytesToBloom(common.FromHex(bloomHex))
	}
}

// newC14Chain builds the world, the empty block 1 and one block per spec list.
func newC14Chain(c c14Case) (*c14Chain, error) {
	ch := &c14Chain{W: c13World(c.MaxGas), Blocks: map[int64]*c14Block{}}
	if err := ch.extend(nil); err != nil {
		return nil, err
	}
	for _, blk := range c.Blocks {
		if err := ch.extend(blk); err != nil {
			return nil, err
		}
	}
	return ch, nil
}

// ---------------------------------------------------------------------------------------------------------------------
// fake CometBFT RPC client
// ---------------------------------------------------------------------------------------------------------------------

// c14Node serves a recorded chain up to height tip. Only the methods the indexer, the indexer service and the backend
// use are implemented; the embedded nil Client makes any other call panic (and so visible).
type c14Node struct {
	rpcclient.Client
	chain *c14Chain
	query func(context.Context, *abci.RequestQuery) (*abci.ResponseQuery, error) // nil: no application behind (crash runs)

	mu    sync.Mutex
	tip   int64
	sub   chan ctypes.ResultEvent
	calls map[string]int
}

func newC14Node(ch *c14Chain, tip int64, withApp bool) *c14Node {
	n := &c14Node{chain: ch, tip: tip, calls: map[string]int{}}
	if withApp {
		n.query = ch.W.App.Query
	}
	return n
}

func (n *c14Node) count(name string) {
	n.mu.Lock()
	n.calls[name]++
	n.mu.Unlock()
}

func (n *c14Node) height(p *int64) (int64, error) {
	n.mu.Lock()
	tip := n.tip
	n.mu.Unlock()
	if p == nil {
		return tip, nil
	}
	h := *p
	if h <= 0 {
		return 0, fmt.Errorf("height must be greater than 0, but got %d", h)
	}
	if h > tip {
		return 0, fmt.Errorf("height %d must be less than or equal to the current blockchain height %d", h, tip)
	}
	return h, nil
}

func (n *c14Node) Status(context.Context) (*ctypes.ResultStatus, error) {
	n.count("Status")
	n.mu.Lock()
	defer n.mu.Unlock()
	b := n.chain.Blocks[n.tip]
	return &ctypes.ResultStatus{SyncInfo: ctypes.SyncInfo{
		LatestBlockHash: b.ID.Hash, LatestAppHash: b.Res.AppHash, LatestBlockHeight: n.tip, LatestBlockTime: b.Blk.Time,
		EarliestBlockHash: n.chain.Blocks[1].ID.Hash, EarliestBlockHeight: 1, EarliestBlockTime: n.chain.Blocks[1].Blk.Time,
	}}, nil
}

func (n *c14Node) Block(_ context.Context, height *int64) (*ctypes.ResultBlock, error) {
	n.count("Block")
	h, err := n.height(height)
	if err != nil {
		return nil, err
	}
	b := n.chain.Blocks[h]
	return &ctypes.ResultBlock{BlockID: b.ID, Block: b.Blk}, nil
}

func (n *c14Node) BlockByHash(_ context.Context, hash []byte) (*ctypes.ResultBlock, error) {
	n.count("BlockByHash")
	n.mu.Lock()
	tip := n.tip
	n.mu.Unlock()
	for h := int64(1); h <= tip; h++ {
		b := n.chain.Blocks[h]
		if string(b.ID.Hash) == string(hash) {
			return &ctypes.ResultBlock{BlockID: b.ID, Block: b.Blk}, nil
		}
	}
	return &ctypes.ResultBlock{BlockID: cmttypes.BlockID{}, Block: nil}, nil // what rpc/core answers for an unknown hash
}

func (n *c14Node) BlockResults(_ context.Context, height *int64) (*ctypes.ResultBlockResults, error) {
	n.count("BlockResults")
	h, err := n.height(height)
	if err != nil {
		return nil, err
	}
	return n.chain.Blocks[h].Res, nil
}

func (n *c14Node) ConsensusParams(_ context.Context, height *int64) (*ctypes.ResultConsensusParams, error) {
	n.count("ConsensusParams")
	h, err := n.height(height)
	if err != nil {
		return nil, err
	}
	return &ctypes.ResultConsensusParams{BlockHeight: h, ConsensusParams: cmttypes.ConsensusParamsFromProto(*n.chain.W.ConsParams)}, nil
}

func (n *c14Node) ABCIQuery(ctx context.Context, path string, data cmtbytes.HexBytes) (*ctypes.ResultABCIQuery, error) {
	return n.ABCIQueryWithOptions(ctx, path, data, rpcclient.DefaultABCIQueryOptions)
}

func (n *c14Node) ABCIQueryWithOptions(ctx context.Context, path string, data cmtbytes.HexBytes, opts rpcclient.ABCIQueryOptions) (*ctypes.ResultABCIQuery, error) {
	n.count("ABCIQuery")
	if n.query == nil {
		return nil, fmt.Errorf("no application behind this node")
	}
	res, err := n.query(ctx, &abci.RequestQuery{Path: path, Data: data, Height: opts.Height, Prove: opts.Prove})
	if err != nil {
		return nil, err
	}
	return &ctypes.ResultABCIQuery{Response: *res}, nil
}

func (n *c14Node) UnconfirmedTxs(context.Context, *int) (*ctypes.ResultUnconfirmedTxs, error) {
	n.count("UnconfirmedTxs")
	return &ctypes.ResultUnconfirmedTxs{}, nil
}

func (n *c14Node) Subscribe(_ context.Context, _, query string, _ ...int) (<-chan ctypes.ResultEvent, error) {
	n.count("Subscribe")
	n.mu.Lock()
	defer n.mu.Unlock()
	if query != cmttypes.QueryForEvent(cmttypes.EventNewBlockHeader).String() {
		return nil, fmt.Errorf("unexpected subscription %q", query)
	}
	n.sub = make(chan ctypes.ResultEvent, 64)
	return n.sub, nil
}

func (n *c14Node) Unsubscribe(context.Context, string, string) error {
	n.count("Unsubscribe")
	return nil
}

// publish makes block h visible and delivers its NewBlockHeader event to the subscriber (if any).
func (n *c14Node) publish(h int64) {
	n.mu.Lock()
	if h > n.tip {
		n.tip = h
	}
	sub := n.sub
	n.mu.Unlock()
	if sub != nil {
		sub <- ctypes.ResultEvent{Query: cmttypes.QueryForEvent(cmttypes.EventNewBlockHeader).String(),
			Data: cmttypes.EventDataNewBlockHeader{Header: n.chain.Blocks[h].Blk.Header}}
	}
}
