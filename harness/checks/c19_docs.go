package checks

// C19, sign-document model: a logical Cosmos transaction (header fields + messages) that can be encoded either as
// an amino-JSON StdSignDoc or as a protobuf SignDoc, plus the single-field perturbation families.

import (
	"encoding/json"
	"fmt"
	"math/big"
	"sort"
	"strconv"
	"strings"

	sdkmath "cosmossdk.io/math"
	codectypes "github.com/cosmos/cosmos-sdk/codec/types"
	cryptotypes "github.com/cosmos/cosmos-sdk/crypto/types"
	sdk "github.com/cosmos/cosmos-sdk/types"
	txtypes "github.com/cosmos/cosmos-sdk/types/tx"
	"github.com/cosmos/cosmos-sdk/types/tx/signing"
	"github.com/cosmos/cosmos-sdk/x/auth/migrations/legacytx"
	"github.com/cosmos/cosmos-sdk/x/authz"
	banktypes "github.com/cosmos/cosmos-sdk/x/bank/types"
	govv1 "github.com/cosmos/cosmos-sdk/x/gov/types/v1"
	stakingtypes "github.com/cosmos/cosmos-sdk/x/staking/types"
	"github.com/cosmos/gogoproto/proto"
)

type c19Msg struct {
	Kind string            `json:"kind"` // send | delegate | vote | submit | exec
	F    map[string]string `json:"f"`
}

// c19Doc is one sign document. H keys: chain_id, account_number, sequence, fee_amount, fee_denom, gas, memo and the
// optional "unlisted" ones (granter, payer, tip, timeout, pubkey, mode) used only for informational probes.
type c19Doc struct {
	Enc  string            `json:"enc"` // amino | proto
	H    map[string]string `json:"h"`
	Msgs []c19Msg          `json:"msgs"`
}

func (d c19Doc) clone() c19Doc {
	o := c19Doc{Enc: d.Enc, H: map[string]string{}}
	for k, v := range d.H {
		o.H[k] = v
	}
	for _, m := range d.Msgs {
		nm := c19Msg{Kind: m.Kind, F: map[string]string{}}
		for k, v := range m.F {
			nm.F[k] = v
		}
		o.Msgs = append(o.Msgs, nm)
	}
	return o
}

// logical identifies the document independently of its encoding.
func (d c19Doc) logical() string {
	bz, _ := json.Marshal(struct {
		H    map[string]string `json:"h"`
		Msgs []c19Msg          `json:"msgs"`
	}{d.H, d.Msgs})
	return string(bz)
}

func (d c19Doc) id() string { return d.Enc + ":" + d.logical() }

// set applies "field=value"; field is a header key or "msg<i>.<leaf>".
func (d c19Doc) set(field, value string) c19Doc {
	o := d.clone()
	if strings.HasPrefix(field, "msg") {
		dot := strings.Index(field, ".")
		i, _ := strconv.Atoi(field[3:dot])
		o.Msgs[i].F[field[dot+1:]] = value
		return o
	}
	o.H[field] = value
	return o
}

func (d c19Doc) get(field string) string {
	if strings.HasPrefix(field, "msg") {
		dot := strings.Index(field, ".")
		i, _ := strconv.Atoi(field[3:dot])
		return d.Msgs[i].F[field[dot+1:]]
	}
	return d.H[field]
}

func c19Int(s string) sdkmath.Int {
	b, ok := new(big.Int).SetString(s, 10)
	if !ok {
		panic("c19: bad integer " + s)
	}
	return sdkmath.NewIntFromBigInt(b)
}

func c19U64(s string) uint64 {
	v, err := strconv.ParseUint(s, 10, 64)
	if err != nil {
		panic("c19: bad uint64 " + s)
	}
	return v
}

func c19Coins(pairs ...string) sdk.Coins {
	var cs sdk.Coins
	for i := 0; i+1 < len(pairs); i += 2 {
		if pairs[i] == "" && pairs[i+1] == "" {
			continue
		}
		cs = append(cs, sdk.Coin{Denom: pairs[i+1], Amount: c19Int(pairs[i])})
	}
	return cs
}

func c19BuildSend(f map[string]string) *banktypes.MsgSend {
	return &banktypes.MsgSend{FromAddress: f["from"], ToAddress: f["to"], Amount: c19Coins(f["amount"], f["denom"], f["amount2"], f["denom2"])}
}

// c19BuildMsg turns the model message into the chain's sdk.Msg.
func c19BuildMsg(m c19Msg) (sdk.Msg, error) {
	f := m.F
	switch m.Kind {
	case "send":
		return c19BuildSend(f), nil
	case "delegate":
		return &stakingtypes.MsgDelegate{DelegatorAddress: f["delegator"], ValidatorAddress: f["validator"], Amount: sdk.Coin{Denom: f["denom"], Amount: c19Int(f["amount"])}}, nil
	case "vote":
		opt, _ := strconv.Atoi(f["option"])
		return &govv1.MsgVote{ProposalId: c19U64(f["proposal_id"]), Voter: f["voter"], Option: govv1.VoteOption(opt), Metadata: f["metadata"]}, nil
	case "submit":
		inner, err := codectypes.NewAnyWithValue(c19BuildSend(map[string]string{"from": f["inner_from"], "to": f["inner_to"], "amount": f["inner_amount"], "denom": f["inner_denom"]}))
		if err != nil {
			return nil, err
		}
		return &govv1.MsgSubmitProposal{Messages: []*codectypes.Any{inner}, InitialDeposit: c19Coins(f["deposit_amount"], f["deposit_denom"], f["deposit_amount2"], f["deposit_denom2"]),
			Proposer: f["proposer"], Metadata: f["metadata"], Title: f["title"], Summary: f["summary"], Expedited: f["expedited"] == "true"}, nil
	case "exec":
		inner, err := codectypes.NewAnyWithValue(c19BuildSend(map[string]string{"from": f["inner_from"], "to": f["inner_to"], "amount": f["inner_amount"], "denom": f["inner_denom"]}))
		if err != nil {
			return nil, err
		}
		return &authz.MsgExec{Grantee: f["grantee"], Msgs: []*codectypes.Any{inner}}, nil
	}
	return nil, fmt.Errorf("unknown kind %s", m.Kind)
}

// c19SignBytes encodes the document as the bytes a signer of that sign mode signs (and the ante handler verifies against).
func c19SignBytes(d c19Doc, signerPub cryptotypes.PubKey) (bz []byte, err error) {
	defer func() {
		if r := recover(); r != nil {
			err = fmt.Errorf("encoder panic: %v", r)
		}
	}()
	var msgs []sdk.Msg
	for _, m := range d.Msgs {
		sm, e := c19BuildMsg(m)
		if e != nil {
			return nil, e
		}
		msgs = append(msgs, sm)
	}
	fee := c19Coins(d.H["fee_amount"], d.H["fee_denom"], d.H["fee_amount2"], d.H["fee_denom2"])
	accnum, seq, gas := c19U64(d.H["account_number"]), c19U64(d.H["sequence"]), c19U64(d.H["gas"])
	timeout := uint64(0)
	if d.H["timeout"] != "" {
		timeout = c19U64(d.H["timeout"])
	}
	switch d.Enc {
	case "amino":
		sf := legacytx.StdFee{Amount: fee, Gas: gas, Payer: d.H["payer"], Granter: d.H["granter"]}
		return legacytx.StdSignBytes(d.H["chain_id"], accnum, seq, timeout, sf, msgs, d.H["memo"]), nil
	case "proto":
		var anys []*codectypes.Any
		for _, m := range msgs {
			a, e := codectypes.NewAnyWithValue(m)
			if e != nil {
				return nil, e
			}
			anys = append(anys, a)
		}
		body := &txtypes.TxBody{Messages: anys, Memo: d.H["memo"], TimeoutHeight: timeout}
		bodyBz, e := proto.Marshal(body)
		if e != nil {
			return nil, e
		}
		var pkAny *codectypes.Any
		if d.H["pubkey"] != "none" {
			pkAny, e = codectypes.NewAnyWithValue(signerPub)
			if e != nil {
				return nil, e
			}
		}
		mode := signing.SignMode_SIGN_MODE_DIRECT
		if d.H["mode"] == "amino" {
			mode = signing.SignMode_SIGN_MODE_LEGACY_AMINO_JSON
		}
		ai := &txtypes.AuthInfo{
			SignerInfos: []*txtypes.SignerInfo{{PublicKey: pkAny, ModeInfo: &txtypes.ModeInfo{Sum: &txtypes.ModeInfo_Single_{Single: &txtypes.ModeInfo_Single{Mode: mode}}}, Sequence: seq}},
			Fee:         &txtypes.Fee{Amount: fee, GasLimit: gas, Payer: d.H["payer"], Granter: d.H["granter"]},
		}
		if d.H["nofee"] != "" {
			ai.Fee = nil
		}
		if d.H["tip"] != "" {
			ai.Tip = &txtypes.Tip{Amount: c19Coins(d.H["tip"], d.H["fee_denom"]), Tipper: d.H["payer"]}
		}
		aiBz, e := proto.Marshal(ai)
		if e != nil {
			return nil, e
		}
		sd := &txtypes.SignDoc{BodyBytes: bodyBz, AuthInfoBytes: aiBz, ChainId: d.H["chain_id"], AccountNumber: accnum}
		return proto.Marshal(sd)
	}
	return nil, fmt.Errorf("unknown encoding %s", d.Enc)
}

// ---------------------------------------------------------------------------
// perturbation families
// ---------------------------------------------------------------------------

type c19Addrs struct{ A, B, C, ValA, ValB string }

// leaf type tags per message kind
var c19Leaves = map[string][][2]string{
	"send":     {{"from", "addr"}, {"to", "addr"}, {"amount", "amount"}, {"denom", "denom"}, {"amount2", "amount?"}, {"denom2", "denom?"}},
	"delegate": {{"delegator", "addr"}, {"validator", "valaddr"}, {"amount", "amount"}, {"denom", "denom"}},
	"vote":     {{"proposal_id", "uint"}, {"voter", "addr"}, {"option", "enum"}, {"metadata", "text"}},
	"submit": {{"proposer", "addr"}, {"title", "text"}, {"summary", "text"}, {"metadata", "text"}, {"expedited", "bool"},
		{"deposit_amount", "amount"}, {"deposit_denom", "denom"}, {"deposit_amount2", "amount"}, {"deposit_denom2", "denom"},
		{"inner_from", "addr"}, {"inner_to", "addr"}, {"inner_amount", "amount"}, {"inner_denom", "denom"}},
	"exec": {{"grantee", "addr"}, {"inner_from", "addr"}, {"inner_to", "addr"}, {"inner_amount", "amount"}, {"inner_denom", "denom"}},
}

// signer leaf per kind (changing it alone in a multi-message tx makes the tx multi-signer, which the renderer refuses)
var c19SignerLeaf = map[string]string{"send": "from", "delegate": "delegator", "vote": "voter", "submit": "proposer", "exec": "grantee"}

func c19Alts(tag, base string, ad c19Addrs, thorough bool) []string {
	num := func(b string) []string {
		v, _ := new(big.Int).SetString(b, 10)
		out := []string{new(big.Int).Add(v, big.NewInt(1)).String(), new(big.Int).Mul(v, big.NewInt(10)).String(), "1"}
		if thorough {
			out = append(out, b+"0", "9"+b, new(big.Int).Add(v, new(big.Int).Lsh(big.NewInt(1), 53)).String())
		}
		return out
	}
	var out []string
	switch tag {
	case "addr":
		out = []string{ad.A, ad.B, ad.C}
	case "valaddr":
		out = []string{ad.ValA, ad.ValB}
	case "amount":
		out = num(base)
	case "amount?": // optional second coin: base is absent
		return nil
	case "denom?":
		return nil
	case "denom":
		out = []string{"uatom", "wej", "weii"}
	case "uint":
		out = append(num(base), "0")
	case "u64":
		out = append(num(base), "0", "18446744073709551615")
	case "enum":
		out = []string{"1", "2", "3", "4"}
	case "bool":
		out = []string{"true", "false"}
	case "text":
		out = []string{"", base + "x", "X" + base, base + " ", strings.ToUpper(base), `","sequence":"9`, `"}],"memo":"x`, "héllo", "\\u0068"}
		if thorough {
			out = append(out, base+"\n", " "+base, "<"+base+">", "null", "0", "[]", "{}", "\u0000")
		}
	case "chain":
		out = []string{"evermint_80808-2", "evermint_80809-1", "evermins_80808-1", "evermint_8080-81", "evermint_1-1", "evermint_18446744073709632424-1", "evermint_80808", "cosmoshub-4", ""}
	}
	var res []string
	seen := map[string]bool{base: true}
	for _, v := range out {
		if !seen[v] {
			seen[v] = true
			res = append(res, v)
		}
	}
	return res
}

type c19Family struct {
	Name string
	Base c19Doc   // Enc unset
	Docs []c19Doc // logical docs (Enc unset), Docs[0] = base; every other differs from base in listed fields
	How  []string // description of the perturbation ("field=value" or "swap a<->b")
}

var c19HeaderFields = [][2]string{{"chain_id", "chain"}, {"account_number", "u64"}, {"sequence", "u64"}, {"fee_amount", "amount"}, {"fee_denom", "denom"}, {"gas", "u64"}, {"memo", "text"}}

func c19Families(ad c19Addrs, thorough bool) []c19Family {
	hdr := func() map[string]string {
		return map[string]string{"chain_id": "evermint_80808-1", "account_number": "7", "sequence": "3", "fee_amount": "2000000000000000", "fee_denom": "wei", "gas": "200000", "memo": "hello"}
	}
	send := func(from, to, amt string) c19Msg {
		return c19Msg{Kind: "send", F: map[string]string{"from": from, "to": to, "amount": amt, "denom": "wei"}}
	}
	bases := []struct {
		name  string
		msgs  []c19Msg
		swaps [][2]string
		multi [][][2]string // simultaneous changes
	}{
		{"send", []c19Msg{send(ad.A, ad.B, "1000")}, [][2]string{{"msg0.from", "msg0.to"}, {"msg0.amount", "sequence"}, {"msg0.denom", "fee_denom"}},
			[][][2]string{{{"msg0.amount2", "5"}, {"msg0.denom2", "zzz"}}, {{"fee_amount2", "5"}, {"fee_denom2", "zzz"}}, {{"fee_amount", ""}, {"fee_denom", ""}},
				// coin lists that are not in sdk.NewCoins form: a zero-amount coin beside / instead of the fee, the two-coin fee in the other order
				{{"fee_amount2", "0"}, {"fee_denom2", "zzz"}},
				{{"fee_amount", "0"}},
				{{"fee_amount", "5"}, {"fee_denom", "zzz"}, {"fee_amount2", "2000000000000000"}, {"fee_denom2", "wei"}},
				{{"fee_amount2", "3"}, {"fee_denom2", "aaa"}},
				{{"fee_amount", "3"}, {"fee_denom", "aaa"}, {"fee_amount2", "2000000000000000"}, {"fee_denom2", "wei"}},
				{{"msg0.amount2", "0"}, {"msg0.denom2", "zzz"}},
				{{"msg0.amount", "5"}, {"msg0.denom", "zzz"}, {"msg0.amount2", "1000"}, {"msg0.denom2", "wei"}}}},
		{"delegate", []c19Msg{{Kind: "delegate", F: map[string]string{"delegator": ad.A, "validator": ad.ValA, "amount": "1000", "denom": "wei"}}}, nil, nil},
		{"send+send", []c19Msg{send(ad.A, ad.B, "1000"), send(ad.A, ad.C, "2000")},
			[][2]string{{"msg0.to", "msg1.to"}, {"msg0.amount", "msg1.amount"}},
			[][][2]string{{{"msg0.from", ad.B}, {"msg1.from", ad.B}}, {{"msg0.to", ad.C}, {"msg0.amount", "2000"}, {"msg1.to", ad.B}, {"msg1.amount", "1000"}}}},
		{"vote", []c19Msg{{Kind: "vote", F: map[string]string{"proposal_id": "12", "voter": ad.A, "option": "1", "metadata": "why"}}}, nil, nil},
		{"submit(nested Any+coins)", []c19Msg{{Kind: "submit", F: map[string]string{"proposer": ad.A, "title": "title", "summary": "summary", "metadata": "meta", "expedited": "false",
			"deposit_amount": "500", "deposit_denom": "aaa", "deposit_amount2": "600", "deposit_denom2": "wei",
			"inner_from": ad.C, "inner_to": ad.B, "inner_amount": "1000", "inner_denom": "wei"}}},
			[][2]string{{"msg0.title", "msg0.summary"}, {"msg0.deposit_amount", "msg0.deposit_amount2"}, {"msg0.inner_from", "msg0.inner_to"}, {"msg0.metadata", "memo"}}, nil},
		{"exec(nested Any)", []c19Msg{{Kind: "exec", F: map[string]string{"grantee": ad.A, "inner_from": ad.C, "inner_to": ad.B, "inner_amount": "1000", "inner_denom": "wei"}}},
			[][2]string{{"msg0.inner_from", "msg0.inner_to"}, {"msg0.grantee", "msg0.inner_from"}}, nil},
		{"send+delegate", []c19Msg{send(ad.A, ad.B, "1000"), {Kind: "delegate", F: map[string]string{"delegator": ad.A, "validator": ad.ValA, "amount": "1000", "denom": "wei"}}},
			[][2]string{{"msg0.amount", "msg1.amount"}}, [][][2]string{{{"msg0.amount", "999"}, {"msg1.amount", "1001"}}}},
	}
	var fams []c19Family
	for _, b := range bases {
		base := c19Doc{H: hdr(), Msgs: b.msgs}
		fam := c19Family{Name: b.name, Base: base}
		seen := map[string]bool{}
		add := func(d c19Doc, how string) {
			k := d.logical()
			if seen[k] {
				return
			}
			seen[k] = true
			fam.Docs = append(fam.Docs, d)
			fam.How = append(fam.How, how)
		}
		add(base, "base")
		for _, hf := range c19HeaderFields {
			for _, v := range c19Alts(hf[1], base.H[hf[0]], ad, thorough) {
				add(base.set(hf[0], v), hf[0]+"="+v)
			}
		}
		add(base.set("account_number", base.H["sequence"]).set("sequence", base.H["account_number"]), "swap account_number<->sequence")
		add(base.set("gas", base.H["fee_amount"]).set("fee_amount", base.H["gas"]), "swap gas<->fee_amount")
		for i, m := range b.msgs {
			for _, lf := range c19Leaves[m.Kind] {
				field := fmt.Sprintf("msg%d.%s", i, lf[0])
				for _, v := range c19Alts(lf[1], m.F[lf[0]], ad, thorough) {
					add(base.set(field, v), field+"="+v)
				}
			}
		}
		for _, s := range b.swaps {
			add(base.set(s[0], base.get(s[1])).set(s[1], base.get(s[0])), "swap "+s[0]+"<->"+s[1])
		}
		for _, mm := range b.multi {
			d := base
			var how []string
			for _, kv := range mm {
				d = d.set(kv[0], kv[1])
				how = append(how, kv[0]+"="+kv[1])
			}
			add(d, strings.Join(how, ","))
		}
		fams = append(fams, fam)
	}
	return fams
}

// c19AllDocs flattens the families into encoded documents (amino and proto of every logical document), deterministic order.
type c19DocRef struct {
	Fam int
	Idx int // index in family
	Doc c19Doc
	How string
}

func c19AllDocs(fams []c19Family) []c19DocRef {
	var out []c19DocRef
	for fi, f := range fams {
		for di, d := range f.Docs {
			for _, enc := range []string{"amino", "proto"} {
				e := d.clone()
				e.Enc = enc
				out = append(out, c19DocRef{Fam: fi, Idx: di, Doc: e, How: f.How[di]})
			}
		}
	}
	return out
}

// c19ProtoLogical extracts the property's listed fields from protobuf SignDoc bytes (canonical re-encoding of each message);
// undecodable input gets a key that equals nothing else.
func c19ProtoLogical(unpack func(*codectypes.Any) (sdk.Msg, error), bz []byte) string {
	bad := fmt.Sprintf("undecodable:%x", bz)
	var sd txtypes.SignDoc
	if sd.Unmarshal(bz) != nil {
		return bad
	}
	var ai txtypes.AuthInfo
	var body txtypes.TxBody
	if ai.Unmarshal(sd.AuthInfoBytes) != nil || body.Unmarshal(sd.BodyBytes) != nil || len(ai.SignerInfos) != 1 || ai.Fee == nil {
		return bad
	}
	parts := []string{sd.ChainId, fmt.Sprint(sd.AccountNumber), fmt.Sprint(ai.SignerInfos[0].Sequence), fmt.Sprint(ai.Fee.GasLimit), body.Memo}
	var fee []string
	for _, c := range ai.Fee.Amount {
		if c.Amount.IsNil() {
			return bad
		}
		fee = append(fee, c.Amount.String()+"|"+c.Denom)
	}
	parts = append(parts, strings.Join(fee, ","))
	for _, a := range body.Messages {
		m, err := unpack(a)
		if err != nil {
			return bad
		}
		mb, err := proto.Marshal(m)
		if err != nil {
			return bad
		}
		parts = append(parts, fmt.Sprintf("%s:%x", a.TypeUrl, mb))
	}
	q, _ := json.Marshal(parts)
	return string(q)
}

// c19JSONLogical canonicalises a JSON document (sorted keys, exact numbers); invalid JSON gets a unique key.
func c19JSONLogical(bz []byte) string {
	dec := json.NewDecoder(strings.NewReader(string(bz)))
	dec.UseNumber()
	var v interface{}
	if err := dec.Decode(&v); err != nil || dec.More() {
		return fmt.Sprintf("undecodable:%x", bz)
	}
	out, _ := json.Marshal(v)
	return string(out)
}

func c19SortedKeys(m map[string]int) []string {
	var ks []string
	for k := range m {
		ks = append(ks, k)
	}
	sort.Strings(ks)
	return ks
}
