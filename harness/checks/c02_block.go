package checks

// C02 block pass: programs through the complete FinalizeBlock path (ante handler, fee deduction, msg server, refund,
// commit) with non-zero prices. One fresh world per case, so a case is self-contained.
//
// Fee alignment (the documented difference "the fee is pre-paid to the fee collector instead of being burnt or tipped
// to the coinbase"): evermint's ante handler takes gasLimit x effectivePrice from the sender before the transition and
// the transition gives (gasLimit - gasUsed) x effectivePrice back; go-ethereum's buyGas / refundGas do the same inside
// the transition. So the sender's balance is compared as it is (both pay gasUsed x effectivePrice), during execution
// and afterwards; only the receiving end differs (fee collector vs coinbase tip + burn), and those two accounts are
// left out of the comparison.

import (
	"fmt"
	"math/big"
	"os"
	"sort"
	"strings"

	sdkmath "cosmossdk.io/math"
	storetypes "cosmossdk.io/store/types"
	sdk "github.com/cosmos/cosmos-sdk/types"
	authtypes "github.com/cosmos/cosmos-sdk/x/auth/types"
	"github.com/ethereum/go-ethereum/common"
	"github.com/ethereum/go-ethereum/core"
	ethtypes "github.com/ethereum/go-ethereum/core/types"
	corevm "github.com/ethereum/go-ethereum/core/vm"
	ethcrypto "github.com/ethereum/go-ethereum/crypto"

	evertypes "github.com/EscanBE/evermint/v12/types"
	evmtypes "github.com/EscanBE/evermint/v12/x/evm/types"

	"verif/harness/ev"
	"verif/harness/world"
)

type c02BlockCase struct {
	Space  string    `json:"space"` // "block"
	Cpc3   bool      `json:"cpc3,omitempty"`
	Slot0  uint64    `json:"slot0"`
	X      string    `json:"x"`   // absent | funded
	Fee    string    `json:"fee"` // legacy-2b | dyn-tip-cap2b | al-b
	Gas    string    `json:"gas"` // intrinsic+1 | 60k | 1M
	Value  uint64    `json:"value,omitempty"`
	Create bool      `json:"create,omitempty"`
	P      *c02Frame `json:"p"`
}

func (c *c02BlockCase) String() string {
	return fmt.Sprintf("block cpc3=%v slot0=%d x=%s fee=%s gas=%s v=%d create=%v p=%s", c.Cpc3, c.Slot0, c.X, c.Fee, c.Gas, c.Value, c.Create, c.P)
}

// c02ScanAll maps the whole application state to Ethereum accounts (evm-denom balance, sequence, code, storage).
func c02ScanAll(w *world.World, ctx sdk.Context) map[common.Address]*c02Acct {
	out := map[common.Address]*c02Acct{}
	get := func(addr []byte) *c02Acct {
		a := common.BytesToAddress(addr)
		if out[a] == nil {
			out[a] = &c02Acct{Balance: new(big.Int), Storage: map[common.Hash]common.Hash{}}
		}
		return out[a]
	}
	w.App.AccountKeeper.IterateAccounts(ctx, func(a sdk.AccountI) bool {
		x := get(a.GetAddress())
		x.Exists, x.Nonce = true, a.GetSequence()
		return false
	})
	w.App.BankKeeper.IterateAllBalances(ctx, func(addr sdk.AccAddress, coin sdk.Coin) bool {
		if coin.Denom == world.Denom {
			get(addr).Balance = coin.Amount.BigInt()
		}
		return false
	})
	st := ctx.KVStore(w.Keys[evmtypes.StoreKey])
	it := storetypes.KVStorePrefixIterator(st, evmtypes.KeyPrefixCodeHash)
	for ; it.Valid(); it.Next() {
		get(it.Key()[1:]).Code = append([]byte{}, w.App.EvmKeeper.GetCode(ctx, common.BytesToHash(it.Value()))...)
	}
	it.Close()
	it = storetypes.KVStorePrefixIterator(st, evmtypes.KeyPrefixStorage)
	for ; it.Valid(); it.Next() {
		k := it.Key()
		if v := common.BytesToHash(it.Value()); len(k) == 53 && v != (common.Hash{}) {
			get(k[1:21]).Storage[common.BytesToHash(k[21:])] = v
		}
	}
	it.Close()
	return out
}

func c02BlockEval(c *c02BlockCase) (findings []ev.Finding, evOut, refOut c02Outcome) {
	fail := func(clause, sig, detail string) {
		findings = append(findings, ev.Finding{Clause: clause, Signature: sig, Detail: detail + " | case: " + c.String(), Replay: c})
	}
	rootCode, children := c02Compile(c.P)
	cfg := world.Config{DeployErc20: c.Cpc3, DeployStaking: c.Cpc3}
	coin := func(n int64) sdk.Coins { return sdk.NewCoins(sdk.NewCoin(world.Denom, sdkmath.NewInt(n))) }
	cfg.Contracts = append(cfg.Contracts, world.Contract{Addr: c02Kid, Code: c02KidCode, Coins: coin(3)})
	if !c.Create {
		st := map[common.Hash]common.Hash{}
		if c.Slot0 != 0 {
			st[hashN(0)] = hashN(c.Slot0)
		}
		cfg.Contracts = append(cfg.Contracts, world.Contract{Addr: c02T, Code: rootCode, Storage: st, Coins: coin(5)})
	}
	for _, ch := range children {
		cfg.Contracts = append(cfg.Contracts, world.Contract{Addr: ch.Addr, Code: ch.Code})
	}
	if c.X == "funded" {
		cfg.Extra = append(cfg.Extra, world.ExtraAccount{Account: authtypes.NewBaseAccount(c02X.Bytes(), nil, 0, 0), Coins: coin(10)})
	}
	w := world.New(cfg)
	if br := w.Block(nil); br.Err != nil || br.Panic != "" {
		panic(fmt.Sprintf("block 1: %v %s", br.Err, br.Panic))
	}
	ctx := w.Ctx()
	k := w.App.EvmKeeper
	ecfg, err := k.EVMConfig(ctx, nil)
	if err != nil {
		panic(err)
	}
	b := ecfg.BaseFee
	if b == nil || b.Sign() <= 0 {
		panic("block pass expects a positive base fee")
	}
	sender := w.Wallets[0]
	nonce := w.Nonce(ctx, sender.Eth())
	var to *common.Address
	var data []byte
	rootAddr := c02T
	if c.Create {
		data = rootCode
		rootAddr = ethcrypto.CreateAddress(sender.Eth(), nonce)
	} else {
		t := c02T
		to = &t
	}
	var al ethtypes.AccessList
	if c.Fee == "al-b" {
		al = ethtypes.AccessList{{Address: rootAddr, StorageKeys: []common.Hash{hashN(0)}}}
	}
	intrinsic, err := core.IntrinsicGas(data, al, c.Create, true, true)
	if err != nil {
		panic(err)
	}
	gas := map[string]uint64{"intrinsic+1": intrinsic + 1, "60k": 60_000, "1M": 1_000_000}[c.Gas]
	if gas == 0 {
		panic("gas " + c.Gas)
	}
	value := new(big.Int).SetUint64(c.Value)
	two := new(big.Int).Mul(b, big.NewInt(2))
	chainID := big.NewInt(world.EvmChainID)
	var td ethtypes.TxData
	switch c.Fee {
	case "legacy-2b":
		td = &ethtypes.LegacyTx{Nonce: nonce, GasPrice: two, Gas: gas, To: to, Value: value, Data: data}
	case "dyn-tip-cap2b":
		td = &ethtypes.DynamicFeeTx{ChainID: chainID, Nonce: nonce, GasTipCap: big.NewInt(7), GasFeeCap: two, Gas: gas, To: to, Value: value, Data: data}
	case "al-b":
		td = &ethtypes.AccessListTx{ChainID: chainID, Nonce: nonce, GasPrice: b, Gas: gas, To: to, Value: value, Data: data, AccessList: al}
	default:
		panic("fee " + c.Fee)
	}
	tx := w.SignEth(sender, td)
	msg, err := tx.AsMessage(ethtypes.MakeSigner(ecfg.ChainConfig, big.NewInt(ctx.BlockHeight())), b)
	if err != nil {
		panic(err)
	}
	blkCtx := corevm.BlockContext{
		CanTransfer: core.CanTransfer, Transfer: core.Transfer, GetHash: k.GetHashFn(ctx),
		Coinbase: ecfg.CoinBase, GasLimit: evertypes.BlockGasLimit(ctx),
		BlockNumber: big.NewInt(ctx.BlockHeight()), Time: big.NewInt(ctx.BlockHeader().Time.Unix()),
		Difficulty: big.NewInt(0), BaseFee: b,
	}
	pre := c02ScanAll(w, ctx)
	var universe []c02UAcct
	for a, x := range pre {
		universe = append(universe, c02UAcct{a, *x})
	}
	sort.Slice(universe, func(i, j int) bool { return strings.Compare(universe[i].Addr.Hex(), universe[j].Addr.Hex()) < 0 })
	nCpc := len(w.App.CPCKeeper.GetAllCustomPrecompiledContractsMeta(ctx))

	// evermint: the complete block
	br := w.Block([][]byte{w.WrapEth(tx, sender.Eth())})
	if br.Err != nil || br.Panic != "" || len(br.Res.TxResults) != 1 {
		fail("block-pass-block", "", fmt.Sprintf("block failed: err=%v panic=%s", br.Err, br.Panic))
		return
	}
	r := br.Res.TxResults[0]
	rejected := r.Code != 0
	if rejected {
		evOut.CoreErr = "rejected"
	} else {
		resp := w.EthResponse(r)
		if resp == nil {
			fail("block-pass-response", "", "no MsgEthereumTxResponse in a successful tx result")
			return
		}
		evOut.Ret, evOut.GasUsed, evOut.VmErr = resp.Ret, resp.GasUsed, resp.VmError
		rc, err := world.ParseReceipt(0, r)
		if err != nil || rc.R == nil {
			fail("block-pass-response", "", fmt.Sprintf("no receipt event: %v", err))
			return
		}
		evOut.Logs = c02Logs(rc.R.Logs)
	}
	post := c02ScanAll(w, w.Ctx())
	feeCollector := world.ModuleAddr(authtypes.FeeCollectorName)

	compare := func(warm []common.Address) (diffs []c02Diff, ro c02Outcome) {
		ref := newGethRef(universe, ecfg.ChainConfig, blkCtx, warm)
		ro = ref.Apply(msg)
		if rejected {
			if ro.CoreErr == "" {
				diffs = append(diffs, c02Diff{"outcome-class", fmt.Sprintf("evermint rejected the tx (code %d: %s), go-ethereum applies it: %s", r.Code, r.Log, ro)})
			}
			return // a rejected tx keeps its ante effects (fee, nonce) on evermint; go-ethereum would not include it at all
		}
		switch {
		case evOut.Class() != ro.Class():
			diffs = append(diffs, c02Diff{"outcome-class", fmt.Sprintf("evermint %s, go-ethereum %s", evOut, ro)})
		case !c02OutcomeEqualExceptGas(evOut, ro):
			diffs = append(diffs, c02Diff{"return-data-or-logs", fmt.Sprintf("evermint %s %v, go-ethereum %s %v", evOut, evOut.Logs, ro, ro.Logs)})
		case evOut.GasUsed != ro.GasUsed:
			diffs = append(diffs, c02Diff{"gas-used", fmt.Sprintf("evermint %d, go-ethereum %d (difference %d)", evOut.GasUsed, ro.GasUsed, int64(ro.GasUsed)-int64(evOut.GasUsed))})
		}
		// not compared: coinbase and fee collector (documented difference), and the x/evm module account (created by the
		// SDK on the first mint/burn of the bank bridge; plumbing, not an account of the Ethereum state)
		seen := map[common.Address]bool{ecfg.CoinBase: true, feeCollector: true, world.ModuleAddr(evmtypes.ModuleName): true}
		var addrs []common.Address
		for a := range pre {
			if !seen[a] {
				seen[a] = true
				addrs = append(addrs, a)
			}
		}
		for a := range post {
			if !seen[a] {
				seen[a] = true
				addrs = append(addrs, a)
			}
		}
		creators := []common.Address{rootAddr}
		for _, ch := range children {
			creators = append(creators, ch.Addr)
		}
		for _, a := range append(c02CreateCandidates(creators, 12), c02Zero, c02Never, c02Ecrec, c02X, rootAddr) {
			if !seen[a] && ref.sdb.Exist(a) {
				seen[a] = true
				addrs = append(addrs, a)
			}
		}
		sort.Slice(addrs, func(i, j int) bool { return strings.Compare(addrs[i].Hex(), addrs[j].Hex()) < 0 })
		for _, a := range addrs {
			ea := c02Acct{Balance: new(big.Int)}
			if p := post[a]; p != nil {
				ea = *p
			}
			keys := []common.Hash{hashN(0), hashN(1)}
			for k := range ea.Storage {
				keys = append(keys, k)
			}
			if p := pre[a]; p != nil {
				for k := range p.Storage {
					keys = append(keys, k)
				}
			}
			ra := ref.Account(a, keys)
			content, existence := c02AcctDiff(ea, ra)
			if content {
				diffs = append(diffs, c02Diff{"post-state", fmt.Sprintf("account %s: evermint %s, go-ethereum %s", a.Hex(), ea, ra)})
			} else if existence {
				diffs = append(diffs, c02Diff{"post-state-existence", fmt.Sprintf("account %s: evermint %s, go-ethereum %s", a.Hex(), ea, ra)})
			}
		}
		return diffs, ro
	}
	diffs, ro := compare(nil)
	refOut = ro
	if len(diffs) == 0 {
		return
	}
	sig := ""
	if nCpc >= 1 && c.P.touchesZero() {
		if d2, _ := compare([]common.Address{c02Zero}); len(d2) == 0 {
			sig = c02SigZeroWarm
		}
	}
	for _, d := range diffs {
		detail := d.Detail
		if sig != "" {
			detail = fmt.Sprintf("address 0 is warm on evermint (%d custom precompile(s) registered); identical to go-ethereum once address 0 is warmed there too: %s", nCpc, detail)
		}
		fail(d.Clause, sig, detail)
		if sig != "" {
			break
		}
	}
	return
}

func c02BlockReplay(c *c02BlockCase) []ev.Finding {
	f, eo, ro := c02BlockEval(c)
	fmt.Printf("evermint %s | go-ethereum %s\n", eo, ro)
	return f
}

func c02BlockCases(thorough bool) []*c02BlockCase {
	var out []*c02BlockCase
	f := func(g ...c02Gadget) *c02Frame { return &c02Frame{G: g} }
	var progs []*c02Frame
	// every single gadget, then followed by SELFBALANCE (the contract observes its own balance while the fee is in flight)
	for _, fr := range c02Frames(c02FullAlphabet(false), 1) {
		g := fr.G[0]
		if g.Op == "call" && g.Gas != "all" && !thorough {
			continue
		}
		progs = append(progs, fr)
		if !g.terminator() && (thorough || g.Op != "call") {
			progs = append(progs, f(g, c02Gadget{Op: "selfbalance"}))
		}
	}
	small := c02SmallAlphabet()
	for _, ch := range c02Frames(small, 1) {
		for _, kind := range []string{"call", "delegatecall", "staticcall", "callcode"} {
			progs = append(progs, f(c02Gadget{Op: "call", Kind: kind, Tgt: "child", Gas: "all", Child: ch}, c02Gadget{Op: "selfbalance"}))
		}
	}
	if thorough {
		for _, ch := range c02Frames(small, 2) {
			if len(ch.G) == 2 {
				progs = append(progs, f(c02Gadget{Op: "sstore", K: 0, V: 0}, c02Gadget{Op: "call", Kind: "call", Tgt: "child", Val: 1, Gas: "all", Child: ch}))
			}
		}
	}
	// repeated calls of one child with value in between (c02_repeat.go); appended, so earlier programs keep their forms
	progs = append(progs, c02RepeatBlockProgs(thorough)...)
	forms := []c02BlockCase{
		{Fee: "legacy-2b", Gas: "1M", X: "funded", Slot0: 1},
		{Fee: "dyn-tip-cap2b", Gas: "60k", Value: 1, X: "absent", Slot0: 0},
		{Fee: "al-b", Gas: "1M", Value: 1, X: "funded", Slot0: 1},
		{Fee: "dyn-tip-cap2b", Gas: "1M", Create: true, X: "absent"},
		{Fee: "legacy-2b", Gas: "intrinsic+1", X: "funded", Slot0: 1},
	}
	for i, p := range progs {
		var fs []c02BlockCase
		if thorough {
			fs = forms
		} else {
			fs = []c02BlockCase{forms[i%len(forms)], forms[(i+2)%len(forms)]}
		}
		for j, fm := range fs {
			c := fm
			c.Space, c.P = "block", p
			c.Cpc3 = (i+j)%7 == 0
			out = append(out, &c)
		}
	}
	return out
}

func c02BlockPass(run *ev.Run, shard, n int, thorough bool) {
	for i, c := range c02BlockCases(thorough) {
		if i%n != shard {
			continue
		}
		fs, eo, ro := c02BlockEval(c)
		if i/n < 2 {
			fs2, eo2, ro2 := c02BlockEval(c)
			if fmt.Sprint(eo, ro, len(fs)) != fmt.Sprint(eo2, ro2, len(fs2)) {
				fmt.Fprintf(os.Stderr, "HARNESS-NONDETERMINISM: C02 block case %s\n", c)
				os.Exit(2)
			}
		}
		run.Count("block_cases_executed", 1)
		run.Count("pairs_executed", 1)
		status := "agree"
		if len(fs) > 0 {
			status = "differ"
			if fs[0].Signature == c02SigZeroWarm {
				status = "differ-zero-warm"
			}
		} else {
			run.Count("pairs_equal", 1)
		}
		run.Outcome("block|" + eo.Class() + "|" + status)
		if eo.CoreErr == "" && eo.GasUsed > 0 {
			run.Count("block_cases_applied", 1)
		}
		for _, f := range fs {
			run.Fail(f)
		}
	}
}
