package checks

import (
	"encoding/json"
	"fmt"
	"os"

	"verif/harness/ev"
)

// replayCase re-executes the single case stored in a replay file (no exploration) and prints what the oracle says.
// Exit code: 1 when the oracle still fails on it, 0 otherwise.
func replayCase(run *ev.Run, path string, f func(raw json.RawMessage) []ev.Finding) int {
	bz, err := os.ReadFile(path)
	if err != nil {
		fmt.Fprintln(os.Stderr, err)
		return 2
	}
	var file struct {
		Case json.RawMessage `json:"case"`
	}
	if err := json.Unmarshal(bz, &file); err != nil {
		fmt.Fprintln(os.Stderr, err)
		return 2
	}
	fs := f(file.Case)
	for _, x := range fs {
		fmt.Printf("REPLAY-FAIL property=%s clause=%s signature=%q detail=%s\n", run.Property, x.Clause, x.Signature, x.Detail)
	}
	if len(fs) > 0 {
		return 1
	}
	fmt.Printf("REPLAY-OK property=%s\n", run.Property)
	return 0
}
