package checks

// C20 part (b), precompile half: mutated call data of every registered custom precompile method, (i) as Ethereum transactions
// through CheckTx / Simulate / FinalizeBlock, (ii) through the EthCall and EstimateGas gRPC queries.

import (
	"encoding/json"
	"fmt"
	"os"
	"regexp"
	"strings"

	abci "github.com/cometbft/cometbft/abci/types"
	"github.com/cosmos/gogoproto/proto"
	"github.com/ethereum/go-ethereum/common/hexutil"

	evmtypes "github.com/EscanBE/evermint/v12/x/evm/types"

	"verif/harness/world"
)

// c20VmClass shortens a VM error to a class name.
func c20VmClass(s string) string {
	switch {
	case s == "":
		return "none"
	case strings.Contains(s, "reverted"):
		return "reverted"
	case strings.Contains(s, "out of gas"):
		return "out-of-gas"
	}
	// keep the leading words of the message: no addresses, amounts or positions
	for i, c := range s {
		if c == '(' || c == ':' || c == ';' || c == '"' || (c >= '0' && c <= '9') {
			s = s[:i]
			break
		}
	}
	if len(s) > 32 {
		s = s[:32]
	}
	return strings.TrimSpace(s)
}

// c20TxClass classifies one FinalizeBlock tx result.
func c20TxClass(w *world.World, r *abci.ExecTxResult) string {
	c := "fin=" + c20Code(r.Codespace, r.Code)
	if c20HasEthTxEvent(r) {
		c += " admitted"
	}
	if r.Code == 0 {
		if resp := w.EthResponse(r); resp != nil {
			c += " vm=" + c20VmClass(resp.VmError)
		}
	}
	return c
}

// c20Failing tells whether a tx result is a failure in the sense of part (d): rejected, failed, or committed with a VM error.
func c20Failing(w *world.World, r *abci.ExecTxResult) bool {
	if r.Code != 0 {
		return true
	}
	if resp := w.EthResponse(r); resp != nil && resp.VmError != "" {
		return true
	}
	return false
}

// c20Admitted tells whether an offered input consumed wallet C's nonce.
func c20Admitted(in c20Input, r *abci.ExecTxResult) bool {
	if in.Kind == KCosmosSend {
		return r.Code == 0
	}
	return c20HasEthTxEvent(r)
}

// c20NextBatch takes up to batch items from pending and materialises them with consecutive nonces starting at C's current nonce.
func c20NextBatch(w *world.World, fam c20Family, pending []int, batch int) (items []c20Item, rest []int) {
	if bf := w.App.FeeMarketKeeper.GetBaseFee(w.Ctx()).BigInt(); bf.Cmp(Gwei) != 0 {
		// inputs are priced at 1 gwei; the worlds are configured and the batches sized so that the base fee never moves
		fmt.Fprintf(os.Stderr, "C20: harness assumption broken: base fee moved to %s at height %d\n", bf, w.Height)
		os.Exit(2)
	}
	nonce := w.Nonce(w.Ctx(), w.Wallets[c20C].Eth())
	for len(pending) > 0 && len(items) < batch {
		i := pending[0]
		pending = pending[1:]
		in, ok := fam.At(i)
		if !ok {
			continue
		}
		items = append(items, c20Item{idx: i, in: in, tx: c20Materialize(w, in, nonce)})
		if in.usesNonce() {
			nonce++
		}
	}
	return items, pending
}

// c20StaleFrom returns the position after which nonce-consuming items of the batch were offered with a nonce that turned out wrong
// (an earlier nonce-consuming item was not admitted), or len(items) when every nonce was right.
func c20StaleFrom(items []c20Item, results []*abci.ExecTxResult) int {
	for k, it := range items {
		if it.in.usesNonce() && !c20Admitted(it.in, results[k]) {
			return k + 1
		}
	}
	return len(items)
}

// c20RunBTx offers every call-data input of the unit as an Ethereum transaction of wallet C: CheckTx, Simulate, then batches through
// the proposal phases and FinalizeBlock+Commit.
func c20RunBTx(u c20Unit, rec *c20Rec) {
	fam := c20MustFamily(u)
	batch := u.Batch
	if batch <= 0 {
		batch = 12
	}
	w := c20World()
	pending := u.indices()
	var history []int
	for len(pending) > 0 {
		var items []c20Item
		items, pending = c20NextBatch(w, fam, pending, batch)
		if len(items) == 0 {
			continue
		}
		var txs [][]byte
		var idxs []int
		broken := false
		pre := make([]string, len(items))
		for k, it := range items {
			txs = append(txs, it.tx)
			idxs = append(idxs, it.idx)
			sim, p2 := c20Simulate(w, it.tx)
			chk, p1 := c20CheckTx(w, it.tx, abci.CheckTxType_New)
			rec.count("abci_calls", 2)
			if p := p1 + p2; p != "" {
				one := u
				one.Only = []int{it.idx}
				rec.fail("no-panic-escapes-CheckTx", c20Signature(p), fmt.Sprintf("%s input %d (%s): panic escapes CheckTx/Simulate: %s", fam.Name, it.idx, it.in.Label, p), one)
				broken = true
				break
			}
			pre[k] = "sim=" + sim + " chk=" + chk
		}
		history = append(history, idxs...)
		if broken {
			w = c20World()
			continue
		}
		_, prob, p := c20Prepare(w, txs, w.Cfg.MaxBytes)
		if p == "" && prob == "" {
			_, prob, p = c20Process(w, txs)
		}
		rec.count("abci_calls", 2)
		blockProb := ""
		switch {
		case p != "":
			blockProb = "panic escapes the proposal phase: " + p
		case prob != "":
			blockProb = "proposal phase: " + prob
		default:
			br := w.Block(txs)
			rec.count("abci_calls", 2)
			rec.count("blocks", 1)
			blockProb = c20BlockProblem(br, len(txs))
			if blockProb == "" {
				stale := c20StaleFrom(items, br.Res.TxResults)
				var requeue []int
				for k, it := range items {
					r := br.Res.TxResults[k]
					if k >= stale && it.in.usesNonce() {
						requeue = append(requeue, it.idx)
						continue
					}
					class := pre[k] + " " + c20TxClass(w, r)
					if c20IsRecoveredPanic(r.Codespace, r.Code) {
						rec.recovered(fmt.Sprintf("%s tx %d (%s)", fam.Name, it.idx, it.in.Label), r.Log)
					}
					if it.in.MustSucceed && c20Failing(w, r) {
						one := u
						one.Only = []int{it.idx}
						rec.fail("alphabet-sanity", "", fmt.Sprintf("%s input %d (%s) is a well-formed call of a view method without arguments and must succeed: %s %s", fam.Name, it.idx, it.in.Label, class, r.Log), one)
					}
					rec.outcome("b-tx: " + class)
					rec.distinct("b-tx|" + c20MutKind(it.in.Label) + "|" + class)
					rec.count("inputs", 1)
				}
				pending = append(requeue, pending...)
			}
		}
		if blockProb != "" {
			c20ReportBatch(u, rec, "block-executes", blockProb, history, idxs, func(sub c20Unit, r *c20Rec) { c20RunBTx(sub, r) })
			w = c20World()
		}
	}
}

var (
	c20ReBracket = regexp.MustCompile(`\[[^\]]*\]`)
	c20ReGarbage = regexp.MustCompile(`garbage\+\d+`)
)

// c20MutKind strips the method name and positions from a mutation label ("transfer/word[1]=max" -> "word=max").
func c20MutKind(label string) string {
	if i := strings.Index(label, "/"); i >= 0 {
		label = label[i+1:]
	}
	return c20ReGarbage.ReplaceAllString(c20ReBracket.ReplaceAllString(label, ""), "garbage")
}

const (
	c20PathEthCall     = "/ethermint.evm.v1.Query/EthCall"
	c20PathEstimateGas = "/ethermint.evm.v1.Query/EstimateGas"
	c20GasCap          = 25_000_000
)

func c20CallArgs(w *world.World, in c20Input) []byte {
	from := w.Wallets[c20C].Eth()
	gas := hexutil.Uint64(c20PcGas)
	data := hexutil.Bytes(in.Data)
	bz, err := json.Marshal(evmtypes.TransactionArgs{From: &from, To: in.To, Gas: &gas, Input: &data})
	if err != nil {
		panic(err)
	}
	return bz
}

// c20RunBCall sends every call-data input of the unit through the EthCall and EstimateGas queries (quick tier: EstimateGas only
// for the boundary subset: valid, bare selector, word replacements, garbage, truncations next to a word boundary).
func c20RunBCall(u c20Unit, rec *c20Rec) {
	fam := c20MustFamily(u)
	w := c20World()
	for _, i := range u.indices() {
		in, ok := fam.At(i)
		if !ok {
			continue
		}
		one := u
		one.Only = []int{i}
		req, err := proto.Marshal(&evmtypes.EthCallRequest{Args: c20CallArgs(w, in), GasCap: c20GasCap})
		if err != nil {
			panic(err)
		}
		class, res, p := c20Query(w, c20PathEthCall, req)
		rec.count("abci_calls", 1)
		if p != "" {
			rec.fail("no-panic-escapes-Query", c20Signature(p), fmt.Sprintf("%s input %d (%s): panic escapes EthCall: %s", fam.Name, i, in.Label, p), one)
			w = c20World()
			continue
		}
		vm := "-"
		if class == "ok" {
			var resp evmtypes.MsgEthereumTxResponse
			if err := proto.Unmarshal(res.Value, &resp); err != nil {
				rec.fail("query-response-decodes", "", fmt.Sprintf("%s input %d: EthCall response: %v", fam.Name, i, err), one)
			} else {
				vm = c20VmClass(resp.VmError)
			}
		} else if c20IsRecoveredPanic(res.Codespace, res.Code) {
			rec.recovered(fmt.Sprintf("%s EthCall %d (%s)", fam.Name, i, in.Label), res.Log)
		}
		if in.MustSucceed && (class != "ok" || vm != "none") {
			rec.fail("alphabet-sanity", "", fmt.Sprintf("%s input %d (%s) must succeed through EthCall: %s vm=%s", fam.Name, i, in.Label, class, vm), one)
		}
		est := "skipped"
		if u.thorough() || in.Boundary {
			var eres *abci.ResponseQuery
			est, eres, p = c20Query(w, c20PathEstimateGas, req)
			rec.count("abci_calls", 1)
			if p != "" {
				rec.fail("no-panic-escapes-Query", c20Signature(p), fmt.Sprintf("%s input %d (%s): panic escapes EstimateGas: %s", fam.Name, i, in.Label, p), one)
				w = c20World()
				continue
			}
			if eres != nil && c20IsRecoveredPanic(eres.Codespace, eres.Code) {
				rec.recovered(fmt.Sprintf("%s EstimateGas %d (%s)", fam.Name, i, in.Label), eres.Log)
			}
			if in.MustSucceed && est != "ok" {
				rec.fail("alphabet-sanity", "", fmt.Sprintf("%s input %d (%s) must succeed through EstimateGas: %s %s", fam.Name, i, in.Label, est, eres.Log), one)
			}
		}
		v := "call=" + class + " vm=" + vm + " est=" + est
		rec.outcome("b-call: " + v)
		rec.distinct("b-call|" + c20MutKind(in.Label) + "|" + v)
		rec.count("inputs", 1)
	}
}
