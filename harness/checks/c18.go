package checks

import (
	"bytes"
	"crypto/sha256"
	"encoding/hex"
	"encoding/json"
	"fmt"
	"math/big"
	"os"
	"sort"
	"strings"

	sdkmath "cosmossdk.io/math"
	servertypes "github.com/cosmos/cosmos-sdk/server/types"
	sdk "github.com/cosmos/cosmos-sdk/types"
	"github.com/cosmos/cosmos-sdk/types/module"
	"github.com/ethereum/go-ethereum/common"
	"github.com/ethereum/go-ethereum/common/hexutil"
	ethtypes "github.com/ethereum/go-ethereum/core/types"
	ethcrypto "github.com/ethereum/go-ethereum/crypto"

	chainapp "github.com/EscanBE/evermint/v12/app"
	"github.com/EscanBE/evermint/v12/constants"
	cpckeeper "github.com/EscanBE/evermint/v12/x/cpc/keeper"
	cpctypes "github.com/EscanBE/evermint/v12/x/cpc/types"
	evmtypes "github.com/EscanBE/evermint/v12/x/evm/types"
	feemarkettypes "github.com/EscanBE/evermint/v12/x/feemarket/types"
	vauthkeeper "github.com/EscanBE/evermint/v12/x/vauth/keeper"
	vauthtypes "github.com/EscanBE/evermint/v12/x/vauth/types"

	"verif/harness/asm"
	"verif/harness/ev"
	"verif/harness/world"
)

func init() { Registry["C18"] = runC18 }

// Signatures of the defect classes of the unchanged tree (each computed by a defect-aware test, see c18Classify).
const (
	c18SigErc20   = "C18/cpc-erc20-precompiles-not-exported"
	c18SigAllow   = "C18/cpc-allowances-not-exported"
	c18SigVauth   = "C18/vauth-proofs-not-exported"
	c18SigStaking = "C18/cpc-staking-metadata-not-exported"
)

// The four custom module stores the property speaks about.
var c18Stores = []string{evmtypes.StoreKey, feemarkettypes.StoreKey, cpctypes.StoreKey, vauthtypes.StoreKey}

// Pre-installed contracts.
var (
	c18AddrStore   = common.HexToAddress("0x0000000000000000000000000000000000c18001") // setter/getter, storage {0:5, 1:6, 2:0, 2^256-1:0x2a, 2^256-2:0x2b, 2^255:0x2c}
	c18AddrSuicide = common.HexToAddress("0x0000000000000000000000000000000000c18002") // SELFDESTRUCT, storage {0:1, 1:0}, funded
	c18AddrBurn    = common.HexToAddress("0x0000000000000000000000000000000000c18003") // gas burner, code without storage
	c18AddrSink    = common.HexToAddress("0x0000000000000000000000000000000000c180ff")
)

const c18BurnIterations = 90_000 // ≈ 2.36M gas: more than the gas target (1.5M) of the 3M-gas blocks of the C18 worlds

// c18StoreCode: calldata of 64 bytes = (slot, value) → SSTORE; anything else: return SLOAD(calldata[0:32]).
func c18StoreCode() []byte {
	p := asm.NewProg()
	p.Op(asm.CALLDATASIZE).PushU(64).Op(asm.EQ)
	p.JumpIf("set")
	p.PushU(0).Op(asm.CALLDATALOAD, asm.SLOAD).PushU(0).Op(asm.MSTORE).PushU(32).PushU(0).Op(asm.RETURN)
	p.Label("set")
	p.PushU(32).Op(asm.CALLDATALOAD).PushU(0).Op(asm.CALLDATALOAD, asm.SSTORE, asm.STOP)
	return p.Assemble()
}

func c18Contracts() []world.Contract {
	return []world.Contract{
		// besides the small slots: the boundary keys of the 256-bit key space (first / last key of the account's storage range)
		{Addr: c18AddrStore, Code: c18StoreCode(), Storage: map[common.Hash]common.Hash{h(0): h(5), h(1): h(6), h(2): h(0),
			common.HexToHash("0xffffffffffffffffffffffffffffffffffffffffffffffffffffffffffffffff"): h(0x2a),
			common.HexToHash("0xfffffffffffffffffffffffffffffffffffffffffffffffffffffffffffffffe"): h(0x2b),
			common.HexToHash("0x8000000000000000000000000000000000000000000000000000000000000000"): h(0x2c)}},
		{Addr: c18AddrSuicide, Code: asm.New().SelfDestruct(c18AddrSink).Bytes(), Storage: map[common.Hash]common.Hash{h(0): h(1), h(1): h(0)},
			Coins: sdk.NewCoins(sdk.NewCoin(world.Denom, sdkmath.NewInt(1000)))},
		{Addr: c18AddrBurn, Code: asm.New().BurnGas(c18BurnIterations).Stop().Bytes()},
	}
}

// c18ParamCfg is one genesis configuration of the evm / fee-market parameters (parameters cannot be changed at ABCI level
// without a governance proposal, so they are varied through the genesis of the world).
type c18ParamCfg struct {
	Name        string
	BaseFee     *big.Int
	MinGasPrice string
	Evm         func(gs *evmtypes.GenesisState)
}

var c18Params = []c18ParamCfg{
	{Name: "default(basefee=1gwei,mingasprice=0,extra_eips=[3855])", BaseFee: big.NewInt(1_000_000_000), MinGasPrice: "0"},
	{Name: "basefee=7gwei,mingasprice=0.5,extra_eips=[]", BaseFee: big.NewInt(7_000_000_000), MinGasPrice: "0.5",
		Evm: func(gs *evmtypes.GenesisState) { gs.Params.ExtraEIPs = nil }},
	{Name: "basefee=9wei,mingasprice=7.9,extra_eips=[3855,2200],enable_create=false", BaseFee: big.NewInt(9), MinGasPrice: "7.9",
		Evm: func(gs *evmtypes.GenesisState) {
			gs.Params.ExtraEIPs = []int64{3855, 2200}
			gs.Params.EnableCreate = false
		}},
}

// c18MagnitudeParams: parameter values that do not fit the machine integer widths (the stored types are sdkmath.Int / LegacyDec).
// Transactions are unaffordable at these prices, so these worlds are explored with block-level steps only (c18MagnitudeSteps).
var c18MagnitudeParams = []c18ParamCfg{
	{Name: "basefee=2^80+12345,mingasprice=0", BaseFee: new(big.Int).Add(new(big.Int).Lsh(big.NewInt(1), 80), big.NewInt(12345)), MinGasPrice: "0"},
	{Name: "basefee=2^64,mingasprice=18446744073709551617.5", BaseFee: new(big.Int).Lsh(big.NewInt(1), 64), MinGasPrice: "18446744073709551617.5"},
	{Name: "basefee=2^63,mingasprice=0", BaseFee: new(big.Int).Lsh(big.NewInt(1), 63), MinGasPrice: "0"},
}

func init() { c18Params = append(c18Params, c18MagnitudeParams...) }

const c18FirstMagnitudeParam = 3

// Steps of the history alphabet; every step is one block.
const (
	c18Empty        = "empty-block"           // base fee moves down
	c18Full         = "full-block"            // one tx burning more than the gas target: base fee moves up
	c18SstoreNZ     = "sstore-nonzero"        // pre-installed contract: slot 3 := 9
	c18SstoreZero   = "sstore-zero"           // pre-installed contract: slot 0 := 0 (slot existed with value 5)
	c18Selfdestruct = "selfdestruct"          // pre-installed contract with storage destroys itself
	c18Deploy       = "deploy-contract"       // create tx, constructor SSTOREs slot0:=5, slot1:=0
	c18DeployErc20  = "deploy-erc20-utwo"     // MsgDeployErc20ContractRequest by the whitelisted deployer
	c18Approve      = "erc20-approve"         // approve(wal4, 5) on the utwo precompile (else the native one, else a no-op call)
	c18Proof        = "vauth-proof"           // MsgSubmitProofExternalOwnedAccount
	c18DeployStk    = "deploy-staking-custom" // MsgDeployStakingContractRequest with symbol STK / 6 decimals
	c18ApproveZero  = "erc20-approve-zero"    // approve(wal4, 0): deletes the allowance
	c18DeployNoCode = "deploy-codeless"       // create tx whose constructor SSTOREs and returns empty runtime code
)

func c18Alphabet(thorough bool) []string {
	a := []string{c18Empty, c18Full, c18SstoreNZ, c18SstoreZero, c18Selfdestruct, c18Deploy, c18DeployErc20, c18Approve, c18Proof, c18DeployStk}
	if thorough {
		a = append(a, c18ApproveZero, c18DeployNoCode)
	}
	return a
}

// c18Case is one explored history in one world.
type c18Case struct {
	Erc20   bool     `json:"deploy_erc20_at_genesis"`
	Staking bool     `json:"deploy_staking_at_genesis"`
	Params  int      `json:"param_config"`
	Steps   []string `json:"steps"`
}

func (c c18Case) world() string {
	return fmt.Sprintf("erc20=%v,staking=%v,params=%d", c.Erc20, c.Staking, c.Params)
}

type c18Bad struct{ clause, sig, detail string }

type c18Run struct {
	c         c18Case
	w         *world.World
	bad       []c18Bad
	oc        []string
	proofAcct *world.Acct
	counts    map[string]int64
}

func (r *c18Run) fail(clause, sig, f string, a ...interface{}) {
	r.bad = append(r.bad, c18Bad{clause, sig, fmt.Sprintf(f, a...)})
}

func c18NewWorld(c c18Case) (*world.World, error) {
	pc := c18Params[c.Params]
	return world.NewE(world.Config{
		NumWallets: 4, MaxGas: 3_000_000, BaseFee: pc.BaseFee, MinGasPrice: pc.MinGasPrice,
		DeployErc20: c.Erc20, DeployStaking: c.Staking,
		CpcWhitelist: []string{world.NewAcct("wal1").Bech()},
		Contracts:    c18Contracts(), EvmGenesis: pc.Evm,
	})
}

func c18Word(n uint64) []byte { return Word(new(big.Int).SetUint64(n)) }

// erc20Target: the ERC-20 precompile the approve steps talk to.
func (r *c18Run) erc20Target(ctx sdk.Context) (common.Address, bool) {
	k := r.w.App.CPCKeeper
	if a := k.GetErc20CustomPrecompiledContractAddressByMinDenom(ctx, "utwo"); a != nil {
		return *a, true
	}
	if a := k.GetErc20CustomPrecompiledContractAddressByMinDenom(ctx, world.Denom); a != nil {
		return *a, true
	}
	seq := r.w.App.AccountKeeper.GetModuleAccount(ctx, cpctypes.ModuleName).GetSequence()
	return ethcrypto.CreateAddress(cpctypes.CpcModuleAddress, seq), false
}

func (r *c18Run) rawSlot(ctx sdk.Context, a common.Address, slot uint64) []byte {
	return ctx.KVStore(r.w.Keys[evmtypes.StoreKey]).Get(evmtypes.StateKey(a, h(slot).Bytes()))
}

// step executes one step as one block and checks that the step did what it was built to do (alphabet sanity).
func (r *c18Run) step(name string) {
	w := r.w
	pre := w.Ctx()
	base := w.App.FeeMarketKeeper.GetBaseFee(pre).BigInt()
	price := new(big.Int).Mul(base, big.NewInt(2))
	if price.Sign() == 0 {
		price = big.NewInt(1)
	}
	ethTx := func(acct *world.Acct, to *common.Address, data []byte, gas uint64) []byte {
		return w.EthTx(acct, &ethtypes.LegacyTx{Nonce: w.Nonce(pre, acct.Eth()), GasPrice: price, Gas: gas, To: to, Value: big.NewInt(0), Data: data})
	}
	cosmosTx := func(acct *world.Acct, msg sdk.Msg) []byte {
		gas := uint64(600_000)
		return w.CosmosTx(acct, w.AccNum(pre, acct.Acc()), w.Nonce(pre, acct.Eth()), gas, new(big.Int).Mul(price, new(big.Int).SetUint64(gas)), msg)
	}
	deployer, user, owner, submitter := w.Wallets[0], w.Wallets[1], w.Wallets[2], w.Wallets[3]
	var txs [][]byte
	var after func(ctx sdk.Context, ok bool, log string) string // returns the outcome class, reports sanity failures
	sanity := func(f string, a ...interface{}) {
		r.fail("alphabet-sanity", "", "step %s: "+f, append([]interface{}{name}, a...)...)
	}
	switch name {
	case c18Empty:
		after = func(ctx sdk.Context, ok bool, log string) string {
			if nb := w.App.FeeMarketKeeper.GetBaseFee(ctx).BigInt(); nb.Cmp(base) > 0 {
				sanity("base fee rose after an empty block: %s -> %s", base, nb)
			}
			return "empty"
		}
	case c18Full:
		to := c18AddrBurn
		txs = [][]byte{ethTx(user, &to, nil, 2_900_000)}
		after = func(ctx sdk.Context, ok bool, log string) string {
			nb := w.App.FeeMarketKeeper.GetBaseFee(ctx).BigInt()
			if !ok || nb.Cmp(base) <= 0 {
				sanity("ok=%v (%s), base fee %s -> %s (must rise)", ok, log, base, nb)
			}
			return "full"
		}
	case c18SstoreNZ, c18SstoreZero:
		slot, val := uint64(3), uint64(9)
		if name == c18SstoreZero {
			slot, val = 0, 0
		}
		to := c18AddrStore
		txs = [][]byte{ethTx(user, &to, append(c18Word(slot), c18Word(val)...), 100_000)}
		after = func(ctx sdk.Context, ok bool, log string) string {
			raw := r.rawSlot(ctx, c18AddrStore, slot)
			if !ok || new(big.Int).SetBytes(raw).Uint64() != val {
				sanity("ok=%v (%s), slot %d raw=%x", ok, log, slot, raw)
			}
			if val == 0 && raw != nil {
				r.counts["histories_with_zero_valued_slot_in_store"]++
			}
			return "sstore"
		}
	case c18Selfdestruct:
		had := ctx2codeHash(w, pre, c18AddrSuicide) != nil
		to := c18AddrSuicide
		txs = [][]byte{ethTx(user, &to, nil, 100_000)}
		after = func(ctx sdk.Context, ok bool, log string) string {
			if !ok || ctx2codeHash(w, ctx, c18AddrSuicide) != nil || r.rawSlot(ctx, c18AddrSuicide, 0) != nil {
				sanity("ok=%v (%s), contract still has code hash / storage", ok, log)
			}
			if had {
				return "selfdestruct/destroyed"
			}
			return "selfdestruct/already-gone"
		}
	case c18Deploy, c18DeployNoCode:
		runtime := c18StoreCode()
		if name == c18DeployNoCode {
			runtime = nil
		}
		addr := world.CreateAddr(user.Eth(), w.Nonce(pre, user.Eth()))
		txs = [][]byte{ethTx(user, nil, asm.InitCodeWith(asm.New().Sstore(0, 5).Sstore(1, 0).Bytes(), runtime), 300_000)}
		createEnabled := w.App.EvmKeeper.GetParams(pre).EnableCreate
		after = func(ctx sdk.Context, ok bool, log string) string {
			if !createEnabled {
				if ok || ctx2codeHash(w, ctx, addr) != nil || r.rawSlot(ctx, addr, 0) != nil {
					sanity("contract creation is disabled by the evm parameters but ok=%v (%s)", ok, log)
				}
				return "deploy/refused-create-disabled"
			}
			ch := ctx2codeHash(w, ctx, addr)
			s0, s1 := r.rawSlot(ctx, addr, 0), r.rawSlot(ctx, addr, 1)
			if !ok || (ch != nil) != (runtime != nil) || new(big.Int).SetBytes(s0).Uint64() != 5 {
				sanity("ok=%v (%s), codehash=%x slot0=%x slot1=%x", ok, log, ch, s0, s1)
			}
			if s1 != nil {
				r.counts["histories_with_zero_valued_slot_in_store"]++
			}
			if runtime == nil {
				return "deploy-codeless"
			}
			return "deploy"
		}
	case c18DeployErc20:
		exists := w.App.CPCKeeper.GetErc20CustomPrecompiledContractAddressByMinDenom(pre, "utwo") != nil
		txs = [][]byte{cosmosTx(deployer, &cpctypes.MsgDeployErc20ContractRequest{Authority: deployer.Bech(), Name: "Two", Symbol: "TWO", Decimals: 6, MinDenom: "utwo"})}
		after = func(ctx sdk.Context, ok bool, log string) string {
			now := w.App.CPCKeeper.GetErc20CustomPrecompiledContractAddressByMinDenom(ctx, "utwo") != nil
			if ok == exists || !now {
				sanity("ok=%v (%s), existed before=%v, exists now=%v", ok, log, exists, now)
			}
			if ok {
				return "deploy-erc20/ok"
			}
			return "deploy-erc20/refused-exists"
		}
	case c18Approve, c18ApproveZero:
		val := uint64(5)
		if name == c18ApproveZero {
			val = 0
		}
		target, exists := r.erc20Target(pre)
		txs = [][]byte{ethTx(owner, &target, Enc("approve(address,uint256)", AddrWord(submitter.Eth()), c18Word(val)), 200_000)}
		after = func(ctx sdk.Context, ok bool, log string) string {
			got := w.App.CPCKeeper.GetErc20CpcAllowance(ctx, owner.Eth(), submitter.Eth())
			if !ok || (exists && got.Uint64() != val) {
				sanity("ok=%v (%s), precompile exists=%v allowance=%s", ok, log, exists, got)
			}
			if exists {
				return fmt.Sprintf("approve-%d/precompile", val)
			}
			return fmt.Sprintf("approve-%d/no-precompile", val)
		}
	case c18Proof:
		had := w.App.VAuthKeeper.HasProofExternalOwnedAccount(pre, r.proofAcct.Acc())
		msg := &vauthtypes.MsgSubmitProofExternalOwnedAccount{Submitter: submitter.Bech(), Account: r.proofAcct.Bech(), Signature: "0x" + hex.EncodeToString(signMsg(r.proofAcct, vauthtypes.MessageToSign))}
		txs = [][]byte{cosmosTx(submitter, msg)}
		after = func(ctx sdk.Context, ok bool, log string) string {
			now := w.App.VAuthKeeper.HasProofExternalOwnedAccount(ctx, r.proofAcct.Acc())
			if ok == had || !now {
				sanity("ok=%v (%s), proof before=%v now=%v", ok, log, had, now)
			}
			if ok {
				return "proof/stored"
			}
			return "proof/refused-exists"
		}
	case c18DeployStk:
		had := w.App.CPCKeeper.HasCustomPrecompiledContract(pre, cpctypes.CpcStakingFixedAddress)
		txs = [][]byte{cosmosTx(deployer, &cpctypes.MsgDeployStakingContractRequest{Authority: deployer.Bech(), Symbol: "STK", Decimals: 6})}
		after = func(ctx sdk.Context, ok bool, log string) string {
			now := w.App.CPCKeeper.HasCustomPrecompiledContract(ctx, cpctypes.CpcStakingFixedAddress)
			if ok == had || !now {
				sanity("ok=%v (%s), staking precompile before=%v now=%v", ok, log, had, now)
			}
			if ok {
				return "deploy-staking/ok"
			}
			return "deploy-staking/refused-exists"
		}
	default:
		panic("unknown step " + name)
	}
	br := w.Block(txs)
	if br.Panic != "" || br.Err != nil {
		r.fail("block-executes", "", "step %s: panic=%q err=%v", name, br.Panic, br.Err)
		r.oc = append(r.oc, "HALT")
		return
	}
	ok, log := true, ""
	if len(txs) > 0 {
		res := br.Res.TxResults[0]
		ok, log = res.Code == 0, res.Log
		if resp := w.EthResponse(res); ok && resp != nil && resp.VmError != "" {
			ok, log = false, "vm error: "+resp.VmError
		}
	}
	r.oc = append(r.oc, after(w.Ctx(), ok, log))
}

func ctx2codeHash(w *world.World, ctx sdk.Context, a common.Address) []byte {
	return ctx.KVStore(w.Keys[evmtypes.StoreKey]).Get(append(append([]byte{}, evmtypes.KeyPrefixCodeHash...), a.Bytes()...))
}

// ---------------------------------------------------------------------------
// state access
// ---------------------------------------------------------------------------

type c18Dump map[string][][2][]byte

func c18DumpStores(w *world.World, ctx sdk.Context) c18Dump {
	out := c18Dump{}
	for _, name := range c18Stores {
		it := ctx.KVStore(w.Keys[name]).Iterator(nil, nil)
		var kv [][2][]byte
		for ; it.Valid(); it.Next() {
			kv = append(kv, [2][]byte{append([]byte{}, it.Key()...), append([]byte{}, it.Value()...)})
		}
		it.Close()
		out[name] = kv
	}
	return out
}

func c18StateKey(d c18Dump, height int64) string {
	hs := sha256.New()
	fmt.Fprintf(hs, "h=%d;", height)
	for _, name := range c18Stores {
		fmt.Fprintf(hs, "%s;", name)
		for _, kv := range d[name] {
			fmt.Fprintf(hs, "%d:%x=%d:%x;", len(kv[0]), kv[0], len(kv[1]), kv[1])
		}
	}
	return hex.EncodeToString(hs.Sum(nil)[:12])
}

// c18View is what the dumps of both sides say about the registries.
type c18View struct {
	codeHash  map[common.Address]common.Hash
	code      map[common.Hash]bool
	metas     map[common.Address]cpctypes.CustomPrecompiledContractMeta
	nErc20    int
	nAllow    int
	nProof    int
	storageOf map[common.Address][]common.Hash
}

func c18Parse(d c18Dump) c18View {
	v := c18View{codeHash: map[common.Address]common.Hash{}, code: map[common.Hash]bool{}, metas: map[common.Address]cpctypes.CustomPrecompiledContractMeta{}, storageOf: map[common.Address][]common.Hash{}}
	for _, kv := range d[evmtypes.StoreKey] {
		k := kv[0]
		switch {
		case bytes.HasPrefix(k, evmtypes.KeyPrefixCodeHash) && len(k) == 21:
			v.codeHash[common.BytesToAddress(k[1:])] = common.BytesToHash(kv[1])
		case bytes.HasPrefix(k, evmtypes.KeyPrefixCode) && len(k) == 33:
			v.code[common.BytesToHash(k[1:])] = true
		case bytes.HasPrefix(k, evmtypes.KeyPrefixStorage) && len(k) == 53:
			a := common.BytesToAddress(k[1:21])
			v.storageOf[a] = append(v.storageOf[a], common.BytesToHash(k[21:]))
		}
	}
	for _, kv := range d[cpctypes.StoreKey] {
		k := kv[0]
		switch {
		case bytes.HasPrefix(k, cpctypes.KeyPrefixCustomPrecompiledContractMeta):
			var m cpctypes.CustomPrecompiledContractMeta
			if err := m.Unmarshal(kv[1]); err == nil {
				v.metas[common.BytesToAddress(k[1:])] = m
				if m.CustomPrecompiledType == cpctypes.CpcTypeErc20 {
					v.nErc20++
				}
			}
		case bytes.HasPrefix(k, cpctypes.KeyPrefixErc20CpcAllowance):
			v.nAllow++
		}
	}
	v.nProof = len(d[vauthtypes.StoreKey])
	return v
}

// c18DefaultStakingMeta is the typed metadata cpc.InitGenesis gives the staking precompile.
func c18DefaultStakingMeta() string {
	bz, _ := json.Marshal(cpctypes.StakingCustomPrecompiledContractMeta{Symbol: fmt.Sprintf("Staking-%s", strings.ToUpper(constants.SymbolDenom)), Decimals: constants.BaseDenomExponent})
	return string(bz)
}

// c18Defects tells which of the known defect classes predict a difference between original (a) and re-imported (b) state.
// Every test is the exact prediction of the defect: cpc.ExportGenesis exports params + two booleans (the ERC-20 one hard-coded
// false), so NO ERC-20 precompile, NO denom index entry and NO allowance can exist after import, and a staking precompile comes
// back with the metadata InitGenesis hard-codes; vauth exports the empty default genesis, so NO proof can exist after import.
type c18Defects struct {
	erc20, allow, vauth, staking bool
	lostErc20                    map[common.Address]bool
}

func c18Predict(a, b c18View) c18Defects {
	d := c18Defects{lostErc20: map[common.Address]bool{}}
	for addr, m := range a.metas {
		if _, ok := b.metas[addr]; !ok && m.CustomPrecompiledType == cpctypes.CpcTypeErc20 {
			d.lostErc20[addr] = true
		}
	}
	d.erc20 = len(d.lostErc20) > 0 && b.nErc20 == 0
	d.allow = a.nAllow > 0 && b.nAllow == 0
	d.vauth = a.nProof > 0 && b.nProof == 0
	ma, oka := a.metas[cpctypes.CpcStakingFixedAddress]
	mb, okb := b.metas[cpctypes.CpcStakingFixedAddress]
	if oka && okb && ma.TypedMeta != mb.TypedMeta && mb.TypedMeta == c18DefaultStakingMeta() {
		d.staking = bytes.Equal(ma.Address, mb.Address) && ma.CustomPrecompiledType == mb.CustomPrecompiledType && ma.Name == mb.Name && ma.Disabled == mb.Disabled
	}
	return d
}

// c18Classify turns the key-level difference of the four custom stores into findings.
func c18Classify(stage string, da, db c18Dump, counts map[string]int64) (bad []c18Bad, def c18Defects) {
	va, vb := c18Parse(da), c18Parse(db)
	def = c18Predict(va, vb)
	referenced := map[common.Hash]bool{}
	for _, hsh := range va.codeHash {
		referenced[hsh] = true
	}
	for _, hsh := range vb.codeHash {
		referenced[hsh] = true
	}
	add := func(clause, sig, f string, a ...interface{}) {
		bad = append(bad, c18Bad{clause, sig, stage + ": " + fmt.Sprintf(f, a...)})
	}
	for _, e := range world.Diff(da, db) {
		k := e.Key
		desc := fmt.Sprintf("%s/%x: original=%s re-imported=%s", e.Store, k, c18Show(e.A), c18Show(e.B))
		switch e.Store {
		case evmtypes.StoreKey:
			switch {
			case bytes.HasPrefix(k, evmtypes.KeyPrefixBlockHash):
				// per-height block hashes kept for the BLOCKHASH opcode: not part of what the property lists
			case bytes.HasPrefix(k, evmtypes.KeyPrefixParams):
				add("evm-params-equal", "", "%s", desc)
			case bytes.HasPrefix(k, evmtypes.KeyPrefixCode) && len(k) == 33 && !referenced[common.BytesToHash(k[1:])]:
				// code no account refers to any more (left behind by SELFDESTRUCT): no contract's code
				counts["orphan_code_entries_ignored"]++
			case bytes.HasPrefix(k, evmtypes.KeyPrefixStorage) && len(k) == 53 && !c18HasCode(va, vb, common.BytesToAddress(k[1:21])):
				// storage of an account without code (constructor stored, then returned empty code): not a contract, no code can read it
				counts["codeless_account_slots_ignored"]++
			default:
				add("contract-code-and-storage-equal", "", "%s", desc)
			}
		case feemarkettypes.StoreKey:
			add("feemarket-params-and-base-fee-equal", "", "%s", desc)
		case cpctypes.StoreKey:
			lost := e.A != nil && e.B == nil
			switch {
			case bytes.HasPrefix(k, cpctypes.KeyPrefixCustomPrecompiledContractMeta):
				addr := common.BytesToAddress(k[1:])
				sig := ""
				if lost && def.erc20 && def.lostErc20[addr] {
					sig = c18SigErc20
				} else if addr == cpctypes.CpcStakingFixedAddress && def.staking && e.A != nil && e.B != nil {
					sig = c18SigStaking
				}
				add("cpc-precompile-metadata-equal", sig, "%s %s", addr.Hex(), desc)
			case bytes.HasPrefix(k, cpctypes.KeyPrefixErc20CpcDenomToAddress):
				sig := ""
				if lost && def.erc20 && def.lostErc20[common.BytesToAddress(e.A)] {
					sig = c18SigErc20
				}
				add("cpc-denom-index-equal", sig, "denom %q %s", string(k[1:]), desc)
			case bytes.HasPrefix(k, cpctypes.KeyPrefixErc20CpcAllowance):
				sig := ""
				if lost && def.allow {
					sig = c18SigAllow
				}
				add("cpc-allowances-equal", sig, "%s", desc)
			default:
				add("cpc-params-equal", "", "%s", desc)
			}
		case vauthtypes.StoreKey:
			sig := ""
			if e.A != nil && e.B == nil && def.vauth {
				sig = c18SigVauth
			}
			add("vauth-proofs-equal", sig, "%s", desc)
		}
	}
	return bad, def
}

func c18HasCode(a, b c18View, addr common.Address) bool {
	_, x := a.codeHash[addr]
	_, y := b.codeHash[addr]
	return x || y
}

func c18Show(b []byte) string {
	if b == nil {
		return "<absent>"
	}
	if len(b) > 48 {
		return fmt.Sprintf("%x…(%d bytes)", b[:48], len(b))
	}
	return fmt.Sprintf("%x", b)
}

// ---------------------------------------------------------------------------
// observations through queries and view calls
// ---------------------------------------------------------------------------

type c18Obs struct {
	val    string
	dep    string // which registry entry the observation depends on: "", "erc20", "allow", "erc20|allow", "vauth", "staking"
	clause string
}

const c18NoAnswer = "ret= vmerr= err=" // what a view call to an address without code / precompile returns

func c18EthCall(w *world.World, ctx sdk.Context, from, to common.Address, data []byte) string {
	b, _ := ctx.CacheContext()
	args, _ := json.Marshal(evmtypes.TransactionArgs{From: &from, To: &to, Data: (*hexutil.Bytes)(&data)})
	res, err := w.App.EvmKeeper.EthCall(b, &evmtypes.EthCallRequest{Args: args, GasCap: 3_000_000})
	if err != nil {
		return "ret= vmerr= err=" + err.Error()
	}
	return fmt.Sprintf("ret=%x vmerr=%s err=", res.Ret, res.VmError)
}

// c18Observe asks the same questions on one side; the universe (addresses, slots, pairs) is the union of both sides' dumps.
func c18Observe(w *world.World, ctx sdk.Context, va, vb c18View, proofAccts []sdk.AccAddress) map[string]c18Obs {
	out := map[string]c18Obs{}
	js := func(v interface{}, err error) string {
		if err != nil {
			return "error: " + err.Error()
		}
		bz, _ := json.Marshal(v)
		return string(bz)
	}
	app := w.App
	from := w.Wallets[3].Eth()
	// (b) parameters and the current base fee
	{
		res, err := app.EvmKeeper.Params(ctx, &evmtypes.QueryParamsRequest{})
		out["evm/params"] = c18Obs{js(res, err), "", "evm-params-equal"}
		fres, err := app.FeeMarketKeeper.Params(ctx, &feemarkettypes.QueryParamsRequest{})
		out["feemarket/params"] = c18Obs{js(fres, err), "", "feemarket-params-and-base-fee-equal"}
		bres, err := app.FeeMarketKeeper.BaseFee(ctx, &feemarkettypes.QueryBaseFeeRequest{})
		out["feemarket/base-fee"] = c18Obs{js(bres, err), "", "feemarket-params-and-base-fee-equal"}
		eres, err := app.EvmKeeper.BaseFee(ctx, &evmtypes.QueryBaseFeeRequest{})
		out["evm/base-fee"] = c18Obs{js(eres, err), "", "feemarket-params-and-base-fee-equal"}
	}
	// (a) contracts: code, every slot, and the getter through a real EVM call
	addrs := map[common.Address]bool{c18AddrStore: true, c18AddrSuicide: true, c18AddrBurn: true}
	for a := range va.codeHash {
		addrs[a] = true
	}
	for a := range vb.codeHash {
		addrs[a] = true
	}
	for a := range addrs {
		res, err := app.EvmKeeper.Code(ctx, &evmtypes.QueryCodeRequest{Address: a.Hex()})
		out["evm/code/"+a.Hex()] = c18Obs{js(res, err), "", "contract-code-and-storage-equal"}
		if !c18HasCode(va, vb, a) {
			continue
		}
		slots := map[common.Hash]bool{h(0): true, h(1): true, h(2): true, h(3): true}
		for _, s := range va.storageOf[a] {
			slots[s] = true
		}
		for _, s := range vb.storageOf[a] {
			slots[s] = true
		}
		for s := range slots {
			sres, err := app.EvmKeeper.Storage(ctx, &evmtypes.QueryStorageRequest{Address: a.Hex(), Key: s.Hex()})
			out["evm/storage/"+a.Hex()+"/"+s.Hex()] = c18Obs{js(sres, err), "", "contract-code-and-storage-equal"}
			if a != c18AddrBurn {
				out["view/sload/"+a.Hex()+"/"+s.Hex()] = c18Obs{c18EthCall(w, ctx, from, a, s.Bytes()), "", "view-calls-agree"}
			}
		}
	}
	// (c) custom precompiles
	q := cpckeeper.NewQueryServerImpl(app.CPCKeeper)
	{
		res, err := q.Params(ctx, &cpctypes.QueryParamsRequest{})
		out["cpc/params"] = c18Obs{js(res, err), "", "cpc-params-equal"}
		all, err := q.CustomPrecompiledContracts(ctx, &cpctypes.QueryCustomPrecompiledContractsRequest{})
		n := -1
		if err == nil {
			n = len(all.Contracts)
		}
		dep := ""
		if len(va.metas) != len(vb.metas) {
			dep = "erc20-count"
		}
		out["cpc/number-of-contracts"] = c18Obs{fmt.Sprint(n), dep, "cpc-precompile-metadata-equal"}
	}
	cpcAddrs := map[common.Address]cpctypes.CustomPrecompiledContractMeta{}
	for a, m := range vb.metas {
		cpcAddrs[a] = m
	}
	for a, m := range va.metas {
		cpcAddrs[a] = m
	}
	owner, spender := w.Wallets[2].Eth(), w.Wallets[3].Eth()
	for a, m := range cpcAddrs {
		dep := ""
		switch m.CustomPrecompiledType {
		case cpctypes.CpcTypeErc20:
			dep = "erc20"
		case cpctypes.CpcTypeStaking:
			dep = "staking"
		}
		res, err := q.CustomPrecompiledContract(ctx, &cpctypes.QueryCustomPrecompiledContractRequest{Address: a.Hex()})
		val := js(res, err)
		if err != nil {
			val = "absent"
		}
		out["cpc/contract/"+a.Hex()] = c18Obs{val, dep, "cpc-precompile-metadata-equal"}
		view := func(sig string, d string, words ...[]byte) {
			out["view/cpc/"+a.Hex()+"/"+sig] = c18Obs{c18EthCall(w, ctx, from, a, Enc(sig, words...)), d, "view-calls-agree"}
		}
		switch m.CustomPrecompiledType {
		case cpctypes.CpcTypeErc20:
			view("name()", dep)
			view("symbol()", dep)
			view("decimals()", dep)
			view("totalSupply()", dep)
			view("balanceOf(address)", dep, AddrWord(owner))
			view("allowance(address,address)", "erc20|allow", AddrWord(owner), AddrWord(spender))
		case cpctypes.CpcTypeStaking:
			view("name()", "")
			view("symbol()", dep)
			view("decimals()", dep)
		case cpctypes.CpcTypeBech32:
			view("bech32AccountAddrPrefix()", "")
		}
	}
	for _, d := range []string{world.Denom, "utwo", "uthree"} {
		res, err := q.Erc20CustomPrecompiledContractByDenom(ctx, &cpctypes.QueryErc20CustomPrecompiledContractByDenomRequest{MinDenom: d})
		val := "absent"
		if err == nil {
			val = js(res, nil)
		}
		out["cpc/by-denom/"+d] = c18Obs{val, "erc20", "cpc-denom-index-equal"}
	}
	for _, o := range w.Wallets {
		for _, s := range w.Wallets {
			out["cpc/allowance/"+o.Eth().Hex()+"/"+s.Eth().Hex()] = c18Obs{app.CPCKeeper.GetErc20CpcAllowance(ctx, o.Eth(), s.Eth()).String(), "allow", "cpc-allowances-equal"}
		}
	}
	// (d) ownership proofs
	vq := vauthkeeper.NewQueryServerImpl(app.VAuthKeeper)
	for _, acc := range proofAccts {
		res, err := vq.ProofExternalOwnedAccount(ctx, &vauthtypes.QueryProofExternalOwnedAccountRequest{Account: acc.String()})
		val := "absent"
		if err == nil {
			val = js(res, nil)
		}
		out["vauth/proof/"+acc.String()] = c18Obs{val, "vauth", "vauth-proofs-equal"}
	}
	return out
}

// c18CompareObs classifies differing answers. A difference is attributed to a known defect only when the registry entry the
// question depends on is one the defect predicts to be lost AND the re-imported side answers exactly like "not there".
func c18CompareObs(oa, ob map[string]c18Obs, def c18Defects) (bad []c18Bad, compared int) {
	var labels []string
	for l := range oa {
		labels = append(labels, l)
	}
	for l := range ob {
		if _, ok := oa[l]; !ok {
			labels = append(labels, l)
		}
	}
	sort.Strings(labels)
	zeroWord := fmt.Sprintf("ret=%x vmerr= err=", make([]byte, 32))
	for _, l := range labels {
		a, oka := oa[l]
		b, okb := ob[l]
		compared++
		if oka && okb && a.val == b.val {
			continue
		}
		clause, dep := a.clause, a.dep
		if !oka {
			clause, dep = b.clause, b.dep
		}
		gone := b.val == "absent" || b.val == c18NoAnswer
		sig := ""
		switch dep {
		case "erc20":
			if def.erc20 && gone {
				sig = c18SigErc20
			}
		case "erc20-count":
			if def.erc20 {
				sig = c18SigErc20
			}
		case "erc20|allow":
			if def.erc20 && gone {
				sig = c18SigErc20
			} else if def.allow && b.val == zeroWord {
				sig = c18SigAllow
			}
		case "allow":
			if def.allow && b.val == "0" {
				sig = c18SigAllow
			}
		case "vauth":
			if def.vauth && gone {
				sig = c18SigVauth
			}
		case "staking":
			if def.staking && !gone {
				sig = c18SigStaking
			}
		}
		bad = append(bad, c18Bad{clause, sig, fmt.Sprintf("after one block on both: %s: original=%s re-imported=%s", l, c18Trunc(a.val), c18Trunc(b.val))})
	}
	return bad, compared
}

func c18Trunc(s string) string {
	if len(s) > 200 {
		return s[:200] + "…"
	}
	return s
}

// ---------------------------------------------------------------------------
// exports
// ---------------------------------------------------------------------------

func c18Canon(raw json.RawMessage) string {
	var v interface{}
	d := json.NewDecoder(bytes.NewReader(raw))
	d.UseNumber()
	if err := d.Decode(&v); err != nil {
		return "undecodable: " + err.Error()
	}
	bz, _ := json.Marshal(v) // maps are written with sorted keys
	return string(bz)
}

func c18Sections(exp servertypes.ExportedApp) (map[string]string, error) {
	var gs map[string]json.RawMessage
	if err := json.Unmarshal(exp.AppState, &gs); err != nil {
		return nil, err
	}
	out := map[string]string{}
	for _, m := range c18Stores { // store keys equal module names
		raw, ok := gs[m]
		if !ok {
			out[m] = "<missing>"
			continue
		}
		out[m] = c18Canon(raw)
	}
	return out, nil
}

func c18FirstDiff(a, b string) string {
	i := 0
	for i < len(a) && i < len(b) && a[i] == b[i] {
		i++
	}
	lo := i - 60
	if lo < 0 {
		lo = 0
	}
	cut := func(s string) string {
		hi := i + 100
		if hi > len(s) {
			hi = len(s)
		}
		if lo > len(s) {
			return ""
		}
		return s[lo:hi]
	}
	return fmt.Sprintf("at byte %d: …%s… vs …%s…", i, cut(a), cut(b))
}

// ---------------------------------------------------------------------------
// one case
// ---------------------------------------------------------------------------

type c18Result struct {
	Findings []ev.Finding
	Outcome  string
	StateKey string
	Steps    int
	Counts   map[string]int64
	Compared int
}

func c18RunCase(c c18Case) (res c18Result) {
	r := &c18Run{c: c, proofAcct: world.NewAcct("c18-proven"), counts: map[string]int64{}}
	res.Counts = r.counts
	finish := func(rt string) c18Result {
		seen := map[string]bool{}
		for _, b := range r.bad {
			k := b.clause + "|" + b.sig
			if seen[k] {
				continue // one finding per clause and defect class per history
			}
			seen[k] = true
			res.Findings = append(res.Findings, ev.Finding{Clause: b.clause, Signature: b.sig, Detail: fmt.Sprintf("[%s] %v => %s", c.world(), c.Steps, b.detail), Replay: c})
		}
		res.Outcome = strings.Join(r.oc, ",") + " => " + rt
		return res
	}
	w, err := c18NewWorld(c)
	if err != nil {
		r.fail("alphabet-sanity", "", "world does not start: %v", err)
		return finish("no-world")
	}
	r.w = w
	if br := w.Block(nil); br.Panic != "" || br.Err != nil { // height 1
		r.fail("block-executes", "", "first block: %q %v", br.Panic, br.Err)
		return finish("HALT")
	}
	for _, s := range c.Steps {
		r.step(s)
		res.Steps++
		if len(r.oc) > 0 && r.oc[len(r.oc)-1] == "HALT" {
			return finish("HALT")
		}
	}
	da := c18DumpStores(w, w.Ctx())
	res.StateKey = c18StateKey(da, w.Height)

	// export → fresh app → InitChain
	exp1, err := c18Export(w)
	if err != nil {
		r.fail("export-succeeds", "", "%v", err)
		return finish("export-failed")
	}
	if exp1.Height != w.Height+1 {
		r.fail("export-succeeds", "", "exported height %d, last committed block %d", exp1.Height, w.Height)
	}
	var gs map[string]json.RawMessage
	if err := json.Unmarshal(exp1.AppState, &gs); err != nil {
		r.fail("export-succeeds", "", "exported app state is not a JSON object: %v", err)
		return finish("export-failed")
	}
	for _, m := range c18Stores {
		mb, ok := chainapp.ModuleBasics[m].(module.HasGenesisBasics)
		if !ok {
			continue
		}
		if err := mb.ValidateGenesis(w.Enc.Codec, w.Enc.TxConfig, gs[m]); err != nil {
			r.fail("export-validates", "", "module %s rejects its own exported genesis: %v", m, err)
		}
	}
	w2, err := c18Import(w, exp1)
	if err != nil {
		r.fail("import-succeeds", "", "InitChain from the export: %v", err)
		return finish("import-failed")
	}
	// stage 1: state right after InitChain against the exported state
	db := c18DumpStores(w2, c18GenesisCtx(w2))
	bad, def := c18Classify("right after import", da, db, r.counts)
	r.bad = append(r.bad, bad...)
	// stage 2: one empty block on both
	brA, brB := w.Block(nil), w2.Block(nil)
	if brA.Panic != "" || brA.Err != nil {
		r.fail("block-executes", "", "original, block after the history: %q %v", brA.Panic, brA.Err)
		return finish("HALT")
	}
	if brB.Panic != "" || brB.Err != nil {
		r.fail("import-succeeds", "", "first block of the re-imported chain (height %d): panic=%q err=%v", brB.Height, brB.Panic, brB.Err)
		return finish("import-first-block-failed")
	}
	if brA.Height != brB.Height {
		r.fail("import-succeeds", "", "heights diverge: %d vs %d", brA.Height, brB.Height)
	}
	ctxA, ctxB := w.Ctx(), w2.Ctx()
	da2, db2 := c18DumpStores(w, ctxA), c18DumpStores(w2, ctxB)
	bad2, def2 := c18Classify("after one empty block on both", da2, db2, map[string]int64{})
	r.bad = append(r.bad, bad2...)
	va, vb := c18Parse(da2), c18Parse(db2)
	proofAccts := []sdk.AccAddress{r.proofAcct.Acc(), w.Wallets[3].Acc()}
	bad3, n := c18CompareObs(c18Observe(w, ctxA, va, vb, proofAccts), c18Observe(w2, ctxB, va, vb, proofAccts), def2)
	r.bad = append(r.bad, bad3...)
	res.Compared = n
	// (e) export of the re-imported chain against the export of the original at the same height
	expA, errA := c18Export(w)
	expB, errB := c18Export(w2)
	if errA != nil || errB != nil {
		r.fail("export-succeeds", "", "second export: original %v, re-imported %v", errA, errB)
	} else {
		sa, e1 := c18Sections(expA)
		sb, e2 := c18Sections(expB)
		if e1 != nil || e2 != nil {
			r.fail("export-succeeds", "", "second export unreadable: %v %v", e1, e2)
		} else {
			for _, m := range c18Stores {
				if sa[m] != sb[m] {
					r.fail("re-export-equals-export", "", "section %q of the export differs between original and re-imported chain at height %d: %s", m, expA.Height, c18FirstDiff(sa[m], sb[m]))
				}
			}
		}
		if expA.Height != expB.Height {
			r.fail("re-export-equals-export", "", "export heights %d vs %d", expA.Height, expB.Height)
		}
	}
	var cls []string
	for _, x := range []struct {
		on   bool
		name string
	}{{def.erc20 || def2.erc20, "erc20-lost"}, {def.allow || def2.allow, "allowance-lost"}, {def.vauth || def2.vauth, "proof-lost"}, {def.staking || def2.staking, "staking-meta-reset"}} {
		if x.on {
			cls = append(cls, x.name)
		}
	}
	if len(cls) == 0 {
		cls = []string{"identical"}
	}
	unexplained := 0
	for _, b := range r.bad {
		if b.sig == "" {
			unexplained++
		}
	}
	if unexplained > 0 {
		cls = append(cls, "UNEXPLAINED")
	}
	return finish("round-trip:" + strings.Join(cls, "+"))
}

func c18Cases(thorough bool) []c18Case {
	alpha := c18Alphabet(thorough)
	depth, nParams := 2, 2
	if thorough {
		depth, nParams = 3, 3
	}
	var seqs [][]string
	level := [][]string{nil}
	seqs = append(seqs, nil)
	for d := 1; d <= depth; d++ {
		var next [][]string
		for _, p := range level {
			for _, s := range alpha {
				next = append(next, append(append([]string{}, p...), s))
			}
		}
		seqs = append(seqs, next...)
		level = next
	}
	var cases []c18Case
	// magnitude worlds: histories of empty blocks only (the base fee decays but stays beyond 64 bits), cpc flags off/on together
	for p := c18FirstMagnitudeParam; p < len(c18Params); p++ {
		for _, steps := range [][]string{nil, {c18Empty}, {c18Empty, c18Empty}} {
			for _, both := range []bool{false, true} {
				cases = append(cases, c18Case{Erc20: both, Staking: both, Params: p, Steps: steps})
			}
		}
	}
	for _, s := range seqs { // simplest first: shorter histories, then worlds
		for p := 0; p < nParams; p++ {
			for _, e := range []bool{false, true} {
				for _, st := range []bool{false, true} {
					cases = append(cases, c18Case{Erc20: e, Staking: st, Params: p, Steps: s})
				}
			}
		}
	}
	return cases
}

func runC18(replay string) int {
	run := ev.NewRun("C18", "model_checking")
	run.Assumptions = []string{
		"export is app.ExportAppStateAndValidators(false, nil, nil) after Commit; import is InitChain on a fresh application (new in-memory database) with the exported app state, consensus parameters, validators and initial height = exported height, i.e. what `export` followed by `start` on the written genesis does",
		"evm and fee-market parameters cannot be changed at ABCI level without a governance proposal; they are varied through the genesis configuration of the world",
		"compared is what the property lists: contract code / code hash / storage, evm and fee-market parameters with the current base fee, cpc parameters / metadata / denom index / allowances, vauth proofs; the per-height block hashes the evm store keeps for BLOCKHASH, code no account refers to and storage of code-less accounts are outside the comparison",
		"the original and the re-imported chain get the same next block (same height, time, proposer, votes)",
	}
	if replay != "" {
		return replayCase(run, replay, func(raw json.RawMessage) []ev.Finding {
			var c c18Case
			if err := json.Unmarshal(raw, &c); err != nil {
				fmt.Fprintln(os.Stderr, err)
				os.Exit(2)
			}
			o := c18RunCase(c)
			fmt.Println("outcome:", o.Outcome, "state:", o.StateKey)
			return o.Findings
		})
	}
	cases := c18Cases(run.Thorough())
	if !ev.IsShardChild() { // non-vacuity of the parameter dimension: every non-default configuration differs from the module defaults
		for i, pc := range c18Params {
			gs := evmtypes.DefaultGenesisState()
			if pc.Evm != nil {
				pc.Evm(gs)
			}
			dp := evmtypes.DefaultParams()
			isDefaultEvm := gs.Params.String() == dp.String()
			isDefaultFee := pc.BaseFee.String() == feemarkettypes.DefaultParams().BaseFee.String() && sdkmath.LegacyMustNewDecFromStr(pc.MinGasPrice).Equal(feemarkettypes.DefaultParams().MinGasPrice)
			if (i > 0 && i < c18FirstMagnitudeParam && isDefaultEvm) || isDefaultFee {
				run.Fail(ev.Finding{Clause: "alphabet-sanity", Detail: fmt.Sprintf("parameter configuration %d (%s) equals the module defaults (evm: %v, feemarket: %v): a reset to defaults would go unnoticed", i, pc.Name, isDefaultEvm, isDefaultFee)})
			}
		}
	}
	run.Sharded(Shards(), func(shard, n int) {
		checked := 0
		for i, c := range cases {
			if i%n != shard {
				continue
			}
			o := c18RunCase(c)
			if checked < 2 || (len(c.Steps) >= 2 && checked < 4) { // determinism self-check on the first cases of every shard
				checked++
				o2 := c18RunCase(c)
				if o2.Outcome != o.Outcome || o2.StateKey != o.StateKey || len(o2.Findings) != len(o.Findings) {
					fmt.Fprintf(os.Stderr, "HARNESS-NONDETERMINISM in C18 case %d %v: %q/%s/%d vs %q/%s/%d\n", i, c, o.Outcome, o.StateKey, len(o.Findings), o2.Outcome, o2.StateKey, len(o2.Findings))
					os.Exit(2)
				}
			}
			run.Count("transitions", int64(o.Steps))
			run.Count("traces_validated_against_impl", 1)
			run.Count("observations_compared", int64(o.Compared))
			for k, v := range o.Counts {
				run.Count(k, v)
			}
			if o.StateKey != "" {
				run.Distinct(o.StateKey)
			}
			// outcome class: what the round trip did with this history, by the multiset of step outcomes
			run.Outcome(o.Outcome[strings.Index(o.Outcome, "=> ")+3:])
			if len(c.Steps) == 2 && (i/n)%37 == 0 {
				run.Sample(map[string]interface{}{"case": c, "outcome": o.Outcome, "state": o.StateKey})
			}
			for _, f := range o.Findings {
				run.Fail(f)
			}
		}
	})
	depth, nParams := 2, 2
	if run.Thorough() {
		depth, nParams = 3, 3
	}
	run.Coverage["states"] = run.NumDistinct()
	run.Coverage["exhaustive"] = true
	run.Coverage["max_depth"] = depth
	var pn []string
	for _, p := range c18Params[:nParams] {
		pn = append(pn, p.Name)
	}
	run.Coverage["rule"] = fmt.Sprintf("every history of 0..%d steps (one block each, all orders, repetitions allowed) over the %d-step alphabet %v, in %d worlds = cpc genesis flags DeployErc20Native × DeployStakingContract × %d evm/fee-market parameter configurations %v, plus histories of 0..2 empty blocks in 3 magnitude configurations (base fee 2^63, 2^64 with min gas price 2^64+1.5, 2^80+12345) × cpc flags {none, both}; each history is executed on a fresh application (3M-gas blocks, 3 pre-installed contracts incl. one with a zero-valued slot and one with code but no storage), then exported, imported into a fresh application, and both chains run one more empty block; a state is (hash of the evm, feemarket, cpc and vauth stores, height) after the history", depth, len(c18Alphabet(run.Thorough())), c18Alphabet(run.Thorough()), 4*nParams, nParams, pn)
	return run.Finish()
}
