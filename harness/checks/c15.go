package checks

// C15 — EVM execution cannot destroy protected accounts or spend vesting-locked coins.
//
// Exhaustive product  program × target-account kind × balance shape × vesting time schedule × clock placement (the schedule
// dimension — boundary values of every time field of every vesting account type — is in c15_sched.go),
// executed on the real application: complete transactions through FinalizeBlock (one fresh world per case) and the
// StateDB's own API (CreateAccount / DestroyAccount / Suicide / touch / SubBalance + CommitMultiStore) on CacheContext
// branches of one world per clock placement.
//
// The last sentence of the property (deleted accounts are removed completely) additionally has its own LIFECYCLE product in
// c15_life.go: how the account came to exist × what it did before dying × how it dies × what happens afterwards, with a reference
// model of the subject account and an oracle that reads the auth / bank / x/evm stores directly after every committed block.
//
// Time: the oracle is stated in terms of BLOCK TIME only. The machine's wall clock is never part of an expectation; it
// is read in exactly one place (c15WallClockSide) to decide whether an observed violation is exactly what "the destroy
// guard compares the vesting end with time.Now()" predicts, i.e. to compute a defect signature.

import (
	"bytes"
	"crypto/sha256"
	"encoding/hex"
	"encoding/json"
	"fmt"
	"math/big"
	"os"
	"sort"
	"strings"
	"time"

	sdkmath "cosmossdk.io/math"
	storetypes "cosmossdk.io/store/types"
	sdk "github.com/cosmos/cosmos-sdk/types"
	authtypes "github.com/cosmos/cosmos-sdk/x/auth/types"
	vestexported "github.com/cosmos/cosmos-sdk/x/auth/vesting/exported"
	vestingtypes "github.com/cosmos/cosmos-sdk/x/auth/vesting/types"
	banktypes "github.com/cosmos/cosmos-sdk/x/bank/types"
	stakingtypes "github.com/cosmos/cosmos-sdk/x/staking/types"
	"github.com/ethereum/go-ethereum/common"
	ethtypes "github.com/ethereum/go-ethereum/core/types"

	evmtypes "github.com/EscanBE/evermint/v12/x/evm/types"
	evmvm "github.com/EscanBE/evermint/v12/x/evm/vm"

	"verif/harness/asm"
	"verif/harness/ev"
	"verif/harness/world"
)

func init() { Registry["C15"] = runC15 }

const (
	c15SigWallClock = "C15/destroy-guard-uses-wall-clock"
	c15SigPermanent = "C15/permanent-locked-account-not-protected"
)

// ---------------------------------------------------------------------------
// clocks and end times
// ---------------------------------------------------------------------------

var c15Clocks = []string{"2001", "2100"}

func c15Genesis(clock string) time.Time {
	switch clock {
	case "2001":
		return time.Date(2001, 1, 1, 0, 0, 0, 0, time.UTC)
	case "2100":
		return time.Date(2100, 1, 1, 0, 0, 0, 0, time.UTC)
	}
	panic("clock " + clock)
}

// c15ExecHeight is the height of the block that executes the transaction under test (height 1 is an empty block); the
// keeper-level root context carries the header of the same height.
const c15ExecHeight = 2

func c15ExecTime(clock string) time.Time {
	return c15Genesis(clock).Add(c15ExecHeight * time.Hour)
}

var c15VestStart = time.Date(1980, 1, 1, 0, 0, 0, 0, time.UTC)

// c15WallClockSide is the ONLY place that reads the wall clock. It is used for defect signatures, never for a verdict.
func c15WallClockSide(endUnix int64) (unexpiredByWallClock bool) {
	return endUnix > time.Now().UTC().Unix()
}

// ---------------------------------------------------------------------------
// targets
// ---------------------------------------------------------------------------

type c15Target struct {
	Family  string `json:"family"`
	Variant string `json:"variant,omitempty"` // vesting: empty | delegated | funded
	End     string `json:"end,omitempty"`     // vesting with an end time: label of the end time (c15EndUnix)
	Shape   string `json:"shape,omitempty"`   // continuous / periodic: start-time / period-length shape (c15Schedule)
}

func (t c15Target) id() string {
	s := t.Family
	if t.Variant != "" {
		s += "/" + t.Variant
	}
	if t.End != "" {
		s += "/" + t.End
	}
	if t.Shape != "" {
		s += "/" + t.Shape
	}
	return s
}

func (t c15Target) timed() bool {
	return t.Family == "vest-continuous" || t.Family == "vest-delayed" || t.Family == "vest-periodic"
}
func (t c15Target) vesting() bool { return t.timed() || t.Family == "vest-permanent" }

// keyed targets live at the address of a harness key, so that they can also be transaction senders.
func (t c15Target) keyed() bool { return t.vesting() || strings.HasPrefix(t.Family, "base-") }

func (t c15Target) acct() *world.Acct { return world.NewAcct("c15:" + t.id()) }

var (
	c15AddrNone     = common.HexToAddress("0x00000000000000000000000000000000c15000ee")
	c15AddrStore    = common.HexToAddress("0x00000000000000000000000000000000c15000f0") // contract with code + storage + two denoms
	c15GCall0       = common.HexToAddress("0x00000000000000000000000000000000c1500001")
	c15GCall1       = common.HexToAddress("0x00000000000000000000000000000000c1500002")
	c15GStatic      = common.HexToAddress("0x00000000000000000000000000000000c1500003")
	c15GBalance     = common.HexToAddress("0x00000000000000000000000000000000c1500004")
	c15GExtSize     = common.HexToAddress("0x00000000000000000000000000000000c1500005")
	c15GExtHash     = common.HexToAddress("0x00000000000000000000000000000000c1500006")
	c15GExtCopy     = common.HexToAddress("0x00000000000000000000000000000000c1500007")
	c15GDelegate    = common.HexToAddress("0x00000000000000000000000000000000c1500008")
	c15GCallCode    = common.HexToAddress("0x00000000000000000000000000000000c1500009")
	c15GSdFunded    = common.HexToAddress("0x00000000000000000000000000000000c150000a") // SELFDESTRUCT(X), holds base + utwo + storage
	c15GSdZero      = common.HexToAddress("0x00000000000000000000000000000000c150000b") // SELFDESTRUCT(X), holds utwo + storage only
	c15GCallRevert  = common.HexToAddress("0x00000000000000000000000000000000c150000c") // CALL(X,0) then REVERT
	c15GSwallow     = common.HexToAddress("0x00000000000000000000000000000000c150000d") // CALL(c15GCallRevert) and swallow the failure
	c15GCall0Twice  = common.HexToAddress("0x00000000000000000000000000000000c150000e") // CALL(X,0) twice
	c15GSdViaCall   = common.HexToAddress("0x00000000000000000000000000000000c150000f") // CALL(c15GSdFunded) forwarding X
	c15GCallPair    = common.HexToAddress("0x00000000000000000000000000000000c1500010") // CALL(empty base account,0) then CALL(X,0)
	c15CustomFunded = "c15modfunded"
	c15CustomEmpty  = "c15modempty"
)

func (t c15Target) addr() common.Address {
	switch t.Family {
	case "mod-bonded":
		return world.ModuleAddr(stakingtypes.BondedPoolName)
	case "mod-evm":
		return world.ModuleAddr(evmtypes.ModuleName)
	case "mod-custom-funded":
		return world.ModuleAddr(c15CustomFunded)
	case "mod-custom-empty":
		return world.ModuleAddr(c15CustomEmpty)
	case "none":
		return c15AddrNone
	case "contract":
		return c15AddrStore
	}
	if t.keyed() {
		return t.acct().Eth()
	}
	panic("target " + t.Family)
}

// class is the coarse kind used in outcome histograms (block-time relation included).
func (t c15Target) class(clock string) string {
	switch {
	case strings.HasPrefix(t.Family, "mod-"):
		if t.Family == "mod-bonded" || t.Family == "mod-custom-funded" {
			return "module-funded"
		}
		return "module-empty"
	case t.Family == "vest-permanent":
		return "permanent-" + t.Variant
	case t.timed():
		if c15EndUnix(clock, t.End) > c15ExecTime(clock).Unix() {
			return "vesting-" + t.Variant + "-unexpired"
		}
		return "vesting-" + t.Variant + "-expired"
	}
	return t.Family
}

var c15SingleFamilies = []string{"base-empty", "base-funded", "base-utwo", "none", "contract", "mod-custom-empty", "mod-custom-funded", "mod-evm", "mod-bonded"}
var c15TimedFamilies = []string{"vest-delayed", "vest-continuous", "vest-periodic"}

var c15Variants = []string{"empty", "delegated", "funded"}

// c15SingleTargets are present in every world.
func c15SingleTargets() []c15Target {
	var out []c15Target
	for _, f := range c15SingleFamilies {
		out = append(out, c15Target{Family: f})
	}
	return out
}

func c15Coins(base, utwo, uthree int64) sdk.Coins {
	c := sdk.NewCoins()
	if base != 0 {
		c = c.Add(sdk.NewCoin(world.Denom, sdkmath.NewInt(base)))
	}
	if utwo != 0 {
		c = c.Add(sdk.NewCoin("utwo", sdkmath.NewInt(utwo)))
	}
	if uthree != 0 {
		c = c.Add(sdk.NewCoin("uthree", sdkmath.NewInt(uthree)))
	}
	return c
}

var (
	c15FundedCoins    = c15Coins(10_000_000_000_000_000, 1000, 5)
	c15OriginalVest   = c15Coins(9_000_000_000_000_000, 600, 0)
	c15ModuleCoins    = c15Coins(5000, 11, 0)
	c15ContractCoins  = c15Coins(1000, 5, 0)
	c15SdFundedCoins  = c15Coins(1000, 7, 0)
	c15SdZeroCoins    = c15Coins(0, 7, 0)
	c15GadgetCoins    = c15Coins(1000, 0, 0)
	c15SdFundedAmount = big.NewInt(1000)
)

// c15GenesisAccount builds the genesis account of a target (nil for targets that need none). skip != "": the SDK does not accept
// the account (unreachable) or has no defined schedule for it at the block time.
func c15GenesisAccount(t c15Target, clock string) (x *world.ExtraAccount, skip string) {
	switch t.Family {
	case "mod-bonded", "none", "contract":
		return nil, ""
	case "mod-evm":
		// as in an exported genesis: the module account of x/evm exists (the chain creates it on the first mint/burn)
		return &world.ExtraAccount{Account: authtypes.NewEmptyModuleAccount(evmtypes.ModuleName, authtypes.Minter, authtypes.Burner)}, ""
	case "mod-custom-funded":
		return &world.ExtraAccount{Account: authtypes.NewEmptyModuleAccount(c15CustomFunded), Coins: c15ModuleCoins}, ""
	case "mod-custom-empty":
		return &world.ExtraAccount{Account: authtypes.NewEmptyModuleAccount(c15CustomEmpty)}, ""
	case "base-empty":
		return &world.ExtraAccount{Account: authtypes.NewBaseAccount(t.acct().Acc(), nil, 0, 0)}, ""
	case "base-funded":
		return &world.ExtraAccount{Account: authtypes.NewBaseAccount(t.acct().Acc(), nil, 0, 0), Coins: c15FundedCoins}, ""
	case "base-utwo":
		return &world.ExtraAccount{Account: authtypes.NewBaseAccount(t.acct().Acc(), nil, 0, 0), Coins: c15Coins(0, 3, 0)}, ""
	}
	acc, skip := c15BuildVesting(t, clock)
	if skip != "" {
		return nil, skip
	}
	x = &world.ExtraAccount{Account: acc}
	if t.Variant == "funded" {
		x.Coins = c15FundedCoins
	}
	return x, ""
}

// ---------------------------------------------------------------------------
// gadget contracts (the target address is the first call-data word)
// ---------------------------------------------------------------------------

func c15Gadgets() []world.Contract {
	target := func(c *asm.Code) *asm.Code { return c.PushU(0).Op(asm.CALLDATALOAD) }
	call := func(value uint64) *asm.Code {
		c := asm.New().PushU(0).PushU(0).PushU(0).PushU(0).PushU(value)
		return target(c).Op(asm.GAS, asm.CALL, asm.POP)
	}
	noValue := func(op byte) *asm.Code {
		c := asm.New().PushU(0).PushU(0).PushU(0).PushU(0)
		return target(c).Op(asm.GAS, op, asm.POP)
	}
	// forward the 32-byte call data to another gadget, pop the flag
	forward := func(to common.Address) *asm.Code {
		c := asm.New().PushU(32).PushU(0).PushU(0).Op(asm.CALLDATACOPY)
		return c.PushU(0).PushU(0).PushU(32).PushU(0).PushU(0).PushAddr(to).Op(asm.GAS, asm.CALL, asm.POP)
	}
	st := map[common.Hash]common.Hash{h(0): h(1), h(1): h(2)}
	twice := call(0)
	twice.B = append(twice.B, call(0).B...)
	pair := asm.New().PushU(0).PushU(0).PushU(0).PushU(0).PushU(0).PushAddr(c15Companion.addr()).Op(asm.GAS, asm.CALL, asm.POP)
	pair.B = append(pair.B, call(0).B...)
	return []world.Contract{
		{Addr: c15GCall0, Code: call(0).Stop().Bytes()},
		{Addr: c15GCall1, Code: call(1).Stop().Bytes(), Coins: c15GadgetCoins},
		{Addr: c15GStatic, Code: noValue(asm.STATICCALL).Stop().Bytes()},
		{Addr: c15GBalance, Code: target(asm.New()).Op(asm.BALANCE, asm.POP).Stop().Bytes()},
		{Addr: c15GExtSize, Code: target(asm.New()).Op(asm.EXTCODESIZE, asm.POP).Stop().Bytes()},
		{Addr: c15GExtHash, Code: target(asm.New()).Op(asm.EXTCODEHASH, asm.POP).Stop().Bytes()},
		{Addr: c15GExtCopy, Code: target(asm.New().PushU(1).PushU(0).PushU(0)).Op(asm.EXTCODECOPY).Stop().Bytes()},
		{Addr: c15GDelegate, Code: noValue(asm.DELEGATECALL).Stop().Bytes()},
		{Addr: c15GCallCode, Code: target(asm.New().PushU(0).PushU(0).PushU(0).PushU(0).PushU(0)).Op(asm.GAS, asm.CALLCODE, asm.POP).Stop().Bytes()},
		{Addr: c15GSdFunded, Code: target(asm.New()).Op(asm.SELFDESTRUCT).Bytes(), Coins: c15SdFundedCoins, Storage: st},
		{Addr: c15GSdZero, Code: target(asm.New()).Op(asm.SELFDESTRUCT).Bytes(), Coins: c15SdZeroCoins, Storage: st},
		{Addr: c15GCallRevert, Code: call(0).Revert().Bytes()},
		{Addr: c15GSwallow, Code: forward(c15GCallRevert).Stop().Bytes()},
		{Addr: c15GCall0Twice, Code: twice.Stop().Bytes()},
		{Addr: c15GSdViaCall, Code: forward(c15GSdFunded).Stop().Bytes()},
		{Addr: c15GCallPair, Code: pair.Stop().Bytes()},
		{Addr: c15AddrStore, Code: asm.New().Log1(1).Stop().Bytes(), Coins: c15ContractCoins, Storage: map[common.Hash]common.Hash{h(1): h(7), h(2): h(9)}},
	}
}

var c15GadgetAddrs = []common.Address{c15GCall0, c15GCall1, c15GStatic, c15GBalance, c15GExtSize, c15GExtHash, c15GExtCopy, c15GDelegate, c15GCallCode,
	c15GSdFunded, c15GSdZero, c15GCallRevert, c15GSwallow, c15GCall0Twice, c15GSdViaCall, c15GCallPair}

// c15Companion is the empty base account the "call0-pair" program touches before the target: when the transaction fails as a whole
// because of the target, the companion's deletion must not survive.
var c15Companion = c15Target{Family: "base-empty"}

// ---------------------------------------------------------------------------
// world
// ---------------------------------------------------------------------------

// c15NewWorld builds a world holding the single targets plus the given vesting targets (unreachable ones are left out).
func c15NewWorld(clock string, vesting []c15Target) *world.World {
	var extra []world.ExtraAccount
	seen := map[string]bool{}
	for _, t := range append(c15SingleTargets(), vesting...) {
		if seen[t.id()] {
			continue
		}
		seen[t.id()] = true
		if x, skip := c15GenesisAccount(t, clock); x != nil && skip == "" {
			extra = append(extra, *x)
		}
	}
	w := world.New(world.Config{NumWallets: 2, Extra: extra, Contracts: c15Gadgets(), GenesisTime: c15Genesis(clock)})
	br := w.Block(nil)
	if br.Panic != "" || br.Err != nil {
		panic(fmt.Sprintf("C15 world %s: first block: %q %v", clock, br.Panic, br.Err))
	}
	return w
}

// c15Controls are the two accounts of the same family and variant whose end is long before / long after every block time.
func c15Controls(t c15Target) []c15Target {
	if t.timed() {
		return []c15Target{{Family: t.Family, Variant: t.Variant, End: c15CtlPast}, {Family: t.Family, Variant: t.Variant, End: c15CtlFuture}}
	}
	if t.Family == "vest-permanent" {
		return []c15Target{{Family: "vest-delayed", Variant: t.Variant, End: c15CtlPast}}
	}
	return nil
}

// ---------------------------------------------------------------------------
// observation
// ---------------------------------------------------------------------------

type c15Acc struct {
	Exists   bool
	Type     string
	Seq      uint64
	Bal      sdk.Coins
	Code     string // raw code-hash entry of the evm store
	NStorage int
	Storage  string // digest of the storage entries
	RawAuth  int    // auth-store entries whose key or value contains the raw address
	RawBank  int    // bank-store entries whose key contains the raw address
	RawEvm   int    // evm-store entries whose key contains the raw address
	acc      sdk.AccountI
}

func (a *c15Acc) empty() bool {
	return a.Code == "" && a.NStorage == 0 && a.Seq == 0 && a.Bal.IsZero()
}

func (a *c15Acc) String() string {
	if a == nil {
		return "<nil>"
	}
	return fmt.Sprintf("{exists=%v type=%s seq=%d bal=%s code=%s storage=%d raw(auth/bank/evm)=%d/%d/%d}", a.Exists, a.Type, a.Seq, a.Bal, a.Code, a.NStorage, a.RawAuth, a.RawBank, a.RawEvm)
}

type c15Snap struct {
	Acc   map[common.Address]*c15Acc
	Order []common.Address
}

// c15Observe observes every account of the auth store plus the given addresses.
func c15Observe(w *world.World, ctx sdk.Context, also []common.Address) *c15Snap {
	s := &c15Snap{Acc: map[common.Address]*c15Acc{}}
	dump := func(name string) [][2][]byte {
		var kv [][2][]byte
		it := ctx.KVStore(w.Keys[name]).Iterator(nil, nil)
		for ; it.Valid(); it.Next() {
			kv = append(kv, [2][]byte{append([]byte{}, it.Key()...), append([]byte{}, it.Value()...)})
		}
		it.Close()
		return kv
	}
	auth, bank, evm := dump(authtypes.StoreKey), dump(banktypes.StoreKey), dump(evmtypes.StoreKey)
	accs := map[common.Address]sdk.AccountI{}
	var addrs []common.Address
	seen := map[common.Address]bool{}
	add := func(a common.Address) {
		if !seen[a] {
			seen[a] = true
			addrs = append(addrs, a)
		}
	}
	w.App.AccountKeeper.IterateAccounts(ctx, func(a sdk.AccountI) bool {
		addr := common.BytesToAddress(a.GetAddress())
		accs[addr] = a
		add(addr)
		return false
	})
	for _, a := range also {
		add(a)
	}
	sort.Slice(addrs, func(i, j int) bool { return bytes.Compare(addrs[i][:], addrs[j][:]) < 0 })
	evmStore := ctx.KVStore(w.Keys[evmtypes.StoreKey])
	for _, addr := range addrs {
		o := &c15Acc{}
		if a, ok := accs[addr]; ok {
			o.Exists, o.acc = true, a
			o.Type = fmt.Sprintf("%T", a)
			o.Seq = a.GetSequence()
		}
		o.Bal = w.App.BankKeeper.GetAllBalances(ctx, addr.Bytes())
		if bz := evmStore.Get(append(append([]byte{}, evmtypes.KeyPrefixCodeHash...), addr.Bytes()...)); len(bz) > 0 {
			o.Code = hex.EncodeToString(bz)
		}
		hsh := sha256.New()
		it := storetypes.KVStorePrefixIterator(evmStore, evmtypes.AddressStoragePrefix(addr))
		for ; it.Valid(); it.Next() {
			o.NStorage++
			hsh.Write(it.Key())
			hsh.Write(it.Value())
		}
		it.Close()
		if o.NStorage > 0 {
			o.Storage = hex.EncodeToString(hsh.Sum(nil)[:8])
		}
		for _, kv := range auth {
			if bytes.Contains(kv[0], addr.Bytes()) || bytes.Contains(kv[1], addr.Bytes()) {
				o.RawAuth++
			}
		}
		for _, kv := range bank {
			if bytes.Contains(kv[0], addr.Bytes()) {
				o.RawBank++
			}
		}
		for _, kv := range evm {
			if bytes.Contains(kv[0], addr.Bytes()) {
				o.RawEvm++
			}
		}
		s.Acc[addr] = o
	}
	s.Order = addrs
	return s
}

func (s *c15Snap) get(a common.Address) *c15Acc {
	if o, ok := s.Acc[a]; ok {
		return o
	}
	return &c15Acc{Bal: sdk.NewCoins()}
}

// ---------------------------------------------------------------------------
// the oracle (block time only)
// ---------------------------------------------------------------------------

// c15Protected: module accounts, permanently locked accounts (their lock never ends) and vesting accounts whose end time
// is after the block time.
func c15Protected(acc sdk.AccountI, blockTime time.Time) (bool, string) {
	if acc == nil {
		return false, ""
	}
	if _, ok := acc.(sdk.ModuleAccountI); ok {
		return true, "module account"
	}
	if _, ok := acc.(*vestingtypes.PermanentLockedAccount); ok {
		return true, "permanently locked account"
	}
	if va, ok := acc.(vestexported.VestingAccount); ok && va.GetEndTime() > blockTime.Unix() {
		return true, fmt.Sprintf("vesting account with end %d > block time %d", va.GetEndTime(), blockTime.Unix())
	}
	return false, ""
}

func c15Locked(acc sdk.AccountI, blockTime time.Time) sdk.Coins {
	if va, ok := acc.(vestexported.VestingAccount); ok {
		return va.LockedCoins(blockTime)
	}
	return sdk.NewCoins()
}

// c15Exec says what was executed and what the execution is entitled to change.
type c15Exec struct {
	Failed    bool   // the transaction failed as a whole (Code != 0) / the StateDB operation panicked
	Log       string // informational
	Sender    *common.Address
	MaxFee    *big.Int                    // upper bound of what the sender pays as fee
	MaySpend  map[common.Address]*big.Int // base-denom amount an account may legitimately lose (tx value, gadget value)
	MayGain   map[common.Address]*big.Int // base-denom amount an account may legitimately receive
	SelfDestr map[common.Address]bool     // contracts whose SELFDESTRUCT executed in a committed, un-reverted frame
	NTx       int                         // number of transactions of the program (each failed one may still advance the sender's nonce)
	Primitive string                      // keeper level: "destroy" | "suicide" | "create" | "" — see c15Oracle
	X         common.Address
	// lifecycle product (c15_life.go): Skip = accounts whose exact post-state is decided by the lifecycle reference model instead of
	// the clauses below; MaySpendD / MayGainD = entitlements in denominations other than the EVM denomination
	Skip      map[common.Address]bool
	MaySpendD map[string]map[common.Address]*big.Int
	MayGainD  map[string]map[common.Address]*big.Int
}

type c15Fail struct {
	Clause string
	Detail string
}

func c15Amount(c sdk.Coins, d string) *big.Int { return c.AmountOf(d).BigInt() }

// c15Oracle evaluates the property on the pre/post observations of one execution.
func c15Oracle(blockTime time.Time, pre, post *c15Snap, ex c15Exec) (fails []c15Fail) {
	fail := func(clause, f string, a ...interface{}) {
		fails = append(fails, c15Fail{clause, fmt.Sprintf(f, a...)})
	}
	seen := map[common.Address]bool{}
	var addrs []common.Address
	for _, l := range [][]common.Address{pre.Order, post.Order} {
		for _, a := range l {
			if !seen[a] {
				seen[a] = true
				addrs = append(addrs, a)
			}
		}
	}
	zero := new(big.Int)
	amt := func(m map[common.Address]*big.Int, a common.Address) *big.Int {
		if v, ok := m[a]; ok && v != nil {
			return v
		}
		return zero
	}
	for _, a := range addrs {
		if ex.Skip[a] {
			continue
		}
		p, q := pre.get(a), post.get(a)
		isSender := ex.Sender != nil && *ex.Sender == a
		_, isModule := p.acc.(sdk.ModuleAccountI)
		name := a.Hex()
		if a == ex.X {
			name = "X=" + a.Hex()
		}
		sd := ex.SelfDestr[a] && !ex.Failed
		// the chain's own block processing moves coins of the active module accounts (fee collector, distribution …);
		// balance-equality clauses therefore look at X and at every non-module account
		balanceWatched := a == ex.X || !isModule

		// (1) whole-transaction failure: nothing but the sender's nonce and fee changes
		if ex.Failed {
			if isSender {
				if !q.Exists || q.Type != p.Type {
					fail("failed-tx-changes-only-nonce-and-fee", "sender %s: %s -> %s", name, p, q)
				}
				if q.Seq < p.Seq || q.Seq > p.Seq+uint64(ex.NTx) {
					fail("failed-tx-changes-only-nonce-and-fee", "sender %s sequence %d -> %d", name, p.Seq, q.Seq)
				}
				for _, d := range c15Denoms(p.Bal, q.Bal) {
					pb, qb := c15Amount(p.Bal, d), c15Amount(q.Bal, d)
					lo := new(big.Int).Set(pb)
					if d == world.Denom && ex.MaxFee != nil {
						lo.Sub(lo, ex.MaxFee)
					}
					if qb.Cmp(pb) > 0 || qb.Cmp(lo) < 0 {
						fail("failed-tx-changes-only-nonce-and-fee", "sender %s balance %s: %s -> %s (max fee %v)", name, d, pb, qb, ex.MaxFee)
					}
				}
			} else if balanceWatched {
				if p.String() != q.String() {
					fail("failed-tx-changes-only-nonce-and-fee", "%s changed although the execution failed as a whole: %s -> %s", name, p, q)
				}
			} else if p.Exists != q.Exists || p.Type != q.Type || p.Seq != q.Seq || p.Code != q.Code || p.Storage != q.Storage {
				fail("failed-tx-changes-only-nonce-and-fee", "%s changed although the execution failed as a whole: %s -> %s", name, p, q)
			}
		}

		// (2) protected accounts survive with the same type (and, unless legitimately paid, the same balances)
		prot, why := c15Protected(p.acc, blockTime)
		if va, ok := p.acc.(vestexported.VestingAccount); ok && !prot {
			// the reference must agree with itself: the SDK reports no coins as still vesting once the raw end time has passed
			if vc := va.GetVestingCoins(blockTime); !vc.IsZero() {
				fail("alphabet-sanity", "%s: end time %d <= block time %d but the SDK reports %s as still vesting", name, va.GetEndTime(), blockTime.Unix(), vc)
			}
		}
		if prot {
			switch {
			case !q.Exists:
				fail("protected-account-survives", "%s (%s) was deleted: %s -> %s", name, why, p, q)
			case q.Type != p.Type:
				fail("protected-account-survives", "%s (%s) was re-typed: %s -> %s", name, why, p, q)
			case !isSender && q.Seq != p.Seq:
				fail("protected-account-survives", "%s (%s) sequence changed: %s -> %s", name, why, p, q)
			}
			if q.Exists && q.acc != nil && p.acc != nil && balanceWatched {
				if pl, ql := c15Locked(p.acc, blockTime), c15Locked(q.acc, blockTime); !pl.Equal(ql) {
					fail("protected-account-survives", "%s (%s) vesting schedule changed: locked %s -> %s", name, why, pl, ql)
				}
			}
		}

		// (3) locked coins are never spent: in every denom the amount an account loses is at most what was spendable
		if locked := c15Locked(p.acc, blockTime); !locked.IsZero() {
			for _, c := range locked {
				pb, qb := c15Amount(p.Bal, c.Denom), c15Amount(q.Bal, c.Denom)
				floor := c.Amount.BigInt()
				if pb.Cmp(floor) < 0 {
					floor = pb // it never held the whole locked amount: it may lose nothing
				}
				if qb.Cmp(floor) < 0 {
					fail("locked-coins-never-spent", "%s: balance %s %s -> %s but %s are locked at block time %d", name, c.Denom, pb, qb, c.Amount, blockTime.Unix())
				}
			}
		}

		// (4) balances change only as the executed program entitles
		if balanceWatched && !ex.Failed && !sd && !(p.Exists && !q.Exists) {
			for _, d := range c15Denoms(p.Bal, q.Bal) {
				pb, qb := c15Amount(p.Bal, d), c15Amount(q.Bal, d)
				lo, hi := new(big.Int).Set(pb), new(big.Int).Set(pb)
				if d == world.Denom {
					lo.Sub(lo, amt(ex.MaySpend, a))
					hi.Add(hi, amt(ex.MayGain, a))
					if isSender && ex.MaxFee != nil {
						lo.Sub(lo, ex.MaxFee)
					}
				} else {
					lo.Sub(lo, amt(ex.MaySpendD[d], a))
					hi.Add(hi, amt(ex.MayGainD[d], a))
				}
				if ex.Primitive == "suicide" && a == ex.X && d == world.Denom {
					lo = zero // Suicide clears the EVM-denom balance of the account by definition
				}
				if qb.Cmp(lo) < 0 || qb.Cmp(hi) > 0 {
					fail("balances-change-only-as-entitled", "%s balance %s: %s -> %s, allowed [%s, %s]", name, d, pb, qb, lo, hi)
				}
			}
		}

		// (5) no account with code, storage, nonce or any balance disappears unless it self-destructed
		deleted := p.Exists && !q.Exists
		if deleted && !prot {
			allowed := p.empty() || sd
			if a == ex.X && (ex.Primitive == "destroy" || ex.Primitive == "suicide") && !ex.Failed {
				allowed = true // the primitive under test IS the deletion; the property constrains which accounts it accepts
			}
			if !allowed {
				fail("only-empty-or-selfdestructed-accounts-disappear", "%s disappeared: %s -> %s", name, p, q)
			}
		}
		if p.Exists && !deleted && !sd && !(ex.Primitive == "create" && a == ex.X) {
			if p.Code != q.Code || p.Storage != q.Storage {
				fail("only-empty-or-selfdestructed-accounts-disappear", "%s lost or changed code/storage without being deleted: %s -> %s", name, p, q)
			}
		}

		// (6) a self-destructed contract is gone, and whatever is deleted is deleted completely
		if sd && q.Exists {
			fail("deleted-accounts-are-removed-completely", "%s executed SELFDESTRUCT in a committed frame but its account record is still there: %s -> %s", name, p, q)
		}
		if deleted || sd {
			if !q.Bal.IsZero() || q.Code != "" || q.NStorage != 0 || q.RawAuth != 0 || q.RawBank != 0 || q.RawEvm != 0 {
				fail("deleted-accounts-are-removed-completely", "%s was deleted but left traces: %s -> %s", name, p, q)
			}
		}
	}
	return fails
}

func c15Denoms(a, b sdk.Coins) []string {
	m := map[string]bool{}
	for _, c := range a {
		m[c.Denom] = true
	}
	for _, c := range b {
		m[c.Denom] = true
	}
	var out []string
	for d := range m {
		out = append(out, d)
	}
	sort.Strings(out)
	return out
}

// ---------------------------------------------------------------------------
// programs
// ---------------------------------------------------------------------------

// transaction-level programs against target X (sender = wallet 0), simplest first
var c15TxProgsQuick = []string{"tx0", "tx1", "call0", "call1", "static", "balance", "extsize", "sd-zero", "sd-funded"}
var c15TxProgsThorough = []string{"tx0", "tx1", "call0", "call1", "static", "balance", "extsize", "exthash", "sd-zero", "sd-funded",
	"extcopy", "delegate", "callcode", "call0-twice", "call0-reverted", "call0-inner-reverted", "sd-via-call", "call0-pair", "tx0-dynfee", "tx0-accesslist", "tx0+tx0", "tx1+tx0"}

// programs with X as the transaction sender
var c15SenderProgsQuick = []string{"snd-value-ok", "snd-value-over", "snd-fee-ok", "snd-fee-over"}
var c15SenderProgsThorough = []string{"snd-value-ok", "snd-value-over", "snd-fee-ok", "snd-fee-over", "snd-value-all", "snd-zero", "snd-create-ok", "snd-create-over"}

// StateDB-level programs
var c15KeeperProgs = []string{"k-touch", "k-create", "k-destroy", "k-suicide", "k-sub-ok", "k-sub-over"}

func c15IsSenderProg(p string) bool { return strings.HasPrefix(p, "snd-") }
func c15IsKeeperProg(p string) bool { return strings.HasPrefix(p, "k-") }

const c15Gas = 300_000

var c15TouchingProgs = map[string]bool{"tx0": true, "call0": true, "static": true, "sd-zero": true, "call0-twice": true, "call0-pair": true, "tx0-dynfee": true, "tx0-accesslist": true, "tx0+tx0": true, "k-touch": true}
var c15ReadOnlyProgs = map[string]bool{"balance": true, "extsize": true, "exthash": true, "extcopy": true, "call0-reverted": true, "call0-inner-reverted": true}

// c15CaseResult is what one (program, target) case produced.
type c15CaseResult struct {
	Target c15Target
	Class  string // failed | deleted | kept | paid | spent | created | changed
	Reason string // coarse reason of a failure (from the log; informational and for defect signatures only)
	Detail string
	Fails  []c15Fail
	Skip   string // != "": not executed — the SDK rejects the account (unreachable) or has no schedule for it at the block time
}

func c15Reason(log string) string {
	switch {
	case log == "":
		return ""
	case strings.Contains(log, "module account is not suitable for destroying"):
		return "guard-module"
	case strings.Contains(log, "unexpired vesting account is not suitable for destroying"):
		return "guard-vesting"
	case strings.Contains(log, "is not allowed to receive funds"):
		return "blocked-recipient"
	case strings.Contains(log, "spendable balance") || strings.Contains(log, "insufficient funds") || strings.Contains(log, "insufficient fee"):
		return "insufficient-spendable"
	}
	return "other"
}

// c15FirstLine keeps the message of a recovered panic and drops the stack trace (which is not deterministic).
func c15FirstLine(s string) string {
	if i := strings.IndexByte(s, '\n'); i >= 0 {
		s = s[:i]
	}
	if len(s) > 260 {
		s = s[:260]
	}
	return s
}

func c15Class(p, q *c15Acc, failed bool) string {
	switch {
	case failed:
		return "failed"
	case p.Exists && !q.Exists:
		return "deleted"
	case !p.Exists && q.Exists:
		return "created"
	case p.Type != q.Type || p.Seq != q.Seq || p.Code != q.Code || p.Storage != q.Storage:
		return "changed"
	case !p.Bal.Equal(q.Bal):
		if q.Bal.IsAllGTE(p.Bal) {
			return "paid"
		}
		return "spent"
	}
	return "kept"
}

func c15AddrWord(a common.Address) []byte { return common.LeftPadBytes(a.Bytes(), 32) }

// c15RunTxCase executes one transaction-level case on a fresh world.
func c15RunTxCase(clock string, prog string, t c15Target) c15CaseResult {
	w := c15NewWorld(clock, append([]c15Target{t}, c15Controls(t)...))
	T := w.BlockTime(c15ExecHeight)
	x := t.addr()
	also := append([]common.Address{x, c15AddrNone}, c15GadgetAddrs...)
	pre := c15Observe(w, w.Ctx(), also)
	px := pre.get(x)
	price := big.NewInt(1_000_000_000)
	ex := c15Exec{X: x, MaySpend: map[common.Address]*big.Int{}, MayGain: map[common.Address]*big.Int{}, SelfDestr: map[common.Address]bool{}}
	res := c15CaseResult{Target: t}

	var txs [][]byte
	sender := w.Wallets[0]
	if c15IsSenderProg(prog) {
		sender = t.acct()
	}
	senderAddr := sender.Eth()
	ex.Sender = &senderAddr
	nonce := pre.get(senderAddr).Seq
	legacy := func(to common.Address, value *big.Int, data []byte, gas uint64, gasPrice *big.Int) []byte {
		tx := w.EthTx(sender, &ethtypes.LegacyTx{Nonce: nonce, GasPrice: gasPrice, Gas: gas, To: &to, Value: value, Data: data})
		nonce++
		return tx
	}
	gadget := func(g common.Address) []byte { return legacy(g, big.NewInt(0), c15AddrWord(x), c15Gas, price) }
	maxFee := new(big.Int).Mul(big.NewInt(c15Gas), price)
	sdRan := map[common.Address]bool{}
	switch prog {
	case "tx0":
		txs = [][]byte{legacy(x, big.NewInt(0), nil, c15Gas, price)}
	case "tx1":
		txs = [][]byte{legacy(x, big.NewInt(1), nil, c15Gas, price)}
		ex.MaySpend[senderAddr], ex.MayGain[x] = big.NewInt(1), big.NewInt(1)
	case "tx0-dynfee":
		txs = [][]byte{w.EthTx(sender, &ethtypes.DynamicFeeTx{ChainID: big.NewInt(world.EvmChainID), Nonce: nonce, GasTipCap: big.NewInt(0), GasFeeCap: price, Gas: c15Gas, To: &x, Value: big.NewInt(0)})}
	case "tx0-accesslist":
		txs = [][]byte{w.EthTx(sender, &ethtypes.AccessListTx{ChainID: big.NewInt(world.EvmChainID), Nonce: nonce, GasPrice: price, Gas: c15Gas, To: &x, Value: big.NewInt(0),
			AccessList: ethtypes.AccessList{{Address: x, StorageKeys: []common.Hash{h(1)}}}})}
	case "tx0+tx0":
		txs = [][]byte{legacy(x, big.NewInt(0), nil, c15Gas, price), legacy(x, big.NewInt(0), nil, c15Gas, price)}
		maxFee.Mul(maxFee, big.NewInt(2))
	case "tx1+tx0":
		txs = [][]byte{legacy(x, big.NewInt(1), nil, c15Gas, price), legacy(x, big.NewInt(0), nil, c15Gas, price)}
		maxFee.Mul(maxFee, big.NewInt(2))
		ex.MaySpend[senderAddr], ex.MayGain[x] = big.NewInt(1), big.NewInt(1)
	case "call0":
		txs = [][]byte{gadget(c15GCall0)}
	case "call0-twice":
		txs = [][]byte{gadget(c15GCall0Twice)}
	case "call0-pair":
		txs = [][]byte{gadget(c15GCallPair)}
	case "call0-reverted":
		txs = [][]byte{gadget(c15GCallRevert)}
	case "call0-inner-reverted":
		txs = [][]byte{gadget(c15GSwallow)}
	case "call1":
		txs = [][]byte{gadget(c15GCall1)}
		ex.MaySpend[c15GCall1], ex.MayGain[x] = big.NewInt(1), big.NewInt(1)
	case "static":
		txs = [][]byte{gadget(c15GStatic)}
	case "balance":
		txs = [][]byte{gadget(c15GBalance)}
	case "extsize":
		txs = [][]byte{gadget(c15GExtSize)}
	case "exthash":
		txs = [][]byte{gadget(c15GExtHash)}
	case "extcopy":
		txs = [][]byte{gadget(c15GExtCopy)}
	case "delegate":
		txs = [][]byte{gadget(c15GDelegate)}
	case "callcode":
		txs = [][]byte{gadget(c15GCallCode)}
	case "sd-zero":
		txs = [][]byte{gadget(c15GSdZero)}
		sdRan[c15GSdZero] = true
	case "sd-funded":
		txs = [][]byte{gadget(c15GSdFunded)}
		sdRan[c15GSdFunded] = true
		ex.MayGain[x] = c15SdFundedAmount
	case "sd-via-call":
		txs = [][]byte{gadget(c15GSdViaCall)}
		sdRan[c15GSdFunded] = true
		ex.MayGain[x] = c15SdFundedAmount
	default:
		if !c15IsSenderProg(prog) {
			panic("program " + prog)
		}
		// X is the sender; amounts are relative to what is spendable at block time according to the vesting schedule
		recv := w.Wallets[1].Eth()
		bal := c15Amount(px.Bal, world.Denom)
		locked := c15Amount(c15Locked(px.acc, T), world.Denom)
		spendable := new(big.Int).Sub(bal, locked)
		if spendable.Sign() < 0 {
			spendable = new(big.Int)
		}
		gas := int64(21000)
		to := &recv
		var data []byte
		if strings.HasPrefix(prog, "snd-create") {
			gas, to, data = 150_000, nil, createOKInit()
			recv = world.CreateAddr(senderAddr, nonce)
		}
		fee := new(big.Int).Mul(big.NewInt(gas), price)
		value := new(big.Int)
		gp := new(big.Int).Set(price)
		switch prog {
		case "snd-zero":
		case "snd-value-ok", "snd-create-ok":
			value.Sub(spendable, fee)
		case "snd-value-over", "snd-create-over":
			value.Sub(spendable, fee)
			value.Add(value, big.NewInt(1))
		case "snd-value-all":
			value.Sub(bal, fee)
		case "snd-fee-ok":
			gp.Div(spendable, big.NewInt(gas))
		case "snd-fee-over":
			gp.Div(spendable, big.NewInt(gas))
			gp.Add(gp, big.NewInt(1))
		default:
			panic("program " + prog)
		}
		if value.Sign() < 0 {
			value = new(big.Int)
		}
		maxFee = new(big.Int).Mul(big.NewInt(gas), gp)
		txs = [][]byte{w.EthTx(sender, &ethtypes.LegacyTx{Nonce: nonce, GasPrice: gp, Gas: uint64(gas), To: to, Value: value, Data: data})}
		ex.MaySpend[senderAddr], ex.MayGain[recv] = value, value
		res.Detail = fmt.Sprintf("balance=%s locked=%s spendable=%s value=%s gasPrice=%s; ", bal, locked, spendable, value, gp)
	}
	ex.MaxFee = maxFee
	ex.NTx = len(txs)

	br := w.Block(txs)
	if br.Panic != "" || br.Err != nil {
		res.Class = "HALT"
		res.Fails = append(res.Fails, c15Fail{"block-executes", fmt.Sprintf("panic=%q err=%v", br.Panic, br.Err)})
		return res
	}
	if w.BlockTime(br.Height) != T || br.Height != c15ExecHeight {
		panic("C15: executing block is not at the planned time")
	}
	// "failed as a whole" = every tx of the program has Code != 0; a program whose txs disagree is evaluated as committed
	nFailed := 0
	var logs, failLogs []string
	for i, r := range br.Res.TxResults {
		if r.Code != 0 {
			nFailed++
			logs = append(logs, fmt.Sprintf("tx%d: code=%d %s", i, r.Code, c15FirstLine(r.Log)))
			failLogs = append(failLogs, r.Log)
			continue
		}
		vmErr := ""
		if er := w.EthResponse(r); er != nil {
			vmErr = er.VmError
		}
		logs = append(logs, fmt.Sprintf("tx%d: ok vmError=%q", i, vmErr))
		if vmErr != "" {
			failLogs = append(failLogs, vmErr)
		}
		if vmErr == "" {
			for g := range sdRan {
				ex.SelfDestr[g] = true
			}
		}
	}
	ex.Failed = nFailed == len(txs)
	ex.Log = strings.Join(logs, " | ")
	if prog == "call0-reverted" || prog == "call0-inner-reverted" {
		ex.SelfDestr = map[common.Address]bool{}
	}
	post := c15Observe(w, w.Ctx(), also)
	res.Fails = append(res.Fails, c15Oracle(T, pre, post, ex)...)
	qx := post.get(x)
	res.Class = c15Class(px, qx, ex.Failed)
	if nFailed > 0 && !ex.Failed {
		res.Class += "+1failed"
	}
	res.Reason = c15Reason(strings.Join(failLogs, " "))
	res.Detail += fmt.Sprintf("%s; X: %s -> %s", ex.Log, px, qx)

	// alphabet sanity: cases built to have a known effect must have it
	sanity := func(ok bool, f string, a ...interface{}) {
		if !ok {
			res.Fails = append(res.Fails, c15Fail{"alphabet-sanity", fmt.Sprintf(f, a...) + " — " + res.Detail})
		}
	}
	switch {
	case t.Family == "base-empty" && c15TouchingProgs[prog]:
		sanity(res.Class == "deleted", "a zero-value touch of an empty base account must delete it (EIP-158)")
	case t.Family == "base-empty" && c15ReadOnlyProgs[prog]:
		sanity(res.Class == "kept", "reading / a reverted touch of an empty base account must leave it alone")
	case (t.Family == "base-funded" || t.Family == "base-utwo" || t.Family == "contract") && !c15IsSenderProg(prog):
		want := "kept"
		if prog == "tx1" || prog == "call1" || prog == "sd-funded" || prog == "sd-via-call" || prog == "tx1+tx0" {
			want = "paid"
		}
		sanity(res.Class == want, "a %s account under %s must be %s", t.Family, prog, want)
	case t.Family == "none" && (prog == "tx1" || prog == "call1" || prog == "sd-funded"):
		sanity(res.Class == "created", "paying a non-existent address must create the account")
	case (prog == "snd-value-ok" || prog == "snd-fee-ok" || prog == "snd-create-ok") && (t.Family == "base-funded" || t.Variant == "funded"):
		sanity(res.Class == "changed", "a sender spending at most what is spendable must succeed")
	case prog == "snd-value-over" || prog == "snd-fee-over" || prog == "snd-create-over":
		sanity(ex.Failed, "a sender spending one unit more than what is spendable must fail")
	}
	if len(sdRan) > 0 && !ex.Failed {
		for g := range sdRan {
			sanity(ex.SelfDestr[g] && !post.get(g).Exists, "the SELFDESTRUCT gadget %s ran in a committed tx and must be gone", g.Hex())
		}
	}
	return res
}

// c15KeeperWorld is the per-clock world of the StateDB-level programs.
type c15KeeperWorld struct {
	w    *world.World
	root sdk.Context
	T    time.Time
}

func c15NewKeeperWorld(clock string, vesting []c15Target) *c15KeeperWorld {
	w := c15NewWorld(clock, vesting)
	kw := &c15KeeperWorld{w: w, root: w.Ctx(), T: w.BlockTime(c15ExecHeight)}
	if !kw.root.BlockTime().Equal(kw.T) {
		panic("C15: keeper root context is not at the planned block time")
	}
	return kw
}

func (kw *c15KeeperWorld) run(prog string, t c15Target) c15CaseResult {
	w := kw.w
	ctx, _ := kw.root.CacheContext()
	x := t.addr()
	also := append([]common.Address{x, c15AddrNone}, c15GadgetAddrs...)
	pre := c15Observe(w, ctx, also)
	px := pre.get(x)
	ex := c15Exec{X: x, MaySpend: map[common.Address]*big.Int{}, MayGain: map[common.Address]*big.Int{}, SelfDestr: map[common.Address]bool{}}
	res := c15CaseResult{Target: t}
	bal := c15Amount(px.Bal, world.Denom)
	locked := c15Amount(c15Locked(px.acc, kw.T), world.Denom)
	spendable := new(big.Int).Sub(bal, locked)
	if spendable.Sign() < 0 {
		spendable = new(big.Int)
	}
	func() {
		defer func() {
			if r := recover(); r != nil {
				ex.Failed = true
				ex.Log = c15FirstLine(fmt.Sprint(r))
			}
		}()
		cfg, err := w.App.EvmKeeper.EVMConfig(ctx, nil)
		if err != nil {
			panic(err)
		}
		sdb := evmvm.NewStateDB(ctx, cfg.CoinBase, w.App.EvmKeeper, w.App.AccountKeeper, w.App.BankKeeper)
		switch prog {
		case "k-touch":
			sdb.AddBalance(x, new(big.Int))
		case "k-create":
			sdb.CreateAccount(x)
			ex.Primitive = "create"
		case "k-destroy":
			sdb.DestroyAccount(x)
			ex.Primitive = "destroy"
		case "k-suicide":
			ex.Primitive = "suicide"
			if sdb.Suicide(x) {
				ex.SelfDestr[x] = true
			}
		case "k-sub-ok":
			sdb.SubBalance(x, spendable)
			ex.MaySpend[x] = spendable
		case "k-sub-over":
			v := new(big.Int).Add(spendable, big.NewInt(1))
			sdb.SubBalance(x, v)
			ex.MaySpend[x] = v
		default:
			panic("program " + prog)
		}
		if err := sdb.CommitMultiStore(true); err != nil {
			panic(err)
		}
	}()
	post := c15Observe(w, ctx, also)
	res.Fails = c15Oracle(kw.T, pre, post, ex)
	qx := post.get(x)
	res.Class = c15Class(px, qx, ex.Failed)
	res.Reason = c15Reason(ex.Log)
	res.Detail = fmt.Sprintf("balance=%s locked=%s spendable=%s; panic=%q; X: %s -> %s", bal, locked, spendable, ex.Log, px, qx)
	sanity := func(ok bool, f string, a ...interface{}) {
		if !ok {
			res.Fails = append(res.Fails, c15Fail{"alphabet-sanity", fmt.Sprintf(f, a...) + " — " + res.Detail})
		}
	}
	switch {
	case t.Family == "base-empty" && (prog == "k-touch" || prog == "k-destroy" || prog == "k-suicide"):
		sanity(res.Class == "deleted", "%s of an empty base account must delete it", prog)
	case (t.Family == "base-funded" || t.Family == "contract") && (prog == "k-destroy" || prog == "k-suicide"):
		sanity(res.Class == "deleted", "%s of an unprotected account must delete it", prog)
	case t.Family == "base-funded" && prog == "k-touch":
		sanity(res.Class == "kept", "touching a funded account must leave it alone")
	case prog == "k-sub-ok" && (t.Family == "base-funded" || t.Variant == "funded"):
		sanity(!ex.Failed, "subtracting exactly what is spendable must succeed")
	case prog == "k-sub-over":
		sanity(ex.Failed, "subtracting one unit more than what is spendable must be refused")
	}
	return res
}

// ---------------------------------------------------------------------------
// groups: one (level, clock, program, family, variant) with all its end times — the unit of sharding and replay
// ---------------------------------------------------------------------------

type c15Group struct {
	Clock   string   `json:"clock"`
	Program string   `json:"program"`
	Family  string   `json:"family"`
	Variant string   `json:"variant,omitempty"`
	Scheds  []string `json:"scheds,omitempty"` // timed families: "end" / "end~shape" labels of the cases, the two controls first
	Only    string   `json:"only,omitempty"`   // informational: the label of the reported case
}

func (g c15Group) targets() []c15Target {
	base := c15Target{Family: g.Family, Variant: g.Variant}
	if !base.timed() {
		// vest-permanent: the second target is the reference for the defect signature, an account of the same variant whose
		// vesting ended long ago
		return append([]c15Target{base}, c15Controls(base)...)
	}
	var out []c15Target
	for _, l := range g.Scheds {
		t := base
		t.End, t.Shape = c15SplitSched(l)
		out = append(out, t)
	}
	return out
}

func c15Groups(thorough bool) []c15Group {
	txProgs, sndProgs := c15TxProgsQuick, c15SenderProgsQuick
	if thorough {
		txProgs, sndProgs = c15TxProgsThorough, c15SenderProgsThorough
	}
	type fam struct{ f, v string }
	var fams []fam
	for _, f := range c15SingleFamilies {
		fams = append(fams, fam{f, ""})
	}
	for _, v := range c15Variants {
		for _, f := range append(append([]string{}, c15TimedFamilies...), "vest-permanent") {
			fams = append(fams, fam{f, v})
		}
	}
	var out []c15Group
	var progs []string
	progs = append(progs, txProgs...)
	progs = append(progs, sndProgs...)
	progs = append(progs, c15KeeperProgs...)
	for _, p := range progs {
		for _, clock := range c15Clocks {
			for _, f := range fams {
				if c15IsSenderProg(p) && !(c15Target{Family: f.f}).keyed() {
					continue
				}
				g := c15Group{Clock: clock, Program: p, Family: f.f, Variant: f.v}
				if (c15Target{Family: f.f}).timed() {
					g.Scheds = c15SchedLabels(f.f, thorough, clock)
				}
				out = append(out, g)
			}
		}
	}
	return out
}

// c15EvalGroup runs every case of the group and adds the group-level clauses and the defect signatures.
func c15EvalGroup(g c15Group, kws map[string]*c15KeeperWorld) (results []c15CaseResult, findings []ev.Finding) {
	targets := g.targets()
	for _, t := range targets {
		if t.vesting() {
			if _, skip := c15BuildVesting(t, g.Clock); skip != "" {
				// not a case: the SDK does not accept this account (or has no schedule for it at the block time)
				results = append(results, c15CaseResult{Target: t, Skip: skip})
				continue
			}
		}
		if c15IsKeeperProg(g.Program) {
			key := g.Clock + "|" + g.Family + "|" + g.Variant
			kw := kws[key]
			if kw == nil {
				kw = c15NewKeeperWorld(g.Clock, targets)
				kws[key] = kw
			}
			results = append(results, kw.run(g.Program, t))
		} else {
			results = append(results, c15RunTxCase(g.Clock, g.Program, t))
		}
	}
	byEnd := map[string]*c15CaseResult{}
	for i := range results {
		byEnd[results[i].Target.sched()] = &results[i]
	}
	T := c15ExecTime(g.Clock)
	report := func(r *c15CaseResult, f c15Fail, sig string) {
		rg := g
		rg.Only = r.Target.sched()
		findings = append(findings, ev.Finding{Clause: f.Clause, Signature: sig,
			Detail: fmt.Sprintf("[%s @%s, block time %s] %s on %s: %s (case: %s)", c15LevelOf(g.Program), g.Clock, T.Format(time.RFC3339), g.Program, r.Target.id(), f.Detail, r.Detail), Replay: rg})
	}
	base := c15Target{Family: g.Family, Variant: g.Variant}
	switch {
	case base.timed():
		past, future := byEnd[c15CtlPast], byEnd[c15CtlFuture]
		if past == nil || future == nil || past.Skip != "" || future.Skip != "" {
			panic(fmt.Sprintf("C15: group %+v has no controls", g))
		}
		for i := range results {
			r := &results[i]
			if r.Skip != "" {
				continue
			}
			end := c15EndUnix(g.Clock, r.Target.End)
			blockSide := end > T.Unix() // unexpired at block time: the raw int64 comparison x/auth/vesting and x/bank make
			ctlBlock := past
			if blockSide {
				ctlBlock = future
			}
			// the cut-off is evaluated against block time: an account whose end is strictly before (after) the block time behaves like
			// the control whose end is long before (after) it. end == block time has no control: the property protects "end > block
			// time" and makes no demand on whether an implementation also refuses the boundary itself
			if len(r.Fails) == 0 && end != T.Unix() && r.Class != ctlBlock.Class {
				r.Fails = append(r.Fails, c15Fail{"vesting-cutoff-evaluated-at-block-time", fmt.Sprintf("outcome %q (%s) differs from the outcome %q (%s) of the account whose end %s is on the same side of the block time",
					r.Class, r.Reason, ctlBlock.Class, ctlBlock.Reason, ctlBlock.Target.End)})
			}
			if len(r.Fails) == 0 {
				continue
			}
			// defect signature: the case behaves exactly like the control on the WALL-CLOCK side of its end time, the two clocks
			// disagree about this end time, and both controls are clean
			sig := ""
			wallSide := c15WallClockSide(end)
			ctlWall := past
			if wallSide {
				ctlWall = future
			}
			onlyGuardClauses := true
			for _, f := range r.Fails {
				if f.Clause != "protected-account-survives" && f.Clause != "locked-coins-never-spent" && f.Clause != "vesting-cutoff-evaluated-at-block-time" {
					onlyGuardClauses = false
				}
			}
			// (a) unexpired at block time but expired by the wall clock: the guard let it through, the case behaves exactly like the
			//     long-expired control; (b) expired at block time but unexpired by the wall clock: the guard itself refused it
			//     (the bank, which uses block time, did not), while the long-expired control went through
			predicted := (blockSide && r.Class == ctlWall.Class && r.Reason == ctlWall.Reason) ||
				(!blockSide && r.Class == "failed" && r.Reason == "guard-vesting" && ctlBlock.Class != "failed")
			if wallSide != blockSide && onlyGuardClauses && predicted && len(past.Fails) == 0 && len(future.Fails) == 0 {
				sig = c15SigWallClock
			}
			for _, f := range r.Fails {
				report(r, f, sig)
			}
		}
	case g.Family == "vest-permanent":
		r, ref := &results[0], &results[1]
		sig := ""
		only := len(r.Fails) > 0
		for _, f := range r.Fails {
			if f.Clause != "protected-account-survives" && f.Clause != "locked-coins-never-spent" {
				only = false
			}
		}
		// the guard reads GetEndTime(), which is 0 for a permanently locked account: it behaves like a long-expired vesting account
		if only && r.Class == ref.Class && r.Reason == ref.Reason && len(ref.Fails) == 0 {
			sig = c15SigPermanent
		}
		for _, f := range r.Fails {
			report(r, f, sig)
		}
		for _, f := range ref.Fails {
			report(ref, f, "")
		}
	default:
		for i := range results {
			for _, f := range results[i].Fails {
				report(&results[i], f, "")
			}
		}
	}
	return results, findings
}

func c15LevelOf(prog string) string {
	if c15IsKeeperProg(prog) {
		return "StateDB"
	}
	return "tx"
}

// ---------------------------------------------------------------------------
// driver
// ---------------------------------------------------------------------------

func runC15(replay string) int {
	run := ev.NewRun("C15", "model_checking")
	run.Assumptions = []string{
		"expectations are computed from the block time of the executing block only; the wall clock is read solely to label violations that are exactly what 'destroy guard compares with time.Now()' predicts",
		"locked amounts come from the SDK vesting account's own LockedCoins(blockTime); the check trusts x/auth/vesting, not evermint code, for the schedule",
		"a permanently locked account counts as a vesting account whose vesting period never ends",
		"'vesting period not ended as of the block time' = EndTime > blockTime.Unix(), compared as int64 exactly as x/auth/vesting and x/bank do; no end time is ever converted into a time.Time by the check",
		"a vesting account is reachable iff the x/auth/vesting constructor (which runs the Validate() that auth's ValidateGenesis applies to genesis accounts) accepts it; rejected accounts, and accounts whose LockedCoins panics inside the SDK at the block time, are counted under skipped/… and not executed",
		"transaction-level cases run one fresh application per case (empty block 1, program in block 2); StateDB-level cases run on CacheContext branches of one application per clock placement, a panic = the operation is refused and its branch discarded",
	}
	if replay != "" {
		return replayCase(run, replay, func(raw json.RawMessage) []ev.Finding {
			if lc, ok := c15LifeIsReplay(raw); ok {
				var kw *c15LifeKeeperWorld
				r := c15RunLife(lc, &kw)
				fmt.Printf("lifecycle case %s: X %s — %s\n", lc.id(), r.Class, r.Detail)
				return c15LifeFindings(r)
			}
			var g c15Group
			if err := json.Unmarshal(raw, &g); err != nil {
				fmt.Fprintln(os.Stderr, err)
				os.Exit(2)
			}
			rs, fs := c15EvalGroup(g, map[string]*c15KeeperWorld{})
			for _, r := range rs {
				if r.Skip != "" {
					fmt.Printf("case %s/%s @%s: not a case — %s\n", g.Program, r.Target.id(), g.Clock, r.Skip)
					continue
				}
				fmt.Printf("case %s/%s @%s: %s (%s) — %s\n", g.Program, r.Target.id(), g.Clock, r.Class, r.Reason, r.Detail)
			}
			return fs
		})
	}
	groups := c15Groups(run.Thorough())
	lifeCases := c15LifeCases(run.Thorough())
	run.Sharded(Shards(), func(shard, n int) {
		kws := map[string]*c15KeeperWorld{}
		// the lifecycle product (c15_life.go)
		var lifeKW *c15LifeKeeperWorld
		for i, lc := range lifeCases {
			if i%n != shard {
				continue
			}
			r := c15RunLife(lc, &lifeKW)
			if i < 2*n {
				r2 := c15RunLife(lc, &lifeKW)
				if r.Class != r2.Class || r.Detail != r2.Detail || len(r.Fails) != len(r2.Fails) {
					fmt.Fprintf(os.Stderr, "HARNESS-NONDETERMINISM in C15 lifecycle case %d %s\n  %s\n  %s\n", i, lc.id(), r.Detail, r2.Detail)
					os.Exit(2)
				}
			}
			c15LifeCount(run, r)
			if i%(len(lifeCases)/4+1) == 0 {
				run.Sample(map[string]interface{}{"lifecycle_case": lc, "class": r.Class, "detail": r.Detail})
			}
			for _, f := range c15LifeFindings(r) {
				run.Fail(f)
			}
		}
		for i, g := range groups {
			if i%n != shard {
				continue
			}
			rs, fs := c15EvalGroup(g, kws)
			if i < n {
				rs2, fs2 := c15EvalGroup(g, map[string]*c15KeeperWorld{})
				same := len(rs) == len(rs2) && len(fs) == len(fs2)
				for j := 0; same && j < len(rs); j++ {
					same = rs[j].Class == rs2[j].Class && rs[j].Detail == rs2[j].Detail && rs[j].Skip == rs2[j].Skip
				}
				if !same {
					fmt.Fprintf(os.Stderr, "HARNESS-NONDETERMINISM in C15 group %d %+v\n", i, g)
					os.Exit(2)
				}
			}
			for _, r := range rs {
				if r.Skip != "" {
					run.Count("skipped_cases", 1)
					run.Count("skipped/"+r.Skip, 1)
					continue
				}
				run.Count("evaluations", 1)
				if r.Target.timed() {
					run.Count("by_end/"+r.Target.End+"/"+r.Class, 1)
					if r.Target.Shape != "" {
						run.Count("by_shape/"+r.Target.Shape+"/"+r.Class, 1)
					}
				}
				if c15IsKeeperProg(g.Program) {
					run.Count("statedb_level_cases", 1)
				} else {
					run.Count("tx_level_cases", 1)
				}
				cls := r.Target.class(g.Clock)
				oc := r.Class
				if r.Reason != "" {
					oc += "(" + r.Reason + ")"
				}
				run.Outcome(cls + " => " + oc)
				run.Count("by_program/"+g.Program+"/"+r.Class, 1)
				// non-trivial: the execution tried to delete / pay / spend from a protected or vesting account, or deleted something
				if r.Class != "kept" || strings.Contains(cls, "unexpired") || strings.HasPrefix(cls, "module") || strings.HasPrefix(cls, "permanent") {
					run.Distinct(fmt.Sprintf("%s|%s|%s|%s", g.Clock, g.Program, r.Target.id(), r.Class))
				}
				switch {
				case r.Reason == "guard-module":
					run.Count("sanity/guard_refused_module_account", 1)
				case r.Reason == "guard-vesting":
					run.Count("sanity/guard_refused_unexpired_vesting_account", 1)
					run.Count("guard_refused_by_end/"+r.Target.End, 1)
				case r.Reason == "insufficient-spendable" && strings.Contains(cls, "unexpired"):
					run.Count("sanity/bank_refused_locked_coins", 1)
				}
				if r.Class == "deleted" && r.Target.Family == "base-empty" {
					run.Count("sanity/empty_base_account_deleted_eip158", 1)
				}
				if r.Class == "deleted" && strings.HasSuffix(cls, "-expired") {
					run.Count("sanity/expired_vesting_account_deleted", 1)
				}
				if strings.HasPrefix(g.Program, "sd-") && r.Class != "failed" {
					run.Count("sanity/selfdestruct_committed", 1)
				}
			}
			if i%(len(groups)/4+1) == 0 && len(rs) > 0 {
				run.Sample(map[string]interface{}{"group": g, "first_case": rs[0].Target.id(), "class": rs[0].Class, "detail": rs[0].Detail})
			}
			for _, f := range fs {
				run.Fail(f)
			}
		}
	})
	// vacuity guards: the interesting outcome classes must have occurred
	for _, c := range []string{"sanity/guard_refused_module_account", "sanity/guard_refused_unexpired_vesting_account", "sanity/bank_refused_locked_coins",
		"sanity/empty_base_account_deleted_eip158", "sanity/expired_vesting_account_deleted", "sanity/selfdestruct_committed",
		"sanity/life_selfdestructed_with_storage_deleted", "sanity/life_selfdestructed_in_init_code_deleted", "sanity/life_selfdestructed_with_second_denom_deleted",
		"sanity/life_empty_account_touched_deleted", "sanity/life_reverted_selfdestruct_kept", "sanity/life_recreated_on_blank_account",
		"sanity/life_selfdestructed_in_init_with_storage_tx", "sanity/life_selfdestructed_in_init_with_storage_evm"} {
		if run.Counter(c) == 0 {
			run.Fail(ev.Finding{Clause: "alphabet-sanity", Detail: "outcome class never observed: " + c, Replay: map[string]string{"counter": c}})
		}
	}
	ends := c15EndsQuick
	txp, sp := c15TxProgsQuick, c15SenderProgsQuick
	if run.Thorough() {
		ends, txp, sp = c15EndsThorough, c15TxProgsThorough, c15SenderProgsThorough
	}
	// every end label that lies after the block time in some clock placement must have been refused by the destroy guard at least once
	for _, e := range ends {
		after := false
		for _, clock := range c15Clocks {
			after = after || c15EndUnix(clock, e) > c15ExecTime(clock).Unix()
		}
		if c := "guard_refused_by_end/" + e; after && run.Counter(c) == 0 {
			run.Fail(ev.Finding{Clause: "alphabet-sanity", Detail: "no vesting account with end time " + e + " (after the block time) was ever refused by the destroy guard: " + c, Replay: map[string]string{"counter": c}})
		}
	}
	perWorld := 0
	for _, f := range c15TimedFamilies {
		perWorld += len(c15SchedLabels(f, run.Thorough(), c15ShapeClockQuick))
	}
	run.Coverage["groups"] = len(groups)
	run.Coverage["lifecycle_cases"] = len(lifeCases)
	run.Coverage["exhaustive"] = true
	run.Coverage["rule"] = fmt.Sprintf("full product, every case executed on the real app: clock placement {block time 2001-01-01T02:00Z, 2100-01-01T02:00Z} × program × target. "+
		"Targets: module accounts {bonded pool, evm, custom funded multi-denom, custom empty}; base accounts {empty, funded multi-denom, holding only utwo}; non-existent address; contract with code+storage+2 denoms; "+
		"vesting {delayed, continuous, periodic} × balance shape %v (empty: zero balance, zero sequence, nothing delegated; delegated: zero balance, zero sequence, DelegatedVesting = OriginalVesting; funded: multi-denom, 10e15 base of which 9e15 original vesting, 1000 utwo of which 600, 5 uthree) "+
		"× time schedule (%d schedules per balance shape over the three kinds) and permanently locked × the same balance shapes. "+
		"Schedules: EndTime %v (T = block time of the executing block, W = MaxInt64−62135596800 = last unix second time.Unix represents without wrapping, NS/US/MS = MaxInt64/1e9, /1e6, /1e3, I32/U32 = MaxInt32/MaxUint32, Y9999 = 253402300799, MAX = MaxInt64) with StartTime 1980 and two equal periods; "+
		"continuous and periodic additionally StartTime shapes %v and periodic period-length shapes %v, each crossed with EndTime %v (p=over only with MAX; in the quick tier the shaped schedules run under the 2100 clock placement only). "+
		"Accounts are built by the x/auth/vesting constructors (= Validate() of auth's ValidateGenesis); rejected accounts are unreachable and counted under skipped/…, not executed. "+
		"Transaction-level programs through FinalizeBlock (fresh app per case, holding the target and the two control accounts of its kind and balance shape) %v with X = target, and %v with X = sender (amounts relative to balance − LockedCoins(T)); "+
		"StateDB-level programs on CacheContext branches %v. Every case: full pre/post observation of every auth account (type, sequence, all balances, code hash, storage, raw auth/bank/evm store scan for the address). "+
		"Reference: 'vesting period not ended' = EndTime > T.Unix() as int64 (never through time.Time); locked coins = the SDK account's LockedCoins(T). "+
		"distinct_nontrivial = cases whose target is protected/vesting-unexpired or whose outcome is not 'kept', plus every lifecycle case."+c15LifeRule(run.Thorough()),
		c15Variants, perWorld, ends, c15Shapes("vest-continuous", run.Thorough()), c15PeriodShapes, map[bool][]string{false: c15ShapeEndsQuick, true: c15ShapeEndsThorough}[run.Thorough()], txp, sp, c15KeeperProgs)
	return run.Finish()
}
