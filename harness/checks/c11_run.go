package checks

// C11 driver: alphabets, twin-branch BFS, replay, evidence.

import (
	"encoding/json"
	"fmt"
	"os"
	"sort"
	"strings"
	"time"

	sdk "github.com/cosmos/cosmos-sdk/types"
	"github.com/ethereum/go-ethereum/common"

	"verif/harness/ev"
)

func init() { Registry["C11"] = runC11 }

// c11Alphabet builds the operation alphabet, simplest first. level: 2 = full, 1 = core, 0 = tiny.
func c11Alphabet(level int) []c11Op {
	var ops []c11Op
	if level == 0 {
		ops = append(ops, c11Op{M: "env-reward", V: "V1"}, c11Op{M: "env-reward", V: "V2"}, c11Op{M: "env-block"}, c11Op{M: "env-time"})
		for _, c := range []string{"A", "C-deleg"} {
			ops = append(ops,
				c11Op{M: "delegate", Caller: c, V: "V1", Amt: "1e18"}, c11Op{M: "delegate", Caller: c, V: "V2", Amt: "1"},
				c11Op{M: "undelegate", Caller: c, V: "V1", Amt: "max"}, c11Op{M: "undelegate", Caller: c, V: "V2", Amt: "1e18"},
				c11Op{M: "redelegate", Caller: c, V: "V1", W: "V2", Amt: "1e18"}, c11Op{M: "redelegate", Caller: c, V: "V2", W: "V1", Amt: "max"},
				c11Op{M: "transfer", Caller: c, To: "self", Amt: "1e18"},
				c11Op{M: "withdrawReward", Caller: c, V: "V1"}, c11Op{M: "withdrawReward", Caller: c, V: "V2"}, c11Op{M: "withdrawRewards", Caller: c})
		}
		return append(ops,
			c11Op{M: "delegateByActionMessage", Caller: "A", Act: "Delegate", V: "V1", Amt: "1e18", Sig: "valid"},
			c11Op{M: "delegateByActionMessage", Caller: "A", Act: "Undelegate", V: "V1", Amt: "1e18", Sig: "other-delegator"},
			c11Op{M: "withdrawRewardsByMessage", Caller: "A", V: "all", Sig: "valid"})
	}
	callers := []string{"A", "B", "C-call", "C-deleg"}
	vals := []string{"V1", "V2", "VX"}
	amts := []string{"1e18", "1", "0", "max", "max+1"}
	pairs := [][2]string{{"V1", "V2"}, {"V2", "V1"}, {"V1", "VX"}, {"VX", "V1"}, {"V1", "V1"}, {"V2", "V3"}}
	switch level {
	case 1:
		callers = []string{"A", "B", "C-call"}
		vals = []string{"V1", "V2"}
		amts = []string{"1e18", "1", "max"}
		pairs = [][2]string{{"V1", "V2"}, {"V2", "V1"}}
	case 0:
		callers = []string{"A", "C-deleg"}
		vals = []string{"V1", "V2"}
		amts = []string{"1e18", "max"}
		pairs = [][2]string{{"V1", "V2"}}
	}
	// environment first: they make the rest interesting
	ops = append(ops, c11Op{M: "env-reward", V: "V1"}, c11Op{M: "env-reward", V: "V2"}, c11Op{M: "env-block"}, c11Op{M: "env-time"})
	if level == 2 {
		ops = append(ops, c11Op{M: "native", Caller: "B", Act: "Delegate", V: "V1", Amt: "1e18"}, c11Op{M: "native", Caller: "A", Act: "Undelegate", V: "V1", Amt: "1"})
		// letters of the reward-state family (c11_multi.go): a block beginning with fees of two denoms, an odd allocation
		// to the third validator, a stake that is no whole number of coins
		ops = append(ops, c11Op{M: "env-fees", Amt: "a"}, c11Op{M: "env-reward", V: "V3", Amt: "odd"}, c11Op{M: "native", Caller: "B", Act: "Delegate", V: "V3", Amt: "37e16"})
	}
	for _, c := range callers {
		for _, a := range amts {
			for _, v := range vals {
				ops = append(ops, c11Op{M: "delegate", Caller: c, V: v, Amt: a})
				ops = append(ops, c11Op{M: "undelegate", Caller: c, V: v, Amt: a})
			}
			for _, p := range pairs {
				ops = append(ops, c11Op{M: "redelegate", Caller: c, V: p[0], W: p[1], Amt: a})
			}
			ops = append(ops, c11Op{M: "transfer", Caller: c, To: "self", Amt: a})
		}
		for _, v := range vals {
			ops = append(ops, c11Op{M: "withdrawReward", Caller: c, V: v})
		}
		ops = append(ops, c11Op{M: "withdrawRewards", Caller: c})
		if level > 0 {
			ops = append(ops, c11Op{M: "transfer", Caller: c, To: "other", Amt: "1"})
		}
	}
	if level > 0 {
		// two precompile calls in one transaction (state-independent operations only: the same call data runs twice)
		for _, a := range []string{"1e18", "1", "max"} {
			ops = append(ops, c11Op{M: "delegate", Caller: "D-twice", V: "V1", Amt: a}, c11Op{M: "delegate", Caller: "D-twice", V: "V2", Amt: a},
				c11Op{M: "undelegate", Caller: "D-twice", V: "V1", Amt: a}, c11Op{M: "redelegate", Caller: "D-twice", V: "V1", W: "V2", Amt: a})
		}
		ops = append(ops, c11Op{M: "withdrawReward", Caller: "D-twice", V: "V1"}, c11Op{M: "withdrawReward", Caller: "D-twice", V: "V2"})
	}
	// signed variants
	sigs := []string{"valid", "wrong-signer", "other-delegator", "other-delegator-caller-signs", "chain+1", "tampered"}
	eoas := []string{"A", "B"}
	if level == 0 {
		sigs = []string{"valid", "other-delegator", "other-delegator-caller-signs"}
		eoas = []string{"A"}
	}
	for _, c := range eoas {
		for _, s := range sigs {
			ops = append(ops, c11Op{M: "delegateByActionMessage", Caller: c, Act: "Delegate", V: "V1", Amt: "1e18", Sig: s})
			ops = append(ops, c11Op{M: "withdrawRewardsByMessage", Caller: c, V: "all", Sig: s})
			if level == 0 {
				continue
			}
			ops = append(ops, c11Op{M: "delegateByActionMessage", Caller: c, Act: "Undelegate", V: "V1", Amt: "1", Sig: s})
			ops = append(ops, c11Op{M: "delegateByActionMessage", Caller: c, Act: "Redelegate", V: "V1", W: "V2", Amt: "1e18", Sig: s})
			ops = append(ops, c11Op{M: "withdrawRewardsByMessage", Caller: c, V: "V1", Sig: s})
			if level == 2 {
				ops = append(ops, c11Op{M: "delegateByActionMessage", Caller: c, Act: "Delegate", V: "V2", Amt: "max", Sig: s})
				ops = append(ops, c11Op{M: "delegateByActionMessage", Caller: c, Act: "Delegate", V: "VX", Amt: "1", Sig: s})
			}
		}
	}
	if level > 0 {
		for _, c := range []string{"C-call", "C-deleg"} {
			for _, s := range []string{"relay", "unsigned-self"} {
				ops = append(ops, c11Op{M: "delegateByActionMessage", Caller: c, Act: "Delegate", V: "V1", Amt: "1e18", Sig: s})
				ops = append(ops, c11Op{M: "delegateByActionMessage", Caller: c, Act: "Undelegate", V: "V1", Amt: "1e18", Sig: s})
				ops = append(ops, c11Op{M: "withdrawRewardsByMessage", Caller: c, V: "all", Sig: s})
				ops = append(ops, c11Op{M: "withdrawRewardsByMessage", Caller: c, V: "V1", Sig: s})
			}
		}
	}
	return ops
}

// c11Prof accumulates wall time per phase (exec, check, views) — reported with VERIF_DEBUG only, never used by an oracle.
var c11Prof [3]time.Duration

type c11Path []c11Op

func (p c11Path) String() string {
	var s []string
	for _, o := range p {
		s = append(s, o.String())
	}
	return strings.Join(s, " ; ")
}

type c11Node struct {
	ctx   sdk.Context
	key   [32]byte
	path  c11Path
	accts map[common.Address]string
}

func (cw *c11World) acctsOf(nd *c11Node) func(common.Address) string {
	return func(a common.Address) string {
		if nd.accts == nil {
			nd.accts = map[common.Address]string{}
		}
		if s, ok := nd.accts[a]; ok {
			return s
		}
		s := cw.acctView(nd.ctx, a)
		nd.accts[a] = s
		return s
	}
}

// c11Signature classifies a violation by a defect-aware test. No defect of the unchanged tree is known for C11.
func c11Signature(c11Bad, *c11Step) string { return "" }

func (cw *c11World) findings(path c11Path, st *c11Step, bad []c11Bad) []ev.Finding {
	var fs []ev.Finding
	for _, b := range bad {
		fs = append(fs, ev.Finding{Clause: b.Clause, Signature: c11Signature(b, st), Detail: c11Clip(path.String()+" => "+b.Msg, 1200),
			Replay: map[string]interface{}{"slashed": cw.slashed, "path": path}})
	}
	return fs
}

// view modes of step: none (a prefix re-walked by a shard that does not own it), default, all accounts.
const (
	c11ViewsNone = iota
	c11ViewsDefault
	c11ViewsAll
)

// step runs one transition from nd, checks it (and the views of the P state) and returns the child.
func (cw *c11World) step(nd *c11Node, op c11Op, viewMode int) (child *c11Node, fs []ev.Finding, class string, st *c11Step) {
	t0 := time.Now()
	st = cw.exec(nd.ctx, op)
	t1 := time.Now()
	bad, pKey, class := cw.check(nd.ctx, nd.key, cw.acctsOf(nd), st)
	t2 := time.Now()
	path := append(append(c11Path{}, nd.path...), op)
	if pKey != nd.key && len(bad) == 0 && viewMode != c11ViewsNone {
		// views: every account after an environment step, on the first level and in replay mode; deeper down the account
		// that acted (the others were just shown untouched) — the deeper states are reached again through other orders
		accounts := cw.viewAccounts()
		if viewMode != c11ViewsAll && !op.isEnv() && len(nd.path) >= 1 {
			accounts = []common.Address{st.E}
		}
		for _, v := range cw.views(st.P, pKey, accounts) {
			bad = append(bad, c11Bad{"views-match-native", v})
		}
	}
	c11Prof[0] += t1.Sub(t0)
	c11Prof[1] += t2.Sub(t1)
	c11Prof[2] += time.Since(t2)
	child = &c11Node{ctx: st.P.WithEventManager(sdk.NewEventManager()), key: pKey, path: path}
	return child, cw.findings(path, st, bad), class, st
}

func (cw *c11World) rootNode() *c11Node {
	return &c11Node{ctx: cw.root, key: cw.stateKey(cw.root)}
}

// runPath replays a path from the root; findings of every transition are returned.
func (cw *c11World) runPath(p c11Path) (fs []ev.Finding, classes []string) {
	nd := cw.rootNode()
	for _, v := range append(cw.constViews(nd.ctx), cw.views(nd.ctx, nd.key, cw.viewAccounts())...) {
		fs = append(fs, ev.Finding{Clause: "views-match-native", Detail: "root: " + v, Replay: map[string]interface{}{"slashed": cw.slashed, "path": c11Path{}}})
	}
	for _, op := range p {
		child, f, class, _ := cw.step(nd, op, c11ViewsAll)
		fs = append(fs, f...)
		classes = append(classes, class)
		nd = child
	}
	return fs, classes
}

// c11Search is the BFS. Every shard executes depth 1 completely (cheap) to learn which first operations open a new state;
// it records the transitions with index%n == shard and expands the new depth-1 states with rank%n == shard.
func c11Search(run *ev.Run, cw *c11World, tag string, alpha []c11Op, maxDepth, shard, n int, dl *ev.Deadline) (depthDone int, complete bool) {
	return c11SearchFrom(run, cw, tag, cw.rootNode(), alpha, maxDepth, shard, n, dl)
}

// c11SearchFrom is the BFS from any start state (the root, or a state of the reward-state family reached by a prefix
// of environment steps; the prefix stays part of every path, so a finding's replay is the whole history from the root).
// depth counts operations after the start state.
func c11SearchFrom(run *ev.Run, cw *c11World, tag string, root *c11Node, alpha []c11Op, maxDepth, shard, n int, dl *ev.Deadline) (depthDone int, complete bool) {
	seen := map[[32]byte]bool{root.key: true}
	frontier := []*c11Node{root}
	rank := 0
	base := len(root.path)
	for depth := 1; depth <= maxDepth; depth++ {
		var next []*c11Node
		for _, nd := range frontier {
			for oi, op := range alpha {
				if dl.Hit() {
					run.Coverage["exhaustive"] = false
					run.Note("%s/%s: time budget hit at depth %d; depth %d fully covered", cw.tag(), tag, depth, depth-1)
					return depth - 1, false
				}
				mine := depth > 1 || oi%n == shard
				child, fs, class, st := cw.step(nd, op, c11ViewsDefault)
				if mine {
					run.Count("transitions", 1)
					run.Count("transitions_"+cw.tag()+"_"+tag, 1)
					if !op.isEnv() {
						run.Count("twin_executions", 1)
						if !st.Twin.MustFail {
							run.Count("twin_with_native_counterpart", 1)
						}
						if st.Twin.Why == "ERC-20 insufficient balance" {
							run.Count("transfer_rejected_for_insufficient_bank_balance", 1)
						}
						if st.Twin.Skipped > 0 {
							run.Count("withdraw_all_with_sub_threshold_rewards_left_alone", 1)
						}
						run.Count("ok_"+op.M, b2i(class == "ok" || class == "ok/period-renumbered"))
						if op.Sig == "valid" && strings.HasPrefix(class, "ok") {
							run.Count("ok_signed_valid", 1)
						}
						if (strings.HasPrefix(op.Caller, "C-") || op.Caller == "D-twice") && strings.HasPrefix(class, "ok") {
							run.Count("ok_by_contract_"+op.Caller, 1)
						}
						if len(st.Res.Logs) > 0 {
							run.Count("logs_compared", int64(len(st.Res.Logs)))
						}
					}
					run.Outcome(op.M + "/" + class)
					for _, f := range fs {
						run.Fail(f)
					}
				}
				if child.key == nd.key || seen[child.key] {
					continue
				}
				seen[child.key] = true
				if depth == 1 {
					rank++
					if (rank-1)%n != shard {
						continue
					}
				}
				run.Distinct(fmt.Sprintf("%x", child.key[:12]))
				if len(child.path) >= base+2 && run.Counter("sampled_"+tag) < 1 {
					run.Count("sampled_"+tag, 1)
					run.Sample(map[string]interface{}{"world": cw.tag(), "search": tag, "path": child.path.String()})
				}
				next = append(next, child)
			}
		}
		depthDone = depth
		frontier = next
		if len(frontier) == 0 {
			return maxDepth, true // nothing left to expand in this shard: its subtree is explored for every depth
		}
	}
	return depthDone, true
}

func b2int(b bool) int { return int(b2i(b)) }

func b2i(b bool) int64 {
	if b {
		return 1
	}
	return 0
}

func (cw *c11World) tag() string {
	if cw.slashed {
		return "V2-slashed"
	}
	return "plain"
}

// c11Sanity: cases built to succeed must succeed, environment steps must do what they say.
func (cw *c11World) sanity(run *ev.Run) {
	expect := func(p c11Path, want ...string) {
		fs, classes := cw.runPath(p)
		for _, f := range fs {
			run.Fail(f)
		}
		for i, w := range want {
			if i >= len(classes) || !strings.HasPrefix(classes[i], w) {
				run.Fail(ev.Finding{Clause: "alphabet-sanity", Detail: fmt.Sprintf("%s: %s: classes %v, want %v", cw.tag(), p, classes, want), Replay: map[string]interface{}{"slashed": cw.slashed, "path": p}})
				return
			}
		}
	}
	expect(c11Path{{M: "delegate", Caller: "A", V: "V1", Amt: "1e18"}}, "ok")
	expect(c11Path{{M: "delegate", Caller: "C-deleg", V: "V2", Amt: "1e18"}}, "ok")
	expect(c11Path{{M: "delegate", Caller: "D-twice", V: "V1", Amt: "1e18"}}, "ok")
	expect(c11Path{{M: "withdrawReward", Caller: "D-twice", V: "V1"}}, "ok")
	expect(c11Path{{M: "delegateByActionMessage", Caller: "A", Act: "Delegate", V: "V1", Amt: "1e18", Sig: "valid"}}, "ok")
	expect(c11Path{{M: "delegateByActionMessage", Caller: "A", Act: "Redelegate", V: "V1", W: "V2", Amt: "1e18", Sig: "valid"}}, "ok")
	expect(c11Path{{M: "withdrawRewardsByMessage", Caller: "A", V: "all", Sig: "valid"}}, "ok")
	expect(c11Path{{M: "withdrawRewardsByMessage", Caller: "A", V: "V1", Sig: "valid"}}, "ok")
	expect(c11Path{{M: "withdrawRewards", Caller: "C-call"}}, "ok")
	expect(c11Path{{M: "withdrawRewards", Caller: "B"}}, "nothing-to-do")
	if st := cw.exec(cw.root, c11Op{M: "withdrawRewards", Caller: "A"}); st.Twin.Skipped != 1 || len(st.Twin.Msgs) != 1 {
		run.Fail(ev.Finding{Clause: "alphabet-sanity", Detail: fmt.Sprintf("%s: A's rewards at the root should be one above and one below the threshold: %d msgs, %d skipped", cw.tag(), len(st.Twin.Msgs), st.Twin.Skipped)})
	}
	expect(c11Path{{M: "transfer", Caller: "B", To: "self", Amt: "1e18"}}, "ok")
	expect(c11Path{{M: "undelegate", Caller: "A", V: "V1", Amt: "max"}, {M: "env-time"}}, "ok", "env")
	// the reward step raises A's reward on V1, the time step pays an unbonding back
	a, v1 := cw.A.Eth(), cw.val("V1")
	reward := func(ctx sdk.Context) string {
		out, err := cw.viewCall(ctx, "rewardOf", a, v1)
		if err != nil {
			return "error " + err.Error()
		}
		return fmt.Sprint(out[0])
	}
	st := cw.exec(cw.root, c11Op{M: "env-reward", V: "V1"})
	if st.EnvErr != nil || reward(st.P) == reward(cw.root) {
		run.Fail(ev.Finding{Clause: "alphabet-sanity", Detail: fmt.Sprintf("%s: env-reward did not raise rewardOf(A,V1): %v %s", cw.tag(), st.EnvErr, reward(st.P))})
	}
	u := cw.exec(cw.root, c11Op{M: "undelegate", Caller: "A", V: "V1", Amt: "max"})
	t := cw.exec(u.P, c11Op{M: "env-time"})
	if b0, b1 := cw.w.Balance(u.P, a, "wei"), cw.w.Balance(t.P, a, "wei"); t.EnvErr != nil || b1.Cmp(b0) <= 0 {
		run.Fail(ev.Finding{Clause: "alphabet-sanity", Detail: fmt.Sprintf("%s: env-time did not mature A's unbonding: %v %s→%s", cw.tag(), t.EnvErr, b0, b1)})
	}
	// determinism: the same paths give the same verdicts and the same state keys
	for _, p := range []c11Path{
		{{M: "delegate", Caller: "A", V: "V2", Amt: "1"}, {M: "withdrawRewards", Caller: "A"}},
		{{M: "transfer", Caller: "C-call", To: "self", Amt: "1e18"}, {M: "env-time"}, {M: "undelegate", Caller: "C-deleg", V: "V2", Amt: "max"}},
	} {
		k := func() string {
			nd := cw.rootNode()
			var s []string
			for _, op := range p {
				child, fs, class, _ := cw.step(nd, op, c11ViewsAll)
				s = append(s, fmt.Sprintf("%x/%s/%d", child.key, class, len(fs)))
				nd = child
			}
			return strings.Join(s, ",")
		}
		if x, y := k(), k(); x != y {
			fmt.Fprintln(os.Stderr, "HARNESS-NONDETERMINISM in C11:", x, y)
			os.Exit(2)
		}
	}
}

func runC11(replay string) int {
	run := ev.NewRun("C11", "model_checking")
	run.Assumptions = []string{
		"operations are driven at keeper level: P through the real NewStateDB + NewEVM + evm.Call + CommitMultiStore on a CacheContext branch, N through the SDK staking/distribution message servers on a sibling branch of the same parent (no ante handler, no fees, no nonce bump)",
		"callers have sequence >= 1 (as every real sender has); block height and time are constant between two env-time steps",
		"the native counterpart of withdrawRewards()/transfer(self)/withdrawRewardsByMessage(all) is one MsgWithdrawDelegatorReward per validator whose pending reward reaches the precompile's 0.001-coin threshold; rewards below it are only required to stay untouched; when that list is empty only effects are compared, not the success flag",
		"distribution stores are compared byte for byte and, when they differ, in a period-free normal form (reward checkpoints are compared by content, not by period number), because the precompile runs the distribution gRPC querier, which settles validator periods, on the live context",
		"auth is compared for tracked accounts by type and sequence; account numbers are ignored (every EVM call to a precompile consumes one)",
		"the reward-state family drives the environment with the keeper calls a block makes (staking EndBlocker, x/distribution BeginBlocker with vote infos built from the staking module's last validator powers, fee collector funded by a bank send from a wallet); no transaction fees are charged at keeper level, so the fee amounts are an alphabet, not a consequence of the operations",
		"worlds: 'plain', and 'V2-slashed' where validator V2 was slashed by 50 % before the exploration starts (so that shares and tokens differ); no slashing inside the explored histories",
	}
	worlds := map[bool]*c11World{}
	get := func(slashed bool) *c11World {
		if worlds[slashed] == nil {
			worlds[slashed] = c11Setup(slashed)
		}
		return worlds[slashed]
	}
	if replay != "" {
		return replayCase(run, replay, func(raw json.RawMessage) []ev.Finding {
			var c struct {
				Slashed bool    `json:"slashed"`
				Path    c11Path `json:"path"`
			}
			if err := json.Unmarshal(raw, &c); err != nil {
				fmt.Fprintln(os.Stderr, err)
				os.Exit(2)
			}
			fs, _ := get(c.Slashed).runPath(c.Path)
			return fs
		})
	}
	// ABI coverage: the alphabet and the view oracle together must name every function of staking.abi.json
	{
		cw := get(true)
		var have []string
		for n := range cw.abi.Methods {
			have = append(have, n)
		}
		sort.Strings(have)
		if strings.Join(have, ",") != strings.Join(c11CoveredMethods, ",") {
			run.Fail(ev.Finding{Clause: "alphabet-sanity", Detail: fmt.Sprintf("ABI methods %v, covered %v", have, c11CoveredMethods)})
		}
	}
	full, core, tiny := c11Alphabet(2), c11Alphabet(1), c11Alphabet(0)
	type search struct {
		name    string
		alpha   []c11Op
		depth   int
		slashed bool
	}
	searches := []search{{"full", full, 2, true}, {"tiny", tiny, 3, true}, {"tiny", tiny, 2, false}}
	_ = core
	budget := 300
	if run.Thorough() {
		searches = []search{{"full", full, 2, true}, {"full", full, 2, false}, {"tiny", tiny, 3, false}, {"core", core, 3, true}, {"tiny", tiny, 4, true}}
		budget = 1500
	}
	// the reward-state family (c11_multi.go): layouts × schedules, then the BFS with the reward alphabet from every state
	type family struct {
		name    string
		level   int
		depth   int
		slashed bool
	}
	families := []family{{"rewards", 0, 1, true}}
	if run.Thorough() {
		families = []family{{"rewards", 1, 1, true}, {"rewards", 1, 1, false}, {"rewards-deep", 2, 2, true}, {"rewards-deep", 2, 2, false}}
	}
	run.Sharded(Shards(), func(shard, n int) {
		dl := ev.NewDeadline(secs(budget))
		if shard == 0 {
			get(true).sanity(run)
			get(false).sanity(run)
		}
		if shard == 1%n {
			get(true).familySanity(run)
			get(false).familySanity(run)
		}
		for _, fm := range families {
			cw := get(fm.slashed)
			k := fmt.Sprintf("%s_%s_family_pairs", cw.tag(), fm.name)
			if dl.Hit() {
				run.Coverage["exhaustive"] = false
				continue
			}
			lv := fm.level
			if lv == 2 { // deeper search: thorough schedules, quick alphabet
				lv = 0
			}
			done, _ := c11FamilySearch(run, cw, fm.name, c11Layouts(fm.level), c11Schedules(b2int(fm.level > 0)), c11RewardAlphabet(lv), fm.depth, shard, n, dl)
			run.Count(k+"_completed", int64(done))
		}
		for _, sr := range searches {
			cw := get(sr.slashed)
			k := fmt.Sprintf("%s_%s_to_%d_depth_completed", cw.tag(), sr.name, sr.depth)
			if dl.Hit() {
				run.Coverage[k] = 0
				continue
			}
			d, _ := c11Search(run, cw, sr.name, sr.alpha, sr.depth, shard, n, dl)
			run.Coverage[k] = d
		}
		if os.Getenv("VERIF_DEBUG") != "" {
			fmt.Fprintf(os.Stderr, "C11 shard %d: exec %v check %v views %v\n", shard, c11Prof[0], c11Prof[1], c11Prof[2])
		}
		run.Count("account_view_sets_compared", int64(get(true).viewsRun+get(false).viewsRun))
		for _, cw := range []*c11World{get(true), get(false)} {
			for shape, c := range cw.shapes {
				run.Count("views_compared_with_"+shape, int64(c))
			}
		}
	})
	for _, m := range []string{"delegate", "undelegate", "redelegate", "withdrawReward", "withdrawRewards", "transfer", "delegateByActionMessage", "withdrawRewardsByMessage"} {
		if run.Counter("ok_"+m) == 0 {
			run.Fail(ev.Finding{Clause: "alphabet-sanity", Detail: "no successful twin execution of " + m})
		}
	}
	for _, c := range []string{"ok_signed_valid", "ok_by_contract_C-call", "ok_by_contract_C-deleg", "ok_by_contract_D-twice", "logs_compared"} {
		if run.Counter(c) == 0 {
			run.Fail(ev.Finding{Clause: "alphabet-sanity", Detail: "counter " + c + " is zero"})
		}
	}
	// the reward-state family must contain what it is there for: a delegator with pending rewards at two and at three
	// validators whose fractional parts add up to less than one, exactly one, more than one (and, at three, more than two)
	// base units, and rewards in two denoms — by the native query's answer
	for _, need := range []string{
		"rewards-at-2-validators/fractions-sum<1", "rewards-at-2-validators/fractions-sum=1", "rewards-at-2-validators/fractions-sum-in(1,2)",
		"rewards-at-3-validators/fractions-sum<1", "rewards-at-3-validators/fractions-sum=1", "rewards-at-3-validators/fractions-sum-in(1,2)", "rewards-at-3-validators/fractions-sum>2",
	} {
		c := run.Counter("family_delegator_states_with_"+need+"/1-denoms") + run.Counter("family_delegator_states_with_"+need+"/2-denoms")
		if c == 0 {
			run.Fail(ev.Finding{Clause: "alphabet-sanity", Detail: "the reward-state family has no delegator state with " + need})
		}
		if run.Counter("family_delegator_states_with_"+need+"/2-denoms") == 0 && !strings.Contains(need, ">2") {
			run.Fail(ev.Finding{Clause: "alphabet-sanity", Detail: "the reward-state family has no delegator state with " + need + " in two denoms"})
		}
	}
	var desc []string
	maxDepth := 0
	for _, sr := range searches {
		w := "plain"
		if sr.slashed {
			w = "V2-slashed"
		}
		desc = append(desc, fmt.Sprintf("%s alphabet (%d ops) to depth %d on world %s", sr.name, len(sr.alpha), sr.depth, w))
		if sr.depth > maxDepth {
			maxDepth = sr.depth
		}
	}
	for _, fm := range families {
		w := "plain"
		if fm.slashed {
			w = "V2-slashed"
		}
		lv := fm.level
		if lv == 2 {
			lv = 0
		}
		desc = append(desc, fmt.Sprintf("reward-state family '%s' on world %s: %d delegation layouts × %d reward schedules, all views of all accounts after every step, then the reward alphabet (%d ops) to depth %d from every one of the states",
			fm.name, w, len(c11Layouts(fm.level)), len(c11Schedules(b2int(fm.level > 0))), len(c11RewardAlphabet(lv)), fm.depth))
	}
	run.Coverage["states"] = run.NumDistinct() + 2
	run.Coverage["transitions"] = int(run.Counter("transitions"))
	run.Coverage["traces_validated_against_impl"] = int(run.Counter("twin_executions"))
	run.Coverage["max_depth"] = maxDepth
	if _, ok := run.Coverage["exhaustive"]; !ok {
		run.Coverage["exhaustive"] = true
	}
	run.Coverage["rule"] = "twin-branch BFS over CacheContext branches of the real state: root = 3 bonded validators, EOAs A (delegated 1e18 to V1 and 1 wei to V2) and B, forwarder contract C (delegated 1e18 to V2), contract D that calls the precompile twice per call (delegated 1e18 to V1), 3e18 rewards allocated to V1 and V2; from each state P = operation through evm.Call on the staking precompile, N = the native MsgDelegate/MsgUndelegate/MsgBeginRedelegate/MsgWithdrawDelegatorReward list through the SDK message servers on a sibling branch; P is compared with N (all stores, success, EVM logs vs. module events, non-callers untouched, every view vs. gRPC query) and the search continues from P, dedup on the canonical state key + header. Alphabets: full = callers {A, B, C by CALL, C by DELEGATECALL} × {delegate, undelegate}(V1|V2|unknown) × amounts {1e18, 1, 0, all, all+1}, redelegate over 6 validator pairs, D calling delegate/undelegate/redelegate/withdrawReward twice in one call, transfer(self|other), withdrawReward(V1|V2|unknown), withdrawRewards, delegateByActionMessage (Delegate/Undelegate/Redelegate) and withdrawRewardsByMessage (all|V1) with signature variants {valid, signer≠delegator, delegator≠caller, chain id+1, tampered after signing} for A and B and {relayed valid message of A, contract names itself} for C, native delegate/undelegate as environment, reward allocation to V1/V2, unbonding period elapsing (real staking EndBlocker); core = callers {A,B,C by CALL} × validators {V1,V2} × amounts {1e18,1,all} + all signature variants; tiny = callers {A, C by DELEGATECALL} × amounts {1e18, all} + valid/other-delegator signatures. Searches: " + strings.Join(desc, "; ") + ". Sharded on the first operation (new depth-1 states dealt round-robin). Reward-state family (start states of a second search, every one a path of environment steps from the root): layout = native MsgDelegate steps giving B / contract C / A stakes of 0.50, 0.37, 0.73, 1.11 coins at two and at three validators at once (quick: B over {0, 0.50, 0.73}^3 plus four vectors with 0.37, two vectors of C, one of A, two layouts with three delegators on every validator; thorough: B over {0, 0.50, 0.37, 0.73, 1.11}^3 within its balance, four vectors of C, three of A, three combined layouts); schedule = how rewards arrive afterwards: a block beginning with fees of two denoms in the fee collector (staking EndBlocker, next height, real x/distribution BeginBlocker with the votes of the last validator set: community tax, power fractions, DecCoins), two such blocks, direct AllocateTokensToValidator of 3e18 / of odd two-denom amounts to two or three validators, fees in the non-bond denom only, a further delegation between two fee blocks (thorough: 6 more, with an undelegation in between); work item = (layout, schedule) pair dealt round-robin to the shards. Which shapes of pending rewards were met (validators with a reward, sum of the fractional parts of the per-validator amounts, denoms; from the native DelegationTotalRewards answer) is in the counters family_delegator_states_with_* and views_compared_with_*; the shapes 'two / three validators, fractional parts adding up to <1, exactly 1, between 1 and 2, more than 2 (three validators)' are required to be non-empty. states = distinct canonical keys (root included)"
	return run.Finish()
}
