package checks

// C20 part (f-live): the real recover-less goroutines, free running, in child processes.
//
// A child process builds
//   - a stand-in for the CometBFT websocket endpoint (a gorilla/websocket server that acknowledges every JSON-RPC request and
//     pushes the tx events the parent asks for) and a real CometBFT WSClient connected to it,
//   - path "newfilter": the real filters.PublicFilterAPI registered under "eth" in a real go-ethereum rpc.Server; requests go through
//     the server (JSON decoding of the criteria included): eth_newFilter, eth_getFilterChanges, eth_uninstallFilter,
//   - path "ws": the real websocket server of rpc/websockets.go (its http.Handler behind httptest), a websocket client sending
//     eth_subscribe ["logs", criteria] / eth_unsubscribe (the server parses the criteria itself),
// and for every criteria delivers one Ethereum tx event whose receipt carries logs of 0..4 topics plus one marker log built to match
// the criteria; the case ends when the marker came back (the receipt then has been through FilterLogs inside the goroutine of
// NewFilter / subscribeLogs). The delivery is repeated until then: the event bus drops an event when the subscriber is not at its
// receive (pubsub.go publishAllSubscribers), so the wall clock only paces retries, it never decides a verdict. The observation is the
// survival of the child: a panic in a goroutine without recover kills it, the parent reads the Go runtime's report from stderr and
// attributes it to the case the child had announced. A hung child (marker never seen) is a harness error (exit 2), not a verdict.

import (
	"bufio"
	"bytes"
	"context"
	"encoding/json"
	"fmt"
	"net/http"
	"net/http/httptest"
	"os"
	"os/exec"
	"strings"
	"sync"
	"time"

	"cosmossdk.io/log"
	cmtjrpcclient "github.com/cometbft/cometbft/rpc/jsonrpc/client"
	"github.com/cosmos/cosmos-sdk/client"
	"github.com/ethereum/go-ethereum/common"
	"github.com/ethereum/go-ethereum/common/hexutil"
	ethtypes "github.com/ethereum/go-ethereum/core/types"
	ethrpc "github.com/ethereum/go-ethereum/rpc"
	"github.com/gorilla/websocket"

	evrpc "github.com/EscanBE/evermint/v12/rpc"
	"github.com/EscanBE/evermint/v12/rpc/namespaces/ethereum/eth/filters"
	srvconfig "github.com/EscanBE/evermint/v12/server/config"

	"verif/harness/sched/logalpha"
)

// ---------------------------------------------------------------------------
// the case space (JSON level: what a user can write)
// ---------------------------------------------------------------------------

// c20LivePos: the forms of one topics position in the JSON criteria.
var c20LivePos = []string{"null", "[]", "T0", "[T0,T1]", "[null,T0]"}

type c20LiveRange struct {
	Label    string
	From, To string // "" = absent
}

type c20LiveCase struct {
	Path   string
	Addr   int      // 0 absent, 1 "A" (single string), 2 ["A","B"]
	Pos    []string // forms of c20LivePos
	Range  c20LiveRange
	maxPos int
}

func (c c20LiveCase) String() string {
	a := []string{"absent", `"A"`, `["A","B"]`}[c.Addr]
	r := ""
	if c.Range.From != "" || c.Range.To != "" {
		r = fmt.Sprintf(" fromBlock=%s toBlock=%s", c.Range.From, c.Range.To)
	}
	return fmt.Sprintf("address=%s topics=[%s]%s", a, strings.Join(c.Pos, ","), r)
}

func c20LiveRanges(path string, thorough bool) []c20LiveRange {
	if path == "ws" {
		// rpc/websockets.go reads only "address" and "topics"
		return []c20LiveRange{{"absent", "", ""}}
	}
	rs := []c20LiveRange{{"absent", "", ""}, {"latest..latest", "latest", "latest"}, {"from>to", "0x7", "0x3"}, {"above 2^64", "0xffffffffffffffffff", ""}}
	if thorough {
		rs = append(rs, c20LiveRange{"0..absent", "0x0", ""}, c20LiveRange{"pending..pending", "pending", "pending"}, c20LiveRange{"earliest..latest", "earliest", "latest"})
	}
	return rs
}

type c20LiveSpace struct {
	path   string
	pos    [][]string
	ranges []c20LiveRange
}

func c20LiveSpaceOf(path string, thorough bool) *c20LiveSpace {
	s := &c20LiveSpace{path: path, ranges: c20LiveRanges(path, thorough)}
	maxPos := 3
	if thorough {
		maxPos = 4
	}
	var rec func(cur []string, n int)
	rec = func(cur []string, n int) {
		if len(cur) == n {
			s.pos = append(s.pos, append([]string(nil), cur...))
			return
		}
		for _, f := range c20LivePos {
			rec(append(cur, f), n)
		}
	}
	for n := 0; n <= maxPos; n++ {
		rec(nil, n)
	}
	return s
}

func (s *c20LiveSpace) n() int { return len(s.pos) * 3 * len(s.ranges) }

func (s *c20LiveSpace) at(i int) c20LiveCase {
	r := s.ranges[i%len(s.ranges)]
	i /= len(s.ranges)
	a := i % 3
	i /= 3
	return c20LiveCase{Path: s.path, Addr: a, Pos: s.pos[i], Range: r}
}

// json builds the criteria object the user sends.
func (c c20LiveCase) json() map[string]interface{} {
	m := map[string]interface{}{}
	switch c.Addr {
	case 1:
		m["address"] = logalpha.LogAddr(0).Hex()
	case 2:
		m["address"] = []interface{}{logalpha.LogAddr(0).Hex(), logalpha.LogAddr(1).Hex()}
	}
	if len(c.Pos) > 0 {
		var ts []interface{}
		for _, f := range c.Pos {
			switch f {
			case "null":
				ts = append(ts, nil)
			case "[]":
				ts = append(ts, []interface{}{})
			case "T0":
				ts = append(ts, logalpha.LogTopic(0).Hex())
			case "[T0,T1]":
				ts = append(ts, []interface{}{logalpha.LogTopic(0).Hex(), logalpha.LogTopic(1).Hex()})
			case "[null,T0]":
				ts = append(ts, []interface{}{nil, logalpha.LogTopic(0).Hex()})
			}
		}
		m["topics"] = ts
	}
	if c.Range.From != "" {
		m["fromBlock"] = c.Range.From
	}
	if c.Range.To != "" {
		m["toBlock"] = c.Range.To
	}
	return m
}

// meaning: the criteria as the Ethereum JSON-RPC specification reads the JSON (null, [] and a list containing null are wildcards).
func (c c20LiveCase) meaning() (addrs []common.Address, topics [][]common.Hash) {
	switch c.Addr {
	case 1:
		addrs = []common.Address{logalpha.LogAddr(0)}
	case 2:
		addrs = []common.Address{logalpha.LogAddr(0), logalpha.LogAddr(1)}
	}
	for _, f := range c.Pos {
		switch f {
		case "T0":
			topics = append(topics, []common.Hash{logalpha.LogTopic(0)})
		case "[T0,T1]":
			topics = append(topics, []common.Hash{logalpha.LogTopic(0), logalpha.LogTopic(1)})
		default:
			topics = append(topics, nil)
		}
	}
	return
}

const c20MarkerData = "c20-marker"

// receiptLogs: every list of 0..4 topics over {T0, T2} from contract A, the all-T0 lists from a contract no criteria mentions, and
// last the marker: contract A, four topics, at every position the first alternative the criteria asks for (T1 where it asks nothing).
func (c c20LiveCase) receiptLogs() []*ethtypes.Log {
	var out []*ethtypes.Log
	for _, tl := range logalpha.TopicLists(4, 2) {
		ts := make([]int, len(tl))
		for i, v := range tl {
			ts[i] = v * 2
		}
		out = append(out, logalpha.MkLog(0, 5, 0, ts...))
	}
	for n := 0; n <= 4; n++ {
		out = append(out, logalpha.MkLog(2, 5, 0, make([]int, n)...))
	}
	_, topics := c.meaning()
	n := 4
	if len(topics) > n {
		n = len(topics)
	}
	mt := make([]int, n)
	for i := range mt {
		mt[i] = 1
		if i < len(topics) && len(topics[i]) > 0 {
			mt[i] = 0
		}
	}
	m := logalpha.MkLog(0, 5, 0, mt...)
	m.Data = []byte(c20MarkerData)
	return append(out, m)
}

func c20LiveUnits(tier string) []c20Unit {
	var out []c20Unit
	for _, path := range []string{"newfilter", "ws"} {
		s := c20LiveSpaceOf(path, tier == "thorough")
		size := 150
		if tier == "thorough" {
			size = 600
		}
		out = append(out, c20Ranges("f-live", tier, path, s.n(), size, 0)...)
	}
	return out
}

func c20LiveRule(thorough bool) string {
	a, b := c20LiveSpaceOf("newfilter", thorough), c20LiveSpaceOf("ws", thorough)
	maxPos := 3
	if thorough {
		maxPos = 4
	}
	return fmt.Sprintf("the real goroutines free running in child processes (survival of the process is the observation): eth_newFilter through a go-ethereum rpc.Server (%d JSON criteria: address {absent, \"A\", [\"A\",\"B\"]} x topics lists of <= %d positions over {null, [], \"T0\", [\"T0\",\"T1\"], [null,\"T0\"]} x %d block ranges) "+
		"and eth_subscribe(logs) through the websocket server of rpc/websockets.go (%d criteria, same alphabet, no range), each with a delivered Ethereum tx event (via a real CometBFT WSClient) whose receipt has 37 logs of 0..4 topics incl. one built to match.",
		a.n(), maxPos, len(a.ranges), b.n())
}

// ---------------------------------------------------------------------------
// parent side
// ---------------------------------------------------------------------------

type c20LiveSpec struct {
	Tier    string `json:"tier"`
	Path    string `json:"path"`
	Indices []int  `json:"indices"`
}

func c20RunFLive(u c20Unit, rec *c20Rec) {
	s := c20LiveSpaceOf(u.Family, u.thorough())
	todo := u.indices()
	for _, i := range todo {
		if i < 0 || i >= s.n() {
			fmt.Fprintf(os.Stderr, "C20: live case index %d out of range\n", i)
			os.Exit(2)
		}
	}
	for len(todo) > 0 {
		spec, _ := json.Marshal(c20LiveSpec{Tier: u.Tier, Path: u.Family, Indices: todo})
		cmd := exec.Command(os.Args[0], "C20")
		var env []string
		for _, e := range os.Environ() {
			if !strings.HasPrefix(e, "VERIF_SHARD") && !strings.HasPrefix(e, "VERIF_C20_LIVE=") {
				env = append(env, e)
			}
		}
		cmd.Env = append(env, "VERIF_C20_LIVE="+string(spec))
		var stdout, stderr bytes.Buffer
		cmd.Stdout, cmd.Stderr = &stdout, &stderr
		err := cmd.Run()
		// protocol on stdout: "CASE i" before a case, "DONE i <class>" after it, "END" after the last one
		current, done := -1, map[int]bool{}
		ended := false
		sc := bufio.NewScanner(&stdout)
		sc.Buffer(make([]byte, 1<<20), 1<<20)
		for sc.Scan() {
			l := sc.Text()
			var i int
			switch {
			case strings.HasPrefix(l, "CASE "):
				fmt.Sscanf(l, "CASE %d", &i)
				current = i
			case strings.HasPrefix(l, "DONE "):
				fmt.Sscanf(l, "DONE %d", &i)
				class := ""
				if parts := strings.SplitN(l, " ", 3); len(parts) == 3 {
					class = parts[2]
				}
				done[i] = true
				current = -1
				rec.count("inputs", 1)
				rec.count("live_cases", 1)
				rec.outcome("f-live " + u.Family + ": " + class)
				if strings.Contains(class, "differs from") {
					rec.count("filter_semantics_differences", 1)
				}
				rec.distinct("f-live:" + u.Family + ":" + class)
			case l == "END":
				ended = true
			}
		}
		if err == nil && ended {
			for _, i := range todo {
				if !done[i] {
					fmt.Fprintf(os.Stderr, "HARNESS: C20 live child finished without handling case %d\n", i)
					os.Exit(2)
				}
			}
			return
		}
		// the child died. Only a report of the Go runtime about a goroutine of the code under test is a verdict.
		report := stderr.String()
		code := -1
		if ee, ok := err.(*exec.ExitError); ok {
			code = ee.ExitCode()
		}
		msg, frames := c20ParseGoPanic(report)
		if code != 2 || current < 0 || msg == "" || !strings.Contains(frames, "EscanBE/evermint") {
			fmt.Fprintf(os.Stderr, "HARNESS: C20 live child failed (exit %d, err %v, case %d) without a runtime panic report from the code under test:\n%s\n", code, err, current, c20Tail(report, 3000))
			os.Exit(2)
		}
		one := u
		one.Only = []int{current}
		c := s.at(current)
		where := map[string]string{"newfilter": "the goroutine started by PublicFilterAPI.NewFilter (eth_newFilter, filters/api.go)", "ws": "the goroutine started by pubSubAPI.subscribeLogs (eth_subscribe logs, rpc/websockets.go)"}[u.Family]
		rec.fail(c20ClauseLiveDeath, "", fmt.Sprintf("the node process dies: with the user's criteria {%s} installed, a delivered Ethereum tx whose receipt carries logs of 0..4 topics makes %s panic; the goroutine has no recover, so the Go runtime terminates the process: %s; frames: %s",
			c, where, msg, frames), one)
		rec.outcome("f-live " + u.Family + ": PROCESS DIED")
		rec.count("inputs", 1)
		rec.count("live_cases", 1)
		// continue behind the fatal case
		var rest []int
		seen := false
		for _, i := range todo {
			if seen && !done[i] {
				rest = append(rest, i)
			}
			if i == current {
				seen = true
			}
		}
		todo = rest
	}
}

// c20ParseGoPanic extracts "panic: …" / "fatal error: …" and the frames of the crashing goroutine from a Go runtime crash report.
func c20ParseGoPanic(report string) (msg string, frames string) {
	lines := strings.Split(report, "\n")
	start := -1
	for i, l := range lines {
		if strings.HasPrefix(l, "panic: ") || strings.HasPrefix(l, "fatal error: ") {
			msg = strings.TrimSpace(l)
			start = i
			break
		}
	}
	if start < 0 {
		return "", ""
	}
	var fs []string
	in := false
	for _, l := range lines[start+1:] {
		if strings.HasPrefix(l, "goroutine ") {
			if in {
				break
			}
			in = true
			continue
		}
		if in && l != "" && !strings.HasPrefix(l, "\t") && !strings.HasPrefix(l, "panic(") && !strings.HasPrefix(l, "runtime.") && !strings.HasPrefix(l, "created by") {
			if k := strings.LastIndex(l, "("); k > 0 {
				l = l[:k]
			}
			fs = append(fs, l)
			if len(fs) >= 4 {
				break
			}
		}
	}
	return msg, strings.Join(fs, " < ")
}

func c20Tail(s string, n int) string {
	if len(s) <= n {
		return s
	}
	return s[len(s)-n:]
}

// ---------------------------------------------------------------------------
// child side
// ---------------------------------------------------------------------------

// c20FakeComet stands for the CometBFT websocket endpoint.
type c20FakeComet struct {
	srv   *httptest.Server
	mu    sync.Mutex
	conns []*websocket.Conn
	query string // the last query subscribed to
}

func c20NewFakeComet() *c20FakeComet {
	f := &c20FakeComet{}
	up := websocket.Upgrader{CheckOrigin: func(*http.Request) bool { return true }}
	f.srv = httptest.NewServer(http.HandlerFunc(func(w http.ResponseWriter, r *http.Request) {
		conn, err := up.Upgrade(w, r, nil)
		if err != nil {
			return
		}
		f.mu.Lock()
		f.conns = append(f.conns, conn)
		f.mu.Unlock()
		for {
			_, bz, err := conn.ReadMessage()
			if err != nil {
				return
			}
			var req struct {
				ID     json.RawMessage `json:"id"`
				Method string          `json:"method"`
				Params struct {
					Query string `json:"query"`
				} `json:"params"`
			}
			if json.Unmarshal(bz, &req) != nil {
				continue
			}
			f.mu.Lock()
			if req.Method == "subscribe" {
				f.query = req.Params.Query
			}
			_ = conn.WriteMessage(websocket.TextMessage, []byte(fmt.Sprintf(`{"jsonrpc":"2.0","id":%s,"result":{}}`, string(req.ID))))
			f.mu.Unlock()
		}
	}))
	return f
}

func (f *c20FakeComet) lastQuery() string {
	f.mu.Lock()
	defer f.mu.Unlock()
	return f.query
}

// push delivers one tx event on the subscribed query.
func (f *c20FakeComet) push(logs []*ethtypes.Log) {
	q := f.lastQuery()
	resp := logalpha.TxEventResponse(q, 5, logs)
	msg := []byte(fmt.Sprintf(`{"jsonrpc":"2.0","id":0,"result":%s}`, string(resp.Result)))
	f.mu.Lock()
	defer f.mu.Unlock()
	for _, c := range f.conns {
		_ = c.WriteMessage(websocket.TextMessage, msg)
	}
}

type c20LiveBackend struct{ filters.Backend }

func (c20LiveBackend) RPCFilterCap() int32     { return 200 }
func (c20LiveBackend) RPCLogsCap() int32       { return 10000 }
func (c20LiveBackend) RPCBlockRangeCap() int32 { return 10000 }

// c20LiveLog is what comes back over JSON.
type c20LiveLog struct {
	Address common.Address `json:"address"`
	Topics  []common.Hash  `json:"topics"`
	Data    hexutil.Bytes  `json:"data"`
}

func c20LiveHarnessFail(format string, a ...interface{}) {
	fmt.Fprintf(os.Stderr, "C20-LIVE-HARNESS: "+format+"\n", a...)
	os.Exit(3)
}

const (
	c20LiveRetryEvery = 40 * time.Millisecond
	c20LiveGiveUp     = 180 * time.Second // a hung child is a harness error, never a verdict
)

// c20LiveChild never returns.
func c20LiveChild(specJSON string) {
	var spec c20LiveSpec
	if err := json.Unmarshal([]byte(specJSON), &spec); err != nil {
		c20LiveHarnessFail("bad spec: %v", err)
	}
	defer func() {
		// a panic of the driver itself (main goroutine) is a harness problem
		if r := recover(); r != nil {
			c20LiveHarnessFail("driver panic: %v", r)
		}
	}()
	out := bufio.NewWriter(os.Stdout)
	say := func(format string, a ...interface{}) {
		fmt.Fprintf(out, format+"\n", a...)
		out.Flush()
	}
	s := c20LiveSpaceOf(spec.Path, spec.Tier == "thorough")
	comet := c20NewFakeComet()
	ws, err := cmtjrpcclient.NewWS("tcp://"+strings.TrimPrefix(comet.srv.URL, "http://"), "/websocket")
	if err != nil {
		c20LiveHarnessFail("NewWS: %v", err)
	}
	if err := ws.Start(); err != nil {
		c20LiveHarnessFail("WSClient.Start: %v", err)
	}
	var runCase func(c c20LiveCase) string
	switch spec.Path {
	case "newfilter":
		api := filters.NewPublicAPI(log.NewNopLogger(), client.Context{}, ws, c20LiveBackend{})
		srv := ethrpc.NewServer()
		if err := srv.RegisterName("eth", api); err != nil {
			c20LiveHarnessFail("RegisterName: %v", err)
		}
		cl := ethrpc.DialInProc(srv)
		// One filter stays installed for the whole life of the child: removing the last subscription of a topic tears the topic down
		// asynchronously (publishTopic closes the subscribers it finds under that name when it notices the closed source), which can hit
		// the subscriber of a filter installed right afterwards — that filter silently disappears. Not a crash, but it would make the
		// outcome of a case depend on timing; with the keeper the topic is never torn down.
		var keeper string
		if err := cl.CallContext(context.Background(), &keeper, "eth_newFilter", map[string]interface{}{}); err != nil {
			c20LiveHarnessFail("keeper filter: %v", err)
		}
		runCase = func(c c20LiveCase) string {
			var drop []c20LiveLog
			if err := cl.CallContext(context.Background(), &drop, "eth_getFilterChanges", keeper); err != nil { // also resets its 5 minute deadline
				c20LiveHarnessFail("keeper filter lost: %v", err)
			}
			return c20LiveNewFilter(cl, comet, c)
		}
	case "ws":
		wsSrv := evrpc.NewWebsocketsServer(client.Context{}, log.NewNopLogger(), ws, srvconfig.DefaultConfig())
		h, ok := wsSrv.(http.Handler)
		if !ok {
			c20LiveHarnessFail("the websocket server is not an http.Handler")
		}
		hs := httptest.NewServer(h)
		conn, _, err := websocket.DefaultDialer.Dial("ws://"+strings.TrimPrefix(hs.URL, "http://")+"/", nil)
		if err != nil {
			c20LiveHarnessFail("dial ws server: %v", err)
		}
		msgs := make(chan map[string]json.RawMessage, 4096)
		go func() {
			for {
				_, bz, err := conn.ReadMessage()
				if err != nil {
					close(msgs)
					return
				}
				var m map[string]json.RawMessage
				if json.Unmarshal(bz, &m) == nil {
					msgs <- m
				}
			}
		}()
		runCase = func(c c20LiveCase) string { return c20LiveWS(conn, msgs, comet, c) }
	default:
		c20LiveHarnessFail("unknown path %q", spec.Path)
	}
	for _, i := range spec.Indices {
		say("CASE %d", i)
		class := runCase(s.at(i))
		say("DONE %d %s", i, class)
	}
	say("END")
	os.Exit(0)
}

// c20LiveVerdict compares what came back before the marker with the reference predicate (information only).
func c20LiveVerdict(c c20LiveCase, got []c20LiveLog) string {
	addrs, topics := c.meaning()
	all := c.receiptLogs()
	var want []*ethtypes.Log
	for _, l := range all[:len(all)-1] {
		if logalpha.RefMatch(nil, nil, addrs, topics, l) {
			want = append(want, l)
		}
	}
	same := len(got) == len(want)
	for i := 0; same && i < len(got); i++ {
		same = got[i].Address == want[i].Address && len(got[i].Topics) == len(want[i].Topics)
		for j := 0; same && j < len(got[i].Topics); j++ {
			same = got[i].Topics[j] == want[i].Topics[j]
		}
	}
	n := "no other log"
	if len(got) > 0 {
		n = "other logs"
	}
	if same {
		return "accepted, receipt filtered in the goroutine, marker and " + n + " returned, as the reference predicate"
	}
	return "accepted, receipt filtered in the goroutine, marker and " + n + " returned, differs from the reference predicate (information, not a C20 clause)"
}

func c20ErrClass(err error) string {
	s := err.Error()
	for _, k := range []string{"invalid from and to block combination", "invalid topic", "invalid subtopic", "invalid address", "invalid criteria", "max limit reached", "hex number > 64 bits", "hex string", "cannot unmarshal", "invalid argument"} {
		if strings.Contains(s, k) {
			return k
		}
	}
	if len(s) > 60 {
		s = s[:60]
	}
	return s
}

func c20LiveNewFilter(cl *ethrpc.Client, comet *c20FakeComet, c c20LiveCase) string {
	ctx := context.Background()
	var id string
	if err := cl.CallContext(ctx, &id, "eth_newFilter", c.json()); err != nil {
		return "rejected: " + c20ErrClass(err)
	}
	logs := c.receiptLogs()
	var got []c20LiveLog
	t0 := time.Now()
	found := false
	for !found {
		if time.Since(t0) > c20LiveGiveUp {
			c20LiveHarnessFail("newfilter: the marker log never came back for criteria {%s}", c)
		}
		comet.push(logs)
		for k := 0; k < 20 && !found; k++ {
			var page []c20LiveLog
			if err := cl.CallContext(ctx, &page, "eth_getFilterChanges", id); err != nil {
				if strings.Contains(err.Error(), "not found") && time.Since(t0) < c20LiveGiveUp {
					// the filter was removed under us (see the keeper comment in c20LiveChild): install it again
					if err := cl.CallContext(ctx, &id, "eth_newFilter", c.json()); err != nil {
						c20LiveHarnessFail("newfilter: criteria {%s} accepted once, then refused: %v", c, err)
					}
					got = nil
					break
				}
				return "accepted, eth_getFilterChanges fails: " + c20ErrClass(err)
			}
			for _, l := range page {
				if found {
					break // a second copy of the receipt (the retry was not needed after all)
				}
				if string(l.Data) == c20MarkerData {
					found = true
					break
				}
				got = append(got, l)
			}
			if !found {
				time.Sleep(c20LiveRetryEvery / 20)
			}
		}
	}
	var ok bool
	if err := cl.CallContext(ctx, &ok, "eth_uninstallFilter", id); err != nil || !ok {
		return fmt.Sprintf("accepted, eth_uninstallFilter answers %v %v", ok, err)
	}
	return c20LiveVerdict(c, got)
}

func c20LiveWS(conn *websocket.Conn, msgs chan map[string]json.RawMessage, comet *c20FakeComet, c c20LiveCase) string {
	req, _ := json.Marshal(map[string]interface{}{"jsonrpc": "2.0", "id": 1, "method": "eth_subscribe", "params": []interface{}{"logs", c.json()}})
	if err := conn.WriteMessage(websocket.TextMessage, req); err != nil {
		c20LiveHarnessFail("ws write: %v", err)
	}
	// the answer to the request: the next message that is not a notification
	next := func(wait time.Duration) (map[string]json.RawMessage, bool) {
		select {
		case m, ok := <-msgs:
			if !ok {
				c20LiveHarnessFail("ws connection closed by the server")
			}
			return m, true
		case <-time.After(wait):
			return nil, false
		}
	}
	var subID string
	t0 := time.Now()
	for subID == "" {
		m, ok := next(time.Second)
		if !ok {
			if time.Since(t0) > c20LiveGiveUp {
				c20LiveHarnessFail("ws: no answer to eth_subscribe for criteria {%s}", c)
			}
			continue
		}
		if _, isNote := m["method"]; isNote {
			continue // a late notification of an earlier subscription
		}
		if e, bad := m["error"]; bad && string(e) != "null" {
			var em struct {
				Message string `json:"message"`
			}
			_ = json.Unmarshal(e, &em)
			return "rejected: " + c20ErrClass(fmt.Errorf("%s", em.Message))
		}
		if err := json.Unmarshal(m["result"], &subID); err != nil || subID == "" {
			c20LiveHarnessFail("ws: unreadable answer to eth_subscribe: %v", m)
		}
	}
	logs := c.receiptLogs()
	var got []c20LiveLog
	found := false
	for !found {
		if time.Since(t0) > c20LiveGiveUp {
			c20LiveHarnessFail("ws: the marker log never came back for criteria {%s}", c)
		}
		comet.push(logs)
		deadline := time.Now().Add(c20LiveRetryEvery)
		for !found {
			m, ok := next(time.Until(deadline))
			if !ok {
				break
			}
			if _, isNote := m["method"]; !isNote {
				continue
			}
			var p struct {
				Subscription string     `json:"subscription"`
				Result       c20LiveLog `json:"result"`
			}
			if err := json.Unmarshal(m["params"], &p); err != nil || p.Subscription != subID {
				continue
			}
			if string(p.Result.Data) == c20MarkerData {
				found = true
				break
			}
			got = append(got, p.Result)
		}
	}
	req, _ = json.Marshal(map[string]interface{}{"jsonrpc": "2.0", "id": 2, "method": "eth_unsubscribe", "params": []interface{}{subID}})
	if err := conn.WriteMessage(websocket.TextMessage, req); err != nil {
		c20LiveHarnessFail("ws write: %v", err)
	}
	for {
		m, ok := next(time.Second)
		if !ok {
			if time.Since(t0) > c20LiveGiveUp {
				c20LiveHarnessFail("ws: no answer to eth_unsubscribe")
			}
			continue
		}
		if _, isNote := m["method"]; isNote {
			continue
		}
		break
	}
	return c20LiveVerdict(c, got)
}
