package checks

import (
	"encoding/hex"
	"encoding/json"
	"fmt"
	"os"
	"strings"

	"github.com/ethereum/go-ethereum/common"
	ethtypes "github.com/ethereum/go-ethereum/core/types"

	"verif/harness/ev"
	"verif/harness/world"
)

func init() { Registry["C13"] = runC13 }

// c13Case is one explored history: a list of blocks, each a list of tx specs, in a world with the given MaxGas.
type c13Case struct {
	MaxGas int64      `json:"max_gas"`
	Blocks [][]TxSpec `json:"blocks"`
}

var c13Alphabet = []TxKind{KTransfer, KLog1, KLog2, KLogRevert, KCreateOK, KCreateFail, KIntrinsicLow, KValueTooHigh, KBurn, KBadNonce, KCosmosSend, KErc20Transfer, KCreateValueHigh, KCreateEmpty, KCreateSuicide}

func c13World(maxGas int64) *world.World {
	return world.New(world.Config{MaxGas: maxGas, NumWallets: 5, Contracts: StdContracts(), DeployErc20: true})
}

// c13Build assigns senders (wallet = position, so that every tx has nonce = number of earlier admitted txs of
// that wallet, tracked across blocks) and returns the specs.
func c13Specs(kinds [][]TxKind) [][]TxSpec {
	out := make([][]TxSpec, len(kinds))
	nonce := map[int]uint64{}
	for bi, blk := range kinds {
		for pos, k := range blk {
			s := TxSpec{Kind: k, Sender: pos, Nonce: nonce[pos]}
			out[bi] = append(out[bi], s)
			// whether the nonce advances is decided after execution (see c13Run); specs of later blocks are rebuilt there
		}
	}
	return out
}

type c13Obs struct {
	Findings []ev.Finding
	Outcome  string
	Logs     int
}

// c13Run executes one case on a fresh world and evaluates the oracle on every block.
func c13Run(c c13Case) c13Obs {
	w := c13World(c.MaxGas)
	w.Block(nil) // height 1: empty
	var obs c13Obs
	fail := func(clause, sig, detail string) {
		obs.Findings = append(obs.Findings, ev.Finding{Clause: clause, Signature: sig, Detail: detail, Replay: c})
	}
	nonce := map[int]uint64{}
	var oc []string
	for bi, blk := range c.Blocks {
		var txs [][]byte
		var ethTxs []*ethtypes.Transaction
		base := w.App.FeeMarketKeeper.GetBaseFee(w.Ctx()).BigInt()
		specs := make([]TxSpec, len(blk))
		for i, s := range blk {
			s.Nonce = nonce[s.Sender]
			specs[i] = s
			bz := BuildTx(w, s, base)
			txs = append(txs, bz)
			ethTxs = append(ethTxs, decodeEth(w, bz))
		}
		br := w.Block(txs)
		if br.Panic != "" || br.Err != nil {
			fail("block-executes", "", fmt.Sprintf("block %d: panic=%q err=%v", bi, br.Panic, br.Err))
			return obs
		}
		idx, logs, cum := int64(0), int64(0), uint64(0)
		var blockBloom ethtypes.Bloom
		for i, r := range br.Res.TxResults {
			s := specs[i]
			rc, err := world.ParseReceipt(i, r)
			if err != nil {
				fail("events-wellformed", "", fmt.Sprintf("block %d tx %d (%s): %v", bi, i, s.Kind, err))
				continue
			}
			where := fmt.Sprintf("block %d tx %d (%s)", bi, i, s.Kind)
			if !s.Kind.IsEth() {
				if rc.HasEthTx || rc.HasReceipt {
					fail("cosmos-tx-has-no-eth-events", "", where)
				}
				if r.Code == 0 {
					nonce[s.Sender]++
				}
				oc = append(oc, "cosmos")
				continue
			}
			if !rc.HasEthTx {
				if rc.HasReceipt {
					fail("receipt-without-admission-event", "", where)
				}
				if r.Code == 0 {
					fail("executed-without-admission-event", "", where)
				}
				// sanity: a well-formed tx with the right nonce is only skipped when the block gas is exhausted
				if s.Kind != KBadNonce && !strings.Contains(r.Log, "no block gas left") {
					fail("valid-tx-reaches-execution", "", where+": "+r.Log)
				}
				if s.Kind == KBadNonce {
					oc = append(oc, "rejected")
				} else {
					oc = append(oc, "dropped-pre-ante")
				}
				continue
			}
			nonce[s.Sender]++
			if rc.EthTxIndex != idx {
				fail("tx-index-consecutive", "", fmt.Sprintf("%s: ethereum_tx.txIndex=%d want %d", where, rc.EthTxIndex, idx))
			}
			if ethTxs[i] != nil && !strings.EqualFold(rc.EthTxHash, ethTxs[i].Hash().Hex()) {
				fail("tx-hash", "", fmt.Sprintf("%s: ethereumTxHash=%s want %s", where, rc.EthTxHash, ethTxs[i].Hash().Hex()))
			}
			gasLimit := ethTxs[i].Gas()
			var gasUsed uint64
			nlogs := int64(0)
			if rc.HasReceipt {
				if r.Code != 0 {
					fail("receipt-only-for-committed", "", where)
				}
				if rc.TxIdx != idx {
					fail("tx-index-consecutive", "", fmt.Sprintf("%s: tx_receipt.txIdx=%d want %d", where, rc.TxIdx, idx))
				}
				if !strings.EqualFold(rc.TxHash, ethTxs[i].Hash().Hex()) {
					fail("tx-hash", "", fmt.Sprintf("%s: receipt evmTxHash=%s", where, rc.TxHash))
				}
				if rc.BlockNumber != br.Height {
					fail("block-number", "", fmt.Sprintf("%s: %d want %d", where, rc.BlockNumber, br.Height))
				}
				gasUsed = rc.GasUsed
				if uint64(r.GasUsed) != gasUsed {
					fail("gas-used-result-equals-receipt", "", fmt.Sprintf("%s: result %d receipt %d", where, r.GasUsed, gasUsed))
				}
				if resp := w.EthResponse(r); resp == nil {
					fail("response-present", "", where)
				} else {
					if resp.GasUsed != gasUsed {
						fail("gas-used-result-equals-receipt", "", fmt.Sprintf("%s: response %d receipt %d", where, resp.GasUsed, gasUsed))
					}
					if (resp.VmError != "") != rc.HasVmError {
						fail("status-iff-no-vm-error", "", fmt.Sprintf("%s: response vmError=%q receipt error attr=%v", where, resp.VmError, rc.HasVmError))
					}
				}
				if gasUsed > gasLimit {
					fail("gas-used-le-limit", "", where)
				}
				nlogs = int64(len(rc.R.Logs))
				if nlogs > 0 {
					if rc.LogIdx != logs {
						sig := ""
						if rc.LogIdx == 0 {
							sig = "C13/logidx-not-block-cumulative"
						}
						fail("log-index-consecutive", sig, fmt.Sprintf("%s: logIdx=%d want %d", where, rc.LogIdx, logs))
					}
				} else if rc.LogIdx != -1 {
					fail("log-index-consecutive", "", fmt.Sprintf("%s: logIdx=%d present without logs", where, rc.LogIdx))
				}
				if rc.R.CumulativeGasUsed != cum+gasUsed {
					fail("cumulative-gas-running-sum", "", fmt.Sprintf("%s: cumulative=%d want %d", where, rc.R.CumulativeGasUsed, cum+gasUsed))
				}
				ok := rc.R.Status == ethtypes.ReceiptStatusSuccessful
				if ok == rc.HasVmError {
					fail("status-iff-no-vm-error", "", fmt.Sprintf("%s: status=%d error=%q", where, rc.R.Status, rc.VmError))
				}
				if !ok && nlogs > 0 {
					fail("failed-tx-has-no-logs", "", where)
				}
				want := ethtypes.CreateBloom(ethtypes.Receipts{&ethtypes.Receipt{Logs: rc.R.Logs}})
				if rc.R.Bloom != want {
					fail("receipt-bloom-covers-own-logs", "", where)
				}
				for j := range blockBloom {
					blockBloom[j] |= rc.R.Bloom[j]
				}
				isCreate := ethTxs[i].To() == nil
				if isCreate && ok {
					wantAddr := world.CreateAddr(w.Wallets[s.Sender].Eth(), s.Nonce)
					if !strings.EqualFold(rc.ContractAddr, wantAddr.Hex()) {
						fail("contract-address", "", fmt.Sprintf("%s: contractAddr=%q want %s", where, rc.ContractAddr, wantAddr.Hex()))
					}
				} else if rc.ContractAddr != "" {
					fail("contract-address", "", fmt.Sprintf("%s: contractAddr=%q reported without successful creation", where, rc.ContractAddr))
				}
				// expectations tied to the kind (guards against a vacuous alphabet)
				switch s.Kind {
				case KLog1, KCreateOK:
					if nlogs != 1 || !ok {
						fail("alphabet-sanity", "", fmt.Sprintf("%s: logs=%d ok=%v", where, nlogs, ok))
					}
				case KLog2:
					if nlogs != 2 || !ok {
						fail("alphabet-sanity", "", fmt.Sprintf("%s: logs=%d ok=%v", where, nlogs, ok))
					}
				case KLogRevert, KCreateFail:
					if ok {
						fail("alphabet-sanity", "", where+": expected vm error")
					}
				}
				if ok {
					oc = append(oc, fmt.Sprintf("ok%d", nlogs))
				} else {
					oc = append(oc, "vmerr")
				}
			} else {
				if r.Code == 0 {
					fail("committed-tx-has-receipt", "", where)
				}
				gasUsed = gasLimit
				oc = append(oc, "failed-after-admission")
			}
			cum += gasUsed
			logs += nlogs
			idx++
		}
		obs.Logs += int(logs)
		bloomAttr, n := world.BlockBloom(br.Res)
		if n != 1 {
			fail("block-bloom-event", "", fmt.Sprintf("block %d: %d block_bloom events", bi, n))
		} else {
			want := ""
			if blockBloom.Big().Sign() != 0 {
				want = hex.EncodeToString(blockBloom.Bytes())
			}
			if bloomAttr != want {
				fail("block-bloom-is-union", "", fmt.Sprintf("block %d", bi))
			}
		}
		oc = append(oc, "|")
	}
	obs.Outcome = strings.Join(oc, ",")
	return obs
}

func decodeEth(w *world.World, bz []byte) *ethtypes.Transaction {
	tx, err := w.Enc.TxConfig.TxDecoder()(bz)
	if err != nil {
		return nil
	}
	for _, m := range tx.GetMsgs() {
		if em, ok := m.(interface{ AsTransaction() *ethtypes.Transaction }); ok {
			return em.AsTransaction()
		}
	}
	return nil
}

func c13Cases(thorough bool) []c13Case {
	var cases []c13Case
	maxLen := 3
	if thorough {
		maxLen = 4
	}
	var seqs [][]TxKind
	var rec func(prefix []TxKind)
	rec = func(prefix []TxKind) {
		if len(prefix) > 0 {
			seqs = append(seqs, append([]TxKind{}, prefix...))
		}
		if len(prefix) == maxLen {
			return
		}
		for _, k := range c13Alphabet {
			rec(append(prefix, k))
		}
	}
	rec(nil)
	mk := func(blocks ...[]TxKind) [][]TxSpec { return c13Specs(blocks) }
	for _, mg := range []int64{40_000_000, 100_000} {
		for _, s := range seqs {
			if mg == 100_000 && len(s) > 3 {
				continue
			}
			cases = append(cases, c13Case{MaxGas: mg, Blocks: mk(s)})
		}
	}
	// two-block histories: counters must restart in the second block
	firsts := [][]TxKind{{KLog2, KLog1}, {KBurn, KBurn, KLog1}, {KCreateOK}}
	for _, f := range firsts {
		for _, s := range seqs {
			if len(s) > 2 {
				continue
			}
			cases = append(cases, c13Case{MaxGas: 100_000, Blocks: mk(f, s)})
		}
	}
	return cases
}

func runC13(replay string) int {
	run := ev.NewRun("C13", "model_checking")
	run.Assumptions = []string{
		"ground truth is the ethereum_tx / tx_receipt / block_bloom events and ExecTxResults of FinalizeBlock on the real app",
		"every tx of a block is sent by a different wallet (nonce interplay is C06's subject)",
	}
	if replay != "" {
		return replayCase(run, replay, func(raw json.RawMessage) []ev.Finding {
			var c c13Case
			if err := json.Unmarshal(raw, &c); err != nil {
				fmt.Fprintln(os.Stderr, err)
				os.Exit(2)
			}
			o := c13Run(c)
			fmt.Println("outcome:", o.Outcome)
			return o.Findings
		})
	}
	cases := c13Cases(run.Thorough())
	run.Sharded(Shards(), func(shard, n int) {
		for i, c := range cases {
			if i%n != shard {
				continue
			}
			o := c13Run(c)
			if i < 2*n { // determinism self-check on the first cases of every shard
				o2 := c13Run(c)
				if o2.Outcome != o.Outcome || len(o2.Findings) != len(o.Findings) {
					fmt.Fprintf(os.Stderr, "HARNESS-NONDETERMINISM in C13 case %d\n", i)
					os.Exit(2)
				}
			}
			run.Count("transitions", int64(len(c.Blocks)))
			run.Count("traces_validated_against_impl", 1)
			for _, b := range c.Blocks {
				run.Count("txs_executed", int64(len(b)))
			}
			run.Outcome(o.Outcome)
			if o.Logs > 1 {
				run.Distinct(o.Outcome)
			}
			if i%(len(cases)/4+1) == 0 {
				run.Sample(map[string]interface{}{"case": c, "outcome": o.Outcome})
			}
			for _, f := range o.Findings {
				run.Fail(f)
			}
		}
	})
	run.Coverage["states"] = int(run.Counter("transitions")) + 1
	run.Coverage["evaluations"] = len(cases)
	run.Coverage["exhaustive"] = true
	run.Coverage["max_depth"] = 2
	run.Coverage["rule"] = fmt.Sprintf("all blocks of 1..%d txs over the %d-kind alphabet %v in worlds MaxGas∈{40M,100k}, plus 2-block histories (3 first blocks × all second blocks of ≤2 txs); a state is (world, committed block list); distinct_nontrivial counts distinct per-tx outcome vectors of histories with ≥2 logs in a block", map[bool]int{false: 3, true: 4}[run.Thorough()], len(c13Alphabet), c13Alphabet)
	return run.Finish()
}

var _ = common.Address{}
