package checks

import (
	"bytes"
	"encoding/json"
	"fmt"
	"math/big"
	"os"
	"strings"

	sdkmath "cosmossdk.io/math"
	sdk "github.com/cosmos/cosmos-sdk/types"
	authtypes "github.com/cosmos/cosmos-sdk/x/auth/types"
	banktypes "github.com/cosmos/cosmos-sdk/x/bank/types"
	"github.com/ethereum/go-ethereum/common"
	ethtypes "github.com/ethereum/go-ethereum/core/types"
	ethcrypto "github.com/ethereum/go-ethereum/crypto"

	evmtypes "github.com/EscanBE/evermint/v12/x/evm/types"

	"verif/harness/asm"
	"verif/harness/ev"
	"verif/harness/world"
)

func init() { Registry["C06"] = runC06 }

// AddrBurnBig uses more gas than the 100k block limit of the C06 world.
var AddrBurnBig = common.HexToAddress("0x00000000000000000000000000000000000c000a")

// c06Item is one transaction of a history.
type c06Item struct {
	Kind     string `json:"kind"`              // transfer | revert | oog | value-too-high | block-gas | cosmos-send
	Sender   int    `json:"sender"`            // wallet index
	Variant  string `json:"variant,omitempty"` // "" = correctly signed
	ReplayOf int    `json:"replay_of"`         // index (in flattened history order) of the item whose exact bytes are replayed; -1 = none
	TxType   string `json:"tx_type,omitempty"` // legacy | dynamic
}

type c06Case struct {
	Blocks [][]c06Item `json:"blocks"`
}

var c06EthVariants = []string{"unprotected", "chainid+1", "chainid-1", "from-other", "from-contract", "from-empty", "flip-v", "r+1", "s+1", "s-malleated", "payload-tamper", "nonce-1", "nonce+1"}
// c06LongFromVariants: the declared sender is a funded account whose address is LONGER than 20 bytes and contains the signer's
// address as its last / first 20 bytes (the SDK accepts account addresses of up to 255 bytes): declared sender != signer.
// Only used in part A (the routing part keeps its own variant list).
var c06LongFromVariants = []string{"from-pad|signer", "from-signer|pad"}

// c06LongFrom is the declared sender of a long-from variant for wallet a.
func c06LongFrom(variant string, a *world.Acct) sdk.AccAddress {
	pad := []byte{0xAA, 0xAA, 0xAA, 0xAA, 0xAA, 0xAA, 0xAA, 0xAA, 0xAA, 0xAA, 0xAA, 0xAA}
	if variant == "from-signer|pad" {
		return sdk.AccAddress(append(append([]byte{}, a.Eth().Bytes()...), pad...))
	}
	return sdk.AccAddress(append(append([]byte{}, pad...), a.Eth().Bytes()...))
}

var c06CosmosVariants = []string{"sig-by-other-key", "wrong-chain-id", "seq-1", "seq+1", "accnum+1"}
var c06Kinds = []string{"transfer", "revert", "oog", "value-too-high", "block-gas", "create-ok", "create-revert", "create-value-too-high"}

func c06World() *world.World {
	cs := append(StdContracts(), world.Contract{Addr: AddrBurnBig, Code: asm.New().BurnGas(5000).Stop().Bytes()})
	// funded base accounts (sequence 0) at the long addresses of the long-from variants
	var extra []world.ExtraAccount
	for i := 0; i < 3; i++ {
		a := world.NewAcct(fmt.Sprintf("wal%d", i+1))
		for _, v := range c06LongFromVariants {
			extra = append(extra, world.ExtraAccount{Account: authtypes.NewBaseAccountWithAddress(c06LongFrom(v, a)),
				Coins: sdk.NewCoins(sdk.NewCoin(world.Denom, sdkmath.NewIntFromBigInt(new(big.Int).Exp(big.NewInt(10), big.NewInt(21), nil))))})
		}
	}
	return world.New(world.Config{MaxGas: 100_000, NumWallets: 3, Contracts: cs, Extra: extra})
}

// c06Build returns the tx bytes of an item given the sender's current expected nonce.
func c06Build(w *world.World, it c06Item, nonce uint64, base *big.Int) []byte {
	a := w.Wallets[it.Sender]
	other := w.Wallets[(it.Sender+1)%len(w.Wallets)]
	if it.Kind == "cosmos-send" {
		msg := &banktypes.MsgSend{FromAddress: a.Bech(), ToAddress: other.Bech(), Amount: sdk.NewCoins(sdk.NewCoin(world.Denom, sdkmath.NewInt(5)))}
		gas := uint64(90_000)
		fee := new(big.Int).Mul(new(big.Int).SetUint64(gas), base)
		accNum := uint64(len(w.Validators) + it.Sender)
		seq := nonce
		switch it.Variant {
		case "":
		case "sig-by-other-key":
			return cosmosTxSignedBy(w, a, other, accNum, seq, gas, fee, world.ChainID, msg)
		case "wrong-chain-id":
			return cosmosTxSignedBy(w, a, a, accNum, seq, gas, fee, "evermint_80809-1", msg)
		case "seq-1":
			seq--
		case "seq+1":
			seq++
		case "accnum+1":
			accNum++
		default:
			panic("variant " + it.Variant)
		}
		return w.CosmosTx(a, accNum, seq, gas, fee, msg)
	}
	tx, from, emptyFrom := c06BuildEth(w, it, nonce, base, big.NewInt(0))
	bz, err := wrapEthFrom(w, tx, from, emptyFrom)
	if strings.HasPrefix(it.Variant, "from-") && strings.Contains(it.Variant, "|") {
		long := c06LongFrom(it.Variant, a).String()
		bz, err = w.WrapEthE(tx, from, func(m *evmtypes.MsgEthereumTx) { m.From = long })
	}
	if err != nil {
		// the envelope itself could not be built (e.g. message refuses the tx): offer raw garbage derived from the case
		return []byte("unbuildable:" + err.Error())
	}
	return bz
}

// c06BuildEth builds the signed (or tampered) Ethereum transaction of an item for the given nonce: the wallet it.Sender signs;
// price is the legacy gas price / the dynamic fee cap, tip the dynamic tip cap. It returns the transaction, the declared
// sender of the variant and whether the From field is to be left empty.
func c06BuildEth(w *world.World, it c06Item, nonce uint64, base, tip *big.Int) (*ethtypes.Transaction, common.Address, bool) {
	a := w.Wallets[it.Sender]
	other := w.Wallets[(it.Sender+1)%len(w.Wallets)]
	var to common.Address
	var toPtr *common.Address = &to
	var data []byte
	value := big.NewInt(0)
	gas := uint64(60000)
	switch it.Kind {
	case "create-ok":
		toPtr, data, gas = nil, createOKInit(), 95000
	case "create-revert":
		toPtr, data, gas = nil, createFailInit(), 95000
	case "create-value-too-high":
		// a creation whose endowment the sender cannot afford: the state transition refuses it after admission, the nonce is consumed
		toPtr, data, gas = nil, createOKInit(), 95000
		value = new(big.Int).Mul(big.NewInt(1000), new(big.Int).Exp(big.NewInt(10), big.NewInt(18), nil))
	case "transfer":
		to, value, gas = AddrSink, big.NewInt(3), 21000
	case "revert":
		to = AddrLogRev
	case "oog":
		to, gas = AddrBurn, 30000
	case "value-too-high":
		to, gas = AddrSink, 21000
		value = new(big.Int).Mul(big.NewInt(1000), new(big.Int).Exp(big.NewInt(10), big.NewInt(18), nil))
	case "block-gas":
		to, gas = AddrBurnBig, 200_000
	default:
		panic("kind " + it.Kind)
	}
	n := nonce
	switch it.Variant {
	case "nonce-1":
		n--
	case "nonce+1":
		n++
	}
	chainID := big.NewInt(world.EvmChainID)
	switch it.Variant {
	case "chainid+1":
		chainID = big.NewInt(world.EvmChainID + 1)
	case "chainid-1":
		chainID = big.NewInt(world.EvmChainID - 1)
	}
	var td ethtypes.TxData
	if it.TxType == "dynamic" {
		td = &ethtypes.DynamicFeeTx{ChainID: chainID, Nonce: n, GasTipCap: tip, GasFeeCap: base, Gas: gas, To: toPtr, Value: value, Data: data}
	} else {
		td = &ethtypes.LegacyTx{Nonce: n, GasPrice: base, Gas: gas, To: toPtr, Value: value, Data: data}
	}
	key, _ := ethcrypto.ToECDSA(a.Priv.Key)
	var signer ethtypes.Signer = ethtypes.LatestSignerForChainID(chainID)
	if it.Variant == "unprotected" {
		signer = ethtypes.HomesteadSigner{}
		td = &ethtypes.LegacyTx{Nonce: n, GasPrice: base, Gas: gas, To: toPtr, Value: value, Data: data}
	}
	tx, err := ethtypes.SignNewTx(key, signer, td)
	if err != nil {
		panic(err)
	}
	from := a.Eth()
	v, r, s := tx.RawSignatureValues()
	rebuild := func(v, r, s *big.Int, val *big.Int) *ethtypes.Transaction {
		if it.TxType == "dynamic" {
			return ethtypes.NewTx(&ethtypes.DynamicFeeTx{ChainID: chainID, Nonce: n, GasTipCap: tip, GasFeeCap: base, Gas: gas, To: toPtr, Value: val, Data: data, V: v, R: r, S: s})
		}
		return ethtypes.NewTx(&ethtypes.LegacyTx{Nonce: n, GasPrice: base, Gas: gas, To: toPtr, Value: val, Data: data, V: v, R: r, S: s})
	}
	one := big.NewInt(1)
	switch it.Variant {
	case "from-other":
		from = other.Eth()
	case "from-contract":
		from = AddrLog1
	case "from-pad|signer", "from-signer|pad": // the long declared sender is put into the message by c06Build
	case "flip-v":
		tx = rebuild(new(big.Int).Xor(v, one), r, s, value)
	case "r+1":
		tx = rebuild(v, new(big.Int).Add(r, one), s, value)
	case "s+1":
		tx = rebuild(v, r, new(big.Int).Add(s, one), value)
	case "s-malleated":
		nn := ethcrypto.S256().Params().N
		tx = rebuild(new(big.Int).Xor(v, one), r, new(big.Int).Sub(nn, s), value)
	case "payload-tamper":
		tx = rebuild(v, r, s, new(big.Int).Add(value, one))
	}
	return tx, from, it.Variant == "from-empty"
}

func cosmosTxSignedBy(w *world.World, declared, signerKey *world.Acct, accNum, seq, gas uint64, fee *big.Int, chainID string, msgs ...sdk.Msg) []byte {
	return w.CosmosTxAdv(declared, signerKey, accNum, seq, gas, fee, chainID, msgs...)
}

type c06Obs struct {
	Findings    []ev.Finding
	Outcome     string
	Hashes      [][]byte // per block: hash of every store except the fee market's
	BaseFees    []string
	TwinSkipped int
	Unauth      []bool // flat index -> judged unauthorised
}

// c06Run executes the case. authorised[i] is decided by construction; skipUnauth drops unauthorised items (twin run).
func c06Run(c c06Case, skip []bool) c06Obs {
	twin := skip != nil
	w := c06World()
	w.Block(nil)
	var obs c06Obs
	fail := func(clause, detail string) {
		obs.Findings = append(obs.Findings, ev.Finding{Clause: clause, Detail: detail, Replay: c})
	}
	nonce := map[int]uint64{}
	var flatBytes [][]byte
	var flatAdmitted []bool
	var oc []string
	for bi, blk := range c.Blocks {
		base := w.App.FeeMarketKeeper.GetBaseFee(w.Ctx()).BigInt()
		ctx := w.Ctx()
		seqPre := map[int]uint64{}
		for i, a := range w.Wallets {
			seqPre[i] = w.Nonce(ctx, a.Eth())
		}
		type meta struct {
			it         c06Item
			authorised int // 1 yes, 0 no, -1 no expectation
			flat       int
			included   bool
		}
		var metas []meta
		var txs [][]byte
		expNonce := map[int]uint64{}
		for k, v := range nonce {
			expNonce[k] = v
		}
		for _, it := range blk {
			m := meta{it: it, flat: len(flatBytes)}
			var bz []byte
			if it.ReplayOf >= 0 {
				bz = flatBytes[it.ReplayOf]
				m.authorised = -2 // decided when its result is read: unauthorised iff the original was admitted before it
			} else {
				bz = c06Build(w, it, expNonce[it.Sender], base)
				switch it.Variant {
				case "":
					m.authorised = 1
				case "s-malleated":
					m.authorised = -1
				default:
					m.authorised = 0
				}
				if (it.Variant == "nonce-1" || it.Variant == "seq-1") && expNonce[it.Sender] == 0 {
					m.authorised = 0 // wrapped around to 2^64-1: still unauthorised
				}
			}
			flatBytes = append(flatBytes, bz)
			flatAdmitted = append(flatAdmitted, false)
			obs.Unauth = append(obs.Unauth, false)
			if twin && skip[m.flat] {
				metas = append(metas, m)
				continue
			}
			m.included = true
			if m.authorised == 1 {
				expNonce[it.Sender]++ // provisional; corrected below when the tx was dropped for block gas
			}
			txs = append(txs, bz)
			metas = append(metas, m)
		}
		br := w.Block(txs)
		if br.Panic != "" || br.Err != nil {
			fail("block-executes", fmt.Sprintf("block %d: panic=%q err=%v", bi, br.Panic, br.Err))
			return obs
		}
		admitted := map[int]int{}
		ri := 0
		for _, m := range metas {
			if !m.included {
				continue
			}
			r := br.Res.TxResults[ri]
			ri++
			where := fmt.Sprintf("block %d item %d (%s/%s w%d replayOf=%d)", bi, m.flat, m.it.Kind, m.it.Variant, m.it.Sender, m.it.ReplayOf)
			rc, _ := world.ParseReceipt(ri, r)
			dropped := strings.Contains(r.Log, "no block gas left")
			isEth := m.it.Kind != "cosmos-send"
			observedAdmitted := false
			if isEth {
				observedAdmitted = rc != nil && rc.HasEthTx
			} else {
				observedAdmitted = r.Code == 0
			}
			if m.authorised == -2 {
				if flatAdmitted[m.it.ReplayOf] {
					m.authorised = 0
				} else {
					m.authorised = -1 // the original never executed; re-offering it is legitimate, no expectation
				}
			}
			switch m.authorised {
			case 0:
				obs.Unauth[m.flat] = true
				if r.Code == 0 || observedAdmitted {
					fail("unauthorised-tx-never-executes", where+": code="+fmt.Sprint(r.Code))
				}
				oc = append(oc, "rej")
			case 1:
				if !dropped {
					if isEth && !observedAdmitted {
						fail("authorised-tx-is-admitted", where+": "+r.Log)
					}
					// an authorised Cosmos tx may still fail in message execution or on the block gas meter; it stays admitted
					admitted[m.it.Sender]++
					flatAdmitted[m.flat] = true
					if r.Code == 0 {
						oc = append(oc, "ok")
					} else {
						oc = append(oc, "adm-fail")
					}
				} else {
					oc = append(oc, "dropped")
				}
			default:
				if observedAdmitted {
					admitted[m.it.Sender]++
					flatAdmitted[m.flat] = true
					oc = append(oc, "adm?")
				} else {
					oc = append(oc, "rej?")
				}
			}
		}
		ctx = w.Ctx()
		for i, a := range w.Wallets {
			post := w.Nonce(ctx, a.Eth())
			if post < seqPre[i] {
				fail("sequence-never-decreases", fmt.Sprintf("block %d wallet %d: %d -> %d", bi, i, seqPre[i], post))
			}
			if post-seqPre[i] != uint64(admitted[i]) {
				fail("sequence-advances-once-per-admitted-tx", fmt.Sprintf("block %d wallet %d: %d -> %d with %d admitted txs (%s)", bi, i, seqPre[i], post, admitted[i], strings.Join(oc, ",")))
			}
			nonce[i] = post
		}
		hh := w.Hash(ctx, "feemarket")
		obs.Hashes = append(obs.Hashes, hh[:])
		obs.BaseFees = append(obs.BaseFees, w.App.FeeMarketKeeper.GetBaseFee(ctx).String())
		oc = append(oc, "|")
	}
	obs.Outcome = strings.Join(oc, ",")
	return obs
}

func c06Check(c c06Case) c06Obs {
	o := c06Run(c, nil)
	hasUnauth := strings.Contains(o.Outcome, "rej")
	if hasUnauth && len(o.Findings) == 0 {
		t := c06Run(c, o.Unauth)
		for i := range o.Hashes {
			if i > 0 && o.BaseFees[i-1] != t.BaseFees[i-1] {
				// A rejected tx still counts towards the block gas (cosmos-sdk accounting), which moves the next base fee;
				// later blocks then charge different fees and are not comparable any more.
				o.TwinSkipped = len(o.Hashes) - i
				break
			}
			if i >= len(t.Hashes) || !bytes.Equal(o.Hashes[i], t.Hashes[i]) {
				o.Findings = append(o.Findings, ev.Finding{Clause: "unauthorised-tx-changes-nothing", Detail: fmt.Sprintf("block %d: state (all stores except the fee market's) differs from the same history without the unauthorised transactions (%s) %s", i, o.Outcome, c06Describe(c)), Replay: c})
				break
			}
		}
	}
	return o
}

func c06Cases(thorough bool) []c06Case {
	var cases []c06Case
	ok := func(sender int) c06Item { return c06Item{Kind: "transfer", Sender: sender, ReplayOf: -1} }
	types := []string{"legacy", "dynamic"}
	// A. one adversarial variant at every position of short blocks
	for _, k := range c06Kinds {
		for _, v := range append(append([]string{}, c06EthVariants...), c06LongFromVariants...) {
			for _, tt := range types {
				if tt == "dynamic" && (v == "unprotected") {
					continue
				}
				if tt == "dynamic" && !thorough && k != "transfer" && k != "revert" {
					continue
				}
				bad := c06Item{Kind: k, Sender: 0, Variant: v, ReplayOf: -1, TxType: tt}
				cases = append(cases,
					c06Case{Blocks: [][]c06Item{{bad}}},
					c06Case{Blocks: [][]c06Item{{ok(0), bad}}},
					c06Case{Blocks: [][]c06Item{{ok(1), bad}}},
					c06Case{Blocks: [][]c06Item{{bad, ok(0)}}},
					c06Case{Blocks: [][]c06Item{{ok(0), bad, ok(0)}}},
					c06Case{Blocks: [][]c06Item{{ok(0)}, {bad, ok(1)}}},
				)
			}
		}
	}
	for _, v := range c06CosmosVariants {
		bad := c06Item{Kind: "cosmos-send", Sender: 0, Variant: v, ReplayOf: -1}
		good := c06Item{Kind: "cosmos-send", Sender: 0, ReplayOf: -1}
		cases = append(cases,
			c06Case{Blocks: [][]c06Item{{bad}}},
			c06Case{Blocks: [][]c06Item{{good, bad}}},
			c06Case{Blocks: [][]c06Item{{ok(0), bad, good}}},
			c06Case{Blocks: [][]c06Item{{good}, {bad, ok(0)}}},
		)
	}
	// B. replays of accepted transactions at every later position
	kinds := append(append([]string{}, c06Kinds...), "cosmos-send")
	for _, k1 := range kinds {
		for _, tt := range types {
			if k1 == "cosmos-send" && tt == "dynamic" {
				continue
			}
			t1 := c06Item{Kind: k1, Sender: 0, ReplayOf: -1, TxType: tt}
			rp := func(i int) c06Item { return c06Item{Kind: k1, Sender: 0, ReplayOf: i, TxType: tt} }
			cases = append(cases,
				c06Case{Blocks: [][]c06Item{{t1, rp(0)}}},
				c06Case{Blocks: [][]c06Item{{t1, ok(1), rp(0)}}},
				c06Case{Blocks: [][]c06Item{{t1, ok(0), rp(0)}}},
				c06Case{Blocks: [][]c06Item{{t1}, {rp(0)}}},
				c06Case{Blocks: [][]c06Item{{t1}, {ok(0), rp(0)}}},
				c06Case{Blocks: [][]c06Item{{t1}, {ok(1)}, {rp(0), ok(0)}}},
				c06Case{Blocks: [][]c06Item{{t1, rp(0), rp(0)}}},
			)
			for _, k2 := range kinds {
				t2 := c06Item{Kind: k2, Sender: 1, ReplayOf: -1}
				cases = append(cases,
					c06Case{Blocks: [][]c06Item{{t1, t2, rp(0)}}},
					c06Case{Blocks: [][]c06Item{{t1, t2}, {rp(1), rp(0)}}},
				)
				if thorough {
					t2s := c06Item{Kind: k2, Sender: 0, ReplayOf: -1}
					cases = append(cases,
						c06Case{Blocks: [][]c06Item{{t1, t2s, rp(0), rp(1)}}},
						c06Case{Blocks: [][]c06Item{{t1}, {t2s}, {rp(0), rp(1)}}},
					)
				}
			}
		}
	}
	return cases
}

func runC06(replay string) int {
	run := ev.NewRun("C06", "model_checking")
	run.Assumptions = []string{
		"authorisation of each generated transaction is known by construction (which key signed which payload for which chain id and nonce)",
		"the s-malleated twin of a valid signature carries no expectation on admission (the property allows either), only sequence accounting",
		"routing part: a fully authorised Ethereum payload (protected for this chain, signed by the declared sender, nonce = sequence) that arrives nested in a Cosmos-lane transaction carries no expectation on acceptance (C07 forbids it, C06 does not); it must still execute at most once and move the signer's nonce by exactly one when it executes",
	}
	if replay != "" {
		return replayCase(run, replay, func(raw json.RawMessage) []ev.Finding {
			if fs, ok := c06RouteReplay(raw); ok {
				return fs
			}
			var c c06Case
			if err := json.Unmarshal(raw, &c); err != nil {
				fmt.Fprintln(os.Stderr, err)
				os.Exit(2)
			}
			o := c06Check(c)
			fmt.Println("outcome:", o.Outcome)
			return o.Findings
		})
	}
	cases := c06Cases(run.Thorough())
	routeCases := c06RouteCases(run.Thorough())
	run.Sharded(Shards(), func(shard, n int) {
		c06RouteShard(run, routeCases, shard, n)
		for i, c := range cases {
			if i%n != shard {
				continue
			}
			o := c06Check(c)
			if i < 2*n {
				if o2 := c06Check(c); o2.Outcome != o.Outcome || len(o2.Findings) != len(o.Findings) {
					fmt.Fprintf(os.Stderr, "HARNESS-NONDETERMINISM in C06 case %d\n", i)
					os.Exit(2)
				}
			}
			run.Count("transitions", int64(len(c.Blocks)))
			run.Count("traces_validated_against_impl", 1)
			run.Outcome(o.Outcome)
			if strings.Contains(o.Outcome, "rej") {
				key, _ := json.Marshal(c)
				run.Distinct(string(key))
				run.Count("twin_runs", 1)
				run.Count("twin_blocks_not_comparable_after_base_fee_moved", int64(o.TwinSkipped))
			}
			if i%(len(cases)/4+1) == 0 {
				run.Sample(map[string]interface{}{"case": c, "outcome": o.Outcome})
			}
			for _, f := range o.Findings {
				run.Fail(f)
			}
		}
	})
	run.Coverage["states"] = int(run.Counter("transitions")) + 1
	run.Coverage["evaluations"] = len(cases) + len(routeCases)
	run.Coverage["routing_cases"] = len(routeCases)
	run.Coverage["exhaustive"] = true
	run.Coverage["max_depth"] = 3
	run.Coverage["rule"] = fmt.Sprintf("A: 8 tx kinds (transfer, revert, out-of-gas, value too high, block-gas-exhausting, create, reverting create, create with unaffordable endowment) × %d adversarial Ethereum encodings (incl. a funded 32-byte declared sender that contains the signer's address as its last / first 20 bytes) × {legacy, dynamic-fee} (+ %d Cosmos variants) at every position of 6 block shapes; B: byte-exact replays of every accepted tx kind at 7 later positions (same block, next block, two blocks later) and after every second tx kind. Every history with a rejected item is run twice (with / without the rejected items) and the AppHashes compared. distinct_nontrivial = histories containing ≥1 rejected item. ", len(c06EthVariants)+len(c06LongFromVariants), len(c06CosmosVariants)) + c06RouteRule(run.Thorough())
	return run.Finish()
}

func wrapEthFrom(w *world.World, tx *ethtypes.Transaction, from common.Address, emptyFrom bool) ([]byte, error) {
	return w.WrapEthE(tx, from, func(m *evmtypes.MsgEthereumTx) {
		if emptyFrom {
			m.From = ""
		}
	})
}

func c06Describe(c c06Case) string {
	var sb strings.Builder
	for _, b := range c.Blocks {
		sb.WriteString("[")
		for _, it := range b {
			fmt.Fprintf(&sb, "%s/%s/%s/w%d/r%d ", it.Kind, it.Variant, it.TxType, it.Sender, it.ReplayOf)
		}
		sb.WriteString("]")
	}
	return sb.String()
}

// C06Item / C06Exec are exported for scratch debugging.
type C06Item = c06Item

func C06Exec(blocks [][]c06Item) (*world.World, []*world.BlockResult) {
	w := c06World()
	w.Block(nil)
	var out []*world.BlockResult
	for _, blk := range blocks {
		base := w.App.FeeMarketKeeper.GetBaseFee(w.Ctx()).BigInt()
		var txs [][]byte
		for _, it := range blk {
			txs = append(txs, c06Build(w, it, w.Nonce(w.Ctx(), w.Wallets[it.Sender].Eth()), base))
		}
		out = append(out, w.Block(txs))
	}
	return w, out
}
