package checks

import (
	"bytes"
	"context"
	"crypto/sha256"
	"encoding/hex"
	"encoding/json"
	"fmt"
	"math/big"
	"os"
	"sort"
	"strings"

	storetypes "cosmossdk.io/store/types"
	abci "github.com/cometbft/cometbft/abci/types"
	cmtproto "github.com/cometbft/cometbft/proto/tendermint/types"
	sdk "github.com/cosmos/cosmos-sdk/types"
	"github.com/cosmos/cosmos-sdk/types/query"
	authtypes "github.com/cosmos/cosmos-sdk/x/auth/types"
	banktypes "github.com/cosmos/cosmos-sdk/x/bank/types"
	"github.com/ethereum/go-ethereum/common"
	ethtypes "github.com/ethereum/go-ethereum/core/types"
	ethcrypto "github.com/ethereum/go-ethereum/crypto"

	cpctypes "github.com/EscanBE/evermint/v12/x/cpc/types"
	evmtypes "github.com/EscanBE/evermint/v12/x/evm/types"
	feemarkettypes "github.com/EscanBE/evermint/v12/x/feemarket/types"
	vauthtypes "github.com/EscanBE/evermint/v12/x/vauth/types"

	"verif/harness/asm"
	"verif/harness/ev"
	"verif/harness/world"
)

// C08 — simulation and query paths are side-effect free and predict execution.
//
// Engine: envx interleaving + differential. Every case is (history of <= 2 blocks, list of <= 2 requests). The history is
// executed on a fresh application; block h+1 (either a fixed block or "the same call, delivered") is then executed with the
// request list issued at three interleaving points — before FinalizeBlock(h+1), between FinalizeBlock(h+1) and Commit, after
// Commit(h+1) — through the real entry points BaseApp.Query (gRPC paths and /app/simulate), BaseApp.CheckTx (New, Recheck) and
// BaseApp.Simulate; one more block closes the run. Oracles:
//   (a) every store of the root multistore (IAVL incl. the working set of the pending block, transient, memory), LastCommitID and
//       (for query/simulate requests) the check state are byte-identical before and after each request; the whole run is
//       repeated without any request (twin) and AppHash / CommitID / every ExecTxResult / block events must be identical;
//       an admitted CheckTx changes the check state only in the sender's account (sequence + 1) and in bank balances;
//   (b) a query pinned to height h answers identically at the three points (and the unpinned query between FinalizeBlock and
//       Commit answers like the pinned one) — compared on Ret, VmError, GasUsed, logs, the estimate, trace data, gRPC values;
//   (c) for programs that read neither block context nor the sender's balance the delivered call (same from/to/data/value/gas
//       limit, next transaction on that state) has the same Ret, logs and gas used as eth_call predicted, and delivered with
//       the estimate as gas limit it does not run out of gas; the request-argument shape (fee fields × access list × value ×
//       nonce × data / input spelling, c08_shape.go) is a dimension of this oracle: every shape is delivered as the transaction
//       of the matching type (legacy / EIP-2930 / EIP-1559) with the same access list, gas limit and fee fields;
//   (k) mechanism level: the gRPC handler, routed exactly like BaseApp does, leaves the persistent stores of the query context
//       it was given untouched (tracing excepted: it replays predecessors into its context by design).
//   (d) process-state pass (c08_proc.go): histories whose blocks change what EVM execution is set up from (precompile deployed,
//       contract created / destroyed, x/evm, x/feemarket, x/cpc parameters changed by governance), one request at any point and
//       any committed height (also heights before the change); later block results, later answers and the answer itself must
//       equal those of a twin application that never served the request — catches influence through memory of the process.
//
// Known defect of the unchanged tree (c08SigPendingFlag): between FinalizeBlock and Commit a query context shares the transient
// store with the pending block; the "sender paid the fee" flag left behind by its last Ethereum tx makes the predecessor replay
// of TraceTx / TraceBlock mint gas refunds, so a traced tx that reads such a balance is answered differently in that window.
// The same sharing puts the pending block's gas into the cumulative gas used of the receipt inside eth_call answers (a field
// the property does not name; counted as info_*).

func init() { Registry["C08"] = runC08 }

var (
	c08AddrGasBranch  = common.HexToAddress("0x00000000000000000000000000000000000c0801") // gas left > 60k: burn ~81k, slot1:=2, return 2; else slot1:=1, return 1
	c08AddrClearHeavy = common.HexToAddress("0x00000000000000000000000000000000000c0807") // clears 40 pre-set slots: the refund sits at the EIP-3529 cap, the gas needed exceeds the gas used by a quarter
	c08AddrChain      = common.HexToAddress("0x00000000000000000000000000000000000c0802") // calls itself calldata[0] times with all gas (63/64), leaf burns + SSTORE; reverts when the inner call fails
	c08AddrBlockCtx   = common.HexToAddress("0x00000000000000000000000000000000000c0803") // returns NUMBER, TIMESTAMP, COINBASE, GASLIMIT
	c08AddrBalance    = common.HexToAddress("0x00000000000000000000000000000000000c0804") // returns BALANCE(CALLER)
	c08AddrBalanceOf  = common.HexToAddress("0x00000000000000000000000000000000000c0805") // returns BALANCE(calldata[0])
	c08AddrCallValue  = common.HexToAddress("0x00000000000000000000000000000000000c0809") // slot3 := CALLVALUE, LOG1(topic CALLVALUE), returns CALLVALUE: return data, log and gas used all depend on the value
	c08AddrSpender    = common.HexToAddress("0x00000000000000000000000000000000000c08ee") // plain address (approve target)
)

const (
	c08WNext  = 3 // wallet: sender of the default block h+1 and of the closing block
	c08WReq   = 4 // wallet: sender of eth_call / estimate requests and of the delivered call
	c08WCheck = 5 // wallet: sender of CheckTx / Simulate transactions
	c08GasCap = 25_000_000
)

func c08Contracts() []world.Contract {
	cs := StdContracts()
	gb := asm.NewProg()
	gb.Op(asm.GAS).PushU(60000).Op(asm.LT) // 60000 < gas left
	gb.JumpIf("rich")
	gb.Sstore(1, 1).ReturnWord(1)
	gb.Label("rich")
	gb.BurnGas(3000).Sstore(1, 2).ReturnWord(2)

	ch := asm.NewProg()
	ch.PushU(0).Op(asm.CALLDATALOAD)
	ch.Op(asm.DUP1, asm.ISZERO)
	ch.JumpIf("leaf")
	ch.PushU(1).Op(asm.SWAP1, asm.SUB)
	ch.PushU(0).Op(asm.MSTORE)
	ch.Call(asm.KCall, c08AddrChain, 0, 0, 0, 32, 0, 0)
	ch.RevertIfZero()
	ch.Stop()
	ch.Label("leaf")
	ch.Op(asm.POP)
	ch.BurnGas(1000).Sstore(2, 5).Stop()

	bc := asm.New().Op(asm.NUMBER).PushU(0).Op(asm.MSTORE).Op(asm.TIMESTAMP).PushU(32).Op(asm.MSTORE).
		Op(0x41).PushU(64).Op(asm.MSTORE).Op(0x45).PushU(96).Op(asm.MSTORE).PushU(128).PushU(0).Op(asm.RETURN)
	bal := asm.New().Op(asm.CALLER, asm.BALANCE).PushU(0).Op(asm.MSTORE).PushU(32).PushU(0).Op(asm.RETURN)
	balOf := asm.New().PushU(0).Op(asm.CALLDATALOAD, asm.BALANCE).PushU(0).Op(asm.MSTORE).PushU(32).PushU(0).Op(asm.RETURN)
	heavy := asm.New()
	heavySt := map[common.Hash]common.Hash{}
	for i := 0; i < 40; i++ {
		heavy.Sstore(uint64(i), 0)
		heavySt[h(uint64(i))] = h(9)
	}
	cv := asm.New().Op(asm.CALLVALUE).PushU(3).Op(asm.SSTORE).Op(asm.CALLVALUE).PushU(0).Op(asm.MSTORE).
		Op(asm.CALLVALUE).PushU(32).PushU(0).Op(asm.LOG1).PushU(32).PushU(0).Op(asm.RETURN)
	return append(cs,
		world.Contract{Addr: c08AddrCallValue, Code: cv.Bytes()},
		world.Contract{Addr: c08AddrClearHeavy, Code: heavy.Stop().Bytes(), Storage: heavySt},
		world.Contract{Addr: c08AddrBalanceOf, Code: balOf.Bytes()},
		world.Contract{Addr: c08AddrGasBranch, Code: gb.Assemble()},
		world.Contract{Addr: c08AddrChain, Code: ch.Assemble()},
		world.Contract{Addr: c08AddrBlockCtx, Code: bc.Bytes()},
		world.Contract{Addr: c08AddrBalance, Code: bal.Bytes()},
	)
}

// ---------------------------------------------------------------------------
// programs (eth_call / estimateGas / delivered call)
// ---------------------------------------------------------------------------

type c08Prog struct {
	Name       string
	Create     bool
	Erc20      bool // target is the ERC-20 precompile of the base denom
	To         common.Address
	ToFn       func(e *c08Env) common.Address // target computed from the environment (overrides To)
	Data       func(e *c08Env) []byte
	Value      int64
	Gas        uint64
	Predictive bool   // reads neither block context nor the sender's balance
	Expect     string // on the state without history: "ok" or a substring of the vm error (eth_call with Gas)
	EstErr     string // on the state without history: "" = an estimate is returned, otherwise substring of the error
	EstErrGas  string // same, only when the request carries the program's gas as upper bound
}

// c08Programs is ordered simplest first.
var c08Programs = []c08Prog{
	{Name: "transfer", To: AddrSink, Value: 3, Gas: 21000, Predictive: true, Expect: "ok"},
	{Name: "log", To: AddrLog2, Gas: 100000, Predictive: true, Expect: "ok"},
	{Name: "sstore-set", To: AddrSstore, Gas: 100000, Predictive: true, Expect: "ok"},
	{Name: "callvalue", To: c08AddrCallValue, Value: 5, Gas: 100000, Predictive: true, Expect: "ok"},
	{Name: "sstore-clear-refund", To: AddrSclear, Gas: 100000, Predictive: true, Expect: "ok"},
	{Name: "sstore-clear-heavy-refund", To: c08AddrClearHeavy, Gas: 400000, Predictive: true, Expect: "ok"},
	{Name: "create", Create: true, Data: func(*c08Env) []byte { return createOKInit() }, Gas: 200000, Predictive: true, Expect: "ok"},
	{Name: "selfdestruct", To: AddrSuicide, Gas: 100000, Predictive: true, Expect: "ok"},
	{Name: "revert", To: AddrLogRev, Gas: 100000, Predictive: true, Expect: "execution reverted", EstErr: "execution reverted"},
	{Name: "invalid-op", To: AddrInvalid, Gas: 100000, Predictive: true, Expect: "invalid opcode", EstErr: "invalid opcode"},
	{Name: "out-of-gas", To: AddrBurn, Gas: 30000, Predictive: true, Expect: "out of gas", EstErrGas: "gas required exceeds allowance"},
	{Name: "erc20-transfer", Erc20: true, Data: func(*c08Env) []byte {
		return Enc("transfer(address,uint256)", AddrWord(AddrSink), Word(big.NewInt(1)))
	}, Gas: 300000, Predictive: true, Expect: "ok"},
	{Name: "erc20-approve", Erc20: true, Data: func(*c08Env) []byte {
		return Enc("approve(address,uint256)", AddrWord(c08AddrSpender), Word(big.NewInt(5)))
	}, Gas: 300000, Predictive: true, Expect: "ok"},
	{Name: "staking-delegate", To: cpctypes.CpcStakingFixedAddress, Data: func(e *c08Env) []byte {
		return Enc("delegate(address,uint256)", AddrWord(common.BytesToAddress(e.w.Validators[0].Acc())), Word(new(big.Int).Exp(big.NewInt(10), big.NewInt(15), nil)))
	}, Gas: 1500000, Predictive: true, Expect: "ok"},
	{Name: "gas-branch-cheap", To: c08AddrGasBranch, Gas: 70000, Predictive: true, Expect: "ok"},
	{Name: "gas-branch-rich", To: c08AddrGasBranch, Gas: 300000, Predictive: true, Expect: "ok"},
	{Name: "gas-branch-starved", To: c08AddrGasBranch, Gas: 100000, Predictive: true, Expect: "out of gas"},
	{Name: "chain-63-64", To: c08AddrChain, Data: func(*c08Env) []byte { return Word(big.NewInt(3)) }, Gas: 400000, Predictive: true, Expect: "ok"},
	{Name: "block-context", To: c08AddrBlockCtx, Gas: 100000, Predictive: false, Expect: "ok"},
	{Name: "sender-balance", To: c08AddrBalance, Gas: 100000, Predictive: false, Expect: "ok"},
}

func c08ProgByName(n string) *c08Prog {
	for i := range c08Programs {
		if c08Programs[i].Name == n {
			return &c08Programs[i]
		}
	}
	for i := range c08ProcPrograms { // programs of the process-state pass (c08_proc.go)
		if c08ProcPrograms[i].Name == n {
			return &c08ProcPrograms[i]
		}
	}
	return nil
}

// target is the callee of a (non-creating) program in environment e.
func (p *c08Prog) target(e *c08Env) common.Address {
	switch {
	case p.ToFn != nil:
		return p.ToFn(e)
	case p.Erc20:
		return e.erc20
	}
	return p.To
}

// ---------------------------------------------------------------------------
// case description
// ---------------------------------------------------------------------------

// c08Req is one request. Everything is by name so that a replay file is self-contained.
type c08Req struct {
	Kind   string `json:"kind"`             // ethcall | estimate | tracetx | traceblock | grpc | checktx | recheck | simulate | appsimulate
	Name   string `json:"name,omitempty"`   // program (ethcall, estimate), transaction kind (checktx, recheck, simulate, appsimulate), query name (grpc)
	Price  bool   `json:"price,omitempty"`  // ethcall / estimate: gasPrice = base fee (otherwise no fee fields)
	Gwei   int64  `json:"gwei,omitempty"`   // ethcall / estimate: gasPrice = that many gwei (state independent request bytes)
	NoGas  bool   `json:"no_gas,omitempty"` // estimate: no gas argument (upper bound is the gas cap)
	Block  int    `json:"block,omitempty"`  // trace: index of the history block, -1 = block h+1
	Tx     int    `json:"tx,omitempty"`     // tracetx: position in the block
	Tracer string `json:"tracer,omitempty"` // "" = struct logger
	// ethcall / estimate: the request-argument shape (c08_shape.go): which optional fields of TransactionArgs the request
	// carries; the delivered twin is the transaction of the matching type with the same access list, gas limit and fee fields
	Shape *c08Shape `json:"shape,omitempty"`
}

func (r c08Req) String() string {
	s := r.Kind
	if r.Name != "" {
		s += ":" + r.Name
	}
	if r.Price {
		s += "+price"
	}
	if r.Gwei != 0 {
		s += fmt.Sprintf("+%dgwei", r.Gwei)
	}
	if r.NoGas {
		s += "+nogas"
	}
	if r.Shape != nil {
		s += r.Shape.String()
	}
	if r.Kind == "tracetx" || r.Kind == "traceblock" {
		s += fmt.Sprintf("[b%d", r.Block)
		if r.Kind == "tracetx" {
			s += fmt.Sprintf(",t%d", r.Tx)
		}
		s += "]"
		if r.Tracer != "" {
			s += "/" + r.Tracer
		}
	}
	return s
}

func (r c08Req) isQuery() bool {
	switch r.Kind {
	case "ethcall", "estimate", "tracetx", "traceblock", "grpc":
		return true
	}
	return false
}

type c08Case struct {
	History [][]string   `json:"history"` // blocks of transaction kinds; the tx at position p is sent by wallet p
	Reqs    []c08Req     `json:"reqs"`
	Proc    *c08ProcCase `json:"proc,omitempty"` // non-nil: a case of the process-state pass (c08_proc.go); History / Reqs unused
}

func (c c08Case) String() string {
	if c.Proc != nil {
		return c.Proc.String()
	}
	var rs []string
	for _, r := range c.Reqs {
		rs = append(rs, r.String())
	}
	return fmt.Sprintf("history=%v requests=[%s]", c.History, strings.Join(rs, ", "))
}

// ---------------------------------------------------------------------------
// environment
// ---------------------------------------------------------------------------

type c08Env struct {
	w      *world.World
	erc20  common.Address
	blocks [][][]byte // raw txs of the executed / planned blocks, index = height-2 (height 1 is the empty block)
	vec    []string   // per executed block: AppHash, CommitID, results, events
	obs    *c08Obs
	c      c08Case
	first  []*abci.ExecTxResult // results of the first history block
}

type c08Obs struct {
	Findings []ev.Finding
	Classes  []string // one per issued request
	States   []string // (AppHash of h, point) keys
	Requests int
	Runs     int // worlds executed (this case + twin when not cached)
	Info     map[string]int
	Sig      string // determinism signature of the whole observation
}

func c08NewEnv(c c08Case, obs *c08Obs) *c08Env {
	w := world.New(world.Config{NumWallets: 6, Contracts: c08Contracts(), DeployErc20: true, DeployStaking: true})
	w.Block(nil)
	e := &c08Env{w: w, obs: obs, c: c}
	if a := w.App.CPCKeeper.GetErc20CustomPrecompiledContractAddressByMinDenom(w.Ctx(), world.Denom); a != nil {
		e.erc20 = *a
	}
	return e
}

func (e *c08Env) fail(clause, sig, f string, a ...interface{}) {
	e.obs.Findings = append(e.obs.Findings, ev.Finding{Clause: clause, Signature: sig, Detail: fmt.Sprintf(f, a...), Replay: e.c})
}

func (e *c08Env) base() *big.Int { return e.w.App.FeeMarketKeeper.GetBaseFee(e.w.Ctx()).BigInt() }

// c08Proved is the account whose ownership wallet i proves with a "proof" transaction.
func c08Proved(i int) *world.Acct { return world.NewAcct(fmt.Sprintf("c08-proved-%d", i)) }

func c08SignMsg(a *world.Acct, msg string) []byte {
	key, _ := ethcrypto.ToECDSA(a.Priv.Key)
	sig, err := ethcrypto.Sign(ethcrypto.Keccak256([]byte(msg)), key)
	if err != nil {
		panic(err)
	}
	return sig
}

// c08HistoryKinds is the history alphabet: the shared kit alphabet plus four kinds that make the cpc / vauth queries and
// the precompile programs state dependent.
var c08HistoryKinds = []string{string(KTransfer), string(KSstore), string(KSclear), string(KSuicide), string(KCreateOK), string(KLog2),
	"erc20-transfer", "erc20-approve", "delegate", "proof", string(KCosmosSend), string(KLogRevert), string(KBurn), string(KBadNonce),
	string(KCreateFail), string(KInvalid), string(KOutOfGas), string(KIntrinsicLow), string(KValueTooHigh), string(KLog1)}

// tx builds a transaction of the given kind sent by wallet `sender` with the given nonce.
func (e *c08Env) tx(kind string, sender int, nonce uint64, base *big.Int) []byte {
	w := e.w
	a := w.Wallets[sender]
	eth := func(to common.Address, data []byte, gas uint64, price *big.Int) []byte {
		return w.EthTx(a, &ethtypes.LegacyTx{Nonce: nonce, GasPrice: price, Gas: gas, To: &to, Value: big.NewInt(0), Data: data})
	}
	switch kind {
	case "erc20-transfer":
		return eth(e.erc20, Enc("transfer(address,uint256)", AddrWord(AddrSink), Word(big.NewInt(2))), 300000, base)
	case "erc20-approve":
		return eth(e.erc20, Enc("approve(address,uint256)", AddrWord(c08AddrSpender), Word(big.NewInt(9))), 300000, base)
	case "delegate":
		return eth(cpctypes.CpcStakingFixedAddress, Enc("delegate(address,uint256)", AddrWord(common.BytesToAddress(w.Validators[0].Acc())), Word(new(big.Int).Exp(big.NewInt(10), big.NewInt(15), nil))), 1500000, base)
	case "proof":
		pa := c08Proved(sender)
		msg := &vauthtypes.MsgSubmitProofExternalOwnedAccount{Submitter: a.Bech(), Account: pa.Bech(), Signature: "0x" + hex.EncodeToString(c08SignMsg(pa, vauthtypes.MessageToSign))}
		gas := uint64(600000)
		return w.CosmosTx(a, uint64(len(w.Validators)+sender), nonce, gas, new(big.Int).Mul(base, new(big.Int).SetUint64(gas)), msg)
	case "balance-of-w0": // reads the balance of wallet 0, the sender of the tx before it in the same block
		return eth(c08AddrBalanceOf, AddrWord(w.Wallets[0].Eth()), 100000, base)
	case "fee-below-base":
		return eth(AddrSstore, nil, 100000, new(big.Int).Sub(base, big.NewInt(1)))
	case "garbage":
		return []byte{0x0a, 0x03, 0xff, 0x00, 0x01}
	}
	return BuildTx(w, TxSpec{Kind: TxKind(kind), Sender: sender, Nonce: nonce}, base)
}

// ---------------------------------------------------------------------------
// store snapshots
// ---------------------------------------------------------------------------

type c08Dump map[string][][2][]byte

func (e *c08Env) allKeys() map[string]storetypes.StoreKey {
	out := map[string]storetypes.StoreKey{}
	for n, k := range e.w.Keys {
		out[n] = k
	}
	for n, k := range e.w.App.GetTransientStoreKey() {
		out["transient:"+n] = k
	}
	for n, k := range e.w.App.GetMemoryStoreKey() {
		out["memory:"+n] = k
	}
	return out
}

// dumpMS reads every mounted store of ms (persistent, transient, memory) without any gas or cache wrapper.
func (e *c08Env) dumpMS(ms storetypes.MultiStore, persistentOnly bool) c08Dump {
	out := c08Dump{}
	for name, key := range e.allKeys() {
		if persistentOnly && strings.Contains(name, ":") {
			continue
		}
		it := ms.GetKVStore(key).Iterator(nil, nil)
		var kv [][2][]byte
		for ; it.Valid(); it.Next() {
			kv = append(kv, [2][]byte{append([]byte{}, it.Key()...), append([]byte{}, it.Value()...)})
		}
		it.Close()
		out[name] = kv
	}
	return out
}

type c08Snap struct {
	Root   c08Dump
	Check  c08Dump
	Commit storetypes.CommitID
	Height int64
}

func (e *c08Env) checkMS() storetypes.MultiStore {
	return e.w.App.NewContextLegacy(true, cmtproto.Header{}).MultiStore()
}

func (e *c08Env) snap() c08Snap {
	return c08Snap{
		Root:   e.dumpMS(e.w.App.CommitMultiStore(), false),
		Check:  e.dumpMS(e.checkMS(), false),
		Commit: e.w.App.LastCommitID(),
		Height: e.w.App.LastBlockHeight(),
	}
}

func c08DiffString(d []world.DiffEntry) string {
	var s []string
	for i, x := range d {
		if i == 4 {
			s = append(s, fmt.Sprintf("… %d more", len(d)-4))
			break
		}
		s = append(s, x.String())
	}
	return strings.Join(s, "; ")
}

// ---------------------------------------------------------------------------
// requests
// ---------------------------------------------------------------------------

// c08Built is a request resolved against a state: either a query (path + data) or a transaction.
type c08Built struct {
	NA   string // non-empty: not applicable in this state (why)
	Path string
	Data []byte
	Tx   []byte
}

type c08Resp struct {
	NA      string
	Code    uint32
	Log     string
	Value   []byte
	Height  int64
	Eth     *evmtypes.MsgEthereumTxResponse
	Logs    string
	Gas     uint64 // estimate
	Canon   string // what oracle (b) compares; "" = not compared
	Class   string // outcome class
	Receipt []byte
}

func c08LogsString(marshalledReceipt []byte) string {
	if len(marshalledReceipt) == 0 {
		return ""
	}
	rc := &ethtypes.Receipt{}
	if err := rc.UnmarshalBinary(marshalledReceipt); err != nil {
		return "undecodable-receipt:" + err.Error()
	}
	var sb strings.Builder
	for _, l := range rc.Logs {
		fmt.Fprintf(&sb, "%s", l.Address.Hex())
		for _, t := range l.Topics {
			fmt.Fprintf(&sb, ",%s", t.Hex())
		}
		fmt.Fprintf(&sb, ",%x;", l.Data)
	}
	return sb.String()
}

func c08HexU(n uint64) string { return fmt.Sprintf("0x%x", n) }

// callArgs renders the JSON-RPC transaction arguments of a program.
func (e *c08Env) callArgs(p *c08Prog, gas uint64, price *big.Int) []byte {
	m := map[string]interface{}{"from": e.w.Wallets[c08WReq].Eth().Hex()}
	if !p.Create {
		m["to"] = p.target(e).Hex()
	}
	if gas != 0 {
		m["gas"] = c08HexU(gas)
	}
	if price != nil {
		m["gasPrice"] = "0x" + price.Text(16)
	}
	if p.Value != 0 {
		m["value"] = c08HexU(uint64(p.Value))
	}
	if p.Data != nil {
		m["data"] = "0x" + hex.EncodeToString(p.Data(e))
	}
	bz, _ := json.Marshal(m)
	return bz
}

// callTx is the program delivered as a transaction by the request wallet.
func (e *c08Env) callTx(p *c08Prog, gas uint64) []byte {
	w := e.w
	a := w.Wallets[c08WReq]
	var to *common.Address
	if !p.Create {
		t := p.target(e)
		to = &t
	}
	var data []byte
	if p.Data != nil {
		data = p.Data(e)
	}
	return w.EthTx(a, &ethtypes.LegacyTx{Nonce: w.Nonce(w.Ctx(), a.Eth()), GasPrice: e.base(), Gas: gas, To: to, Value: big.NewInt(p.Value), Data: data})
}

func (e *c08Env) blockHashHex(h int64) string {
	hh := sha256.Sum256([]byte(fmt.Sprintf("block-hash-%d", h)))
	return hex.EncodeToString(hh[:])
}

func (e *c08Env) ethMsgs(txs [][]byte) (msgs []*evmtypes.MsgEthereumTx, at []int) {
	for i, bz := range txs {
		tx, err := e.w.Enc.TxConfig.TxDecoder()(bz)
		if err != nil || len(tx.GetMsgs()) == 0 {
			continue
		}
		if m, ok := tx.GetMsgs()[0].(*evmtypes.MsgEthereumTx); ok {
			msgs = append(msgs, m)
			at = append(at, i)
		}
	}
	return
}

// c08Queries are the plain gRPC queries: every method of x/evm, x/feemarket, x/cpc and x/vauth with in-range and
// out-of-range arguments. MustOK: answers successfully in every explored state.
type c08Query struct {
	Name   string
	Path   string
	Req    func(e *c08Env) interface{ Marshal() ([]byte, error) }
	Raw    []byte
	MustOK bool
}

type c08RawMsg []byte

func (r c08RawMsg) Marshal() ([]byte, error) { return r, nil }

const (
	c08EvmQ  = "/ethermint.evm.v1.Query/"
	c08FeeQ  = "/ethermint.feemarket.v1.Query/"
	c08CpcQ  = "/evermint.cpc.v1.Query/"
	c08VautQ = "/evermint.vauth.v1.Query/"
)

func c08QueryTable() []c08Query {
	type m = interface{ Marshal() ([]byte, error) }
	q := func(name, path string, mustOK bool, f func(e *c08Env) m) c08Query {
		return c08Query{Name: name, Path: path, Req: f, MustOK: mustOK}
	}
	garbage := c08RawMsg{0xff, 0xff, 0xff, 0x01}
	return []c08Query{
		q("evm.Account/wallet", c08EvmQ+"Account", true, func(e *c08Env) m { return &evmtypes.QueryAccountRequest{Address: e.w.Wallets[0].Eth().Hex()} }),
		q("evm.Account/contract", c08EvmQ+"Account", true, func(e *c08Env) m { return &evmtypes.QueryAccountRequest{Address: AddrSclear.Hex()} }),
		q("evm.Account/absent", c08EvmQ+"Account", true, func(e *c08Env) m {
			return &evmtypes.QueryAccountRequest{Address: common.HexToAddress("0x00000000000000000000000000000000000dead1").Hex()}
		}),
		q("evm.Account/malformed", c08EvmQ+"Account", false, func(e *c08Env) m { return &evmtypes.QueryAccountRequest{Address: "0x12"} }),
		q("evm.Account/empty", c08EvmQ+"Account", false, func(e *c08Env) m { return &evmtypes.QueryAccountRequest{} }),
		q("evm.CosmosAccount/wallet", c08EvmQ+"CosmosAccount", true, func(e *c08Env) m { return &evmtypes.QueryCosmosAccountRequest{Address: e.w.Wallets[1].Eth().Hex()} }),
		q("evm.CosmosAccount/malformed", c08EvmQ+"CosmosAccount", false, func(e *c08Env) m { return &evmtypes.QueryCosmosAccountRequest{Address: "zz"} }),
		q("evm.ValidatorAccount/validator", c08EvmQ+"ValidatorAccount", true, func(e *c08Env) m {
			return &evmtypes.QueryValidatorAccountRequest{ConsAddress: e.w.Validators[0].Cons().String()}
		}),
		q("evm.ValidatorAccount/unknown", c08EvmQ+"ValidatorAccount", false, func(e *c08Env) m {
			return &evmtypes.QueryValidatorAccountRequest{ConsAddress: sdk.ConsAddress(e.w.Wallets[0].Acc()).String()}
		}),
		q("evm.ValidatorAccount/malformed", c08EvmQ+"ValidatorAccount", false, func(e *c08Env) m { return &evmtypes.QueryValidatorAccountRequest{ConsAddress: "nope"} }),
		q("evm.Balance/wallet", c08EvmQ+"Balance", true, func(e *c08Env) m { return &evmtypes.QueryBalanceRequest{Address: e.w.Wallets[0].Eth().Hex()} }),
		q("evm.Balance/suicide-contract", c08EvmQ+"Balance", true, func(e *c08Env) m { return &evmtypes.QueryBalanceRequest{Address: AddrSuicide.Hex()} }),
		q("evm.Balance/malformed", c08EvmQ+"Balance", false, func(e *c08Env) m { return &evmtypes.QueryBalanceRequest{Address: ""} }),
		q("evm.Storage/slot0-sclear", c08EvmQ+"Storage", true, func(e *c08Env) m { return &evmtypes.QueryStorageRequest{Address: AddrSclear.Hex(), Key: h(0).Hex()} }),
		q("evm.Storage/slot0-sstore", c08EvmQ+"Storage", true, func(e *c08Env) m { return &evmtypes.QueryStorageRequest{Address: AddrSstore.Hex(), Key: h(0).Hex()} }),
		q("evm.Storage/absent-slot", c08EvmQ+"Storage", true, func(e *c08Env) m { return &evmtypes.QueryStorageRequest{Address: AddrSclear.Hex(), Key: h(77).Hex()} }),
		q("evm.Storage/odd-key", c08EvmQ+"Storage", true, func(e *c08Env) m { return &evmtypes.QueryStorageRequest{Address: AddrSclear.Hex(), Key: "not-hex"} }),
		q("evm.Storage/malformed-address", c08EvmQ+"Storage", false, func(e *c08Env) m { return &evmtypes.QueryStorageRequest{Address: "0x", Key: h(0).Hex()} }),
		q("evm.Code/contract", c08EvmQ+"Code", true, func(e *c08Env) m { return &evmtypes.QueryCodeRequest{Address: AddrSuicide.Hex()} }),
		q("evm.Code/eoa", c08EvmQ+"Code", true, func(e *c08Env) m { return &evmtypes.QueryCodeRequest{Address: e.w.Wallets[0].Eth().Hex()} }),
		q("evm.Code/malformed", c08EvmQ+"Code", false, func(e *c08Env) m { return &evmtypes.QueryCodeRequest{Address: "0xzz"} }),
		q("evm.Params", c08EvmQ+"Params", true, func(e *c08Env) m { return &evmtypes.QueryParamsRequest{} }),
		q("evm.BaseFee", c08EvmQ+"BaseFee", true, func(e *c08Env) m { return &evmtypes.QueryBaseFeeRequest{} }),
		q("evm.Account/garbage-bytes", c08EvmQ+"Account", false, func(e *c08Env) m { return garbage }),
		q("evm.EthCall/garbage-bytes", c08EvmQ+"EthCall", false, func(e *c08Env) m { return garbage }),
		q("evm.EthCall/args-not-json", c08EvmQ+"EthCall", false, func(e *c08Env) m { return &evmtypes.EthCallRequest{Args: []byte("{"), GasCap: c08GasCap} }),
		q("evm.EthCall/both-fee-styles", c08EvmQ+"EthCall", false, func(e *c08Env) m {
			return &evmtypes.EthCallRequest{Args: []byte(`{"to":"` + AddrSstore.Hex() + `","gasPrice":"0x1","maxFeePerGas":"0x1"}`), GasCap: c08GasCap}
		}),
		q("evm.EthCall/no-sender-no-cap", c08EvmQ+"EthCall", true, func(e *c08Env) m {
			return &evmtypes.EthCallRequest{Args: []byte(`{"to":"` + AddrSstore.Hex() + `"}`)}
		}),
		q("evm.EthCall/fee-cap-below-base", c08EvmQ+"EthCall", false, func(e *c08Env) m {
			return &evmtypes.EthCallRequest{Args: []byte(`{"to":"` + AddrSstore.Hex() + `","gasPrice":"0x1"}`), GasCap: c08GasCap}
		}),
		q("evm.EthCall/from-absent-account-selfdestruct", c08EvmQ+"EthCall", true, func(e *c08Env) m {
			return &evmtypes.EthCallRequest{Args: []byte(`{"from":"0x00000000000000000000000000000000000dead2","to":"` + AddrSuicide.Hex() + `","gas":"0x186a0"}`), GasCap: c08GasCap}
		}),
		q("evm.EthCall/from-zero-create", c08EvmQ+"EthCall", true, func(e *c08Env) m {
			return &evmtypes.EthCallRequest{Args: []byte(`{"from":"0x0000000000000000000000000000000000000000","gas":"0x30d40","data":"0x` + hex.EncodeToString(createOKInit()) + `"}`), GasCap: c08GasCap}
		}),
		q("evm.EthCall/from-contract-sstore", c08EvmQ+"EthCall", true, func(e *c08Env) m {
			return &evmtypes.EthCallRequest{Args: []byte(`{"from":"` + AddrLog1.Hex() + `","to":"` + AddrSclear.Hex() + `","gas":"0x186a0"}`), GasCap: c08GasCap}
		}),
		q("evm.EthCall/value-above-balance", c08EvmQ+"EthCall", false, func(e *c08Env) m {
			return &evmtypes.EthCallRequest{Args: []byte(`{"from":"0x00000000000000000000000000000000000dead2","to":"` + AddrSink.Hex() + `","value":"0x5"}`), GasCap: c08GasCap}
		}),
		q("evm.EthCall/gas-cap-30000-sstore-clear", c08EvmQ+"EthCall", true, func(e *c08Env) m {
			return &evmtypes.EthCallRequest{Args: []byte(`{"from":"` + e.w.Wallets[c08WReq].Eth().Hex() + `","to":"` + AddrSclear.Hex() + `"}`), GasCap: 30000}
		}),
		q("evm.EthCall/dynamic-fee-fields", c08EvmQ+"EthCall", true, func(e *c08Env) m {
			return &evmtypes.EthCallRequest{Args: []byte(`{"from":"` + e.w.Wallets[c08WReq].Eth().Hex() + `","to":"` + AddrSstore.Hex() + `","gas":"0x186a0","maxFeePerGas":"0x174876e800","maxPriorityFeePerGas":"0x1"}`), GasCap: c08GasCap}
		}),
		q("evm.EstimateGas/from-absent-account-create", c08EvmQ+"EstimateGas", true, func(e *c08Env) m {
			return &evmtypes.EthCallRequest{Args: []byte(`{"from":"0x00000000000000000000000000000000000dead2","data":"0x` + hex.EncodeToString(createOKInit()) + `"}`), GasCap: c08GasCap}
		}),
		q("evm.EstimateGas/cap-below-21000", c08EvmQ+"EstimateGas", false, func(e *c08Env) m {
			return &evmtypes.EthCallRequest{Args: []byte(`{"to":"` + AddrSstore.Hex() + `"}`), GasCap: 20999}
		}),
		q("evm.EstimateGas/args-not-json", c08EvmQ+"EstimateGas", false, func(e *c08Env) m { return &evmtypes.EthCallRequest{Args: []byte("[1]"), GasCap: c08GasCap} }),
		q("evm.TraceTx/negative-limit", c08EvmQ+"TraceTx", false, func(e *c08Env) m {
			return &evmtypes.QueryTraceTxRequest{TraceConfig: &evmtypes.TraceConfig{Limit: -1}}
		}),
		q("evm.TraceBlock/no-txs", c08EvmQ+"TraceBlock", true, func(e *c08Env) m {
			return &evmtypes.QueryTraceBlockRequest{BlockNumber: 1, BlockHash: e.blockHashHex(1), BlockTime: e.w.BlockTime(1), ProposerAddress: e.w.Validators[0].Cons()}
		}),
		q("evm.Unknown-method", c08EvmQ+"DoesNotExist", false, func(e *c08Env) m { return &evmtypes.QueryParamsRequest{} }),
		q("feemarket.Params", c08FeeQ+"Params", true, func(e *c08Env) m { return &feemarkettypes.QueryParamsRequest{} }),
		q("feemarket.BaseFee", c08FeeQ+"BaseFee", true, func(e *c08Env) m { return &feemarkettypes.QueryBaseFeeRequest{} }),
		q("feemarket.Params/garbage-bytes", c08FeeQ+"Params", false, func(e *c08Env) m { return garbage }),
		q("cpc.Contracts/all", c08CpcQ+"CustomPrecompiledContracts", true, func(e *c08Env) m { return &cpctypes.QueryCustomPrecompiledContractsRequest{} }),
		q("cpc.Contracts/limit-1-count", c08CpcQ+"CustomPrecompiledContracts", true, func(e *c08Env) m {
			return &cpctypes.QueryCustomPrecompiledContractsRequest{Pagination: c08Page(0, 1, true, false, nil)}
		}),
		q("cpc.Contracts/offset-beyond", c08CpcQ+"CustomPrecompiledContracts", true, func(e *c08Env) m {
			return &cpctypes.QueryCustomPrecompiledContractsRequest{Pagination: c08Page(100, 5, false, false, nil)}
		}),
		q("cpc.Contracts/reverse", c08CpcQ+"CustomPrecompiledContracts", true, func(e *c08Env) m {
			return &cpctypes.QueryCustomPrecompiledContractsRequest{Pagination: c08Page(0, 2, false, true, nil)}
		}),
		q("cpc.Contracts/key-and-offset", c08CpcQ+"CustomPrecompiledContracts", false, func(e *c08Env) m {
			return &cpctypes.QueryCustomPrecompiledContractsRequest{Pagination: c08Page(1, 2, false, false, []byte{1})}
		}),
		q("cpc.Contract/erc20", c08CpcQ+"CustomPrecompiledContract", true, func(e *c08Env) m { return &cpctypes.QueryCustomPrecompiledContractRequest{Address: e.erc20.Hex()} }),
		q("cpc.Contract/staking", c08CpcQ+"CustomPrecompiledContract", true, func(e *c08Env) m {
			return &cpctypes.QueryCustomPrecompiledContractRequest{Address: cpctypes.CpcStakingFixedAddress.Hex()}
		}),
		q("cpc.Contract/unknown", c08CpcQ+"CustomPrecompiledContract", false, func(e *c08Env) m { return &cpctypes.QueryCustomPrecompiledContractRequest{Address: AddrSink.Hex()} }),
		q("cpc.Contract/malformed", c08CpcQ+"CustomPrecompiledContract", false, func(e *c08Env) m { return &cpctypes.QueryCustomPrecompiledContractRequest{Address: "xyz"} }),
		q("cpc.Erc20ByDenom/base", c08CpcQ+"Erc20CustomPrecompiledContractByDenom", true, func(e *c08Env) m {
			return &cpctypes.QueryErc20CustomPrecompiledContractByDenomRequest{MinDenom: world.Denom}
		}),
		q("cpc.Erc20ByDenom/none", c08CpcQ+"Erc20CustomPrecompiledContractByDenom", false, func(e *c08Env) m {
			return &cpctypes.QueryErc20CustomPrecompiledContractByDenomRequest{MinDenom: "utwo"}
		}),
		q("cpc.Erc20ByDenom/empty", c08CpcQ+"Erc20CustomPrecompiledContractByDenom", false, func(e *c08Env) m {
			return &cpctypes.QueryErc20CustomPrecompiledContractByDenomRequest{}
		}),
		q("cpc.Params", c08CpcQ+"Params", true, func(e *c08Env) m { return &cpctypes.QueryParamsRequest{} }),
		q("cpc.Contract/garbage-bytes", c08CpcQ+"CustomPrecompiledContract", false, func(e *c08Env) m { return garbage }),
		q("vauth.Proof/proved0-bech32", c08VautQ+"ProofExternalOwnedAccount", false, func(e *c08Env) m {
			return &vauthtypes.QueryProofExternalOwnedAccountRequest{Account: c08Proved(0).Bech()}
		}),
		q("vauth.Proof/proved0-hex", c08VautQ+"ProofExternalOwnedAccount", false, func(e *c08Env) m {
			return &vauthtypes.QueryProofExternalOwnedAccountRequest{Account: strings.ToLower(c08Proved(0).Eth().Hex())}
		}),
		q("vauth.Proof/never-proved", c08VautQ+"ProofExternalOwnedAccount", false, func(e *c08Env) m {
			return &vauthtypes.QueryProofExternalOwnedAccountRequest{Account: e.w.Wallets[c08WCheck].Bech()}
		}),
		q("vauth.Proof/empty", c08VautQ+"ProofExternalOwnedAccount", false, func(e *c08Env) m { return &vauthtypes.QueryProofExternalOwnedAccountRequest{} }),
		q("vauth.Proof/malformed", c08VautQ+"ProofExternalOwnedAccount", false, func(e *c08Env) m {
			return &vauthtypes.QueryProofExternalOwnedAccountRequest{Account: "0x00"}
		}),
		q("vauth.Proof/garbage-bytes", c08VautQ+"ProofExternalOwnedAccount", false, func(e *c08Env) m { return garbage }),
	}
}

func c08Page(offset, limit uint64, count, reverse bool, key []byte) *query.PageRequest {
	return &query.PageRequest{Offset: offset, Limit: limit, CountTotal: count, Reverse: reverse, Key: key}
}

var c08Queries = c08QueryTable()

func c08QueryByName(n string) *c08Query {
	for i := range c08Queries {
		if c08Queries[i].Name == n {
			return &c08Queries[i]
		}
	}
	for i := range c08ProcQueries { // queries of the process-state pass (c08_proc.go)
		if c08ProcQueries[i].Name == n {
			return &c08ProcQueries[i]
		}
	}
	return nil
}

// c08TxKinds are the transactions offered to CheckTx / Simulate; Valid: must be admitted on a fresh check state.
var c08TxKinds = []struct {
	Kind  string
	Valid bool
}{
	{string(KTransfer), true}, {string(KSstore), true}, {string(KSclear), true}, {string(KCreateOK), true}, {string(KSuicide), true},
	{"erc20-transfer", true}, {"erc20-approve", true}, {"delegate", true}, {string(KLogRevert), true}, {string(KInvalid), true},
	{string(KOutOfGas), true}, {string(KCosmosSend), true}, {"proof", true},
	{string(KBadNonce), false}, {string(KIntrinsicLow), false}, {string(KValueTooHigh), false}, {"fee-below-base", false}, {"garbage", false},
}

func c08TxKindValid(k string) (valid, known bool) {
	for _, t := range c08TxKinds {
		if t.Kind == k {
			return t.Valid, true
		}
	}
	return false, false
}

// build resolves a request against the current state (height h = number of history blocks + 1).
func (e *c08Env) build(r c08Req) c08Built {
	w := e.w
	switch r.Kind {
	case "ethcall", "estimate":
		p := c08ProgByName(r.Name)
		if p == nil {
			return c08Built{NA: "unknown program"}
		}
		var price *big.Int
		if r.Price {
			price = e.base()
		}
		if r.Gwei != 0 {
			price = new(big.Int).Mul(big.NewInt(r.Gwei), Gwei)
		}
		gas := e.shapeGas(r, p)
		if r.Kind == "estimate" && r.NoGas {
			gas = 0
		}
		req := &evmtypes.EthCallRequest{Args: e.shapeArgs(r, p, gas, price), GasCap: c08GasCap}
		bz, _ := req.Marshal()
		path := c08EvmQ + "EthCall"
		if r.Kind == "estimate" {
			path = c08EvmQ + "EstimateGas"
		}
		return c08Built{Path: path, Data: bz}
	case "tracetx", "traceblock":
		bi := r.Block
		if bi == -1 {
			bi = len(e.c.History)
		}
		if bi < 0 || bi >= len(e.blocks) {
			return c08Built{NA: "no such block"}
		}
		height := int64(bi + 2)
		txs := e.blocks[bi]
		msgs, at := e.ethMsgs(txs)
		cfg := &evmtypes.TraceConfig{Tracer: r.Tracer, Timeout: "1h"}
		switch r.Tracer {
		case "struct+memory":
			cfg.Tracer, cfg.EnableMemory, cfg.EnableReturnData = "", true, true
		case "struct-limit2":
			cfg.Tracer, cfg.Limit, cfg.DisableStack, cfg.DisableStorage = "", 2, true, true
		case "js-ops":
			cfg.Tracer = `{ops: [], step: function(log) { this.ops.push(log.op.toString()) }, fault: function() {}, result: function() { return this.ops }}`
		}
		if r.Kind == "traceblock" {
			if len(msgs) == 0 {
				return c08Built{NA: "block has no ethereum tx"}
			}
			req := &evmtypes.QueryTraceBlockRequest{Txs: msgs, TraceConfig: cfg, BlockNumber: height, BlockHash: e.blockHashHex(height),
				BlockTime: w.BlockTime(height), ProposerAddress: w.Validators[0].Cons()}
			bz, _ := req.Marshal()
			return c08Built{Path: c08EvmQ + "TraceBlock", Data: bz}
		}
		var msg *evmtypes.MsgEthereumTx
		var pred []*evmtypes.MsgEthereumTx
		for i, pos := range at {
			if pos < r.Tx {
				pred = append(pred, msgs[i])
			} else if pos == r.Tx {
				msg = msgs[i]
			}
		}
		if msg == nil {
			return c08Built{NA: "no ethereum tx at that position"}
		}
		req := &evmtypes.QueryTraceTxRequest{Msg: msg, Predecessors: pred, TraceConfig: cfg, BlockNumber: height, BlockHash: e.blockHashHex(height),
			BlockTime: w.BlockTime(height), ProposerAddress: w.Validators[0].Cons()}
		bz, _ := req.Marshal()
		return c08Built{Path: c08EvmQ + "TraceTx", Data: bz}
	case "grpc":
		q := c08QueryByName(r.Name)
		if q == nil {
			return c08Built{NA: "unknown query"}
		}
		bz, err := q.Req(e).Marshal()
		if err != nil {
			return c08Built{NA: "marshal: " + err.Error()}
		}
		return c08Built{Path: q.Path, Data: bz}
	case "checktx", "recheck", "simulate", "appsimulate":
		if _, known := c08TxKindValid(r.Name); !known {
			return c08Built{NA: "unknown tx kind"}
		}
		// nonce and base fee of the check state: what a wallet that follows the mempool would use (between FinalizeBlock and
		// Commit the check state may still hold the base fee it read before FinalizeBlock)
		cctx := w.App.NewContextLegacy(true, cmtproto.Header{})
		nonce := w.Nonce(cctx, w.Wallets[c08WCheck].Eth())
		return c08Built{Tx: e.tx(r.Name, c08WCheck, nonce, w.App.FeeMarketKeeper.GetBaseFee(cctx).BigInt())}
	}
	return c08Built{NA: "unknown request kind"}
}

// traceHeight is the query height tracing uses: the state at the beginning of the traced block.
func (e *c08Env) queryHeight(r c08Req, pin int64) int64 {
	if r.Kind == "tracetx" || r.Kind == "traceblock" {
		bi := r.Block
		if bi == -1 {
			bi = len(e.c.History)
		}
		ctxH := int64(bi+2) - 1
		if ctxH < 1 {
			ctxH = 1
		}
		return ctxH
	}
	return pin
}

// exec performs the request through the real entry point. height 0 = unpinned.
func (e *c08Env) exec(r c08Req, b c08Built, height int64) *c08Resp {
	w := e.w
	out := &c08Resp{}
	if b.NA != "" {
		out.NA = b.NA
		out.Class = "n/a"
		return out
	}
	switch r.Kind {
	case "ethcall", "estimate", "tracetx", "traceblock", "grpc":
		res, err := w.App.Query(context.Background(), &abci.RequestQuery{Path: b.Path, Data: b.Data, Height: height})
		if err != nil {
			out.Code, out.Log = 1<<31, "Query returned error: "+err.Error()
		} else {
			out.Code, out.Log, out.Value, out.Height = res.Code, res.Log, res.Value, res.Height
		}
		if out.Code != 0 {
			out.Canon = fmt.Sprintf("err code=%d log=%s", out.Code, out.Log)
			out.Class = "error"
			return out
		}
		switch b.Path {
		case c08EvmQ + "EthCall":
			var resp evmtypes.MsgEthereumTxResponse
			if err := resp.Unmarshal(out.Value); err != nil {
				out.Canon, out.Class = "undecodable response", "undecodable"
				return out
			}
			out.Eth, out.Receipt = &resp, resp.MarshalledReceipt
			out.Logs = c08LogsString(resp.MarshalledReceipt)
			out.Canon = fmt.Sprintf("ret=%x vmerr=%q gas=%d logs=%s", resp.Ret, resp.VmError, resp.GasUsed, out.Logs)
			out.Class = "ok"
			if resp.VmError != "" {
				out.Class = "vmerr:" + resp.VmError
			}
		case c08EvmQ + "EstimateGas":
			var resp evmtypes.EstimateGasResponse
			if err := resp.Unmarshal(out.Value); err != nil {
				out.Canon, out.Class = "undecodable response", "undecodable"
				return out
			}
			out.Gas = resp.Gas
			out.Canon = fmt.Sprintf("estimate=%d", resp.Gas)
			out.Class = "ok"
		default:
			out.Canon = fmt.Sprintf("value=%x", out.Value)
			out.Class = "ok"
		}
	case "checktx", "recheck":
		typ := abci.CheckTxType_New
		if r.Kind == "recheck" {
			typ = abci.CheckTxType_Recheck
		}
		res, err := w.App.CheckTx(&abci.RequestCheckTx{Tx: b.Tx, Type: typ})
		if err != nil {
			out.Code, out.Log = 1<<31, "CheckTx returned error: "+err.Error()
		} else {
			out.Code, out.Log = res.Code, res.Log
		}
		out.Class = "admitted"
		if out.Code != 0 {
			out.Class = "rejected"
		}
	case "simulate":
		_, res, err := w.App.Simulate(b.Tx)
		out.Class = "ok"
		if err != nil {
			out.Code, out.Log, out.Class = 1, err.Error(), "error"
		} else if res != nil {
			out.Value = res.Data
		}
	case "appsimulate":
		res, err := w.App.Query(context.Background(), &abci.RequestQuery{Path: "/app/simulate", Data: b.Tx})
		if err != nil {
			out.Code, out.Log = 1<<31, "Query returned error: "+err.Error()
		} else {
			out.Code, out.Log, out.Value = res.Code, res.Log, res.Value
		}
		out.Class = "ok"
		if out.Code != 0 {
			out.Class = "error"
		}
	}
	return out
}

// routed calls the gRPC handler the way BaseApp.handleQueryGRPC does, but keeps the query context so that the writes the
// handler left in it can be inspected.
func (e *c08Env) routed(b c08Built, height int64) (value []byte, failed bool, diff []world.DiffEntry, skipped bool) {
	handler := e.w.App.GRPCQueryRouter().Route(b.Path)
	if handler == nil {
		return nil, false, nil, true
	}
	if height == 0 {
		height = e.w.App.LastBlockHeight()
	}
	ctx, err := e.w.App.CreateQueryContext(height, false)
	if err != nil {
		return nil, true, nil, false
	}
	before := e.dumpMS(ctx.MultiStore(), true)
	func() {
		defer func() {
			if r := recover(); r != nil {
				failed = true
			}
		}()
		res, err := handler(ctx, &abci.RequestQuery{Path: b.Path, Data: b.Data, Height: height})
		if err != nil || res == nil {
			failed = true
			return
		}
		value = res.Value
	}()
	after := e.dumpMS(ctx.MultiStore(), true)
	return value, failed, world.Diff(before, after), false
}

// c08SigPendingFlag: between FinalizeBlock and Commit the query context shares the transient store with the pending block
// (rootmulti.CacheMultiStoreWithVersion passes non-IAVL stores through); the "sender paid the fee in the ante handler" flag
// left by the last Ethereum tx of the pending block makes ApplyMessageWithConfig refund (mint) unused gas to the senders of the
// predecessors that TraceTx / TraceBlock replay with commit=true, so a traced tx that observes such a balance answers differently.
const c08SigPendingFlag = "C08/trace-replay-refund-follows-pending-block-flag"

// explainedByPendingFlag is the defect-aware test: the deviating answer is reproduced byte for byte by the same handler on a
// query context at the same height (no block pending) in which nothing but that flag is set.
func (e *c08Env) explainedByPendingFlag(b c08Built, height int64, deviating []byte) (explained bool) {
	handler := e.w.App.GRPCQueryRouter().Route(b.Path)
	if handler == nil || b.NA != "" {
		return false
	}
	ctx, err := e.w.App.CreateQueryContext(height, false)
	if err != nil {
		return false
	}
	if e.w.App.EvmKeeper.IsSenderPaidTxFeeInAnteHandle(ctx) {
		return false // a block is pending: the counterfactual would not be one
	}
	e.w.App.EvmKeeper.SetFlagSenderPaidTxFeeInAnteHandle(ctx, true) // lands in the cache layer of this context only
	defer func() {
		if r := recover(); r != nil {
			explained = false
		}
	}()
	res, err := handler(ctx, &abci.RequestQuery{Path: b.Path, Data: b.Data, Height: height})
	return err == nil && res != nil && bytes.Equal(res.Value, deviating)
}

const (
	c08P0 = 0 // before FinalizeBlock(h+1)
	c08P1 = 1 // between FinalizeBlock(h+1) and Commit
	c08P2 = 2 // after Commit(h+1)
)

var c08PointName = []string{"before FinalizeBlock(h+1)", "between FinalizeBlock(h+1) and Commit", "after Commit(h+1)"}

// issue performs one request at one point with oracle (a) and (k) around it.
func (e *c08Env) issue(pt int, r c08Req, b c08Built, height int64) *c08Resp {
	where := fmt.Sprintf("%s %s (query height %d)", r, c08PointName[pt], height)
	s0 := e.snap()
	resp := e.exec(r, b, height)
	s1 := e.snap()
	e.obs.Requests++
	if resp.NA != "" {
		return resp
	}
	if d := world.Diff(s0.Root, s1.Root); len(d) > 0 {
		e.fail("request-leaves-root-stores-unchanged", "", "%s changed the root multistore: %s", where, c08DiffString(d))
	}
	if !bytes.Equal(s0.Commit.Hash, s1.Commit.Hash) || s0.Commit.Version != s1.Commit.Version || s0.Height != s1.Height {
		e.fail("request-leaves-last-commit-unchanged", "", "%s: LastCommitID %d/%x -> %d/%x", where, s0.Commit.Version, s0.Commit.Hash, s1.Commit.Version, s1.Commit.Hash)
	}
	cd := world.Diff(s0.Check, s1.Check)
	switch r.Kind {
	case "checktx", "recheck":
		e.checkTxOracle(where, r, b, resp, s0, s1, cd)
	default:
		if len(cd) > 0 {
			e.fail("query-and-simulation-leave-check-state-unchanged", "", "%s changed the check state: %s", where, c08DiffString(cd))
		}
	}
	if r.isQuery() {
		val, failed, diff, skipped := e.routed(b, height)
		if !skipped {
			if failed != (resp.Code != 0) || (!failed && !bytes.Equal(val, resp.Value)) {
				e.fail("harness-routing-faithful", "", "%s: routed handler call (failed=%v, %d bytes) differs from BaseApp.Query (code=%d, %d bytes)", where, failed, len(val), resp.Code, len(resp.Value))
			}
			if len(diff) > 0 && r.Kind != "tracetx" && r.Kind != "traceblock" {
				e.fail("handler-leaves-query-context-stores-unchanged", "", "%s: the handler wrote into the persistent stores of its query context: %s", where, c08DiffString(diff))
			}
			if len(diff) > 0 {
				e.obs.Info["handler_wrote_query_context:"+r.Kind]++
			}
		}
	}
	return resp
}

// checkTxOracle: mempool admission must not leak its trial execution into the check state. An admitted Ethereum tx changes
// exactly: the sender's account (sequence + 1) and bank balances (fee: sender -> fee collector); nothing in any other store.
func (e *c08Env) checkTxOracle(where string, r c08Req, b c08Built, resp *c08Resp, s0, s1 c08Snap, cd []world.DiffEntry) {
	w := e.w
	sender := w.Wallets[c08WCheck]
	isEth := decodeEth(w, b.Tx) != nil
	if !isEth {
		return
	}
	if resp.Code != 0 {
		return
	}
	for _, d := range cd {
		if strings.HasPrefix(d.Store, "transient:") {
			continue
		}
		if d.Store != authtypes.StoreKey && d.Store != banktypes.StoreKey {
			e.fail("admission-trial-execution-does-not-leak", "", "%s: check state changed outside auth/bank: %s", where, d.String())
			continue
		}
		if d.Store == authtypes.StoreKey && !bytes.Contains(d.Key, sender.Acc().Bytes()) {
			e.fail("admission-trial-execution-does-not-leak", "", "%s: check state changed an account other than the sender's: %s", where, d.String())
		}
		if d.Store == banktypes.StoreKey && !bytes.Contains(d.Key, sender.Acc().Bytes()) && !bytes.Contains(d.Key, authtypes.NewModuleAddress(authtypes.FeeCollectorName)) {
			e.fail("admission-trial-execution-does-not-leak", "", "%s: check state changed a bank entry of neither the sender nor the fee collector: %s", where, d.String())
		}
	}
	seq := func(dump c08Dump) (uint64, bool) {
		for _, kv := range dump[authtypes.StoreKey] {
			if bytes.Contains(kv[0], sender.Acc().Bytes()) && len(kv[0]) == 1+len(sender.Acc().Bytes()) {
				var acc sdk.AccountI
				if err := w.Enc.Codec.UnmarshalInterface(kv[1], &acc); err == nil {
					return acc.GetSequence(), true
				}
			}
		}
		return 0, false
	}
	n0, ok0 := seq(s0.Check)
	n1, ok1 := seq(s1.Check)
	if !ok0 || !ok1 {
		e.fail("alphabet-sanity", "", "%s: sender account not found in the check state dump", where)
		return
	}
	if n1 != n0+1 {
		e.fail("admission-trial-execution-does-not-leak", "", "%s: admitted tx moved the sender's check-state sequence %d -> %d (want +1)", where, n0, n1)
	}
}

// ---------------------------------------------------------------------------
// one case
// ---------------------------------------------------------------------------

func (e *c08Env) record(br *world.BlockResult) bool {
	if br.Panic != "" || br.Err != nil {
		e.vec = append(e.vec, fmt.Sprintf("PANIC=%q ERR=%v", br.Panic, br.Err))
		return false
	}
	var sb strings.Builder
	fmt.Fprintf(&sb, "h=%d apphash=%x commit=%x\n", br.Height, br.AppHash, br.CommitID.Hash)
	for i, r := range br.Res.TxResults {
		fmt.Fprintf(&sb, "tx%d code=%d cs=%s data=%x log=%s gw=%d gu=%d ev=%s\n", i, r.Code, r.Codespace, r.Data, r.Log, r.GasWanted, r.GasUsed, world.EventsString(r.Events))
	}
	fmt.Fprintf(&sb, "block-events=%s\nvalupdates=%v\n", world.EventsString(br.Res.Events), br.Res.ValidatorUpdates)
	e.vec = append(e.vec, sb.String())
	return true
}

// runHistory executes the history blocks; returns false when a block failed.
func (e *c08Env) runHistory() bool {
	w := e.w
	for _, blk := range e.c.History {
		base := e.base()
		var txs [][]byte
		for pos, k := range blk {
			txs = append(txs, e.tx(k, pos, w.Nonce(w.Ctx(), w.Wallets[pos].Eth()), base))
		}
		e.blocks = append(e.blocks, txs)
		br := w.Block(txs)
		if !e.record(br) {
			return false
		}
		if e.first == nil {
			e.first = br.Res.TxResults
		}
	}
	return true
}

// defaultNext is block h+1 when no call is delivered: two txs, three logs, storage writes — so that the transient
// bookkeeping of the pending block (tx count, log count, gas per tx, flags) is non-trivial between FinalizeBlock and Commit.
func (e *c08Env) defaultNext() [][]byte {
	w := e.w
	base := e.base()
	return [][]byte{
		e.tx(string(KLog2), c08WNext, w.Nonce(w.Ctx(), w.Wallets[c08WNext].Eth()), base),
		e.tx(string(KSclear), 2, w.Nonce(w.Ctx(), w.Wallets[2].Eth()), base),
	}
}

// deliveredNext is block h+1 when a call is delivered: the call is the next transaction on the state, a log-emitting tx follows.
func (e *c08Env) deliveredNext(call []byte) [][]byte {
	w := e.w
	return [][]byte{call, e.tx(string(KLog2), c08WNext, w.Nonce(w.Ctx(), w.Wallets[c08WNext].Eth()), e.base())}
}

func (e *c08Env) closing() [][]byte {
	w := e.w
	base := e.base()
	return [][]byte{
		e.tx(string(KLog2), c08WNext, w.Nonce(w.Ctx(), w.Wallets[c08WNext].Eth()), base),
		e.tx(string(KSstore), 2, w.Nonce(w.Ctx(), w.Wallets[2].Eth()), base),
		e.tx(string(KLog1), 1, w.Nonce(w.Ctx(), w.Wallets[1].Eth()), base),
	}
}

// c08Twin runs the same blocks without any request and returns the observation vector.
func c08Twin(c c08Case, next [][]byte) []string {
	obs := &c08Obs{Info: map[string]int{}}
	e := c08NewEnv(c, obs)
	if !e.runHistory() {
		return e.vec
	}
	if !e.record(e.w.Block(next)) {
		return e.vec
	}
	e.record(e.w.Block(e.closing()))
	return e.vec
}

func c08Run(c c08Case, twins map[string][]string) *c08Obs {
	if c.Proc != nil {
		return c08ProcRun(c)
	}
	obs := &c08Obs{Info: map[string]int{}}
	e := c08NewEnv(c, obs)
	w := e.w
	obs.Runs++
	if e.erc20 == (common.Address{}) {
		e.fail("alphabet-sanity", "", "no ERC-20 precompile for the base denom")
		return obs
	}
	emptyHistory := len(c.History) == 0
	if !e.runHistory() {
		e.fail("alphabet-sanity", "", "history block failed: %s", e.vec[len(e.vec)-1])
		return obs
	}
	// history sanity: in the first block every kind built to be executed is executed (code 0), the invalid ones are not
	if len(e.first) > 0 {
		for pos, k := range c.History[0] {
			wantOK := k != string(KBadNonce) && k != string(KIntrinsicLow) && k != string(KValueTooHigh)
			if got := e.first[pos].Code == 0; got != wantOK {
				e.fail("alphabet-sanity", "", "history tx %s: executed=%v, want %v (%s)", k, got, wantOK, e.first[pos].Log)
			}
		}
	}
	h := w.Height
	stateKey := fmt.Sprintf("%x", w.LastHash)

	built := make([]c08Built, len(c.Reqs))
	isBuilt := make([]bool, len(c.Reqs))
	resp := make([][3]*c08Resp, len(c.Reqs))
	var next [][]byte
	nextFor := -1 // index of the request whose call is delivered in block h+1
	fixNext := func() {
		if next != nil {
			return
		}
		for i, r := range c.Reqs {
			p := c08ProgByName(r.Name)
			if (r.Kind != "ethcall" && r.Kind != "estimate") || p == nil || !p.Predictive {
				continue
			}
			if r.Kind == "ethcall" {
				next, nextFor = e.deliveredNext(e.shapeTx(r, p, e.shapeGas(r, p))), i
			} else if resp[i][0] != nil && resp[i][0].Code == 0 && resp[i][0].Gas > 0 {
				next, nextFor = e.deliveredNext(e.shapeTx(r, p, resp[i][0].Gas)), i
			}
			break
		}
		if next == nil {
			next = e.defaultNext()
		}
		e.blocks = append(e.blocks, next)
	}
	resolve := func(i int, r c08Req) c08Built {
		if !r.isQuery() {
			return e.build(r) // transactions follow the check-state nonce
		}
		if !isBuilt[i] { // a query is built once, on the state at height h, and repeated byte for byte
			if (r.Kind == "tracetx" || r.Kind == "traceblock") && r.Block == -1 {
				fixNext()
			}
			built[i], isBuilt[i] = e.build(r), true
		}
		return built[i]
	}
	point := func(pt int) {
		obs.States = append(obs.States, fmt.Sprintf("%s/%d", stateKey, pt))
		for i, r := range c.Reqs {
			b := resolve(i, r)
			rp := e.issue(pt, r, b, e.queryHeight(r, h))
			resp[i][pt] = rp
			obs.Classes = append(obs.Classes, fmt.Sprintf("%s@%d=%s", r, pt, rp.Class))
			if os.Getenv("C08_VERBOSE") != "" {
				fmt.Printf("    %s @%d: code=%d log=%q %s\n", r, pt, rp.Code, rp.Log, c08Short(rp.Canon))
			}
			if !r.isQuery() || pt == c08P0 || rp.NA != "" || r.Kind == "tracetx" || r.Kind == "traceblock" {
				continue
			}
			// the unpinned variant: between FinalizeBlock and Commit "latest" is still h, after Commit it is h+1
			ru := e.issue(pt, r, b, 0)
			if pt == c08P1 && ru.Canon != rp.Canon {
				e.fail("response-depends-only-on-committed-state-and-request", "", "%s between FinalizeBlock(h+1) and Commit: the unpinned answer differs from the answer pinned to the last committed height %d: %s", r, h, c08Delta(ru.Canon, rp.Canon))
			}
		}
	}
	point(c08P0)
	fixNext()
	br := w.Block(next, world.BlockOpt{Between: func() { point(c08P1) }})
	if !e.record(br) {
		e.fail("block-executes", "", "block h+1 failed: %s", e.vec[len(e.vec)-1])
		return obs
	}
	if !bytes.Equal(br.AppHash, br.CommitID.Hash) {
		e.fail("commit-hash-equals-finalize-hash", "", "block h+1: FinalizeBlock returned AppHash %x, Commit produced %x", br.AppHash, br.CommitID.Hash)
	}
	point(c08P2)
	if !e.record(w.Block(e.closing())) {
		e.fail("block-executes", "", "closing block failed: %s", e.vec[len(e.vec)-1])
		return obs
	}

	// --- oracle (b): pinned answers identical at the three points ---------------------------------------------------
	for i, r := range c.Reqs {
		if !r.isQuery() || resp[i][0] == nil || resp[i][0].NA != "" {
			continue
		}
		for pt := 1; pt < 3; pt++ {
			if resp[i][pt] == nil {
				continue
			}
			if resp[i][pt].Canon != resp[i][0].Canon {
				sig := ""
				if pt == c08P1 && (r.Kind == "tracetx" || r.Kind == "traceblock") && resp[i][2] != nil && resp[i][2].Canon == resp[i][0].Canon &&
					e.explainedByPendingFlag(built[i], e.queryHeight(r, h), resp[i][1].Value) {
					sig = c08SigPendingFlag
				}
				e.fail("response-depends-only-on-committed-state-and-request", sig, "%s pinned to height %d: the answer %s differs from the answer %s: %s",
					r, e.queryHeight(r, h), c08PointName[pt], c08PointName[0], c08Delta(resp[i][pt].Canon, resp[i][0].Canon))
			} else if resp[i][0].Eth != nil && !bytes.Equal(resp[i][pt].Receipt, resp[i][0].Receipt) {
				// not a named field: the receipt inside an eth_call answer carries a cumulative gas used that is computed from
				// the transient store, which a query context shares with the pending block
				ra, rb := &ethtypes.Receipt{}, &ethtypes.Receipt{}
				what := "other"
				if ra.UnmarshalBinary(resp[i][0].Receipt) == nil && rb.UnmarshalBinary(resp[i][pt].Receipt) == nil && ra.CumulativeGasUsed != rb.CumulativeGasUsed {
					rb.CumulativeGasUsed = ra.CumulativeGasUsed
					if x, err := rb.MarshalBinary(); err == nil && bytes.Equal(x, resp[i][0].Receipt) {
						what = "only_cumulative_gas_used"
					}
				}
				obs.Info[fmt.Sprintf("info_ethcall_receipt_differs_at_point_%d_%s", pt, what)]++
			}
		}
	}

	// --- non-vacuity -------------------------------------------------------------------------------------------------
	for i, r := range c.Reqs {
		r0 := resp[i][0]
		if r0 == nil || r0.NA != "" {
			continue
		}
		switch r.Kind {
		case "ethcall":
			if p := c08ProgByName(r.Name); p != nil && emptyHistory && i == 0 && c08ShapeKeepsExpectation(r, p) {
				okWant := p.Expect == "ok"
				if r0.Eth == nil || (okWant && r0.Eth.VmError != "") || (!okWant && !strings.Contains(r0.Eth.VmError, p.Expect)) {
					e.fail("alphabet-sanity", "", "%s on the initial state: want %q, got code=%d log=%q class=%s", r, p.Expect, r0.Code, r0.Log, r0.Class)
				}
			}
		case "estimate":
			if p := c08ProgByName(r.Name); p != nil && emptyHistory && i == 0 && c08ShapeKeepsExpectation(r, p) {
				want := p.EstErr
				if want == "" && !r.NoGas {
					want = p.EstErrGas
				}
				if (want == "" && (r0.Code != 0 || r0.Gas < 21000)) || (want != "" && (r0.Code == 0 || !strings.Contains(r0.Log, want))) {
					e.fail("alphabet-sanity", "", "%s on the initial state: want error %q, got code=%d log=%q estimate=%d", r, want, r0.Code, r0.Log, r0.Gas)
				}
			}
		case "grpc":
			if q := c08QueryByName(r.Name); q != nil && q.MustOK && r0.Code != 0 {
				e.fail("alphabet-sanity", "", "%s must answer, got code=%d log=%q", r, r0.Code, r0.Log)
			}
		case "tracetx", "traceblock":
			executable := true // tracing a tx that consensus refused (nonce, intrinsic gas, funds) is refused as well
			if r.Kind == "tracetx" && r.Block >= 0 && r.Block < len(c.History) && r.Tx < len(c.History[r.Block]) {
				k := c.History[r.Block][r.Tx]
				executable = k != string(KBadNonce) && k != string(KIntrinsicLow) && k != string(KValueTooHigh)
			}
			if executable && r0.Code != 0 {
				e.fail("alphabet-sanity", "", "%s must answer, got code=%d log=%q", r, r0.Code, r0.Log)
			}
		case "checktx", "recheck", "simulate", "appsimulate":
			if valid, _ := c08TxKindValid(r.Name); i == 0 && valid != (r0.Code == 0) {
				e.fail("alphabet-sanity", "", "%s: valid=%v but code=%d log=%q", r, valid, r0.Code, r0.Log)
			}
		}
	}

	// --- oracle (c): prediction ---------------------------------------------------------------------------------------
	if nextFor >= 0 {
		e.predict(c.Reqs[nextFor], resp[nextFor][0], br.Res.TxResults[0])
	}

	// --- twin run -----------------------------------------------------------------------------------------------------
	hk, _ := json.Marshal(c.History)
	key := string(hk) + "|" + c08Hash(next)
	twin, ok := twins[key]
	if !ok {
		twin = c08Twin(c, next)
		twins[key] = twin
		obs.Runs++
	}
	if d := c08VecDiff(twin, e.vec); d != "" {
		e.fail("run-with-requests-equals-run-without", "", "blocks (history, h+1, closing): %s", d)
	}
	sg := sha256.New()
	for _, c := range obs.Classes {
		sg.Write([]byte(c))
	}
	for i := range resp {
		for pt := 0; pt < 3; pt++ {
			if resp[i][pt] != nil {
				fmt.Fprintf(sg, "|%d|%s|%s|%x", resp[i][pt].Code, resp[i][pt].Log, resp[i][pt].Canon, resp[i][pt].Value)
			}
		}
	}
	for _, v := range e.vec {
		sg.Write([]byte(v))
	}
	for _, f := range obs.Findings {
		sg.Write([]byte(f.Clause + f.Detail))
	}
	obs.Sig = hex.EncodeToString(sg.Sum(nil))
	return obs
}

// predict is oracle (c): r0 is the answer before FinalizeBlock(h+1), txr the result of the same call delivered as the only
// transaction of block h+1 (for estimateGas: with the estimate as gas limit).
func (e *c08Env) predict(r c08Req, r0 *c08Resp, txr *abci.ExecTxResult) {
	p := c08ProgByName(r.Name)
	dr := e.w.EthResponse(txr)
	if r.Kind == "ethcall" {
		if dr == nil {
			e.fail("alphabet-sanity", "", "%s: the delivered call was not executed: code=%d log=%q", r, txr.Code, txr.Log)
			return
		}
		if r0 == nil || r0.Eth == nil {
			e.fail("alphabet-sanity", "", "%s: eth_call of a well-formed call was refused: %+v", r, r0)
			return
		}
		dl := c08LogsString(dr.MarshalledReceipt)
		if dr.VmError != r0.Eth.VmError {
			e.fail("eth-call-predicts-vm-error", "", "%s: eth_call ended with vm error %q, the same call delivered as the next transaction with vm error %q", r, r0.Eth.VmError, dr.VmError)
		}
		if !bytes.Equal(dr.Ret, r0.Eth.Ret) {
			e.fail("eth-call-predicts-return-data", "", "%s: eth_call returned %x (vm error %q), the same call delivered as the next transaction returned %x (vm error %q)", r, r0.Eth.Ret, r0.Eth.VmError, dr.Ret, dr.VmError)
		}
		if dl != r0.Logs {
			e.fail("eth-call-predicts-logs", "", "%s: eth_call logs [%s], delivered logs [%s]", r, r0.Logs, dl)
		}
		if dr.GasUsed != r0.Eth.GasUsed {
			e.fail("eth-call-predicts-gas-used", "", "%s: eth_call gas used %d, delivered with the same gas limit %d: %d (vm errors %q / %q)", r, r0.Eth.GasUsed, e.shapeGas(r, p), dr.GasUsed, r0.Eth.VmError, dr.VmError)
		}
		e.obs.Info["predictions_checked"]++
		e.shapeCount(r, "prediction", r0.Eth.VmError)
		return
	}
	if dr == nil {
		e.fail("estimate-is-a-sufficient-gas-limit", "", "%s: estimate %d; the call delivered with that gas limit was not executed: code=%d log=%q", r, r0.Gas, txr.Code, txr.Log)
		return
	}
	if strings.Contains(dr.VmError, "out of gas") {
		e.fail("estimate-is-a-sufficient-gas-limit", "", "%s: estimate %d; delivered with that gas limit the call ran out of gas (gas used %d)", r, r0.Gas, dr.GasUsed)
	} else if dr.VmError != "" {
		e.fail("estimated-call-executes", "", "%s: estimate %d; delivered with that gas limit the call failed: %s", r, r0.Gas, dr.VmError)
	}
	e.obs.Info["estimates_delivered"]++
	e.shapeCount(r, "estimate_delivered", dr.VmError)
}

// c08Delta renders two answers around their first difference (trace data is shown as text).
func c08Delta(a, b string) string {
	dec := func(s string) string {
		if strings.HasPrefix(s, "value=") {
			if bz, err := hex.DecodeString(s[6:]); err == nil {
				return "value≈" + strings.Map(func(r rune) rune {
					if r < 32 || r > 126 {
						return '.'
					}
					return r
				}, string(bz))
			}
		}
		return s
	}
	a, b = dec(a), dec(b)
	k := 0
	for k < len(a) && k < len(b) && a[k] == b[k] {
		k++
	}
	cut := func(s string) string {
		lo, hi := k-70, k+70
		if lo < 0 {
			lo = 0
		}
		if hi > len(s) {
			hi = len(s)
		}
		return "…" + s[lo:hi] + "…"
	}
	return fmt.Sprintf("%s vs %s (first difference at offset %d)", cut(a), cut(b), k)
}

func c08Short(s string) string {
	if len(s) > 300 {
		return s[:150] + "…" + s[len(s)-120:]
	}
	return s
}

func c08Hash(txs [][]byte) string {
	hh := sha256.New()
	for _, t := range txs {
		fmt.Fprintf(hh, "%d:", len(t))
		hh.Write(t)
	}
	return hex.EncodeToString(hh.Sum(nil)[:12])
}

func c08VecDiff(a, b []string) string {
	if len(a) != len(b) {
		return fmt.Sprintf("number of executed blocks differs: %d without requests, %d with", len(a), len(b))
	}
	for i := range a {
		if a[i] == b[i] {
			continue
		}
		la, lb := strings.Split(a[i], "\n"), strings.Split(b[i], "\n")
		for j := 0; j < len(la) && j < len(lb); j++ {
			if la[j] != lb[j] {
				x, y := la[j], lb[j]
				k := 0
				for k < len(x) && k < len(y) && x[k] == y[k] {
					k++
				}
				lo := k - 60
				if lo < 0 {
					lo = 0
				}
				cut := func(s string) string {
					hi := k + 100
					if hi > len(s) {
						hi = len(s)
					}
					return s[lo:hi]
				}
				return fmt.Sprintf("block %d line %d: without requests …%s… with requests …%s…", i, j, cut(x), cut(y))
			}
		}
		return fmt.Sprintf("block %d differs", i)
	}
	return ""
}

// ---------------------------------------------------------------------------
// enumeration
// ---------------------------------------------------------------------------

func c08Histories(thorough bool) [][][]string {
	k := func(s ...string) []string { return s }
	out := [][][]string{{}}
	quick1 := []string{string(KSstore), string(KSclear), string(KSuicide), string(KCreateOK), "erc20-transfer", "erc20-approve", "delegate", "proof"}
	one := append(append([]string{}, quick1...), string(KLog2), string(KCosmosSend), string(KLogRevert), string(KBadNonce))
	if thorough {
		one = c08HistoryKinds
	}
	for _, a := range one {
		out = append(out, [][]string{k(a)})
	}
	// several txs in a block, two blocks
	out = append(out,
		[][]string{k(string(KSstore), string(KSclear), string(KLog2))},
		[][]string{k(string(KSuicide), string(KBadNonce), string(KCosmosSend))},
		[][]string{k("proof", "erc20-approve", "delegate")},
		[][]string{k(string(KSstore)), k(string(KSclear))},
		[][]string{k(string(KSuicide)), k(string(KCreateOK), string(KLogRevert))},
		[][]string{k("delegate"), k("erc20-transfer", "proof")},
		[][]string{k(string(KSstore), "balance-of-w0")},
	)
	if thorough {
		two := quick1
		for _, a := range two {
			for _, b := range two {
				out = append(out, [][]string{k(a), k(b)})
				out = append(out, [][]string{k(a, b)})
			}
		}
	}
	// dedupe
	seen := map[string]bool{}
	var uniq [][][]string
	for _, hst := range out {
		bz, _ := json.Marshal(hst)
		if !seen[string(bz)] {
			seen[string(bz)] = true
			uniq = append(uniq, hst)
		}
	}
	return uniq
}

// c08Singles is the request alphabet that does not depend on the history.
func c08Singles(thorough bool) []c08Req {
	var out []c08Req
	for _, p := range c08Programs {
		out = append(out, c08Req{Kind: "ethcall", Name: p.Name})
		if p.Name != "gas-branch-cheap" && p.Name != "gas-branch-starved" { // same request as gas-branch-rich
			out = append(out, c08Req{Kind: "estimate", Name: p.Name, NoGas: true})
		}
		if thorough || strings.HasPrefix(p.Name, "gas-branch") || p.Name == "chain-63-64" || p.Name == "sstore-clear-refund" || p.Name == "out-of-gas" {
			out = append(out, c08Req{Kind: "estimate", Name: p.Name})
		}
		if thorough || p.Name == "sstore-set" || p.Name == "create" || p.Name == "erc20-transfer" || p.Name == "sender-balance" {
			out = append(out, c08Req{Kind: "ethcall", Name: p.Name, Price: true})
		}
		if thorough && p.Name != "gas-branch-cheap" && p.Name != "gas-branch-starved" {
			out = append(out, c08Req{Kind: "estimate", Name: p.Name, NoGas: true, Price: true})
		}
	}
	for _, q := range c08Queries {
		out = append(out, c08Req{Kind: "grpc", Name: q.Name})
	}
	for _, t := range c08TxKinds {
		out = append(out, c08Req{Kind: "checktx", Name: t.Kind})
		out = append(out, c08Req{Kind: "recheck", Name: t.Kind})
	}
	for _, t := range []string{string(KSstore), string(KCreateOK), string(KSuicide), "erc20-transfer", "delegate", string(KCosmosSend), "proof", string(KBadNonce), "garbage"} {
		out = append(out, c08Req{Kind: "simulate", Name: t})
		out = append(out, c08Req{Kind: "appsimulate", Name: t})
	}
	return out
}

// c08Traces are the tracing requests a history admits: every tx of its last block and of block h+1, the blocks themselves.
func c08Traces(hst [][]string, thorough bool) []c08Req {
	var out []c08Req
	tracers := []string{"", "callTracer"}
	if thorough {
		tracers = append(tracers, "prestateTracer", "struct+memory", "struct-limit2", "js-ops")
	}
	blocks := []int{-1}
	if len(hst) > 0 {
		blocks = append(blocks, len(hst)-1)
		if thorough && len(hst) > 1 {
			blocks = append(blocks, 0)
		}
	}
	for _, b := range blocks {
		n := 2 // block h+1 has two txs
		if b >= 0 {
			n = len(hst[b])
		}
		for _, tr := range tracers {
			for t := 0; t < n; t++ {
				out = append(out, c08Req{Kind: "tracetx", Block: b, Tx: t, Tracer: tr})
			}
			out = append(out, c08Req{Kind: "traceblock", Block: b, Tracer: tr})
		}
	}
	return out
}

// c08PairAlphabet: requests combined into ordered pairs (2 requests per point).
func c08PairAlphabet(thorough bool) []c08Req {
	out := []c08Req{
		{Kind: "ethcall", Name: "sstore-clear-refund"},
		{Kind: "estimate", Name: "sstore-clear-refund", NoGas: true},
		{Kind: "ethcall", Name: "selfdestruct"},
		{Kind: "checktx", Name: string(KSclear)},
		{Kind: "checktx", Name: string(KSuicide)},
		{Kind: "simulate", Name: string(KSstore)},
		{Kind: "grpc", Name: "evm.Storage/slot0-sclear"},
		{Kind: "traceblock", Block: -1},
	}
	if thorough {
		out = append(out,
			c08Req{Kind: "ethcall", Name: "staking-delegate"},
			c08Req{Kind: "estimate", Name: "gas-branch-rich", NoGas: true},
			c08Req{Kind: "ethcall", Name: "create", Price: true},
			c08Req{Kind: "recheck", Name: "erc20-transfer"},
			c08Req{Kind: "checktx", Name: "delegate"},
			c08Req{Kind: "appsimulate", Name: string(KCreateOK)},
			c08Req{Kind: "grpc", Name: "cpc.Contracts/all"},
			c08Req{Kind: "tracetx", Block: -1, Tx: 0, Tracer: "callTracer"},
		)
	}
	return out
}

func c08Cases(thorough bool) []c08Case {
	var cases []c08Case
	hs := c08Histories(thorough)
	singles := c08Singles(thorough)
	pairs := c08PairAlphabet(thorough)
	for hi, hst := range hs {
		for _, r := range singles {
			cases = append(cases, c08Case{History: hst, Reqs: []c08Req{r}})
		}
		for _, r := range c08Traces(hst, thorough) {
			cases = append(cases, c08Case{History: hst, Reqs: []c08Req{r}})
		}
		// the request-argument shape dimension of the prediction oracles (c08_shape.go): on the state without history; thorough
		// repeats the quick selection after a block that has written the slots the storage programs use
		if len(hst) == 0 {
			for _, r := range c08ShapeReqs(thorough) {
				cases = append(cases, c08Case{History: hst, Reqs: []c08Req{r}})
			}
		} else if thorough && len(hst) == 1 && len(hst[0]) == 3 && hst[0][0] == string(KSstore) {
			for _, r := range c08ShapeReqs(false) {
				cases = append(cases, c08Case{History: hst, Reqs: []c08Req{r}})
			}
		}
		// pairs: all ordered pairs over the pair alphabet. Quick: 8-request alphabet on every third history; thorough: the
		// 16-request alphabet on histories with 0, 1 or >= 3 txs, the 8-request one on the (many) histories with exactly 2 txs
		pa := pairs
		if thorough {
			n := 0
			for _, b := range hst {
				n += len(b)
			}
			if n == 2 {
				pa = c08PairAlphabet(false)
			}
		} else if hi%3 != 0 {
			pa = nil
		}
		for _, a := range pa {
			for _, b := range pa {
				cases = append(cases, c08Case{History: hst, Reqs: []c08Req{a, b}})
			}
		}
	}
	return cases
}

func runC08(replay string) int {
	run := ev.NewRun("C08", "model_checking")
	run.Assumptions = []string{
		"requests are issued sequentially: main pass at three points around block h+1 (before FinalizeBlock, between FinalizeBlock and Commit, after Commit), process-state pass at one point before / inside / after one of the blocks that follow the pre block; requests running concurrently with FinalizeBlock are not explored",
		"main pass: queries look at the last committed height h (pinned or unpinned), tracing at the height before the traced block; older heights (states that do not contain yet what a later block creates) are the process-state pass's dimension",
		"process-state pass: one request per run, compared with a twin run on a fresh application; the harness reads the application (keeper getters for the ERC-20 precompile address and the three parameter sets) only before the history starts, block transactions are state independent (own nonce counters, flat gas price of 20 gwei, addresses computed offline), so the request is the only difference between the two runs; governance events rely on the world's genesis (voting period 30 min < block interval 1 h, every validator votes yes in the submission block)",
		"process-state pass, oracle (d3): the reference answer for (request bytes, height) is taken from the twin after all blocks and after the whole query alphabet was served at every height; Simulate / CheckTx answers have no reference (they are a function of the check state) and are only compared between run and twin at the end",
		"requests enter through BaseApp.Query (gRPC paths, /app/simulate), BaseApp.CheckTx (New / Recheck) and BaseApp.Simulate of the real application; the JSON-RPC layer in front of them is not part of the check",
		"oracle (b) compares Ret, VmError, GasUsed, logs (address, topics, data), the estimate, trace data and gRPC values; the cumulative gas used inside the marshalled receipt of an eth_call response is not compared (counted as info_*)",
		"oracle (c) applies to programs marked as reading neither block context nor the sender's balance; call and delivered tx use the same sender, to, data, value and explicit gas limit; the block proposer is the same validator in every block",
		"oracle (c), shaped requests: the delivered twin is the transaction of the type the request's fields select (legacy: no access list, no 1559 field; type 1: access list without 1559 field; type 2: maxFeePerGas with or without maxPriorityFeePerGas / access list) with the same access list, value, data, gas limit and fee fields; a request without fee fields is delivered at the base fee, maxFeePerGas alone as priority fee 0; the gas limit is the program's plus the intrinsic gas of the list; the nonce field, when given, is the sender's next nonce; data and input, when both given, hold the same bytes",
		"tracing requests carry an explicit 1h timeout so that the 5 s wall-clock default can never decide an answer",
		"clause handler-leaves-query-context-stores-unchanged is mechanism level (commit=false): BaseApp discards the query context anyway; TraceTx/TraceBlock replay predecessors into their context by design and are exempt",
	}
	if replay != "" {
		return replayCase(run, replay, func(raw json.RawMessage) []ev.Finding {
			var c c08Case
			if err := json.Unmarshal(raw, &c); err != nil {
				fmt.Fprintln(os.Stderr, err)
				os.Exit(2)
			}
			o := c08Run(c, map[string][]string{})
			for _, cl := range o.Classes {
				fmt.Println("  ", cl)
			}
			return o.Findings
		})
	}
	cases := c08Cases(run.Thorough())
	filter := os.Getenv("C08_FILTER") // debugging aid: only cases whose description contains the substring
	if filter != "" {
		var sel []c08Case
		for _, c := range cases {
			if strings.Contains(c.String(), filter) {
				sel = append(sel, c)
			}
		}
		cases = sel
	}
	nMain := len(cases)
	var procShard []int
	procCases, psh := c08ProcCases(run.Thorough(), Shards())
	for i, c := range procCases {
		if filter == "" || strings.Contains(c.String(), filter) {
			cases = append(cases, c)
			procShard = append(procShard, psh[i])
		}
	}
	run.Sharded(Shards(), func(shard, n int) {
		twins := map[string][]string{}
		checked, checkedProc := 0, 0
		for i, c := range cases {
			// the cases of one history of the process-state pass go to the same few shards (one twin per history and process)
			if (i < nMain && i%n != shard) || (i >= nMain && procShard[i-nMain]%n != shard) {
				continue
			}
			o := c08Run(c, twins)
			if (i < nMain && checked < 3) || (i >= nMain && c.Proc.Req != nil && checkedProc < 2) { // determinism self-check on the first cases of every shard
				if i < nMain {
					checked++
				} else {
					checkedProc++
				}
				o2 := c08Run(c, map[string][]string{})
				if o2.Sig != o.Sig {
					fmt.Fprintf(os.Stderr, "HARNESS-NONDETERMINISM in C08 case %d: %s\n", i, c)
					os.Exit(2)
				}
			}
			run.Count("transitions", int64(o.Requests))
			run.Count("traces_validated_against_impl", int64(o.Runs))
			run.Count("cases", 1)
			for k, v := range o.Info {
				run.Count(k, int64(v))
			}
			for _, s := range o.States {
				run.Distinct(s)
			}
			for _, cl := range o.Classes {
				// class without the point: kind:name=class
				at := strings.LastIndex(cl, "@")
				eq := strings.LastIndex(cl, "=")
				kind := cl[:at]
				shaped := strings.Contains(kind, "{fee=")
				if j := strings.IndexAny(kind, ":["); j >= 0 {
					kind = kind[:j]
				}
				if shaped {
					kind = "shaped-" + kind
				}
				run.Outcome(kind + "=" + cl[eq+1:])
			}
			if i%(len(cases)/4+1) == 0 {
				run.Sample(map[string]interface{}{"case": c, "classes": o.Classes})
			}
			for _, f := range o.Findings {
				run.Fail(f)
			}
		}
	})
	hs := c08Histories(run.Thorough())
	run.Coverage["states"] = run.NumDistinct()
	run.Coverage["transitions"] = int(run.Counter("transitions"))
	run.Coverage["traces_validated_against_impl"] = int(run.Counter("traces_validated_against_impl"))
	run.Coverage["evaluations"] = len(cases)
	run.Coverage["exhaustive"] = filter == ""
	if filter != "" {
		run.Note("C08_FILTER=%q: only %d cases executed", filter, len(cases))
	}
	run.Coverage["max_depth"] = map[bool]int{false: 5, true: 6}[run.Thorough()] // blocks after genesis in the longest history (process-state pass)
	var progs []string
	for _, p := range c08Programs {
		progs = append(progs, p.Name)
	}
	sort.Strings(progs)
	run.Coverage["rule"] = fmt.Sprintf("%d histories (none; one block with one tx of each of %d kinds; seven fixed multi-tx / two-block histories%s) × request lists: every single request of the alphabet "+
		"{eth_call and estimateGas (with / without gas argument, with / without gasPrice) of %d programs %v; %d plain gRPC queries covering every method of x/evm, x/feemarket, x/cpc, x/vauth with in-range, out-of-range and malformed arguments; "+
		"CheckTx New and Recheck of %d tx kinds (valid incl. state-changing and precompile calls, invalid); Simulate and /app/simulate of 9 kinds; TraceTx of every tx and TraceBlock of the last history block and of block h+1 with struct logger / callTracer%s} "+
		"and all ordered pairs over a %d-request pair alphabet (%s); the list is issued at 3 points around block h+1 (queries pinned to height h, plus unpinned after FinalizeBlock and after Commit); block h+1 is the delivered call for predictive programs, a fixed block otherwise; "+
		"every run is followed by a closing block and compared with its twin without requests; a state is (AppHash after the history, interleaving point). PLUS request-argument shapes of the prediction oracle on the history-free state%s: "+
		"%d shaped eth_call / estimateGas requests = %s of fee fields {none, gasPrice, maxFeePerGas+maxPriorityFeePerGas, maxFeePerGas} × accessList {absent, empty, 1 untouched address, 3 untouched addresses with 0/1/2 keys, callee with slots 0-3, sender+precompiles+zero address} × value {0, >0} × nonce {absent, given} × {data, input, both} (288 shapes), each delivered as the transaction of the matching type (legacy / type 1 / type 2) with the same list, fee fields and gas limit. PLUS "+c08PRule(run.Thorough())+"; there a state is (history, point, query height)",
		len(hs), map[bool]int{false: 12, true: len(c08HistoryKinds)}[run.Thorough()], map[bool]string{false: "", true: "; all one- and two-block combinations of 8 kinds"}[run.Thorough()],
		len(c08Programs), progs, len(c08Queries), len(c08TxKinds), map[bool]string{false: "", true: " / prestateTracer / struct logger with memory and return data / struct logger limited to 2 steps / a JavaScript tracer, also of the first history block"}[run.Thorough()],
		len(c08PairAlphabet(run.Thorough())), map[bool]string{false: "on every third history", true: "on histories with 0, 1 or >= 3 txs; the 8-request pair alphabet on histories with exactly 2 txs"}[run.Thorough()],
		map[bool]string{false: "", true: " (and the quick selection once more after the history [sstore, sclear, log2])"}[run.Thorough()], len(c08ShapeReqs(run.Thorough())),
		map[bool]string{false: "the full product for program chain-63-64, fee × list × value × nonce for sstore-set (no call data), fee × list × value for callvalue (whose return data, log and gas used depend on the value) and the product fee × list for the other predictive programs", true: "the full product for every predictive program, estimateGas with and without gas argument"}[run.Thorough()])
	return run.Finish()
}
