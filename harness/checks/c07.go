package checks

// C07 - dual-lane isolation. Exhaustive product of transaction shapes (message lists × envelope factors), each hand-assembled
// as protobuf and executed on a fresh app in Simulate, CheckTx(New), CheckTx(ReCheck) and FinalizeBlock; the oracle is the
// property's sentence transcribed into c07Reference (it decodes the bytes with the generated protobuf types only).

import (
	"encoding/hex"
	"encoding/json"
	"fmt"
	"math/big"
	"os"
	"sort"
	"strings"

	sdkmath "cosmossdk.io/math"
	"cosmossdk.io/x/feegrant"
	abci "github.com/cometbft/cometbft/abci/types"
	codectypes "github.com/cosmos/cosmos-sdk/codec/types"
	sdk "github.com/cosmos/cosmos-sdk/types"
	txtypes "github.com/cosmos/cosmos-sdk/types/tx"
	"github.com/cosmos/cosmos-sdk/types/tx/signing"
	vestingtypes "github.com/cosmos/cosmos-sdk/x/auth/vesting/types"
	"github.com/cosmos/cosmos-sdk/x/authz"
	banktypes "github.com/cosmos/cosmos-sdk/x/bank/types"
	"github.com/cosmos/gogoproto/proto"
	ethtypes "github.com/ethereum/go-ethereum/core/types"

	chainapp "github.com/EscanBE/evermint/v12/app"
	"github.com/EscanBE/evermint/v12/app/antedl"
	"github.com/EscanBE/evermint/v12/app/params"
	evertypes "github.com/EscanBE/evermint/v12/types"
	evmtypes "github.com/EscanBE/evermint/v12/x/evm/types"
	vauthtypes "github.com/EscanBE/evermint/v12/x/vauth/types"

	"verif/harness/ev"
	"verif/harness/world"
)

func init() { Registry["C07"] = runC07 }

// hooks of the optional second part (c07_gov.go); nil when that file is absent
var (
	c07ExtraCases  func(run *ev.Run, shard, n int)
	c07ExtraReplay func(raw json.RawMessage) ([]ev.Finding, bool)
	c07ExtraRule   string
	c07ExtraCount  int
)

// ---------------------------------------------------------------------------
// shapes
// ---------------------------------------------------------------------------

// c07Env is the envelope around the message list. The zero value of each field is the simplest level.
type c07Env struct {
	Ext     string `json:"ext"`         // none | eth | dyn | eth+dyn | eth+eth | unknown | nc-eth | nc-dyn | nc-unknown
	Sig     bool   `json:"sig"`         // one Cosmos signature (wallet 0, SIGN_MODE_DIRECT, valid for the final bytes)
	SI      bool   `json:"signer_info"` // one signer info (wallet 0's public key, current sequence)
	Payer   bool   `json:"payer"`       // fee payer = wallet 0 (the signer itself)
	Granter bool   `json:"granter"`     // fee granter = wallet 1 (holds a real unlimited fee allowance for wallet 0)
	Memo    bool   `json:"memo"`        // memo "x"
	Timeout bool   `json:"timeout"`     // timeout height 5 (all blocks of a case are below it)
	// MemoV (with Memo): another memo than "x": "sp" = " ", "nl" = "\n", "ws" = " \t \r\n ", "nul" = "\x00", "long" = 256 × "m"
	MemoV string `json:"memo_v,omitempty"`
	// TimeoutH (with Timeout): another timeout height than 5: "1" | "i63max" (2^63−1) | "2^63" | "2^63+1" | "u64max"
	TimeoutH string `json:"timeout_h,omitempty"`
	Fee     string `json:"fee"`         // eq | +1 | -1 | denom | extra (relative to the first top-level Ethereum msg) | cosmos (2e6 gas × base fee)
	Gas     string `json:"gas"`         // eq | +1 | -1 | cosmos (2 000 000)
}

// c07Shape is one transaction shape. Atoms of Msgs:
//
//	E, E2        MsgEthereumTx (signed 21000-gas transfer of wallet 0, next nonce; E legacy at the base fee, E2 dynamic-fee with cap 2×base fee, tip = base fee)
//	S            bank MsgSend of wallet 0
//	V1 V2 V3     MsgCreateVestingAccount / MsgCreatePeriodicVestingAccount / MsgCreatePermanentLockedAccount of wallet 0 to a proven address
//	X<d>:<in>    <in> ∈ {E,E2,S,V1,V2,V3,G:<t>} wrapped in d MsgExec (grantee wallet 0); X<d>:S sends from wallet 1, which granted MsgSend to wallet 0 at genesis
//	XW<d>:<in>   the same, every MsgExec level carrying [own MsgSend, next level]
//	G:<t>        MsgGrant (wallet 0 → wallet 3) of a GenericAuthorization for t ∈ {eth, V1, V2, V3, send}
type c07Shape struct {
	Msgs []string `json:"msgs"`
	Env  c07Env   `json:"env"`
}

func (s c07Shape) String() string {
	e := s.Env
	var f []string
	f = append(f, "ext="+e.Ext)
	for _, x := range []struct {
		on bool
		n  string
	}{{e.Sig, "sig"}, {e.SI, "signer-info"}, {e.Payer, "payer"}, {e.Granter, "granter"}, {e.Memo, "memo"}, {e.Timeout, "timeout"}} {
		if x.on {
			f = append(f, x.n)
		}
	}
	if e.TimeoutH != "" {
		f = append(f, "timeout-height="+e.TimeoutH)
	}
	if e.MemoV != "" {
		f = append(f, "memo-value="+e.MemoV)
	}
	f = append(f, "fee="+e.Fee, "gas="+e.Gas)
	return "[" + strings.Join(s.Msgs, ",") + "] {" + strings.Join(f, " ") + "}"
}

var (
	c07EthCanon    = c07Env{Ext: "eth", Fee: "eq", Gas: "eq"}
	c07CosmosCanon = c07Env{Ext: "none", Sig: true, SI: true, Fee: "cosmos", Gas: "cosmos"}
)

var c07Exts = []string{"none", "eth", "dyn", "eth+dyn", "eth+eth", "unknown", "nc-eth", "nc-dyn", "nc-unknown"}
var c07Fees = []string{"eq", "+1", "-1", "denom", "extra"}
var c07Gases = []string{"eq", "+1", "-1"}

const (
	c07EthURL     = "/ethermint.evm.v1.MsgEthereumTx"
	c07ExecURL    = "/cosmos.authz.v1beta1.MsgExec"
	c07GrantURL   = "/cosmos.authz.v1beta1.MsgGrant"
	c07GenericURL = "/cosmos.authz.v1beta1.GenericAuthorization"
	c07SendURL    = "/cosmos.bank.v1beta1.MsgSend"
	c07EthExtURL  = "/ethermint.evm.v1.ExtensionOptionsEthereumTx"
	c07UnknownURL = "/verif.c07.UnknownExtensionOption"
	c07CosmosGas  = uint64(2_000_000)
)

// c07Disabled is the property's list "Ethereum messages and the configured vesting-creation messages", written down here
// independently; c07ConfigDrift compares it with the configured list.
var c07Disabled = map[string]bool{
	c07EthURL: true,
	"/cosmos.vesting.v1beta1.MsgCreateVestingAccount":         true,
	"/cosmos.vesting.v1beta1.MsgCreatePeriodicVestingAccount": true,
	"/cosmos.vesting.v1beta1.MsgCreatePermanentLockedAccount": true,
}

func c07URLOf(t string) string {
	switch t {
	case "eth", "E":
		return c07EthURL
	case "send", "S":
		return c07SendURL
	case "V1":
		return "/cosmos.vesting.v1beta1.MsgCreateVestingAccount"
	case "V2":
		return "/cosmos.vesting.v1beta1.MsgCreatePeriodicVestingAccount"
	case "V3":
		return "/cosmos.vesting.v1beta1.MsgCreatePermanentLockedAccount"
	}
	panic("c07: type " + t)
}

func c07ConfigDrift() string {
	cfg := antedl.HandlerOptions{}.WithDefaultDisabledNestedMsgs().DisabledNestedMsgs
	var a, b []string
	for u := range c07Disabled {
		a = append(a, u)
	}
	b = append(b, cfg...)
	sort.Strings(a)
	sort.Strings(b)
	if strings.Join(a, ",") != strings.Join(b, ",") {
		return fmt.Sprintf("configured disabled nested messages %v differ from the list the check was written for %v", b, a)
	}
	return ""
}

// ---------------------------------------------------------------------------
// world and builder
// ---------------------------------------------------------------------------

type c07World struct {
	w       *world.World
	targets [3]*world.Acct
}

var c07Big = new(big.Int).Exp(big.NewInt(10), big.NewInt(22), nil)

func c07Any(m proto.Message) *codectypes.Any {
	a, err := codectypes.NewAnyWithValue(m)
	if err != nil {
		panic(err)
	}
	return a
}

// c07Setup: wallets 0..3 rich; genesis holds an authz grant wallet1 → wallet0 for MsgSend and a fee allowance wallet1 → wallet0;
// block 1 proves the three vesting targets to be EOAs (so that top-level vesting-creation messages are valid, C16).
func c07Setup() (*c07World, error) {
	cw := &c07World{targets: [3]*world.Acct{world.NewAcct("c07-t1"), world.NewAcct("c07-t2"), world.NewAcct("c07-t3")}}
	w0, w1 := world.NewAcct("wal1"), world.NewAcct("wal2")
	exp := world.BlockTime(100000)
	w := world.New(world.Config{NumValidators: 1, NumWallets: 4, WalletBalance: c07Big,
		GenesisMutator: func(enc params.EncodingConfig, gs chainapp.GenesisState) {
			ag := authz.GenesisState{Authorization: []authz.GrantAuthorization{{Granter: w1.Bech(), Grantee: w0.Bech(), Authorization: c07Any(authz.NewGenericAuthorization(c07SendURL)), Expiration: &exp}}}
			gs[authz.ModuleName] = enc.Codec.MustMarshalJSON(&ag)
			fg := feegrant.GenesisState{Allowances: []feegrant.Grant{{Granter: w1.Bech(), Grantee: w0.Bech(), Allowance: c07Any(&feegrant.BasicAllowance{})}}}
			gs[feegrant.ModuleName] = enc.Codec.MustMarshalJSON(&fg)
		}})
	cw.w = w
	if w.Wallets[0].Bech() != w0.Bech() || w.Wallets[1].Bech() != w1.Bech() {
		return nil, fmt.Errorf("wallet naming of package world changed")
	}
	sub := w.Wallets[2]
	accNum := uint64(len(w.Validators) + 2)
	fee := new(big.Int).Mul(big.NewInt(2_000_000), big.NewInt(1_000_000_000))
	var txs [][]byte
	for i, t := range cw.targets {
		msg := &vauthtypes.MsgSubmitProofExternalOwnedAccount{Submitter: sub.Bech(), Account: t.Bech(), Signature: "0x" + hex.EncodeToString(signMsg(t, vauthtypes.MessageToSign))}
		txs = append(txs, w.CosmosTx(sub, accNum, uint64(i), 2_000_000, fee, msg))
	}
	br := w.Block(txs)
	if br.Panic != "" || br.Err != nil {
		return nil, fmt.Errorf("setup block: panic=%q err=%v", br.Panic, br.Err)
	}
	for i, r := range br.Res.TxResults {
		if r.Code != 0 {
			return nil, fmt.Errorf("setup proof tx %d failed: %s", i, r.Log)
		}
	}
	return cw, nil
}

type c07Builder struct {
	cw    *c07World
	nonce uint64 // next Ethereum nonce to hand out (wallet 0)
	price *big.Int
}

func (b *c07Builder) leaf(t string) sdk.Msg {
	w := b.cw.w
	w0 := w.Wallets[0]
	coins := sdk.NewCoins(sdk.NewCoin(world.Denom, sdkmath.NewInt(1000)))
	switch t {
	case "E":
		to := AddrSink
		tx := w.SignEth(w0, &ethtypes.LegacyTx{Nonce: b.nonce, GasPrice: b.price, Gas: 21000, To: &to, Value: big.NewInt(3)})
		b.nonce++
		m := &evmtypes.MsgEthereumTx{}
		if err := m.FromEthereumTx(tx, w0.Eth()); err != nil {
			panic(err)
		}
		return m
	case "E2":
		to := AddrSink
		two := new(big.Int).Mul(b.price, big.NewInt(2))
		tx := w.SignEth(w0, &ethtypes.DynamicFeeTx{ChainID: big.NewInt(world.EvmChainID), Nonce: b.nonce, GasTipCap: b.price, GasFeeCap: two, Gas: 21000, To: &to, Value: big.NewInt(3)})
		b.nonce++
		m := &evmtypes.MsgEthereumTx{}
		if err := m.FromEthereumTx(tx, w0.Eth()); err != nil {
			panic(err)
		}
		return m
	case "S":
		return &banktypes.MsgSend{FromAddress: w0.Bech(), ToAddress: w.Wallets[3].Bech(), Amount: coins}
	case "S1": // send of wallet 1, executable by wallet 0 through the genesis grant
		return &banktypes.MsgSend{FromAddress: w.Wallets[1].Bech(), ToAddress: w.Wallets[3].Bech(), Amount: coins}
	case "V1":
		return &vestingtypes.MsgCreateVestingAccount{FromAddress: w0.Bech(), ToAddress: b.cw.targets[0].Bech(), Amount: coins, EndTime: world.BlockTime(100).Unix(), Delayed: true}
	case "V2":
		return &vestingtypes.MsgCreatePeriodicVestingAccount{FromAddress: w0.Bech(), ToAddress: b.cw.targets[1].Bech(), StartTime: world.BlockTime(1).Unix(), VestingPeriods: []vestingtypes.Period{{Length: 3600, Amount: coins}}}
	case "V3":
		return &vestingtypes.MsgCreatePermanentLockedAccount{FromAddress: w0.Bech(), ToAddress: b.cw.targets[2].Bech(), Amount: coins}
	}
	panic("c07: leaf " + t)
}

func (b *c07Builder) atom(a string) sdk.Msg {
	w := b.cw.w
	w0 := w.Wallets[0]
	switch {
	case strings.HasPrefix(a, "G:"):
		exp := world.BlockTime(100000)
		return &authz.MsgGrant{Granter: w0.Bech(), Grantee: w.Wallets[3].Bech(), Grant: authz.Grant{Authorization: c07Any(authz.NewGenericAuthorization(c07URLOf(a[2:]))), Expiration: &exp}}
	case strings.HasPrefix(a, "X"):
		wide := strings.HasPrefix(a, "XW")
		rest := strings.TrimPrefix(strings.TrimPrefix(a, "XW"), "X")
		parts := strings.SplitN(rest, ":", 2)
		var depth int
		if _, err := fmt.Sscanf(parts[0], "%d", &depth); err != nil || len(parts) != 2 || depth < 1 {
			panic("c07: atom " + a)
		}
		in := parts[1]
		if in == "S" {
			in = "S1"
		}
		var m sdk.Msg
		if strings.HasPrefix(in, "G:") {
			m = b.atom(in)
		} else {
			m = b.leaf(in)
		}
		for i := 0; i < depth; i++ {
			inner := []sdk.Msg{m}
			if wide {
				inner = []sdk.Msg{b.leaf("S"), m}
			}
			e := authz.NewMsgExec(w0.Acc(), inner)
			m = &e
		}
		return m
	}
	return b.leaf(a)
}

// c07Build produces the raw transaction bytes of a shape for the current sequence of wallet 0.
func c07Build(cw *c07World, s c07Shape, seq uint64) []byte {
	w := cw.w
	w0 := w.Wallets[0]
	price := big.NewInt(1_000_000_000)
	b := &c07Builder{cw: cw, nonce: seq, price: price}
	body := &txtypes.TxBody{}
	var firstEth *evmtypes.MsgEthereumTx
	for _, a := range s.Msgs {
		m := b.atom(a)
		if e, ok := m.(*evmtypes.MsgEthereumTx); ok && firstEth == nil {
			firstEth = e
		}
		body.Messages = append(body.Messages, c07Any(m))
	}
	ethExt := c07Any(&evmtypes.ExtensionOptionsEthereumTx{})
	dynExt := c07Any(&evertypes.ExtensionOptionDynamicFeeTx{MaxPriorityPrice: sdkmath.NewInt(1)})
	unk := &codectypes.Any{TypeUrl: c07UnknownURL, Value: []byte{0x08, 0x01}}
	switch s.Env.Ext {
	case "none":
	case "eth":
		body.ExtensionOptions = []*codectypes.Any{ethExt}
	case "dyn":
		body.ExtensionOptions = []*codectypes.Any{dynExt}
	case "eth+dyn":
		body.ExtensionOptions = []*codectypes.Any{ethExt, dynExt}
	case "eth+eth":
		body.ExtensionOptions = []*codectypes.Any{ethExt, ethExt}
	case "unknown":
		body.ExtensionOptions = []*codectypes.Any{unk}
	case "nc-eth":
		body.NonCriticalExtensionOptions = []*codectypes.Any{ethExt}
	case "nc-dyn":
		body.NonCriticalExtensionOptions = []*codectypes.Any{dynExt}
	case "nc-unknown":
		body.NonCriticalExtensionOptions = []*codectypes.Any{unk}
	default:
		panic("c07: ext " + s.Env.Ext)
	}
	if s.Env.Memo {
		body.Memo = "x"
		switch s.Env.MemoV {
		case "":
		case "sp":
			body.Memo = " "
		case "nl":
			body.Memo = "\n"
		case "ws":
			body.Memo = " \t \r\n "
		case "nul":
			body.Memo = "\x00"
		case "long":
			body.Memo = strings.Repeat("m", 256)
		default:
			panic("c07: memo_v " + s.Env.MemoV)
		}
	}
	if s.Env.Timeout {
		body.TimeoutHeight = 5
		switch s.Env.TimeoutH {
		case "":
		case "1":
			body.TimeoutHeight = 1
		case "i63max":
			body.TimeoutHeight = 1<<63 - 1
		case "2^63":
			body.TimeoutHeight = 1 << 63
		case "2^63+1":
			body.TimeoutHeight = 1<<63 + 1
		case "u64max":
			body.TimeoutHeight = 1<<64 - 1
		default:
			panic("c07: timeout_h " + s.Env.TimeoutH)
		}
	}
	// fee
	ethGas, ethFee := uint64(0), new(big.Int)
	if firstEth != nil {
		tx := firstEth.AsTransaction()
		ethGas = tx.Gas()
		p := tx.GasPrice()
		if tx.Type() == ethtypes.DynamicFeeTxType {
			p = tx.GasFeeCap()
		}
		ethFee = new(big.Int).Mul(p, new(big.Int).SetUint64(tx.Gas()))
	}
	fee := &txtypes.Fee{}
	feeMode, gasMode := s.Env.Fee, s.Env.Gas
	if firstEth == nil {
		feeMode, gasMode = "cosmos", "cosmos"
	}
	coin := func(d string, v *big.Int) sdk.Coin { return sdk.NewCoin(d, sdkmath.NewIntFromBigInt(v)) }
	switch feeMode {
	case "eq":
		fee.Amount = sdk.Coins{coin(world.Denom, ethFee)}
	case "+1":
		fee.Amount = sdk.Coins{coin(world.Denom, new(big.Int).Add(ethFee, big.NewInt(1)))}
	case "-1":
		fee.Amount = sdk.Coins{coin(world.Denom, new(big.Int).Sub(ethFee, big.NewInt(1)))}
	case "denom":
		fee.Amount = sdk.Coins{coin("utwo", ethFee)}
	case "extra":
		fee.Amount = sdk.NewCoins(coin(world.Denom, ethFee), coin("utwo", big.NewInt(1)))
	case "cosmos":
		fee.Amount = sdk.Coins{coin(world.Denom, new(big.Int).Mul(new(big.Int).SetUint64(c07CosmosGas), price))}
	default:
		panic("c07: fee " + feeMode)
	}
	switch gasMode {
	case "eq":
		fee.GasLimit = ethGas
	case "+1":
		fee.GasLimit = ethGas + 1
	case "-1":
		fee.GasLimit = ethGas - 1
	case "cosmos":
		fee.GasLimit = c07CosmosGas
	default:
		panic("c07: gas " + gasMode)
	}
	if s.Env.Payer {
		fee.Payer = w0.Bech()
	}
	if s.Env.Granter {
		fee.Granter = w.Wallets[1].Bech()
	}
	ai := &txtypes.AuthInfo{Fee: fee}
	if s.Env.SI {
		ai.SignerInfos = []*txtypes.SignerInfo{{
			PublicKey: c07Any(w0.Priv.PubKey()),
			ModeInfo:  &txtypes.ModeInfo{Sum: &txtypes.ModeInfo_Single_{Single: &txtypes.ModeInfo_Single{Mode: signing.SignMode_SIGN_MODE_DIRECT}}},
			Sequence:  seq,
		}}
	}
	bodyBz, err := proto.Marshal(body)
	if err != nil {
		panic(err)
	}
	aiBz, err := proto.Marshal(ai)
	if err != nil {
		panic(err)
	}
	raw := &txtypes.TxRaw{BodyBytes: bodyBz, AuthInfoBytes: aiBz}
	if s.Env.Sig {
		doc := &txtypes.SignDoc{BodyBytes: bodyBz, AuthInfoBytes: aiBz, ChainId: world.ChainID, AccountNumber: uint64(len(w.Validators))}
		docBz, err := proto.Marshal(doc)
		if err != nil {
			panic(err)
		}
		sig, err := w0.Priv.Sign(docBz)
		if err != nil {
			panic(err)
		}
		raw.Signatures = [][]byte{sig}
	}
	bz, err := proto.Marshal(raw)
	if err != nil {
		panic(err)
	}
	return bz
}

// ---------------------------------------------------------------------------
// reference predicate: the property's sentence over the decoded protobuf (no evermint code involved)
// ---------------------------------------------------------------------------

type c07Ref struct {
	EthTop         int      // top-level Ethereum messages
	EthOK          bool     // the Ethereum-lane acceptance conditions of the property all hold
	DisabledNested bool     // a disabled type inside MsgExec at any depth
	DisabledGrant  bool     // a MsgGrant of a generic authorisation for a disabled type (at any depth)
	Why            []string // which conditions fail
}

func (r c07Ref) mustReject() bool {
	return (r.EthTop > 0 && !r.EthOK) || r.DisabledNested || r.DisabledGrant
}

func (r c07Ref) class() string {
	var c []string
	switch {
	case r.EthTop > 0 && r.EthOK:
		c = append(c, "eth-ok")
	case r.EthTop > 0:
		c = append(c, "eth-bad")
	default:
		c = append(c, "cosmos")
	}
	if r.DisabledNested {
		c = append(c, "nested")
	}
	if r.DisabledGrant {
		c = append(c, "grant")
	}
	return strings.Join(c, "+")
}

func c07Reference(bz []byte) (ref c07Ref, err error) {
	var raw txtypes.TxRaw
	var body txtypes.TxBody
	var ai txtypes.AuthInfo
	if err = proto.Unmarshal(bz, &raw); err != nil {
		return
	}
	if err = proto.Unmarshal(raw.BodyBytes, &body); err != nil {
		return
	}
	if err = proto.Unmarshal(raw.AuthInfoBytes, &ai); err != nil {
		return
	}
	var walk func(a *codectypes.Any, depth int) error
	walk = func(a *codectypes.Any, depth int) error {
		switch a.TypeUrl {
		case c07ExecURL:
			var m authz.MsgExec
			if err := proto.Unmarshal(a.Value, &m); err != nil {
				return err
			}
			for _, in := range m.Msgs {
				if err := walk(in, depth+1); err != nil {
					return err
				}
			}
		case c07GrantURL:
			var g authz.MsgGrant
			if err := proto.Unmarshal(a.Value, &g); err != nil {
				return err
			}
			if au := g.Grant.Authorization; au != nil && au.TypeUrl == c07GenericURL {
				var ga authz.GenericAuthorization
				if err := proto.Unmarshal(au.Value, &ga); err != nil {
					return err
				}
				if c07Disabled[ga.Msg] {
					ref.DisabledGrant = true
				}
			}
		default:
			if depth > 0 && c07Disabled[a.TypeUrl] {
				ref.DisabledNested = true
			}
			if depth == 0 && a.TypeUrl == c07EthURL {
				ref.EthTop++
			}
		}
		return nil
	}
	for _, a := range body.Messages {
		if err = walk(a, 0); err != nil {
			return
		}
	}
	if ref.EthTop == 0 {
		return
	}
	no := func(c bool, why string) {
		if c {
			ref.Why = append(ref.Why, why)
		}
	}
	no(len(body.Messages) != 1, "not the sole message")
	no(len(raw.Signatures) != 0, "carries a Cosmos signature")
	no(len(ai.SignerInfos) != 0, "carries a signer info")
	no(ai.Fee != nil && ai.Fee.Payer != "", "fee payer set")
	no(ai.Fee != nil && ai.Fee.Granter != "", "fee granter set")
	no(body.Memo != "", "memo set")
	no(body.TimeoutHeight != 0, "timeout height set")
	for _, o := range append(append([]*codectypes.Any{}, body.ExtensionOptions...), body.NonCriticalExtensionOptions...) {
		no(o.TypeUrl != c07EthExtURL, "foreign extension option "+o.TypeUrl)
	}
	// fee and gas limit of the first embedded Ethereum transaction
	for _, a := range body.Messages {
		if a.TypeUrl != c07EthURL {
			continue
		}
		var m evmtypes.MsgEthereumTx
		if err = proto.Unmarshal(a.Value, &m); err != nil {
			return
		}
		var tx ethtypes.Transaction
		if err = tx.UnmarshalBinary(m.MarshalledTx); err != nil {
			return
		}
		price := tx.GasPrice()
		if tx.Type() == ethtypes.DynamicFeeTxType {
			price = tx.GasFeeCap()
		}
		want := new(big.Int).Mul(price, new(big.Int).SetUint64(tx.Gas()))
		feeOK := ai.Fee != nil && len(ai.Fee.Amount) == 1 && ai.Fee.Amount[0].Denom == world.Denom && ai.Fee.Amount[0].Amount.BigInt().Cmp(want) == 0
		if want.Sign() == 0 {
			feeOK = ai.Fee != nil && len(ai.Fee.Amount) == 0
		}
		no(!feeOK, "declared fee differs from the embedded transaction's")
		no(ai.Fee == nil || ai.Fee.GasLimit != tx.Gas(), "declared gas limit differs from the embedded transaction's")
		break
	}
	ref.EthOK = len(ref.Why) == 0
	return
}

// ---------------------------------------------------------------------------
// execution of one shape in the four modes
// ---------------------------------------------------------------------------

type c07Verdict struct {
	Ran      bool
	Accepted bool
	Code     string // codespace/code or "panic"
	Log      string
}

func (v c07Verdict) short() string {
	if !v.Ran {
		return "-"
	}
	if v.Accepted {
		return "ok"
	}
	return v.Code
}

type c07Obs struct {
	Findings []ev.Finding
	Ref      c07Ref
	Sim      c07Verdict
	Check    c07Verdict
	ReCheck  c07Verdict
	Deliver  c07Verdict
	Lane     string // which handler ran in FinalizeBlock: evm | cosmos | none | both
}

func (o c07Obs) outcome() string {
	return fmt.Sprintf("%s sim=%s check=%s recheck=%s deliver=%s lane=%s%s", o.Ref.class(), o.Sim.short(), o.Check.short(), o.ReCheck.short(), o.Deliver.short(), o.Lane, c07Tag(o.Deliver))
}

// c07Tag names the rule that refused the delivered tx (first clause of the log) - used for the outcome histogram only, never by the oracle.
func c07Tag(v c07Verdict) string {
	if !v.Ran || v.Accepted || v.Log == "" {
		return ""
	}
	t := v.Log
	if i := strings.IndexAny(t, ":(/"); i >= 0 {
		t = t[:i]
	}
	return " by=\"" + strings.TrimSpace(t) + "\""
}

var c07BaselineHash *[32]byte

// c07Baseline is the state (all stores except the fee market's) after the set-up block and two empty blocks.
func c07Baseline() [32]byte {
	if c07BaselineHash == nil {
		cw, err := c07Setup()
		if err != nil {
			panic(err)
		}
		cw.w.Block(nil)
		cw.w.Block(nil)
		h := cw.w.Hash(cw.w.Ctx(), "feemarket")
		c07BaselineHash = &h
	}
	return *c07BaselineHash
}

func c07Short(s string) string {
	s = strings.ReplaceAll(s, "\n", " ")
	if len(s) > 160 {
		s = s[:160] + "…"
	}
	return s
}

func c07Run(s c07Shape) (o c07Obs) {
	fail := func(clause, sig, detail string) {
		o.Findings = append(o.Findings, ev.Finding{Clause: clause, Signature: sig, Detail: s.String() + ": " + detail, Replay: s})
	}
	cw, err := c07Setup()
	if err != nil {
		fail("alphabet-sanity", "", "set-up failed: "+err.Error())
		return
	}
	w := cw.w
	seq := w.Nonce(w.Ctx(), w.Wallets[0].Eth())
	bz := c07Build(cw, s, seq)
	ref, err := c07Reference(bz)
	if err != nil {
		fail("alphabet-sanity", "", "reference could not decode the generated transaction: "+err.Error())
		return
	}
	o.Ref = ref

	trap := func(f func() (uint32, string, string)) (v c07Verdict) {
		v.Ran = true
		defer func() {
			if r := recover(); r != nil {
				v.Accepted, v.Code, v.Log = false, "panic", fmt.Sprint(r)
			}
		}()
		code, space, log := f()
		v.Accepted = code == 0
		v.Code = fmt.Sprintf("%s/%d", space, code)
		v.Log = c07Short(log)
		return v
	}
	// Simulate (never writes), CheckTx as a new tx, commit an empty block, re-check, deliver.
	o.Sim = trap(func() (uint32, string, string) {
		_, _, err := w.App.Simulate(bz)
		if err != nil {
			space, code, log := errorsABCI(err)
			return code, space, log
		}
		return 0, "", ""
	})
	o.Check = trap(func() (uint32, string, string) {
		r, err := w.App.CheckTx(&abci.RequestCheckTx{Tx: bz, Type: abci.CheckTxType_New})
		if err != nil {
			return 1, "abci-error", err.Error()
		}
		return r.Code, r.Codespace, r.Log
	})
	if br := w.Block(nil); br.Panic != "" || br.Err != nil {
		fail("block-executes", "", fmt.Sprintf("empty block: panic=%q err=%v", br.Panic, br.Err))
		return
	}
	if o.Check.Accepted {
		o.ReCheck = trap(func() (uint32, string, string) {
			r, err := w.App.CheckTx(&abci.RequestCheckTx{Tx: bz, Type: abci.CheckTxType_Recheck})
			if err != nil {
				return 1, "abci-error", err.Error()
			}
			return r.Code, r.Codespace, r.Log
		})
	}
	br := w.Block([][]byte{bz})
	if br.Panic != "" || br.Err != nil {
		fail("block-executes", "", fmt.Sprintf("panic=%q err=%v", br.Panic, br.Err))
		o.Deliver = c07Verdict{Ran: true, Code: "HALT"}
		return
	}
	r := br.Res.TxResults[0]
	o.Deliver = c07Verdict{Ran: true, Accepted: r.Code == 0, Code: fmt.Sprintf("%s/%d", r.Codespace, r.Code), Log: c07Short(r.Log)}

	// which handler ran
	nEthEv, nReceipt, ethAction, otherAction := 0, 0, 0, 0
	for _, e := range r.Events {
		switch e.Type {
		case evmtypes.EventTypeEthereumTx:
			nEthEv++
		case evmtypes.EventTypeTxReceipt:
			nReceipt++
		case "message":
			for _, a := range e.Attributes {
				if a.Key == "action" {
					if a.Value == c07EthURL {
						ethAction++
					} else {
						otherAction++
					}
				}
			}
		}
	}
	evmRan := nEthEv > 0 || nReceipt > 0 || ethAction > 0
	switch {
	case evmRan && otherAction > 0:
		o.Lane = "both"
	case evmRan:
		o.Lane = "evm"
	case otherAction > 0:
		o.Lane = "cosmos"
	default:
		o.Lane = "none"
	}
	evs := fmt.Sprintf("ethereum_tx events=%d tx_receipt events=%d message.action(MsgEthereumTx)=%d message.action(other)=%d", nEthEv, nReceipt, ethAction, otherAction)

	// (i) + (iii): what the property forbids must be refused in every mode
	for _, m := range []struct {
		name string
		v    c07Verdict
	}{{"Simulate", o.Sim}, {"CheckTx(New)", o.Check}, {"CheckTx(ReCheck)", o.ReCheck}, {"FinalizeBlock", o.Deliver}} {
		if !m.v.Ran || !m.v.Accepted {
			continue
		}
		if ref.EthTop > 0 && !ref.EthOK {
			fail("ethereum-msg-accepted-only-in-its-lane-shape", "", fmt.Sprintf("accepted in %s although: %s", m.name, strings.Join(ref.Why, "; ")))
		}
		if ref.DisabledNested {
			fail("disabled-msg-nested-in-exec-is-refused", "", "accepted in "+m.name)
		}
		if ref.DisabledGrant {
			fail("grant-for-disabled-msg-is-refused", "", "accepted in "+m.name)
		}
	}
	// (ii) one lane, the right one
	if o.Deliver.Accepted {
		if ref.EthTop > 0 {
			if nEthEv != 1 || nReceipt != 1 || otherAction != 0 {
				fail("delivered-tx-handled-by-exactly-its-lane", "", "Ethereum-lane tx delivered with "+evs)
			}
		} else if evmRan {
			fail("delivered-tx-handled-by-exactly-its-lane", "", "Cosmos-lane tx delivered with "+evs)
		}
	}
	// a tx the lane rules refuse leaves no trace
	if ref.mustReject() && w.Hash(w.Ctx(), "feemarket") != c07Baseline() {
		fail("lane-refused-tx-changes-no-state", "", fmt.Sprintf("deliver code=%s; state (all stores except the fee market's) differs from the same history with an empty block", o.Deliver.Code))
	}
	// alphabet sanity
	if sane, what := c07Sanity(s); sane {
		for _, m := range []struct {
			name string
			v    c07Verdict
		}{{"Simulate", o.Sim}, {"CheckTx(New)", o.Check}, {"CheckTx(ReCheck)", o.ReCheck}, {"FinalizeBlock", o.Deliver}} {
			if !m.v.Ran || !m.v.Accepted {
				fail("alphabet-sanity", "", fmt.Sprintf("%s refused in %s: %s %s", what, m.name, m.v.Code, m.v.Log))
			}
		}
		wantLane := "cosmos"
		if ref.EthTop > 0 {
			wantLane = "evm"
		}
		if o.Lane != wantLane {
			fail("alphabet-sanity", "", fmt.Sprintf("%s ran in lane %q: %s", what, o.Lane, evs))
		}
		if ref.mustReject() {
			fail("alphabet-sanity", "", what+" is refused by the reference predicate: "+strings.Join(ref.Why, "; "))
		}
	}
	return o
}

// c07Sanity lists the shapes that are built to succeed in all four modes.
func c07Sanity(s c07Shape) (bool, string) {
	if len(s.Msgs) != 1 {
		return false, ""
	}
	switch a := s.Msgs[0]; {
	case (a == "E" || a == "E2") && (s.Env == c07EthCanon || s.Env == c07Env{Ext: "none", Fee: "eq", Gas: "eq"}):
		return true, "canonical Ethereum tx"
	case s.Env != c07CosmosCanon:
		return false, ""
	case a == "S":
		return true, "canonical bank send"
	case a == "X1:S":
		return true, "MsgExec of a bank send under a real grant"
	case a == "G:send":
		return true, "MsgGrant of a generic authorisation for bank send"
	case a == "V1" || a == "V2" || a == "V3":
		return true, "top-level vesting creation to a proven address"
	}
	return false, ""
}

// errorsABCI splits an sdk error like baseapp does for responses.
func errorsABCI(err error) (codespace string, code uint32, log string) {
	type coder interface {
		Codespace() string
		ABCICode() uint32
	}
	e := err
	for e != nil {
		if c, ok := e.(coder); ok {
			return c.Codespace(), c.ABCICode(), err.Error()
		}
		u, ok := e.(interface{ Unwrap() error })
		if !ok {
			break
		}
		e = u.Unwrap()
	}
	return "undefined", 1, err.Error()
}

// ---------------------------------------------------------------------------
// enumeration
// ---------------------------------------------------------------------------

func c07Atoms(maxDepth int, wide bool) []string {
	atoms := []string{"E", "E2", "S", "V1", "V2", "V3"}
	inner := []string{"E", "V1", "V2", "V3", "S"}
	if wide {
		inner = append(inner, "G:eth", "G:V1")
	}
	for _, t := range []string{"eth", "V1", "V2", "V3", "send"} {
		atoms = append(atoms, "G:"+t)
	}
	for d := 1; d <= maxDepth; d++ {
		for _, in := range inner {
			atoms = append(atoms, fmt.Sprintf("X%d:%s", d, in))
		}
	}
	if wide {
		for d := 1; d <= maxDepth; d++ {
			for _, in := range inner {
				atoms = append(atoms, fmt.Sprintf("XW%d:%s", d, in))
			}
		}
	}
	return atoms
}

func c07EnvProduct(exts, fees, gases []string) []c07Env {
	var out []c07Env
	bools := []bool{false, true}
	for _, ext := range exts {
		for _, sig := range bools {
			for _, si := range bools {
				for _, p := range bools {
					for _, g := range bools {
						for _, m := range bools {
							for _, t := range bools {
								for _, f := range fees {
									for _, gs := range gases {
										out = append(out, c07Env{Ext: ext, Sig: sig, SI: si, Payer: p, Granter: g, Memo: m, Timeout: t, Fee: f, Gas: gs})
									}
								}
							}
						}
					}
				}
			}
		}
	}
	return out
}

func c07Hamming(a, b c07Env) int {
	n := 0
	for _, d := range []bool{a.Ext != b.Ext, a.Sig != b.Sig, a.SI != b.SI, a.Payer != b.Payer, a.Granter != b.Granter, a.Memo != b.Memo, a.Timeout != b.Timeout, a.Fee != b.Fee, a.Gas != b.Gas} {
		if d {
			n++
		}
	}
	return n
}

type c07Space struct {
	Shapes []c07Shape
	Rule   string
	Depth  int
}

func c07Enumerate(thorough bool) c07Space {
	var sp c07Space
	seen := map[string]bool{}
	add := func(msgs []string, env c07Env) {
		s := c07Shape{Msgs: append([]string{}, msgs...), Env: env}
		k := s.String()
		if seen[k] {
			return
		}
		seen[k] = true
		sp.Shapes = append(sp.Shapes, s)
	}
	hasE := func(l []string) bool {
		for _, a := range l {
			if a == "E" || a == "E2" {
				return true
			}
		}
		return false
	}
	// sanity shapes first
	add([]string{"E"}, c07EthCanon)
	add([]string{"E2"}, c07EthCanon)
	add([]string{"S"}, c07CosmosCanon)
	add([]string{"X1:S"}, c07CosmosCanon)
	add([]string{"G:send"}, c07CosmosCanon)
	// A: the Ethereum message alone under envelope variations
	all := c07EnvProduct(c07Exts, c07Fees, c07Gases)
	nA := 0
	sort.SliceStable(all, func(i, j int) bool { return c07Hamming(all[i], c07EthCanon) < c07Hamming(all[j], c07EthCanon) })
	for _, e := range all {
		if !thorough && c07Hamming(e, c07EthCanon) > 2 {
			continue
		}
		add([]string{"E"}, e)
		add([]string{"E2"}, e)
		nA += 2
	}
	// B: message lists under the canonical Cosmos envelope and, when an Ethereum message is listed, the canonical Ethereum envelope
	depth := 3
	if thorough {
		depth = 5
	}
	sp.Depth = depth
	full := c07Atoms(depth, true)
	base := c07Atoms(depth, false)
	triples := []string{"E", "S", "X1:E", "X2:V1", "G:eth", "V1", "X1:S", "G:send"}
	if thorough {
		triples = base
	}
	n0 := len(sp.Shapes)
	addList := func(l []string) {
		add(l, c07CosmosCanon)
		if hasE(l) {
			add(l, c07EthCanon)
		}
	}
	for _, a := range full {
		addList([]string{a})
	}
	if !thorough { // the deeper single messages are cheap enough for the quick tier too
		for _, a := range c07Atoms(5, true) {
			addList([]string{a})
		}
	}
	for _, a := range full {
		for _, b := range full {
			addList([]string{a, b})
		}
	}
	for _, a := range triples {
		for _, b := range triples {
			for _, c := range triples {
				addList([]string{a, b, c})
			}
		}
	}
	nB := len(sp.Shapes) - n0
	// C: mixed lists under single-factor envelope deviations
	n0 = len(sp.Shapes)
	for _, l := range [][]string{{"E", "S"}, {"S", "E"}, {"E", "E"}} {
		for _, e := range all {
			if c07Hamming(e, c07EthCanon) <= 1 {
				add(l, e)
			}
		}
	}
	cosmosDev := []c07Env{}
	for _, ext := range c07Exts {
		e := c07CosmosCanon
		e.Ext = ext
		cosmosDev = append(cosmosDev, e)
	}
	for i := 0; i < 4; i++ {
		e := c07CosmosCanon
		switch i {
		case 0:
			e.Payer = true
		case 1:
			e.Granter = true
		case 2:
			e.Memo = true
		case 3:
			e.Timeout = true
		}
		cosmosDev = append(cosmosDev, e)
	}
	for _, l := range [][]string{{"E"}, {"E", "S"}, {"S", "E"}, {"X1:E"}, {"X2:V1"}, {"G:eth"}, {"G:V1"}, {"S"}, {"X1:S"}} {
		for _, e := range cosmosDev {
			add(l, e)
		}
	}
	nC := len(sp.Shapes) - n0
	// D': memo values that a normalising comparison would treat as "no memo"
	for _, l := range [][]string{{"E"}, {"E2"}} {
		for _, m := range []string{"sp", "nl", "ws", "nul", "long"} {
			e := c07EthCanon
			e.Memo, e.MemoV = true, m
			add(l, e)
		}
	}
	// D: boundary values of the timeout height on the Ethereum envelope (the field is a uint64: values around 2^63 and 2^64)
	for _, l := range [][]string{{"E"}, {"E2"}} {
		for _, h := range []string{"1", "i63max", "2^63", "2^63+1", "u64max"} {
			e := c07EthCanon
			e.Timeout, e.TimeoutH = true, h
			add(l, e)
		}
	}
	aRule := fmt.Sprintf("the full product (%d envelopes)", nA/2)
	if !thorough {
		aRule = fmt.Sprintf("every envelope within two factor changes of the canonical Ethereum envelope (%d: base, all single and all pairwise deviations)", nA/2)
	}
	tRule := fmt.Sprintf("all %d one-wrapper-per-level atoms", len(base))
	if !thorough {
		tRule = fmt.Sprintf("the %d atoms %v", len(triples), triples)
	}
	sp.Rule = fmt.Sprintf("Each shape is hand-assembled as TxRaw/TxBody/AuthInfo protobuf and run on a fresh app through Simulate, CheckTx(New), [empty block], CheckTx(ReCheck) only if CheckTx accepted, FinalizeBlock+Commit; everything but the shape is valid (funded wallet 0, correct nonce/sequence, valid signature when one is present, real authz grant and fee allowance, proven vesting targets). "+
		"Message atoms: E/E2=MsgEthereumTx carrying a legacy / dynamic-fee transfer, S=bank send, V1..V3=the three vesting-creation messages, G:t=MsgGrant of a GenericAuthorization for t∈{MsgEthereumTx,V1,V2,V3,MsgSend}, X<d>:m=m∈{E,V1,V2,V3,S} inside d nested MsgExec, XW<d>:m=the same with a bank send beside the next level at every level, and both forms around G:eth and G:V1 (lists of length ≤ 2 only); nesting depth d ≤ %d (single-message lists: d ≤ 5). "+
		"A (%d shapes): [E] and [E2] × envelope factors ext{%s} × signature{0,1} × signer info{0,1} × fee payer{-,set} × fee granter{-,set} × memo{'','x'} (and, on the canonical envelope, ' ', '\\n', whitespace mix, NUL, 256 characters) × timeout height{0,5} (and, on the canonical envelope, 1, 2^63−1, 2^63, 2^63+1, 2^64−1) × fee{%s} × gas limit{%s} relative to the embedded tx — %s. "+
		"B (%d shapes): all lists of length 1 and 2 over the %d atoms and all lists of length 3 over %s, each under the canonical Cosmos envelope (signed, signer info, 2e6 gas) and, when E is listed, also under the canonical Ethereum envelope. "+
		"C (%d shapes): [E,S],[S,E],[E,E] × every single-factor deviation of the Ethereum envelope; [E],[E,S],[S,E],[X1:E],[X2:V1],[G:eth],[G:V1],[S],[X1:S] × Cosmos envelope with each extension-option level / payer / granter / memo / timeout. "+
		"Oracle: reference predicate over the decoded protobuf, lane events of the delivered tx, full store hash (minus fee market) against an empty-block twin for every tx the predicate refuses.",
		depth, nA, strings.Join(c07Exts, ","), strings.Join(c07Fees, ","), strings.Join(c07Gases, ","), aRule, nB, len(full), tRule, nC)
	return sp
}

func runC07(replay string) int {
	run := ev.NewRun("C07", "model_checking")
	run.Assumptions = []string{
		"the reference predicate decodes the transaction bytes with the generated protobuf types only (TxRaw, TxBody, AuthInfo, MsgExec, MsgGrant, GenericAuthorization, MsgEthereumTx, go-ethereum's tx decoder); it calls no ante decorator and none of app/antedl",
		"only refusals are demanded (plus acceptance of the alphabet-sanity shapes); top-level vesting-creation messages are C16's business; ReCheck is only fed transactions CheckTx accepted (ABCI contract)",
		"'which lane handled it' is read from the delivered tx's events: ethereum_tx / tx_receipt / message.action=MsgEthereumTx mean the EVM handler, any other message.action a Cosmos route",
		"a refused tx still counts towards block gas (cosmos-sdk accounting) and so may move the next base fee; the fee market store is excluded from the no-state-change comparison",
	}
	if replay != "" {
		return replayCase(run, replay, func(raw json.RawMessage) []ev.Finding {
			if c07ExtraReplay != nil {
				if fs, ok := c07ExtraReplay(raw); ok {
					return fs
				}
			}
			var s c07Shape
			if err := json.Unmarshal(raw, &s); err != nil {
				fmt.Fprintln(os.Stderr, err)
				os.Exit(2)
			}
			o := c07Run(s)
			fmt.Println("shape:  ", s)
			fmt.Println("outcome:", o.outcome())
			fmt.Println("reference:", o.Ref.class(), o.Ref.Why)
			for _, v := range []c07Verdict{o.Sim, o.Check, o.ReCheck, o.Deliver} {
				fmt.Printf("  ran=%v accepted=%v %s %s\n", v.Ran, v.Accepted, v.Code, v.Log)
			}
			return o.Findings
		})
	}
	sp := c07Enumerate(run.Thorough())
	run.Sharded(Shards(), func(shard, n int) {
		if shard == 0 {
			if d := c07ConfigDrift(); d != "" {
				run.Fail(ev.Finding{Clause: "alphabet-sanity", Detail: d, Replay: c07Shape{Msgs: []string{"E"}, Env: c07EthCanon}})
			}
		}
		for i, s := range sp.Shapes {
			if i%n != shard {
				continue
			}
			o := c07Run(s)
			if i < 2*n {
				if o2 := c07Run(s); o2.outcome() != o.outcome() || len(o2.Findings) != len(o.Findings) {
					fmt.Fprintf(os.Stderr, "HARNESS-NONDETERMINISM in C07 shape %d %s: %s vs %s\n", i, s, o.outcome(), o2.outcome())
					os.Exit(2)
				}
			}
			run.Count("evaluations", 1)
			execs := int64(3)
			if o.ReCheck.Ran {
				execs = 4
			}
			run.Count("mode_executions", execs)
			if o.Ref.mustReject() {
				run.Count("shapes_the_property_refuses", 1)
			}
			for _, v := range []c07Verdict{o.Sim, o.Check, o.ReCheck, o.Deliver} {
				if v.Ran && v.Accepted {
					run.Count("accepting_executions", 1)
				}
			}
			run.Outcome(o.outcome())
			if o.Ref.mustReject() || o.Deliver.Accepted {
				run.Distinct(s.String())
			}
			if i%(len(sp.Shapes)/4+1) == 0 {
				run.Sample(map[string]interface{}{"shape": s, "outcome": o.outcome()})
			}
			for _, f := range o.Findings {
				run.Fail(f)
			}
		}
		if c07ExtraCases != nil {
			c07ExtraCases(run, shard, n)
		}
	})
	run.Coverage["shapes_enumerated"] = len(sp.Shapes)
	run.Coverage["exhaustive"] = run.Counter("evaluations") == int64(len(sp.Shapes)+c07ExtraCount)
	run.Coverage["max_depth"] = sp.Depth
	run.Coverage["rule"] = sp.Rule + c07ExtraRule
	return run.Finish()
}

// C07Shape / C07Exec are exported for scratch debugging.
type C07Shape = c07Shape
type C07Env = c07Env

func C07Exec(s c07Shape) (string, []ev.Finding, [4]string) {
	o := c07Run(s)
	return o.outcome(), o.Findings, [4]string{o.Sim.Log, o.Check.Log, o.ReCheck.Log, o.Deliver.Log}
}

func C07Count(thorough bool) (int, string) {
	sp := c07Enumerate(thorough)
	return len(sp.Shapes), sp.Rule
}
