package checks

import (
	"encoding/hex"
	"fmt"
	"math/big"
	"os"
	"strconv"
	"strings"

	authtypes "github.com/cosmos/cosmos-sdk/x/auth/types"
	"github.com/ethereum/go-ethereum/common"
	ethcrypto "github.com/ethereum/go-ethereum/crypto"

	vauthtypes "github.com/EscanBE/evermint/v12/x/vauth/types"
)

// ---------------------------------------------------------------------------
// special accounts: 20-byte addresses that no key controls
// ---------------------------------------------------------------------------

// c16Special resolves the address parts that are not derived from a key:
//
//	zero  0x000…00                      one  0x000…01 (the ecrecover precompile)      ff  0xfff…ff
//	mod   the vauth module account (the account the fee passes through)              fc  the fee collector module account
func c16Special(part string) ([]byte, bool) {
	switch part {
	case "zero":
		return make([]byte, 20), true
	case "one":
		b := make([]byte, 20)
		b[19] = 1
		return b, true
	case "ff":
		b := make([]byte, 20)
		for i := range b {
			b[i] = 0xff
		}
		return b, true
	case "mod":
		return authtypes.NewModuleAddress(vauthtypes.ModuleName), true
	case "fc":
		return authtypes.NewModuleAddress(authtypes.FeeCollectorName), true
	}
	return nil, false
}

// c16Specials are the special accounts observed on every reached state (HasProof, GetProof, raw store, ante decorator).
var c16Specials = []string{"zero", "one", "ff", "mod", "fc"}

// ---------------------------------------------------------------------------
// reference signature recovery: plain big-integer arithmetic on secp256k1, cross-checked with go-ethereum's crypto.Ecrecover
// (neither goes through x/vauth/utils)
// ---------------------------------------------------------------------------

func c16Hex(s string) *big.Int {
	v, ok := new(big.Int).SetString(s, 16)
	if !ok {
		panic(s)
	}
	return v
}

var (
	c16P  = c16Hex("fffffffffffffffffffffffffffffffffffffffffffffffffffffffefffffc2f")
	c16N  = c16Hex("fffffffffffffffffffffffffffffffebaaedce6af48a03bbfd25e8cd0364141")
	c16Gx = c16Hex("79be667ef9dcbbac55a06295ce870b07029bfcdb2dce28d959f2815b16f81798")
	c16Gy = c16Hex("483ada7726a3c4655da4fbfc0e1108a8fd17b448a68554199c47d08ffb10d4b8")
)

// c16Pt is an affine point; x == nil is the point at infinity.
type c16Pt struct{ x, y *big.Int }

func c16Mod(v *big.Int) *big.Int { return v.Mod(v, c16P) }

func c16PtAdd(a, b c16Pt) c16Pt {
	if a.x == nil {
		return b
	}
	if b.x == nil {
		return a
	}
	var l *big.Int
	if a.x.Cmp(b.x) == 0 {
		if a.y.Cmp(b.y) != 0 || a.y.Sign() == 0 {
			return c16Pt{}
		}
		// l = 3x² / 2y
		num := c16Mod(new(big.Int).Mul(big.NewInt(3), new(big.Int).Mul(a.x, a.x)))
		den := new(big.Int).ModInverse(c16Mod(new(big.Int).Lsh(a.y, 1)), c16P)
		l = c16Mod(new(big.Int).Mul(num, den))
	} else {
		num := c16Mod(new(big.Int).Sub(b.y, a.y))
		den := new(big.Int).ModInverse(c16Mod(new(big.Int).Sub(b.x, a.x)), c16P)
		l = c16Mod(new(big.Int).Mul(num, den))
	}
	x := c16Mod(new(big.Int).Sub(new(big.Int).Sub(new(big.Int).Mul(l, l), a.x), b.x))
	y := c16Mod(new(big.Int).Sub(new(big.Int).Mul(l, new(big.Int).Sub(a.x, x)), a.y))
	return c16Pt{x, y}
}

func c16PtMul(k *big.Int, p c16Pt) c16Pt {
	var acc c16Pt
	for i := k.BitLen() - 1; i >= 0; i-- {
		acc = c16PtAdd(acc, acc)
		if k.Bit(i) == 1 {
			acc = c16PtAdd(acc, p)
		}
	}
	return acc
}

func init() {
	g := c16Pt{c16Gx, c16Gy}
	lhs := c16Mod(new(big.Int).Mul(c16Gy, c16Gy))
	rhs := c16Mod(new(big.Int).Add(new(big.Int).Mul(new(big.Int).Mul(c16Gx, c16Gx), c16Gx), big.NewInt(7)))
	if lhs.Cmp(rhs) != 0 || c16PtMul(c16N, g).x != nil || c16PtMul(new(big.Int).Sub(c16N, big.NewInt(1)), g).x.Cmp(c16Gx) != 0 {
		panic("c16: secp256k1 constants")
	}
	pr := ethcrypto.S256().Params()
	if pr.P.Cmp(c16P) != 0 || pr.N.Cmp(c16N) != 0 || pr.Gx.Cmp(c16Gx) != 0 || pr.Gy.Cmp(c16Gy) != 0 {
		panic("c16: secp256k1 constants differ from go-ethereum's")
	}
}

// c16RecoverMath is public-key recovery by the textbook: sig = R || S || V, 65 bytes, 1 <= R,S < n, V in 0..3
// (bit 0 = parity of the y coordinate of the ephemeral point, bit 1 = its x coordinate is R + n), signer = R⁻¹(S·P − e·G).
// Anything else - any length but 65, a zero or overflowing scalar, an x coordinate off the curve, a wallet-style V - is no signature.
func c16RecoverMath(hash, sig []byte) (common.Address, bool) {
	if len(sig) != 65 || len(hash) != 32 {
		return common.Address{}, false
	}
	r, s, v := new(big.Int).SetBytes(sig[:32]), new(big.Int).SetBytes(sig[32:64]), sig[64]
	if r.Sign() == 0 || s.Sign() == 0 || r.Cmp(c16N) >= 0 || s.Cmp(c16N) >= 0 || v > 3 {
		return common.Address{}, false
	}
	x := new(big.Int).Set(r)
	if v&2 != 0 {
		x.Add(x, c16N)
	}
	if x.Cmp(c16P) >= 0 {
		return common.Address{}, false
	}
	// y² = x³ + 7; p ≡ 3 (mod 4) so a root, when there is one, is (x³+7)^((p+1)/4)
	y2 := c16Mod(new(big.Int).Add(new(big.Int).Mul(new(big.Int).Mul(x, x), x), big.NewInt(7)))
	y := new(big.Int).Exp(y2, new(big.Int).Rsh(new(big.Int).Add(c16P, big.NewInt(1)), 2), c16P)
	if c16Mod(new(big.Int).Mul(y, y)).Cmp(y2) != 0 {
		return common.Address{}, false
	}
	if y.Bit(0) != uint(v&1) {
		y.Sub(c16P, y)
	}
	rInv := new(big.Int).ModInverse(r, c16N)
	e := new(big.Int).SetBytes(hash)
	u1 := new(big.Int).Mul(new(big.Int).Neg(e), rInv)
	u1.Mod(u1, c16N)
	u2 := new(big.Int).Mul(s, rInv)
	u2.Mod(u2, c16N)
	q := c16PtAdd(c16PtMul(u1, c16Pt{c16Gx, c16Gy}), c16PtMul(u2, c16Pt{x, y}))
	if q.x == nil {
		return common.Address{}, false
	}
	return common.BytesToAddress(ethcrypto.Keccak256(append(common32(q.x), common32(q.y)...))[12:]), true
}

// c16RecoverLib is the same question asked to go-ethereum: any recovery failure is "no signature".
func c16RecoverLib(hash, sig []byte) (a common.Address, ok bool) {
	defer func() {
		if r := recover(); r != nil {
			a, ok = common.Address{}, false
		}
	}()
	pub, err := ethcrypto.Ecrecover(hash, sig)
	if err != nil || len(pub) != 65 || pub[0] != 4 {
		return common.Address{}, false
	}
	return common.BytesToAddress(ethcrypto.Keccak256(pub[1:])[12:]), true
}

// c16Judge is what the reference knows about one signature string: which address, if any, it is a signature of the module's
// message by (recovered from the bytes, independently of the code under test), and whether it is spelled exactly as a wallet
// spells it (lower-case hex, 65 bytes, V in {0,1}, low S) - only then is the code under test expected to accept it.
func c16Judge(sig string) (rec common.Address, ok, canonical bool) {
	if !strings.HasPrefix(sig, "0x") {
		return
	}
	bz, err := hex.DecodeString(sig[2:])
	if err != nil {
		return
	}
	hash := ethcrypto.Keccak256([]byte(vauthtypes.MessageToSign))
	rec, ok = c16RecoverMath(hash, bz)
	if rec2, ok2 := c16RecoverLib(hash, bz); ok2 != ok || rec2 != rec {
		fmt.Fprintf(os.Stderr, "HARNESS-ERROR in C16: the two reference recoveries disagree on %s: arithmetic (%s, %v), go-ethereum (%s, %v)\n", sig, rec, ok, rec2, ok2)
		os.Exit(2)
	}
	if !ok {
		return common.Address{}, false, false
	}
	halfN := new(big.Int).Rsh(c16N, 1)
	canonical = sig == strings.ToLower(sig) && bz[64] <= 1 && new(big.Int).SetBytes(bz[32:64]).Cmp(halfN) <= 0
	return rec, true, canonical
}

// ---------------------------------------------------------------------------
// the structured family of signature shapes
// ---------------------------------------------------------------------------
//
//	x:<RS>:<V>   65 bytes R || S || V built from A's genuine signature (r, s, v) over the module's message:
//	             RS = valid (r, s) | r0 (0, s) | s0 (r, 0) | rs0 (0, 0) | rn (n, s) | rn-1 (n−1, s) | rn+1 (n+1, s) | rp (p, s) | r1 (1, s)
//	                  | sn (r, n) | sn-1 (r, n−1) | sn+1 (r, n+1) | s1 (r, 1) | shigh (r, n−s) | ff (2^256−1, 2^256−1)
//	             V  = the byte, in decimal
//	len1         the first byte of A's signature;  len64-2098: r || s with the parity folded into the top bit of s (EIP-2098 compact form)
//	len66-lead   a zero byte followed by A's signature
//
// (the other lengths are the older variants: empty = 0 bytes, A-64 = r || s, A-66 = A's signature followed by a zero byte)

var (
	c16RSQuick    = []string{"valid", "r0", "s0", "rs0", "rn", "rn-1", "sn", "shigh", "ff"}
	c16RSThorough = []string{"rn+1", "rp", "r1", "sn-1", "sn+1", "s1"}
	c16VQuick     = []int{0, 1, 2, 27, 28, 29, 255}
	c16VThorough  = []int{3, 4, 26, 30, 31, 35, 36, 128, 254}
	c16OldSigs    = []string{"A", "B", "A-upper", "A-64", "A-66", "empty", "garbage", "A-malleated", "A-other-msg", "A-v27"}
	c16LenSigs    = []string{"len1", "len64-2098", "len66-lead"}
)

// c16Shapes lists the signature variants of the family, simplest first.
func c16Shapes(thorough bool) []string {
	out := append(append([]string{}, c16OldSigs...), c16LenSigs...)
	rs, vs := c16RSQuick, c16VQuick
	if thorough {
		rs = append(append([]string{}, rs...), c16RSThorough...)
		vs = append(append([]int{}, vs...), c16VThorough...)
	}
	for _, r := range rs {
		for _, v := range vs {
			out = append(out, fmt.Sprintf("x:%s:%d", r, v))
		}
	}
	return out
}

// c16ShapeBytes builds the bytes of a family variant from A's genuine signature; ok = false when the name is not of the family.
func c16ShapeBytes(a []byte, name string) ([]byte, bool) {
	switch name {
	case "len1":
		return append([]byte{}, a[:1]...), true
	case "len64-2098":
		out := append([]byte{}, a[:64]...)
		out[32] |= a[64] << 7
		return out, true
	case "len66-lead":
		return append([]byte{0}, a...), true
	}
	parts := strings.Split(name, ":")
	if len(parts) != 3 || parts[0] != "x" {
		return nil, false
	}
	v, err := strconv.Atoi(parts[2])
	if err != nil || v < 0 || v > 255 {
		return nil, false
	}
	r, s := new(big.Int).SetBytes(a[:32]), new(big.Int).SetBytes(a[32:64])
	one := big.NewInt(1)
	ff := new(big.Int).Sub(new(big.Int).Lsh(one, 256), one)
	switch parts[1] {
	case "valid":
	case "r0":
		r = new(big.Int)
	case "s0":
		s = new(big.Int)
	case "rs0":
		r, s = new(big.Int), new(big.Int)
	case "rn":
		r = c16N
	case "rn-1":
		r = new(big.Int).Sub(c16N, one)
	case "rn+1":
		r = new(big.Int).Add(c16N, one)
	case "rp":
		r = c16P
	case "r1":
		r = one
	case "sn":
		s = c16N
	case "sn-1":
		s = new(big.Int).Sub(c16N, one)
	case "sn+1":
		s = new(big.Int).Add(c16N, one)
	case "s1":
		s = one
	case "shigh":
		s = new(big.Int).Sub(c16N, s)
	case "ff":
		r, s = ff, ff
	default:
		return nil, false
	}
	return append(append(common32(r), common32(s)...), byte(v)), true
}

// c16FamilyOps is the family part of a submission alphabet: signature shapes crossed with the account dimension
// (A, and the addresses no key controls), ops already in the head of the alphabet left out.
func c16FamilyOps(thorough bool, have []c16Op) []c16Op {
	seen := map[c16Op]bool{}
	for _, o := range have {
		seen[o] = true
	}
	var ops []c16Op
	add := func(o c16Op) {
		if !seen[o] {
			seen[o] = true
			ops = append(ops, o)
		}
	}
	shapes := c16Shapes(thorough)
	if !thorough {
		// the rich submitter: every shape × every account of the dimension
		for _, acc := range []string{"A", "zero", "one", "mod", "ff", "self"} {
			for _, sig := range shapes {
				add(c16Op{Submitter: "R", Account: acc, Sig: sig})
			}
		}
		// the submitters with exactly the fee / one short of it: every shape × {A, zero address}
		for _, acc := range []string{"A", "zero"} {
			for _, sig := range shapes {
				for _, sub := range []string{"E", "P"} {
					add(c16Op{Submitter: sub, Account: acc, Sig: sig})
				}
			}
		}
		// a submitter proving itself with its own genuine signature
		for _, sub := range []string{"R", "E"} {
			add(c16Op{Submitter: sub, Account: "self", Sig: sub})
		}
		return ops
	}
	for _, acc := range []string{"A", "zero", "one", "mod", "fc", "ff", "self", "B"} {
		for _, sig := range append([]string{"R"}, shapes...) {
			for _, sub := range []string{"R", "E", "P", c16LongRich, c16LongExact} {
				add(c16Op{Submitter: sub, Account: acc, Sig: sig})
			}
		}
	}
	return ops
}

// c16AccClass names the account of a submission in outcome classes: the special address, or the length of the others.
func c16AccClass(op c16Op, acc []byte) string {
	if _, ok := c16Special(op.Account); ok {
		return op.Account
	}
	return fmt.Sprintf("len%d", len(acc))
}

// c16ShapeRoutes are the complete-transaction cases of the widened dimensions: a proof submission for a special address with a
// signature shape in an earlier block, then a vesting-creation message with that address as target.
func c16ShapeRoutes(thorough bool) []c16Route {
	var routes []c16Route
	kinds := []string{"vesting", "periodic", "permanent"}
	allRoutings := []string{"top", "exec1", "exec2", "exec3", "exec4", "exec5", "grant", "sib-exec1", "sib-exec2", "send-exec1", "send-exec2", "in-exec1", "in-exec2", "sib-grant"}
	shapes := c16Shapes(thorough)
	// every shape offered for the zero address, then the zero address as target of each message kind at top level
	for _, sig := range shapes {
		for _, k := range kinds {
			routes = append(routes, c16Route{Proven: []string{"zero/" + sig}, Msg: k, Target: "zero", Routing: "top"})
		}
	}
	// one shape per unrecoverable class, for every special address, every routing
	rep := []string{"x:valid:27", "x:valid:28", "x:rs0:0", "x:r0:1", "x:s0:28", "x:rn:0", "x:sn:27", "x:ff:255", "garbage", "empty", "A"}
	specials := []string{"zero", "one", "mod", "ff"}
	routings := []string{"top", "exec1", "grant", "sib-exec1"}
	if thorough {
		specials = append(specials, "fc")
		routings = allRoutings
	}
	for _, sp := range specials {
		for _, sig := range rep {
			for _, k := range kinds {
				for _, r := range routings {
					if sp == "zero" && r == "top" {
						continue // in the first group
					}
					if !thorough && r != "top" && k != "vesting" {
						continue
					}
					routes = append(routes, c16Route{Proven: []string{sp + "/" + sig}, Msg: k, Target: sp, Routing: r})
				}
			}
		}
	}
	// the special addresses as targets without any submission for them, and after genuine proofs of A and B
	for _, proven := range [][]string{nil, {"A", "B"}} {
		for _, sp := range specials {
			for _, k := range kinds {
				for _, r := range routings {
					if !thorough && r != "top" && k != "vesting" {
						continue
					}
					routes = append(routes, c16Route{Proven: proven, Msg: k, Target: sp, Routing: r})
				}
			}
		}
	}
	// A's genuine proof next to a shape offered for the zero address: the target is the other one
	for _, sig := range []string{"x:valid:27", "x:rs0:0", "x:valid:0", "x:valid:1"} {
		for _, k := range kinds {
			routes = append(routes,
				c16Route{Proven: []string{"A", "zero/" + sig}, Msg: k, Target: "zero", Routing: "top"},
				c16Route{Proven: []string{"zero/" + sig, "A"}, Msg: k, Target: "A", Routing: "top"},
				c16Route{Proven: []string{"A/" + sig}, Msg: k, Target: "A", Routing: "top"},
				c16Route{Proven: []string{"A/" + sig}, Msg: k, Target: "zero", Routing: "top"})
		}
	}
	return routes
}
