package checks

// C19: keys, addresses and signatures bind to exactly one key and one message.
// Exhaustive products over small, listed domains of keys, messages, signature / key / message bit flips, derivation
// inputs and single-field perturbations of sign documents, every case evaluated on the real code.

import (
	"bytes"
	"crypto/sha256"
	"encoding/hex"
	"encoding/json"
	"fmt"
	"math/big"
	"os"
	"strings"

	codectypes "github.com/cosmos/cosmos-sdk/codec/types"
	sdk "github.com/cosmos/cosmos-sdk/types"
	gethcrypto "github.com/ethereum/go-ethereum/crypto"
	"golang.org/x/crypto/sha3"

	"github.com/EscanBE/evermint/v12/crypto/ethsecp256k1"
	"github.com/EscanBE/evermint/v12/ethereum/eip712"

	"verif/harness/ev"
	"verif/harness/world"
)

func init() { Registry["C19"] = runC19 }

const c19CurveN = "fffffffffffffffffffffffffffffffebaaedce6af48a03bbfd25e8cd0364141"

func c19Keccak(b ...[]byte) []byte {
	h := sha3.NewLegacyKeccak256()
	for _, x := range b {
		h.Write(x)
	}
	return h.Sum(nil)
}

type c19Key struct {
	Name string `json:"name"`
	Hex  string `json:"hex"`
}

func (k c19Key) priv() *ethsecp256k1.PrivKey {
	bz, err := hex.DecodeString(k.Hex)
	if err != nil || len(bz) != 32 {
		panic("c19: bad key " + k.Hex)
	}
	return &ethsecp256k1.PrivKey{Key: bz}
}

func c19Keys(thorough bool) []c19Key {
	n, _ := new(big.Int).SetString(c19CurveN, 16)
	sc := func(name string, v *big.Int) c19Key { return c19Key{name, fmt.Sprintf("%064x", v)} }
	rnd := func(name string) c19Key {
		h := sha256.Sum256([]byte("verif-C19-key:" + name))
		return c19Key{"sha256(" + name + ")", hex.EncodeToString(h[:])}
	}
	ks := []c19Key{sc("1", big.NewInt(1)), sc("2", big.NewInt(2)), sc("3", big.NewInt(3)),
		sc("n-1", new(big.Int).Sub(n, big.NewInt(1))), sc("n-2", new(big.Int).Sub(n, big.NewInt(2))), rnd("a"), rnd("b")}
	if thorough {
		half := new(big.Int).Rsh(n, 1)
		ks = append(ks, sc("4", big.NewInt(4)), sc("n-3", new(big.Int).Sub(n, big.NewInt(3))), sc("2^255", new(big.Int).Lsh(big.NewInt(1), 255)),
			sc("(n-1)/2", half), sc("(n+1)/2", new(big.Int).Add(half, big.NewInt(1))), sc("2^128", new(big.Int).Lsh(big.NewInt(1), 128)), rnd("c"), rnd("d"))
	}
	return ks
}

// c19Env is the per-process fixture: the real app (which installs the eip712 codecs exactly as a node does), keys, messages.
type c19Env struct {
	run   *ev.Run
	w     *world.World
	keys  []c19Key
	addrs c19Addrs
	msgs  []c19Message
	fams  []c19Family
	docs  []c19DocRef
	cache []c19Rendered
}

type c19Message struct {
	Name string
	Bz   []byte
}

func c19NewEnv(run *ev.Run) *c19Env {
	e := &c19Env{run: run}
	e.w = world.New(world.Config{NumWallets: 1})
	e.keys = c19Keys(run.Thorough())
	all := c19Keys(true)
	acc := func(i int) sdk.AccAddress { return sdk.AccAddress(all[i].priv().PubKey().Address()) }
	e.addrs = c19Addrs{A: acc(5).String(), B: acc(6).String(), C: acc(2).String(), ValA: sdk.ValAddress(acc(0)).String(), ValB: sdk.ValAddress(acc(1)).String()}
	e.fams = c19Families(e.addrs, run.Thorough())
	e.docs = c19AllDocs(e.fams)

	// message alphabet, simplest first
	long := make([]byte, 1000)
	for i := range long {
		long[i] = byte(i*7 + i/256)
	}
	h32 := sha256.Sum256([]byte("verif-C19-msg32"))
	aminoDoc := e.fams[0].Base.clone()
	aminoDoc.Enc = "amino"
	protoDoc := e.fams[0].Base.set("memo", "proto memo")
	protoDoc.Enc = "proto"
	am, err := c19SignBytes(aminoDoc, e.signerPub())
	if err != nil {
		panic(err)
	}
	pm, err := c19SignBytes(protoDoc, e.signerPub())
	if err != nil {
		panic(err)
	}
	amE, err1 := eip712.GetEIP712BytesForMsg(am)
	pmE, err2 := eip712.GetEIP712BytesForMsg(pm)
	if err1 != nil || err2 != nil {
		fmt.Fprintf(os.Stderr, "C19 alphabet-sanity: base sign documents do not render: %v / %v\n", err1, err2)
		os.Exit(2)
	}
	e.msgs = []c19Message{{"empty", []byte{}}, {"one-byte", []byte{0}}, {"bytes32", h32[:]}, {"long-1000", long},
		{"amino-send-doc", am}, {"proto-send-doc", pm}, {"eip712-bytes-of-amino-send-doc", amE}, {"eip712-hash-of-proto-send-doc", c19Keccak(pmE)}}
	return e
}

func (e *c19Env) signerKey() c19Key { return c19Keys(false)[5] }
func (e *c19Env) signerPub() *ethsecp256k1.PubKey {
	return e.signerKey().priv().PubKey().(*ethsecp256k1.PubKey)
}

func (e *c19Env) msg(name string) []byte {
	for _, m := range e.msgs {
		if m.Name == name {
			return m.Bz
		}
	}
	panic("c19: unknown message " + name)
}

func (e *c19Env) unpackMsg(a *codectypes.Any) (sdk.Msg, error) {
	var m sdk.Msg
	err := e.w.Enc.Codec.UnpackAny(a, &m)
	return m, err
}

// c19Trap runs f and returns the panic text ("" when none).
func c19Trap(f func()) (p string) {
	defer func() {
		if r := recover(); r != nil {
			p = fmt.Sprint(r)
		}
	}()
	f()
	return ""
}

// render = the repo's EIP-712 rendering of sign bytes, panic-trapped.
func c19Render(signBytes []byte) (out []byte, err error, panicked string) {
	panicked = c19Trap(func() { out, err = eip712.GetEIP712BytesForMsg(signBytes) })
	return
}

// the digest a signer of message m commits to: PrivKey.Sign is documented to take "the provided hash of the message"
// and treats a 32-byte input as that hash; any other input is hashed with Keccak-256 first.
func c19SignedDigest(m []byte) []byte {
	if len(m) == 32 {
		return m
	}
	return c19Keccak(m)
}

// the digests under which message m may be verified according to the property: Keccak(m), or Keccak of m's EIP-712 rendering.
func c19VerifyDigests(m []byte) [][]byte {
	out := [][]byte{c19Keccak(m)}
	if bz, err, p := c19Render(m); err == nil && p == "" {
		out = append(out, c19Keccak(bz))
	}
	return out
}

func c19Verify(pk *ethsecp256k1.PubKey, m, sig []byte) (ok bool, p string) {
	p = c19Trap(func() { ok = pk.VerifySignature(m, sig) })
	return
}

// ---------------------------------------------------------------------------
// (1a) full verification matrix
// ---------------------------------------------------------------------------

type c19MatrixCase struct {
	PubOf     c19Key `json:"pubkey_of"`
	Signer    c19Key `json:"signer"`
	VerifyMsg string `json:"verify_msg"`
	SignedMsg string `json:"signed_msg"`
	SigForm   string `json:"sig_form,omitempty"` // "" = 65 bytes as produced by Sign | "v+27" = 65 bytes, Ethereum legacy V | "rs64" = [R||S]
}

func (e *c19Env) evalMatrix(c c19MatrixCase) (fs []ev.Finding, class string) {
	fail := func(clause, sig, detail string) {
		fs = append(fs, ev.Finding{Clause: clause, Signature: sig, Detail: detail, Replay: map[string]interface{}{"matrix": c}})
	}
	mj, ml := e.msg(c.VerifyMsg), e.msg(c.SignedMsg)
	sig, err := c.Signer.priv().Sign(ml)
	if err != nil {
		fail("alphabet-sanity", "", "Sign failed: "+err.Error())
		return fs, "sign-error"
	}
	switch c.SigForm {
	case "v+27":
		sig[64] += 27
	case "rs64":
		sig = sig[:64]
	}
	pk := c.PubOf.priv().PubKey().(*ethsecp256k1.PubKey)
	got, p := c19Verify(pk, mj, sig)
	e.run.Count("evaluations", 1)
	if p != "" {
		fail("verification-never-panics", "", fmt.Sprintf("pk(%s).VerifySignature(%s, Sign(%s, %s)) panicked: %s", c.PubOf.Name, c.VerifyMsg, c.Signer.Name, c.SignedMsg, p))
		return fs, "panic"
	}
	sameKey := c.PubOf.Hex == c.Signer.Hex
	rel := "other-msg"
	sd := c19SignedDigest(ml)
	for i, d := range c19VerifyDigests(mj) {
		if bytes.Equal(d, sd) {
			rel = []string{"signed-msg", "eip712-rendering-signed"}[i]
		}
	}
	want := sameKey && rel != "other-msg"
	desc := fmt.Sprintf("pk(%s).VerifySignature(%s, Sign(sk(%s), %s)%s) = %v, want %v", c.PubOf.Name, c.VerifyMsg, c.Signer.Name, c.SignedMsg, c.SigForm, got, want)
	if got && !want {
		clause := "signature-verifies-only-for-the-signed-message"
		if !sameKey {
			clause = "signature-verifies-only-for-the-signing-key"
		}
		fail(clause, "", desc)
	}
	if !got && want {
		fail("signature-of-key-and-message-verifies", "", desc)
	}
	keyRel := "other-key"
	if sameKey {
		keyRel = "same-key"
	} else {
		a, _ := new(big.Int).SetString(c.PubOf.Hex, 16)
		b, _ := new(big.Int).SetString(c.Signer.Hex, 16)
		n, _ := new(big.Int).SetString(c19CurveN, 16)
		if new(big.Int).Add(a, b).Cmp(n) == 0 {
			keyRel = "negated-key(same-x)"
		}
	}
	return fs, fmt.Sprintf("%s:%s:%v", keyRel, rel, got)
}

// ---------------------------------------------------------------------------
// (1b) bit flips of signature / public key, signature length variants
// ---------------------------------------------------------------------------

type c19FlipCase struct {
	Key  c19Key `json:"key"`
	Msg  string `json:"msg"`
	Kind string `json:"kind"` // raw: signature over msg; eip712: signature over the EIP-712 rendering of msg (a sign doc)
	What string `json:"what"` // sig65 | sig64 | pubkey | len:<variant>
	Bit  int    `json:"bit"`  // -1 = unmodified (must verify)
}

func (e *c19Env) flipSig(c c19FlipCase) ([]byte, error) {
	m := e.msg(c.Msg)
	if c.Kind == "eip712" {
		r, err, p := c19Render(m)
		if err != nil || p != "" {
			return nil, fmt.Errorf("message does not render: %v %s", err, p)
		}
		m = r
	}
	return c.Key.priv().Sign(m)
}

var c19LenVariants = []string{"len0", "len1", "len32", "len63", "len64", "len65", "len66", "len128", "len130", "v0", "v1", "v27", "v28", "v255", "high-s64", "high-s65", "zero64", "zero65", "r=0", "s=0"}

func (e *c19Env) evalFlip(c c19FlipCase) (fs []ev.Finding, class string) {
	fail := func(clause, detail string) {
		fs = append(fs, ev.Finding{Clause: clause, Detail: detail, Replay: map[string]interface{}{"flip": c}})
	}
	sig, err := e.flipSig(c)
	if err != nil || len(sig) != 65 {
		fail("alphabet-sanity", fmt.Sprintf("cannot sign: %v len=%d", err, len(sig)))
		return fs, "sign-error"
	}
	m := e.msg(c.Msg)
	pk := c.Key.priv().PubKey().(*ethsecp256k1.PubKey)
	want, verdict := false, true
	switch {
	case c.What == "sig65" || c.What == "sig64":
		if c.What == "sig64" {
			sig = sig[:64]
		}
		if c.Bit >= 0 {
			sig[c.Bit/8] ^= 1 << uint(c.Bit%8)
		}
		// the recovery byte V is not part of the [R||S] signature the verifier checks: a 65-byte signature verifies iff its first 64 bytes do
		want = c.Bit < 0 || c.Bit >= 512
	case c.What == "pubkey":
		kb := pk.Bytes()
		if c.Bit >= 0 {
			kb[c.Bit/8] ^= 1 << uint(c.Bit%8)
		}
		pk = &ethsecp256k1.PubKey{Key: kb}
		want = c.Bit < 0
	case strings.HasPrefix(c.What, "len:"):
		n, _ := new(big.Int).SetString(c19CurveN, 16)
		switch v := c.What[4:]; v {
		case "len0", "len1", "len32", "len63":
			var l int
			fmt.Sscanf(v, "len%d", &l)
			sig = sig[:l]
		case "len64":
			sig, want = sig[:64], true
		case "len65":
			want = true
		case "len66":
			sig = append(sig, 0)
		case "len128":
			sig = append(append([]byte{}, sig[:64]...), sig[:64]...)
		case "len130":
			sig = append(append([]byte{}, sig...), sig...)
		case "v0", "v1", "v27", "v28", "v255":
			var b int
			fmt.Sscanf(v, "v%d", &b)
			sig[64], want = byte(b), true
		case "high-s64", "high-s65":
			// (r, n−s) is the other valid ECDSA signature of the same key and message: either answer respects the property
			s := new(big.Int).Sub(n, new(big.Int).SetBytes(sig[32:64]))
			copy(sig[32:64], s.FillBytes(make([]byte, 32)))
			sig[64] ^= 1
			if v == "high-s64" {
				sig = sig[:64]
			}
			verdict = false
		case "zero64":
			sig = make([]byte, 64)
		case "zero65":
			sig = make([]byte, 65)
		case "r=0":
			copy(sig[:32], make([]byte, 32))
		case "s=0":
			copy(sig[32:64], make([]byte, 32))
		default:
			fail("alphabet-sanity", "unknown variant")
			return fs, "?"
		}
	}
	got, p := c19Verify(pk, m, sig)
	e.run.Count("evaluations", 1)
	var addrPanic string
	if c.What == "pubkey" {
		// the address of the ORIGINAL key is requested first (as a node that has seen the neighbouring key before would have), then the
		// address of the modified key: when the modified bytes are a valid compressed point its address must be Keccak(X||Y)[12:] of
		// exactly that point — computed here with go-ethereum's decompression, independently of PubKey.Address()
		var got []byte
		addrPanic = c19Trap(func() {
			_ = c.Key.priv().PubKey().Address()
			got = pk.Address().Bytes()
		})
		e.run.Count("evaluations", 1)
		if addrPanic == "" {
			if pt, derr := gethcrypto.DecompressPubkey(pk.Bytes()); derr == nil && pt != nil {
				wantAddr := gethcrypto.PubkeyToAddress(*pt).Bytes()
				e.run.Count("modified_public_keys_on_the_curve", 1)
				if !bytes.Equal(got, wantAddr) {
					fail("address-is-last-20-bytes-of-keccak-of-uncompressed-key", fmt.Sprintf("key %s with public-key bit %d flipped (still a point of the curve), address requested after the address of the original key: got %x want %x", c.Key.Name, c.Bit, got, wantAddr))
				}
			}
		}
	}
	desc := fmt.Sprintf("key %s, %s signature over %s, %s bit %d: verified=%v want=%v", c.Key.Name, c.Kind, c.Msg, c.What, c.Bit, got, want)
	if p != "" || addrPanic != "" {
		fail("verification-never-panics", desc+": panic "+p+addrPanic)
		return fs, "panic"
	}
	if verdict && got && !want {
		clause := "modified-signature-never-verifies"
		if c.What == "pubkey" {
			clause = "modified-public-key-never-verifies"
		}
		fail(clause, desc)
	}
	if verdict && !got && want {
		fail("signature-of-key-and-message-verifies", desc)
	}
	if !verdict {
		return fs, fmt.Sprintf("%s:informational:%v", c.What, got)
	}
	region := ""
	if c.Bit >= 512 {
		region = ":recovery-byte"
	}
	return fs, fmt.Sprintf("%s%s:%v", strings.SplitN(c.What, ":", 2)[0], region, got)
}

// ---------------------------------------------------------------------------
// (1c) every single-bit flip of a signed sign document
// ---------------------------------------------------------------------------

type c19MsgFlipCase struct {
	Key  c19Key `json:"key"`
	Msg  string `json:"msg"` // amino-send-doc | proto-send-doc
	Kind string `json:"kind"`
	Bit  int    `json:"bit"`
}

func (e *c19Env) evalMsgFlip(c c19MsgFlipCase) (fs []ev.Finding, class string) {
	fail := func(clause, detail string) {
		fs = append(fs, ev.Finding{Clause: clause, Detail: detail, Replay: map[string]interface{}{"msg_flip": c}})
	}
	sig, err := e.flipSig(c19FlipCase{Key: c.Key, Msg: c.Msg, Kind: c.Kind})
	if err != nil {
		fail("alphabet-sanity", err.Error())
		return fs, "sign-error"
	}
	orig := e.msg(c.Msg)
	m := append([]byte{}, orig...)
	if c.Bit >= 0 {
		m[c.Bit/8] ^= 1 << uint(c.Bit%8)
	}
	pk := c.Key.priv().PubKey().(*ethsecp256k1.PubKey)
	got, p := c19Verify(pk, m, sig)
	e.run.Count("evaluations", 1)
	desc := fmt.Sprintf("key %s, %s signature over %s, document bit %d (byte %d %q -> %q) flipped: verified=%v", c.Key.Name, c.Kind, c.Msg, c.Bit, c.Bit/8, orig[max(c.Bit, 0)/8], m[max(c.Bit, 0)/8], got)
	if p != "" {
		fs = append(fs, ev.Finding{Clause: "verification-never-panics", Signature: c19PanicSignature(m, p), Detail: desc + ": panic " + p, Replay: map[string]interface{}{"msg_flip": c}})
		return fs, "panic"
	}
	if c.Bit < 0 {
		if !got {
			fail("signature-of-key-and-message-verifies", desc)
		}
		return fs, "unmodified:verifies"
	}
	_, rerr, _ := c19Render(m)
	rc := "renders"
	if rerr != nil {
		rc = "refused"
	}
	if !got {
		return fs, "flipped:" + rc + ":rejected"
	}
	// the flipped document verified: legitimate only if it is the same logical document (another encoding of the same
	// listed fields, or a change confined to fields the property does not list)
	same := false
	if c.Kind == "eip712" {
		if strings.HasPrefix(c.Msg, "proto") {
			same = c19ProtoLogical(e.unpackMsg, m) == c19ProtoLogical(e.unpackMsg, orig)
		} else {
			same = c19JSONLogical(m) == c19JSONLogical(orig)
		}
	}
	if same {
		return fs, "flipped:" + rc + ":verifies-same-listed-fields(unlisted field or encoding variant)"
	}
	fail("signature-verifies-only-for-the-signed-message", desc)
	return fs, "flipped:VERIFIES"
}

// ---------------------------------------------------------------------------
// driver
// ---------------------------------------------------------------------------

type c19Case struct {
	Matrix  *c19MatrixCase  `json:"matrix,omitempty"`
	Flip    *c19FlipCase    `json:"flip,omitempty"`
	MsgFlip *c19MsgFlipCase `json:"msg_flip,omitempty"`
	Key     *c19KeyCase     `json:"key,omitempty"`
	Derive  *c19DeriveCase  `json:"derive,omitempty"`
	Pair    *c19PairCase    `json:"pair,omitempty"`
	Collide *c19CollideCase `json:"collision,omitempty"`
	DocCase *c19DocCase     `json:"doc,omitempty"`
	Row     *c19RowCase     `json:"row,omitempty"`
	Cpc     *c19CpcCase     `json:"cpc,omitempty"`
}

func (e *c19Env) evalCase(c c19Case) (fs []ev.Finding, class string) {
	switch {
	case c.Matrix != nil:
		return e.evalMatrix(*c.Matrix)
	case c.Flip != nil:
		return e.evalFlip(*c.Flip)
	case c.MsgFlip != nil:
		return e.evalMsgFlip(*c.MsgFlip)
	case c.Key != nil:
		return e.evalKey(*c.Key)
	case c.Derive != nil:
		return e.evalDerive(*c.Derive)
	case c.Pair != nil:
		return e.evalPair(*c.Pair)
	case c.Collide != nil:
		return e.evalCollide(*c.Collide)
	case c.DocCase != nil:
		return e.evalDoc(*c.DocCase)
	case c.Row != nil:
		return e.evalRow(*c.Row)
	case c.Cpc != nil:
		return e.evalCpc(*c.Cpc)
	}
	return nil, "empty"
}

func runC19(replay string) int {
	run := ev.NewRun("C19", "model_checking")
	run.Assumptions = []string{
		"PrivKey.Sign is documented to sign 'the provided hash of the message': a 32-byte input is taken as the digest itself, any other input is Keccak-256 hashed first; the oracle models the signed digest accordingly (so Sign(sk, h) with h = Keccak(m) is a signature of m, and Sign(sk, m32) of a 32-byte m32 does not verify against m32 itself)",
		"the recovery byte V of a 65-byte signature is not part of the verified [R||S] signature: flipping it must not change the verdict; the high-S twin (r, n−s) of a signature is informational (same key, same message)",
		"EIP-712 injectivity is demanded in the fields the property lists (chain id, account number, sequence, fee coins, gas limit, memo, every message field); amino and protobuf encodings of the same logical document may render identically, and fee payer / granter / tip / signer-info public key / sign mode are probed informationally only",
		"a document the renderer refuses (error) is counted, never a violation; a panic is",
		"the independent derivation reference is cosmos-sdk crypto/hd + cosmos/go-bip39 (own HMAC-SHA512 / scalar arithmetic), checked against the published BIP-39 seed and Hardhat/abandon-about vectors before use",
	}
	if replay != "" {
		return replayCase(run, replay, func(raw json.RawMessage) []ev.Finding {
			var c c19Case
			dec := json.NewDecoder(bytes.NewReader(raw))
			if err := dec.Decode(&c); err != nil {
				fmt.Fprintln(os.Stderr, err)
				os.Exit(2)
			}
			e := c19NewEnv(run)
			fs, class := e.evalCase(c)
			fmt.Println("outcome:", class)
			return fs
		})
	}
	run.Sharded(Shards(), func(shard, n int) {
		e := c19NewEnv(run)
		cases := e.enumerate()
		for i, c := range cases {
			if i%n != shard {
				continue
			}
			fs, class := e.evalCase(c.c)
			if i < 4*n { // determinism: the first cases of every shard are executed twice
				fs2, class2 := e.evalCase(c.c)
				if class2 != class || len(fs2) != len(fs) {
					fmt.Fprintf(os.Stderr, "HARNESS-NONDETERMINISM in C19 case %d (%s): %q vs %q\n", i, c.clause, class, class2)
					os.Exit(2)
				}
			}
			run.Count("cases", 1)
			run.Count("cases:"+c.clause, 1)
			run.Outcome(c.clause + ":" + class)
			run.Distinct(c.clause + "|" + c.input + "|" + class)
			if i%(len(cases)/4+1) == 0 {
				run.Sample(map[string]interface{}{"case": c.c, "outcome": class})
			}
			for _, f := range fs {
				run.Fail(f)
			}
		}
		if shard == 0 {
			e.globalChecks()
		}
	})
	run.Coverage["evaluations"] = run.Counter("evaluations")
	run.Coverage["exhaustive"] = true
	run.Coverage["rule"] = c19Rule(run.Thorough())
	return run.Finish()
}

type c19Enum struct {
	c      c19Case
	clause string // sub-check
	input  string // input class for Distinct()
}

func c19Rule(thorough bool) string {
	if thorough {
		return "keys K = {1,2,3,4,n−1,n−2,n−3,2^255,2^128,(n±1)/2, sha256 of 4 fixed strings} (15); messages M = {empty, 1 byte, 32 bytes, 1000 bytes, amino-JSON StdSignDoc and protobuf SignDoc of a bank MsgSend, EIP-712 bytes of the former, EIP-712 hash of the latter}; full matrix K×M×K×M × signature forms {65 bytes, 65 bytes with V+27, 64 bytes [R||S]}; all 520/512 signature bit flips (65- and 64-byte form, raw and EIP-712 signatures), all 264 public-key bit flips and 20 length/V/degenerate variants for every key; every single-bit flip of both signed sign documents (raw and EIP-712 signature); address, PubKey round trip and 7 codecs per key; derivation: 8 mnemonics × passphrases {'', x, TREZOR, x30, x266, x303 (parents with a leading zero byte)} × paths m/44'/60'/a'/c/i (a≤5, c≤1, i≤9) + other purposes/coin types/depths; EIP-712: 7 base documents × 2 encodings × every single-field perturbation (extended value lists) + field swaps: pairwise-distinct digests over all documents, signatures (raw and EIP-712, 2 signer keys) cross-verified over ALL ordered document pairs; staking precompile typed messages: all single-field perturbations, all pairs × all keys"
	}
	return "keys K = {1,2,3,n−1,n−2, sha256 of 2 fixed strings} (7); messages M = {empty, 1 byte, 32 bytes, 1000 bytes, amino-JSON StdSignDoc and protobuf SignDoc of a bank MsgSend, EIP-712 bytes of the former, EIP-712 hash of the latter}; full matrix K×M×K×M × signature forms {65 bytes, 65 bytes with V+27, 64 bytes [R||S]}; all 520/512 signature bit flips (65- and 64-byte form, raw and EIP-712 signatures), all 264 public-key bit flips and 20 length/V/degenerate variants for 3 keys; every single-bit flip of both signed sign documents (raw and EIP-712 signature); address, PubKey round trip and 7 codecs per key; derivation: 4 mnemonics (12 and 24 words) × passphrases {'', x} (+ x30, x266, x303 for the Hardhat mnemonic: parents with a leading zero byte) × paths m/44'/60'/a'/c/i (a≤2, c≤1, i≤3) against cosmos-sdk hd and published vectors, invalid mnemonics/paths; EIP-712: 7 base documents (send, delegate, send+send, vote, submit-proposal with nested Any and coin list, authz exec, send+delegate) × 2 encodings × every single-field perturbation of chain id, account number, sequence, fee amount, fee denom, gas, memo and every message leaf + field swaps: pairwise-distinct digests over all documents, signatures (raw and EIP-712) cross-verified over all ordered pairs inside each family; staking precompile typed messages: all single-field perturbations, all pairs × all keys. distinct_nontrivial = distinct (sub-check, input class, outcome)"
}
