package checks

import (
	"encoding/json"
	"fmt"
	"math/big"
	"os"

	"github.com/ethereum/go-ethereum/common"

	"verif/harness/ev"
)

func init() {
	Registry["C04"] = func(replay string) int { return runLedgerCheck("C04", replay) }
}

var ledgerKinds = []TxKind{KTransfer, KCreateOK, KSstore, KSclear, KLogRevert, KOutOfGas, KSuicide, KSuicide2, KIntrinsicLow, KValueTooHigh, KBurn, KInvalid, KCreateFail, KErc20Burn, KErc20Transfer, KCreateValueHigh}
var ledgerFees = []FeeKind{FLegacyB, FLegacy2B, FDynTip0, FDynTip1Cap}

// Value-recipient kinds of C04 (kit.go): who receives the value is a dimension of its own. Module accounts are the interesting
// recipients (the evm module account is the mint/burn relay that must end empty, the fee collector must gain fees only);
// "@..." recipients are ordinary ones (positive controls of the gadgets).
//
// c04RecipientKindsWide goes into the single-tx product and the two-block histories, c04RecipientKindsPair (a subset) also into
// the full two-tx product together with the 16 basic kinds.
var c04RecipientKindsWide, c04RecipientKindsPair = func() (wide, pair []TxKind) {
	for _, r := range ModuleRecipients {
		wide = append(wide, KRecipient(ModePay, r))
	}
	wide = append(wide, KRecipient(ModePay, RcpSelf), KRecipient(ModePay, RcpWallet))
	for _, r := range GadgetRecipients {
		wide = append(wide, KRecipient(ModeForward, r), KRecipient(ModeSuicide, r))
	}
	for _, r := range []Recipient{"evm", "fee_collector", "bonded_tokens_pool"} {
		pair = append(pair, KRecipient(ModePay, r), KRecipient(ModeForward, r), KRecipient(ModeSuicide, r))
	}
	pair = append(pair, KRecipient(ModeForward, RcpSink))
	return
}()

// c04RecipientKindsPairThorough: all three modes for every gadget recipient (adds distribution and suicide:@sink).
var c04RecipientKindsPairThorough = func() (pair []TxKind) {
	for _, r := range GadgetRecipients {
		if r.IsModule() {
			pair = append(pair, KRecipient(ModePay, r))
		}
		pair = append(pair, KRecipient(ModeForward, r), KRecipient(ModeSuicide, r))
	}
	return
}()

// ledgerKindSets gives the alphabets of a ledger check: `single` for single-tx blocks and two-block histories, `pair` for the
// multi-tx products. C05 keeps the basic alphabet.
func ledgerKindSets(id string, thorough bool) (single, pair []TxKind) {
	if id != "C04" {
		return ledgerKinds, ledgerKinds
	}
	single = append(append([]TxKind{}, ledgerKinds...), c04RecipientKindsWide...)
	pair = append(append([]TxKind{}, ledgerKinds...), c04RecipientKindsPair...)
	if thorough {
		pair = append(append([]TxKind{}, ledgerKinds...), c04RecipientKindsPairThorough...)
	}
	// the same funded contract self-destructs twice within one tx (with and without being paid again in between)
	single = append(single, KKillTwice, KKillPayKill)
	pair = append(pair, KKillTwice, KKillPayKill)
	return
}

// pilotGas measures the gas used by each kind with its default limit (single-tx block, 40M world).
func pilotGas(kinds []TxKind) map[TxKind]uint64 {
	out := map[TxKind]uint64{}
	for _, k := range kinds {
		_, bl := ledgerRun(ledgerCase{MaxGas: 40_000_000, Blocks: [][]TxSpec{{{Kind: k, Sender: 0, Fee: FLegacyB}}}})
		t := bl[0].Txs[0]
		if t.Rc != nil && t.Rc.HasReceipt {
			out[k] = t.Rc.GasUsed
		} else {
			out[k] = DefaultGas(k)
		}
	}
	return out
}

func ledgerCases(id string, thorough bool) []ledgerCase {
	singleKinds, pairKinds := ledgerKindSets(id, thorough)
	used := pilotGas(singleKinds)
	var cases []ledgerCase
	gasVariants := func(k TxKind) []uint64 {
		u := used[k]
		return []uint64{u, u + 1, 2 * u, 6_000_000}
	}
	// single-tx blocks: full product kind × fee × gas limit × world
	// (C04: also from the state after a warm-up block, i.e. with the evm module account already in existence)
	warms := []bool{false}
	if id == "C04" {
		warms = []bool{false, true}
	}
	for _, warm := range warms {
		for _, mg := range []int64{40_000_000, 100_000} {
			for _, k := range singleKinds {
				for _, f := range ledgerFees {
					for _, g := range gasVariants(k) {
						cases = append(cases, ledgerCase{MaxGas: mg, Warm: warm, Blocks: [][]TxSpec{{{Kind: k, Sender: 0, Fee: f, GasLimit: g}}}})
					}
				}
			}
		}
	}
	// two-tx blocks
	type fg struct {
		f FeeKind
		g int // index into gasVariants
	}
	combos := []fg{{FLegacyB, 2}, {FDynTip1Cap, 1}}
	if thorough {
		combos = []fg{{FLegacyB, 2}, {FDynTip1Cap, 1}, {FLegacy2B, 3}, {FDynTip0, 0}}
	}
	for _, mg := range []int64{40_000_000, 100_000} {
		pairKinds := pairKinds
		if id == "C04" && !thorough && mg == 100_000 {
			// quick tier: in the 100k world (second tx mostly dropped for block gas) the product runs over the basic kinds only; the
			// value-recipient kinds meet each other in the 40M world (and in both worlds in the thorough tier)
			pairKinds = ledgerKinds
		}
		for _, k1 := range pairKinds {
			for _, c1 := range combos {
				for _, k2 := range pairKinds {
					for _, c2 := range combos {
						for _, sameSender := range []bool{false, true} {
							s2 := 1
							if sameSender {
								s2 = 0
							}
							cases = append(cases, ledgerCase{MaxGas: mg, Blocks: [][]TxSpec{{
								{Kind: k1, Sender: 0, Fee: c1.f, GasLimit: gasVariants(k1)[c1.g]},
								{Kind: k2, Sender: s2, Fee: c2.f, GasLimit: gasVariants(k2)[c2.g]},
							}}})
						}
					}
				}
			}
		}
	}
	// two-block histories (the second block sees the base fee moved by the first and destroyed contracts)
	firsts := [][]TxSpec{
		{{Kind: KBurn, Sender: 2, Fee: FLegacyB, GasLimit: 70000}, {Kind: KSuicide2, Sender: 3, Fee: FLegacyB}},
		{{Kind: KSclear, Sender: 2, Fee: FLegacy2B}},
	}
	if id == "C04" {
		// first blocks that move (or try to move) value to module accounts in all three ways
		firsts = append(firsts,
			[]TxSpec{{Kind: KRecipient(ModePay, "evm"), Sender: 2, Fee: FLegacyB, GasLimit: 30000}, {Kind: KRecipient(ModeSuicide, "fee_collector"), Sender: 3, Fee: FDynTip1Cap}},
			[]TxSpec{{Kind: KRecipient(ModeForward, "fee_collector"), Sender: 2, Fee: FLegacy2B}, {Kind: KRecipient(ModeSuicide, "evm"), Sender: 2, Fee: FLegacyB}, {Kind: KRecipient(ModePay, "distribution"), Sender: 0, Fee: FDynTip0}},
		)
	}
	for fi, f := range firsts {
		for _, k := range singleKinds {
			for _, c1 := range combos {
				// the two C04 first blocks run in the 40M world (all their txs fit) after a warm-up block
				mg, warm := int64(100_000), false
				if fi >= 2 {
					mg, warm = 40_000_000, true
				}
				cases = append(cases, ledgerCase{MaxGas: mg, Warm: warm, Blocks: [][]TxSpec{f, {{Kind: k, Sender: 0, Fee: c1.f, GasLimit: gasVariants(k)[c1.g]}}}})
			}
		}
	}
	if id == "C04" {
		// magnitude dimension (c04_mag.go): amounts around the integer-width boundaries
		cases = append(cases, c04MagCases(thorough, used)...)
		// account-existence dimension (c04_exist.go): creation targets / recipients that hold coins without an account record
		cases = append(cases, c04ExistCases(thorough)...)
	}
	if thorough {
		// three-tx blocks with a cosmos tx in the middle
		for _, k1 := range pairKinds {
			for _, k3 := range pairKinds {
				cases = append(cases, ledgerCase{MaxGas: 100_000, Blocks: [][]TxSpec{{
					{Kind: k1, Sender: 0, Fee: FDynTip1Cap, GasLimit: gasVariants(k1)[2]},
					{Kind: KCosmosSend, Sender: 1},
					{Kind: k3, Sender: 0, Fee: FLegacyB, GasLimit: gasVariants(k3)[1]},
				}}})
			}
		}
	}
	return cases
}

// c04Oracle: supply conservation.
func c04Oracle(c ledgerCase, blocks []*blockObs) []ev.Finding {
	var out []ev.Finding
	fail := func(clause, sig, detail string) {
		out = append(out, ev.Finding{Clause: clause, Signature: sig, Detail: detail, Replay: c})
	}
	for bi, b := range blocks {
		if b.Panic != "" || b.Err != nil {
			fail("block-executes", "", fmt.Sprintf("block %d: panic=%q err=%v", bi, b.Panic, b.Err))
			return out
		}
		// explicitly destroyed amounts, and what the defect-aware explanation predicts
		destroyed := map[string]*big.Int{}
		for _, d := range ledgerDenoms {
			destroyed[d] = new(big.Int)
		}
		refundMinted := new(big.Int) // Σ (limit − used) × price over committed eth txs
		feesByUsed := new(big.Int)   // Σ gas charged × price  (what the sender really pays)
		feesByLimit := new(big.Int)  // Σ limit × price over admitted eth txs
		alive := map[string]bool{}
		for k, v := range b.ContractsAlivePre {
			alive[k] = v
		}
		for i := range b.Txs {
			t := &b.Txs[i]
			switch t.Class {
			case "cosmos-ok", "cosmos-fail":
				if t.Class == "cosmos-ok" {
					fee := new(big.Int).Mul(new(big.Int).SetUint64(DefaultGas(KCosmosSend)), b.BaseFee)
					feesByUsed.Add(feesByUsed, fee)
					feesByLimit.Add(feesByLimit, fee)
				}
				continue
			case "not-admitted":
				continue
			}
			p := price(t, b.BaseFee)
			limit := new(big.Int).SetUint64(t.Eth.Gas())
			feesByLimit.Add(feesByLimit, new(big.Int).Mul(limit, p))
			if t.Class == "failed-after-admission" {
				feesByUsed.Add(feesByUsed, new(big.Int).Mul(limit, p))
				continue
			}
			used := new(big.Int).SetUint64(t.Rc.GasUsed)
			feesByUsed.Add(feesByUsed, new(big.Int).Mul(used, p))
			refundMinted.Add(refundMinted, new(big.Int).Mul(new(big.Int).Sub(limit, used), p))
			if t.Class == "committed-ok" && t.Spec.Kind == KSuicide2 && alive[AddrSuicide2.Hex()] {
				destroyed["utwo"].Add(destroyed["utwo"], big.NewInt(7))
				alive[AddrSuicide2.Hex()] = false
			}
			if t.Class == "committed-ok" && t.Spec.Kind == KErc20Burn {
				destroyed[ledgerDenoms[0]].Add(destroyed[ledgerDenoms[0]], big.NewInt(Erc20BurnAmount)) // an explicit burn call
			}
			if t.Class == "committed-ok" && t.Spec.Kind == KSuicide {
				alive[AddrSuicide.Hex()] = false
			}
		}
		for _, d := range ledgerDenoms {
			ds := new(big.Int).Sub(b.SupPost[d], b.SupPre[d])
			want := new(big.Int).Neg(destroyed[d])
			if ds.Cmp(want) != 0 {
				sig := ""
				if d == ledgerDenoms[0] && new(big.Int).Sub(ds, want).Cmp(refundMinted) == 0 && refundMinted.Sign() > 0 {
					sig = "C04/unused-gas-refund-minted"
				}
				fail("supply-changes-only-by-explicit-burns", sig, fmt.Sprintf("block %d (%s): Δsupply(%s)=%s want %s; Σ(limit−used)×price=%s", bi, b.outcome(), d, ds, want, refundMinted))
			}
			// Σ balances == supply
			sum := new(big.Int)
			for _, a := range sortedKeys(b.Post) {
				if v := b.Post[a][d]; v != nil {
					sum.Add(sum, v)
				}
			}
			if sum.Cmp(b.SupPost[d]) != 0 {
				fail("balances-sum-to-supply", "", fmt.Sprintf("block %d: Σbalances(%s)=%s supply=%s", bi, d, sum, b.SupPost[d]))
			}
			if v := bal(b.Post, evmModule, d); v.Sign() != 0 {
				fail("evm-module-account-empty", "", fmt.Sprintf("block %d: evm module holds %s%s", bi, v, d))
			}
		}
		// fee collector: post-commit balance is exactly this block's fees (the previous balance is swept in BeginBlock)
		fc := bal(b.Post, feeCollector, ledgerDenoms[0])
		if fc.Cmp(feesByUsed) != 0 {
			sig := ""
			if fc.Cmp(feesByLimit) == 0 {
				sig = "C04/unused-gas-refund-minted"
			}
			fail("fee-collector-gains-what-senders-paid", sig, fmt.Sprintf("block %d (%s): fee collector=%s, senders paid %s (limit×price=%s)", bi, b.outcome(), fc, feesByUsed, feesByLimit))
		}
	}
	return out
}

// c04RecipientSanity: the value-recipient part of the alphabet is what it claims to be. (1) ModuleRecipients are exactly the module
// accounts of the running app, at the addresses the kinds use; (2) the gadgets work: with an ordinary recipient the forwarding
// gadget passes the value on, the self-destructing gadget hands over its whole balance, the plain payment arrives - so a
// module-account recipient is the only difference between these controls and the kinds under test.
func c04RecipientSanity(run *ev.Run) (out []ev.Finding) {
	fail := func(detail string, c interface{}) {
		if c == nil {
			c = map[string]string{"part": "recipient-sanity"}
		}
		out = append(out, ev.Finding{Clause: "alphabet-sanity", Detail: detail, Replay: c})
	}
	w := ledgerWorld(ledgerCase{MaxGas: 40_000_000})
	w.Block(nil)
	perms := w.App.AccountKeeper.GetModulePermissions()
	blocked := 0
	for _, r := range ModuleRecipients {
		a := w.App.AccountKeeper.GetModuleAddress(string(r))
		if a == nil || common.BytesToAddress(a) != r.StaticAddr() {
			fail(fmt.Sprintf("recipient %q is not a module account of the app (module address %v)", r, a), nil)
			continue
		}
		if w.App.BankKeeper.BlockedAddr(a) {
			blocked++
		}
	}
	if len(perms) != len(ModuleRecipients) {
		fail(fmt.Sprintf("the app has %d module accounts, the alphabet names %d", len(perms), len(ModuleRecipients)), nil)
	}
	run.Note("value-recipient alphabet: %d module accounts (all module accounts of the app), %d of them on the bank keeper's blocked list", len(ModuleRecipients), blocked)
	for _, x := range []struct {
		kind   TxKind
		gains  func(w int) common.Address
		amount int64
		gadget common.Address
	}{
		{KRecipient(ModePay, RcpWallet), func(int) common.Address { return walletAddr(1) }, RecipientValue, common.Address{}},
		{KRecipient(ModeForward, RcpSink), func(int) common.Address { return AddrSink }, RecipientValue, AddrForwardTo(RcpSink)},
		{KRecipient(ModeSuicide, RcpSink), func(int) common.Address { return AddrSink }, SuicideGadgetFunds, AddrSuicideTo(RcpSink)},
	} {
		for _, warm := range []bool{false, true} {
			c := ledgerCase{MaxGas: 40_000_000, Warm: warm, Blocks: [][]TxSpec{{{Kind: x.kind, Sender: 0, Fee: FLegacyB, GasLimit: 150000}}}}
			_, bl := ledgerRun(c)
			b := bl[0]
			if b.Panic != "" || b.Err != nil || b.Txs[0].Class != "committed-ok" {
				fail(fmt.Sprintf("control %s must succeed: %s panic=%q err=%v log=%.120q", x.kind, b.outcome(), b.Panic, b.Err, b.Txs[0].Log), c)
				continue
			}
			if d := delta(b, x.gains(0), ledgerDenoms[0]); d.Cmp(big.NewInt(x.amount)) != 0 {
				fail(fmt.Sprintf("control %s: recipient gained %s, want %d", x.kind, d, x.amount), c)
			}
			if x.gadget != (common.Address{}) {
				if v := bal(b.Post, x.gadget, ledgerDenoms[0]); v.Sign() != 0 {
					fail(fmt.Sprintf("control %s: gadget keeps %s", x.kind, v), c)
				}
			}
			run.Count("recipient_controls_ok", 1)
		}
	}
	// every gadget of a module recipient is installed with the code / funds the kinds rely on
	for _, r := range GadgetRecipients {
		ctx := w.Ctx()
		for _, a := range []common.Address{AddrForwardTo(r), AddrSuicideTo(r)} {
			if len(w.App.EvmKeeper.GetCode(ctx, w.App.EvmKeeper.GetCodeHash(ctx, a.Bytes()))) == 0 {
				fail(fmt.Sprintf("gadget %s of recipient %q has no code", a.Hex(), r), nil)
			}
		}
		if v := w.Balance(ctx, AddrSuicideTo(r), ledgerDenoms[0]); v.Cmp(big.NewInt(SuicideGadgetFunds)) != 0 {
			fail(fmt.Sprintf("self-destruct gadget of %q holds %s, want %d", r, v, SuicideGadgetFunds), nil)
		}
	}
	return out
}

func runLedgerCheck(id string, replay string) int {
	run := ev.NewRun(id, "model_checking")
	run.Assumptions = []string{
		"mint inflation is forced to 0 in the worlds so that supply is constant outside transactions (asserted on the empty first block)",
		"effective price is recomputed independently from the tx fee fields and the base fee read before the block",
	}
	oracle := c04Oracle
	if id == "C05" {
		oracle = c05Oracle
	}
	if replay != "" {
		return replayCase(run, replay, func(raw json.RawMessage) []ev.Finding {
			var probe struct {
				Part string `json:"part"`
			}
			_ = json.Unmarshal(raw, &probe)
			if id == "C05" && probe.Part == "refund" {
				var rc c05RefundCase
				if err := json.Unmarshal(raw, &rc); err != nil {
					fmt.Fprintln(os.Stderr, err)
					os.Exit(2)
				}
				_, _, fs := c05RefundRun(c05RefundWorld(), rc)
				return fs
			}
			if id == "C04" && probe.Part == "recipient-sanity" {
				return c04RecipientSanity(run)
			}
			if id == "C04" && probe.Part == "exist-sanity" {
				return c04ExistSanity(run)
			}
			var c ledgerCase
			if err := json.Unmarshal(raw, &c); err != nil {
				fmt.Fprintln(os.Stderr, err)
				os.Exit(2)
			}
			_, bl := ledgerRun(c)
			fmt.Println("outcome:", outcomeOf(bl))
			for bi, b := range bl {
				for i, t := range b.Txs {
					fmt.Printf("  block %d tx %d %s: class=%s code=%d vmerr=%q log=%q\n", bi, i, t.Spec, t.Class, t.Code, t.VmErr, t.Log[:min(len(t.Log), 160)])
				}
			}
			return oracle(c, bl)
		})
	}
	var cases []ledgerCase
	if !ev.IsShardChild() || true {
		cases = ledgerCases(id, run.Thorough())
	}
	run.Sharded(Shards(), func(shard, n int) {
		if id == "C05" && shard == 0 {
			c05RefundPass(run, c05RefundWorld())
		}
		if id == "C04" && shard == n-1 {
			for _, f := range c04RecipientSanity(run) {
				run.Fail(f)
			}
		}
		if id == "C04" && shard == (n-1)/2 {
			for _, f := range c04ExistSanity(run) {
				run.Fail(f)
			}
		}
		for i, c := range cases {
			if i%n != shard {
				continue
			}
			_, bl := ledgerRun(c)
			oc := outcomeOf(bl)
			fs := oracle(c, bl)
			if i < 2*n {
				_, bl2 := ledgerRun(c)
				if outcomeOf(bl2) != oc || len(oracle(c, bl2)) != len(fs) {
					fmt.Fprintf(os.Stderr, "HARNESS-NONDETERMINISM in %s case %d\n", id, i)
					os.Exit(2)
				}
			}
			if id == "C04" && c04IsMagCase(c) {
				fs = append(fs, c04MagObserve(run, c, bl)...)
			}
			if id == "C04" && c.Exist != "" {
				c04ExistObserve(run, c, bl)
			}
			run.Count("transitions", int64(len(c.Blocks)))
			run.Count("traces_validated_against_impl", 1)
			nt := 0
			for _, b := range c.Blocks {
				nt += len(b)
			}
			run.Count("txs_executed", int64(nt))
			run.Outcome(oc)
			key, _ := json.Marshal(c)
			nontrivial := false
			for _, b := range bl {
				for _, t := range b.Txs {
					if mode, r, ok := t.Spec.Kind.ValueRecipient(); ok && r.IsModule() {
						run.Count("module_recipient_txs", 1)
						run.Count("module_recipient_txs_"+string(mode)+"_"+t.Class, 1)
					}
					if t.Class == "committed-ok" || t.Class == "committed-vmerr" {
						if t.Eth != nil && t.Rc.GasUsed < t.Eth.Gas() {
							nontrivial = true // a refund of unused gas was due
						}
					}
					if t.Class == "failed-after-admission" {
						nontrivial = true
					}
				}
			}
			if nontrivial {
				run.Distinct(string(key))
			}
			if i%(len(cases)/4+1) == 0 {
				run.Sample(map[string]interface{}{"case": c, "outcome": oc})
			}
			for _, f := range fs {
				run.Fail(f)
			}
		}
	})
	run.Coverage["states"] = int(run.Counter("transitions")) + 1
	run.Coverage["evaluations"] = len(cases)
	run.Coverage["exhaustive"] = true
	run.Coverage["max_depth"] = 2
	refundRule := ""
	if id == "C05" {
		refundRule = "; refund pass (keeper level, counting tracer): contracts clearing 0..8 pre-set slots and one setting fresh slots x 7 gas limits {3M, consumed, consumed+1, 2x, 5x, 6M, 30M}: reported gas used = consumed - min(4800 x clears, consumed/5) and independent of the limit"
	}
	singleKinds, pairKinds := ledgerKindSets(id, run.Thorough())
	recipientRule := ""
	if id == "C04" {
		recipientRule = fmt.Sprintf("; kinds = 16 basic kinds + value-recipient kinds <mode>:<recipient> (value %d as top-level `to` = pay, as value-carrying CALL from a gadget contract = forward, whole balance %d of a gadget as SELFDESTRUCT beneficiary = suicide): single-tx blocks and second blocks use pay x all %d module accounts + @self + @wallet and forward/suicide x {@sink, evm, fee_collector, bonded_tokens_pool, distribution}, multi-tx blocks use %s; single-tx blocks both from genesis and after a warm-up block (evm module account exists); 2 more first blocks made of module-recipient txs", RecipientValue, SuicideGadgetFunds, len(ModuleRecipients), map[bool]string{false: "pay/forward/suicide x {evm, fee_collector, bonded_tokens_pool} + forward:@sink", true: "pay/forward/suicide x {evm, fee_collector, bonded_tokens_pool, distribution} + forward:@sink + suicide:@sink"}[run.Thorough()]) + c04MagRule(run.Thorough()) + c04ExistRule(run.Thorough())
	}
	run.Coverage["rule"] = refundRule[min(2, len(refundRule)):] + " " + fmt.Sprintf("single-tx blocks: full product of %d kinds × %d fee shapes × 4 gas limits {used, used+1, 2×used, 6M} × MaxGas∈{40M,100k}; two-tx blocks: (%d kinds × fee/gas combo)² × {same, different sender} × both worlds%s; two-block histories after fixed first blocks%s%s. distinct_nontrivial = distinct histories in which an unused-gas refund was due or a tx failed after admission", len(singleKinds), len(ledgerFees), len(pairKinds), map[bool]string{true: " (100k world: the 16 basic kinds only)", false: ""}[id == "C04" && !run.Thorough()], map[bool]string{false: "", true: "; three-tx blocks with a Cosmos tx in the middle"}[run.Thorough()], recipientRule)
	return run.Finish()
}

var _ = common.Address{}
