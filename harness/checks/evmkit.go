package checks

import (
	"crypto/sha256"
	"fmt"
	"math/big"
	"sort"

	sdk "github.com/cosmos/cosmos-sdk/types"
	authtypes "github.com/cosmos/cosmos-sdk/x/auth/types"
	"github.com/ethereum/go-ethereum/common"
	ethtypes "github.com/ethereum/go-ethereum/core/types"
	corevm "github.com/ethereum/go-ethereum/core/vm"
	ethcrypto "github.com/ethereum/go-ethereum/crypto"

	evmtypes "github.com/EscanBE/evermint/v12/x/evm/types"
	evmvm "github.com/EscanBE/evermint/v12/x/evm/vm"

	"verif/harness/world"
)

// CallResult is the outcome of one keeper-level EVM call.
type CallResult struct {
	Ret     []byte
	Err     error // vm error (nil = success)
	Logs    []*ethtypes.Log
	GasLeft uint64
	Panic   string
}

// CallEVM runs caller -> to with data through the real NewStateDB + NewEVM + evm.Call and then commits the StateDB
// into ctx exactly as ApplyMessageWithConfig does (commit happens whether or not the VM reported an error; the EVM
// itself is responsible for having reverted a failed frame). ctx should be a branch (CacheContext) of the parent state.
func CallEVM(w *world.World, ctx sdk.Context, from, to common.Address, data []byte, value *big.Int, gas uint64) (res CallResult) {
	defer func() {
		if r := recover(); r != nil {
			res.Panic = fmt.Sprint(r)
		}
	}()
	if value == nil {
		value = new(big.Int)
	}
	k := w.App.EvmKeeper
	cfg, err := k.EVMConfig(ctx, nil)
	if err != nil {
		panic(err)
	}
	zero := new(big.Int)
	msg := ethtypes.NewMessage(from, &to, 0, value, gas, zero, zero, zero, data, nil, true)
	sdb := evmvm.NewStateDB(ctx, cfg.CoinBase, k, w.App.AccountKeeper, w.App.BankKeeper)
	evm := k.NewEVM(ctx, msg, cfg, evmtypes.NewNoOpTracer(), sdb)
	rules := cfg.ChainConfig.Rules(big.NewInt(ctx.BlockHeight()), false)
	sdb.PrepareAccessList(from, &to, append(corevm.ActivePrecompiles(rules), evm.GetCustomPrecompiledContractsAddress()...), nil)
	res.Ret, res.GasLeft, res.Err = evm.Call(corevm.AccountRef(from), to, data, gas, value)
	res.Logs = sdb.GetTransactionLogs()
	if err := sdb.CommitMultiStore(true); err != nil {
		panic(err)
	}
	return res
}

// Sel returns the 4-byte selector of a function signature.
func Sel(sig string) []byte { return ethcrypto.Keccak256([]byte(sig))[:4] }

// Word encodes v as a 32-byte big-endian word.
func Word(v *big.Int) []byte { return common.LeftPadBytes(v.Bytes(), 32) }

// AddrWord encodes an address as an ABI word.
func AddrWord(a common.Address) []byte { return common.LeftPadBytes(a.Bytes(), 32) }

// Enc concatenates a selector and words.
func Enc(sig string, words ...[]byte) []byte {
	out := append([]byte{}, Sel(sig)...)
	for _, w := range words {
		out = append(out, w...)
	}
	return out
}

// CanonKey hashes the state seen through ctx after projecting out what the explored behaviour cannot observe:
// account numbers (including the global counter) are dropped from the auth store — an account is (address, type, sequence);
// every other store is hashed byte for byte. Account numbers are assigned from a global counter that every EVM call to a
// precompile advances (CreateAccount of the touched precompile address), so two states that differ only there have the same
// futures for every operation of the alphabets that use this key.
func CanonKey(w *world.World, ctx sdk.Context, skipStores ...string) [32]byte {
	skip := map[string]bool{authtypes.StoreKey: true}
	for _, s := range skipStores {
		skip[s] = true
	}
	var names []string
	for _, n := range w.StoreNames() {
		if !skip[n] {
			names = append(names, n)
		}
	}
	h := sha256.New()
	var l [8]byte
	put := func(b []byte) {
		n := len(b)
		for i := 0; i < 8; i++ {
			l[i] = byte(n >> (8 * i))
		}
		h.Write(l[:])
		h.Write(b)
	}
	for _, name := range names {
		put([]byte(name))
		it := ctx.KVStore(w.Keys[name]).Iterator(nil, nil)
		for ; it.Valid(); it.Next() {
			put(it.Key())
			put(it.Value())
		}
		it.Close()
	}
	var accs []string
	w.App.AccountKeeper.IterateAccounts(ctx, func(a sdk.AccountI) bool {
		accs = append(accs, fmt.Sprintf("%x|%T|%d", a.GetAddress().Bytes(), a, a.GetSequence()))
		return false
	})
	sort.Strings(accs)
	for _, a := range accs {
		put([]byte(a))
	}
	var r [32]byte
	copy(r[:], h.Sum(nil))
	return r
}

type bigIntT = big.Int

var bigOne = big.NewInt(1)
