package checks

import (
	"bytes"
	"encoding/hex"
	"encoding/json"
	"fmt"
	"math/big"
	"os"
	"strings"

	sdkmath "cosmossdk.io/math"
	codectypes "github.com/cosmos/cosmos-sdk/codec/types"
	sdk "github.com/cosmos/cosmos-sdk/types"
	authtypes "github.com/cosmos/cosmos-sdk/x/auth/types"
	vestingtypes "github.com/cosmos/cosmos-sdk/x/auth/vesting/types"
	"github.com/cosmos/cosmos-sdk/x/authz"
	banktypes "github.com/cosmos/cosmos-sdk/x/bank/types"
	ethcrypto "github.com/ethereum/go-ethereum/crypto"

	vauthkeeper "github.com/EscanBE/evermint/v12/x/vauth/keeper"
	vauthtypes "github.com/EscanBE/evermint/v12/x/vauth/types"

	"verif/harness/ev"
	"verif/harness/world"
)

func init() { Registry["C16"] = runC16 }

var c16Cost = new(big.Int).Exp(big.NewInt(10), big.NewInt(18), nil)

// c16Op is one proof submission.
type c16Op struct {
	Submitter string `json:"submitter"` // R (rich) | E (exactly the fee) | P (poor)
	Account   string `json:"account"`   // A | B | self
	Sig       string `json:"sig"`       // A | B | A-upper | A-64 | A-66 | empty | garbage | A-malleated | A-other-msg | A-v27
	Spell     string `json:"spell,omitempty"` // "" = lower-case bech32 of the account, "upper" = the all-upper-case spelling of the same address
}

func (o c16Op) String() string {
	if o.Spell != "" {
		return fmt.Sprintf("submit(%s proves %s[%s-case bech32] with %s)", o.Submitter, o.Account, o.Spell, o.Sig)
	}
	return fmt.Sprintf("submit(%s proves %s with %s)", o.Submitter, o.Account, o.Sig)
}

type c16World struct {
	w             *world.World
	root          sdk.Context
	ms            vauthtypes.MsgServer
	R, E, P, A, B *world.Acct
}

func c16Setup() *c16World {
	cw := &c16World{R: world.NewAcct("c16-rich"), E: world.NewAcct("c16-exact"), P: world.NewAcct("c16-poor"), A: world.NewAcct("c16-A"), B: world.NewAcct("c16-B")}
	coin := func(v *big.Int) sdk.Coins { return sdk.NewCoins(sdk.NewCoin(world.Denom, sdkmath.NewIntFromBigInt(v))) }
	w := world.New(world.Config{NumWallets: 2, Extra: []world.ExtraAccount{
		{Account: authtypes.NewBaseAccount(cw.R.Acc(), cw.R.Priv.PubKey(), 0, 0), Coins: coin(new(big.Int).Mul(c16Cost, big.NewInt(10)))},
		{Account: authtypes.NewBaseAccount(cw.E.Acc(), cw.E.Priv.PubKey(), 0, 0), Coins: coin(c16Cost)},
		{Account: authtypes.NewBaseAccount(cw.P.Acc(), cw.P.Priv.PubKey(), 0, 0), Coins: coin(new(big.Int).Sub(c16Cost, big.NewInt(1)))},
	}})
	w.Block(nil)
	cw.w, cw.root = w, w.Ctx()
	cw.ms = vauthkeeper.NewMsgServerImpl(w.App.VAuthKeeper)
	return cw
}

func (cw *c16World) acct(n string) *world.Acct {
	switch n {
	case "R":
		return cw.R
	case "E":
		return cw.E
	case "P":
		return cw.P
	case "A":
		return cw.A
	case "B":
		return cw.B
	}
	panic("acct " + n)
}

func signMsg(a *world.Acct, msg string) []byte {
	key, _ := ethcrypto.ToECDSA(a.Priv.Key)
	sig, err := ethcrypto.Sign(ethcrypto.Keccak256([]byte(msg)), key)
	if err != nil {
		panic(err)
	}
	return sig
}

// sigOf returns the hex signature string for a variant and whether it is (an encoding of) a signature made by A's / B's key
// over the module's message: signer = "A" | "B" | "" ; canonical = produced exactly as a wallet would (lower-case hex, 65 bytes, low s).
func (cw *c16World) sigOf(v string) (s string, signer string, canonical bool) {
	a := signMsg(cw.A, vauthtypes.MessageToSign)
	switch v {
	case "A":
		return "0x" + hex.EncodeToString(a), "A", true
	case "B":
		return "0x" + hex.EncodeToString(signMsg(cw.B, vauthtypes.MessageToSign)), "B", true
	case "A-upper":
		return "0x" + strings.ToUpper(hex.EncodeToString(a)), "A", false
	case "A-64":
		return "0x" + hex.EncodeToString(a[:64]), "", false
	case "A-66":
		return "0x" + hex.EncodeToString(append(append([]byte{}, a...), 0)), "", false
	case "empty":
		return "0x", "", false
	case "garbage":
		return "0x" + strings.Repeat("ab", 65), "", false
	case "A-malleated":
		n := ethcrypto.S256().Params().N
		s := new(big.Int).Sub(n, new(big.Int).SetBytes(a[32:64]))
		m := append(append(append([]byte{}, a[:32]...), common32(s)...), a[64]^1)
		return "0x" + hex.EncodeToString(m), "A", false
	case "A-other-msg":
		return "0x" + hex.EncodeToString(signMsg(cw.A, vauthtypes.MessageToSign+"x")), "", false
	case "A-v27":
		m := append([]byte{}, a...)
		m[64] += 27
		return "0x" + hex.EncodeToString(m), "", false
	}
	panic("sig " + v)
}

func common32(v *big.Int) []byte {
	b := v.Bytes()
	out := make([]byte, 32)
	copy(out[32-len(b):], b)
	return out
}

func (cw *c16World) exec(parent sdk.Context, op c16Op) (ctx sdk.Context, ok bool, errMsg string) {
	ctx, _ = parent.CacheContext()
	defer func() {
		if r := recover(); r != nil {
			ctx, _ = parent.CacheContext()
			ok, errMsg = false, "panic: "+fmt.Sprint(r)
		}
	}()
	sub := cw.acct(op.Submitter)
	acc := sub
	if op.Account != "self" {
		acc = cw.acct(op.Account)
	}
	sig, _, _ := cw.sigOf(op.Sig)
	accStr := acc.Bech()
	if op.Spell == "upper" {
		accStr = strings.ToUpper(accStr)
	}
	msg := &vauthtypes.MsgSubmitProofExternalOwnedAccount{Submitter: sub.Bech(), Account: accStr, Signature: sig}
	// baseapp runs ValidateBasic of every message before the ante handler; a panic there is recovered like any other
	err := msg.ValidateBasic()
	if err == nil {
		_, err = cw.ms.SubmitProofExternalOwnedAccount(ctx, msg)
	}
	if err != nil {
		ctx, _ = parent.CacheContext()
		return ctx, false, err.Error()
	}
	return ctx, true, ""
}

type c16Model struct {
	Proven map[string]bool
	Bal    map[string]*big.Int
	Supply *big.Int
}

func (m *c16Model) clone() *c16Model {
	n := &c16Model{Proven: map[string]bool{}, Bal: map[string]*big.Int{}, Supply: new(big.Int).Set(m.Supply)}
	for k, v := range m.Proven {
		n.Proven[k] = v
	}
	for k, v := range m.Bal {
		n.Bal[k] = new(big.Int).Set(v)
	}
	return n
}

func (cw *c16World) proofBytes(ctx sdk.Context, a *world.Acct) []byte {
	return ctx.KVStore(cw.w.Keys[vauthtypes.StoreKey]).Get(vauthtypes.KeyProofExternalOwnedAccountByAddress(a.Acc()))
}

// check evaluates one transition and advances the model.
func (cw *c16World) check(m *c16Model, parent, post sdk.Context, op c16Op, ok bool, errMsg string) (bad []string) {
	fail := func(f string, a ...interface{}) { bad = append(bad, fmt.Sprintf(f, a...)) }
	_, signer, canonical := cw.sigOf(op.Sig)
	valid := op.Account != "self" && signer == op.Account // the signature was made by the key of the account to prove
	canPay := m.Bal[op.Submitter].Cmp(c16Cost) >= 0
	if ok {
		if !valid {
			fail("proof stored although the signature was not made by the account's key over the module's message")
		}
		if op.Account != "self" && m.Proven[op.Account] {
			fail("an already proven account was proven again")
		}
		if !canPay {
			fail("submitter could not afford the fee")
		}
		if op.Account != "self" {
			m.Proven[op.Account] = true
		}
		m.Bal[op.Submitter] = new(big.Int).Sub(m.Bal[op.Submitter], c16Cost)
		m.Supply = new(big.Int).Sub(m.Supply, c16Cost)
	} else {
		if valid && canonical && canPay && !m.Proven[op.Account] {
			fail("alphabet-sanity: a canonical valid submission was refused: %s", errMsg)
		}
		if h1, h2 := cw.w.Hash(parent), cw.w.Hash(post); h1 != h2 {
			fail("a rejected submission changed state")
		}
	}
	// observable state vs model
	for _, n := range []string{"R", "E", "P"} {
		if got := cw.w.Balance(post, cw.acct(n).Eth(), world.Denom); got.Cmp(m.Bal[n]) != 0 {
			fail("balance of %s = %s, reference %s", n, got, m.Bal[n])
		}
	}
	if got := cw.w.Supply(post, world.Denom); got.Cmp(m.Supply) != 0 {
		fail("supply = %s, reference %s (fee must be burnt, exactly once)", got, m.Supply)
	}
	if v := cw.w.Balance(post, world.ModuleAddr(vauthtypes.ModuleName), world.Denom); v.Sign() != 0 {
		fail("vauth module account holds %s", v)
	}
	for _, n := range []string{"A", "B", "R", "E", "P"} {
		has := cw.w.App.VAuthKeeper.HasProofExternalOwnedAccount(post, cw.acct(n).Acc())
		if has != m.Proven[n] {
			fail("proof stored for %s = %v, reference %v", n, has, m.Proven[n])
		}
		if before := cw.proofBytes(parent, cw.acct(n)); before != nil && !bytes.Equal(before, cw.proofBytes(post, cw.acct(n))) {
			fail("stored proof of %s was altered", n)
		}
	}
	return bad
}

func c16Alphabet() []c16Op {
	var ops []c16Op
	for _, sig := range []string{"A", "B", "A-upper", "A-64", "A-66", "empty", "garbage", "A-malleated", "A-other-msg", "A-v27"} {
		for _, acc := range []string{"A", "B", "self"} {
			for _, sub := range []string{"R", "E", "P"} {
				ops = append(ops, c16Op{Submitter: sub, Account: acc, Sig: sig})
			}
		}
	}
	// the same account under the other valid spelling of its bech32 address (with the signature that matches it)
	for _, acc := range []string{"A", "B"} {
		for _, sub := range []string{"R", "E"} {
			ops = append(ops, c16Op{Submitter: sub, Account: acc, Sig: acc, Spell: "upper"})
		}
	}
	return ops
}

// ---------------------------------------------------------------------------
// part 2: vesting-creation routing at ABCI level
// ---------------------------------------------------------------------------

type c16Route struct {
	Proven  []string `json:"proven"`  // accounts proven by a tx in an earlier block
	Msg     string   `json:"msg"`     // vesting | periodic | permanent
	Target  string   `json:"target"`  // A | B
	Routing string   `json:"routing"` // top | exec1..exec5 | grant | beside-send
}

func (cw *c16World) vestingMsg(kind string, from, to *world.Acct) sdk.Msg {
	amt := sdk.NewCoins(sdk.NewCoin(world.Denom, sdkmath.NewInt(1000)))
	end := world.BlockTime(100).Unix()
	switch kind {
	case "vesting":
		return &vestingtypes.MsgCreateVestingAccount{FromAddress: from.Bech(), ToAddress: to.Bech(), Amount: amt, EndTime: end, Delayed: true}
	case "periodic":
		return &vestingtypes.MsgCreatePeriodicVestingAccount{FromAddress: from.Bech(), ToAddress: to.Bech(), StartTime: world.BlockTime(1).Unix(), VestingPeriods: []vestingtypes.Period{{Length: 3600, Amount: amt}}}
	case "permanent":
		return &vestingtypes.MsgCreatePermanentLockedAccount{FromAddress: from.Bech(), ToAddress: to.Bech(), Amount: amt}
	}
	panic(kind)
}

func vestingURL(kind string) string {
	switch kind {
	case "vesting":
		return sdk.MsgTypeURL(&vestingtypes.MsgCreateVestingAccount{})
	case "periodic":
		return sdk.MsgTypeURL(&vestingtypes.MsgCreatePeriodicVestingAccount{})
	}
	return sdk.MsgTypeURL(&vestingtypes.MsgCreatePermanentLockedAccount{})
}

func c16RunRoute(c c16Route) (fs []ev.Finding, outcome string) {
	fail := func(clause, detail string) {
		fs = append(fs, ev.Finding{Clause: clause, Detail: detail, Replay: map[string]interface{}{"route": c}})
	}
	cw := c16Setup()
	w := cw.w
	accNumR := w.AccNum(w.Ctx(), cw.R.Acc())
	seq := uint64(0)
	fee := new(big.Int).Mul(big.NewInt(2_000_000), big.NewInt(1_000_000_000))
	proven := map[string]bool{}
	for _, p := range c.Proven {
		sig, _, _ := cw.sigOf(p)
		msg := &vauthtypes.MsgSubmitProofExternalOwnedAccount{Submitter: cw.R.Bech(), Account: cw.acct(p).Bech(), Signature: sig}
		br := w.Block([][]byte{w.CosmosTx(cw.R, accNumR, seq, 2_000_000, fee, msg)})
		seq++
		if br.Panic != "" || br.Err != nil || br.Res.TxResults[0].Code != 0 {
			fail("alphabet-sanity", fmt.Sprintf("proof submission tx for %s failed: %v %v %s", p, br.Panic, br.Err, br.Res.TxResults[0].Log))
			return fs, "setup-failed"
		}
		proven[p] = true
		// the tx costs exactly the fixed fee (burnt) plus the tx fee
	}
	target := cw.acct(c.Target)
	inner := cw.vestingMsg(c.Msg, cw.R, target)
	var msgs []sdk.Msg
	switch {
	case c.Routing == "top":
		msgs = []sdk.Msg{inner}
	case c.Routing == "beside-send":
		msgs = []sdk.Msg{inner}
	case strings.HasPrefix(c.Routing, "exec"):
		depth := int(c.Routing[4] - '0')
		m := inner
		for i := 0; i < depth; i++ {
			e := authz.NewMsgExec(cw.R.Acc(), []sdk.Msg{m})
			m = &e
		}
		msgs = []sdk.Msg{m}
	case strings.HasPrefix(c.Routing, "sib-exec"), strings.HasPrefix(c.Routing, "send-exec"), strings.HasPrefix(c.Routing, "in-exec"):
		// the creation message nested in MsgExec (depth d) that is NOT the first element of its message list:
		// sib-exec: [MsgExec{send}, exec^d(inner)]; send-exec: [send, exec^d(inner)]; in-exec: MsgExec{[MsgExec{send}, exec^(d-1)(inner)]}
		depth := int(c.Routing[len(c.Routing)-1] - '0')
		send := &banktypes.MsgSend{FromAddress: cw.R.Bech(), ToAddress: w.Wallets[0].Bech(), Amount: sdk.NewCoins(sdk.NewCoin(world.Denom, sdkmath.NewInt(1)))}
		wrap := func(m sdk.Msg, n int) sdk.Msg {
			for i := 0; i < n; i++ {
				e := authz.NewMsgExec(cw.R.Acc(), []sdk.Msg{m})
				m = &e
			}
			return m
		}
		benign := wrap(send, 1)
		switch {
		case strings.HasPrefix(c.Routing, "sib-exec"):
			msgs = []sdk.Msg{benign, wrap(inner, depth)}
		case strings.HasPrefix(c.Routing, "send-exec"):
			msgs = []sdk.Msg{send, wrap(inner, depth)}
		default:
			e := authz.NewMsgExec(cw.R.Acc(), []sdk.Msg{benign, wrap(inner, depth-1)})
			msgs = []sdk.Msg{&e}
		}
	case c.Routing == "grant", c.Routing == "sib-grant":
		any, err := codectypes.NewAnyWithValue(authz.NewGenericAuthorization(vestingURL(c.Msg)))
		if err != nil {
			panic(err)
		}
		exp := world.BlockTime(1000)
		msgs = []sdk.Msg{&authz.MsgGrant{Granter: cw.R.Bech(), Grantee: w.Wallets[0].Bech(), Grant: authz.Grant{Authorization: any, Expiration: &exp}}}
		if c.Routing == "sib-grant" { // the grant listed after a harmless exec
			send := &banktypes.MsgSend{FromAddress: cw.R.Bech(), ToAddress: w.Wallets[0].Bech(), Amount: sdk.NewCoins(sdk.NewCoin(world.Denom, sdkmath.NewInt(1)))}
			e := authz.NewMsgExec(cw.R.Acc(), []sdk.Msg{send})
			msgs = []sdk.Msg{&e, msgs[0]}
		}
	default:
		panic(c.Routing)
	}
	supBefore := w.Supply(w.Ctx(), world.Denom)
	br := w.Block([][]byte{w.CosmosTx(cw.R, accNumR, seq, 2_000_000, fee, msgs...)})
	if br.Panic != "" || br.Err != nil {
		fail("block-executes", fmt.Sprintf("panic=%q err=%v", br.Panic, br.Err))
		return fs, "HALT"
	}
	r := br.Res.TxResults[0]
	ctx := w.Ctx()
	acc := w.App.AccountKeeper.GetAccount(ctx, target.Acc())
	_, isVesting := acc.(interface{ GetEndTime() int64 })
	desc := fmt.Sprintf("%s to %s via %s, proven=%v: code=%d vestingAccountCreated=%v log=%s", c.Msg, c.Target, c.Routing, c.Proven, r.Code, isVesting, r.Log)
	if isVesting && !proven[c.Target] {
		fail("vesting-account-only-for-proven-address", desc)
	}
	if isVesting && c.Routing != "top" {
		fail("vesting-creation-never-through-exec-or-grant", desc)
	}
	if c.Routing == "grant" || c.Routing == "sib-grant" {
		if r.Code == 0 {
			fail("grants-for-vesting-creation-refused", desc)
		}
		if g, _ := w.App.AuthzKeeper.GetAuthorizations(ctx, w.Wallets[0].Acc(), cw.R.Acc()); len(g) != 0 {
			fail("grants-for-vesting-creation-refused", desc+" (grant stored)")
		}
	}
	if c.Routing == "top" && proven[c.Target] && !isVesting {
		fail("alphabet-sanity", "top-level vesting creation for a proven address did not create the account: "+desc)
	}
	if sup := w.Supply(ctx, world.Denom); sup.Cmp(supBefore) != 0 {
		fail("vesting-routing-leaves-supply-alone", fmt.Sprintf("%s -> %s", supBefore, sup))
	}
	if isVesting {
		return fs, "created"
	}
	if r.Code == 0 {
		return fs, "accepted-no-account"
	}
	return fs, "rejected"
}

func runC16(replay string) int {
	run := ev.NewRun("C16", "model_checking")
	run.Assumptions = []string{
		"part 1 drives ValidateBasic + the real vauth message server on CacheContext branches (a refusal or a handler panic discards the branch as baseapp does); part 2 drives complete transactions through FinalizeBlock",
		"which key signed which message is known by construction; upper-case and malleated encodings of a valid signature carry no expectation on acceptance, only on effects",
	}
	if replay != "" {
		return replayCase(run, replay, func(raw json.RawMessage) []ev.Finding {
			var c struct {
				Path  []c16Op   `json:"path"`
				Route *c16Route `json:"route"`
			}
			if err := json.Unmarshal(raw, &c); err != nil {
				fmt.Fprintln(os.Stderr, err)
				os.Exit(2)
			}
			if c.Route != nil {
				fs, oc := c16RunRoute(*c.Route)
				fmt.Println("outcome:", oc)
				return fs
			}
			cw := c16Setup()
			m := cw.initialModel()
			ctx := cw.root
			var fs []ev.Finding
			for i, op := range c.Path {
				nctx, ok, errMsg := cw.exec(ctx, op)
				fmt.Printf("step %d %s -> ok=%v %s\n", i, op, ok, errMsg)
				for _, b := range cw.check(m, ctx, nctx, op, ok, errMsg) {
					fs = append(fs, ev.Finding{Clause: "proof-store-matches-reference", Detail: b})
				}
				ctx = nctx
			}
			return fs
		})
	}
	var routes []c16Route
	for _, proven := range [][]string{nil, {"A"}, {"A", "B"}} {
		for _, msg := range []string{"vesting", "periodic", "permanent"} {
			for _, target := range []string{"A", "B"} {
				for _, r := range []string{"top", "exec1", "exec2", "exec3", "exec4", "exec5", "grant", "sib-exec1", "sib-exec2", "send-exec1", "send-exec2", "in-exec1", "in-exec2", "sib-grant"} {
					routes = append(routes, c16Route{Proven: proven, Msg: msg, Target: target, Routing: r})
				}
			}
		}
	}
	alpha := c16Alphabet()
	maxDepth := 4
	if run.Thorough() {
		maxDepth = 8
	}
	run.Sharded(Shards(), func(shard, n int) {
		// part 1: BFS to fixpoint (sharded on the first op)
		cw := c16Setup()
		type node struct {
			ctx  sdk.Context
			m    *c16Model
			path []c16Op
		}
		seen := map[[32]byte]bool{cw.w.Hash(cw.root): true}
		frontier := []node{{cw.root, cw.initialModel(), nil}}
		fix := false
		for depth := 1; depth <= maxDepth; depth++ {
			var next []node
			for _, nd := range frontier {
				for oi, op := range alpha {
					if depth == 1 && oi%n != shard {
						continue
					}
					nctx, ok, errMsg := cw.exec(nd.ctx, op)
					m := nd.m.clone()
					bad := cw.check(m, nd.ctx, nctx, op, ok, errMsg)
					run.Count("transitions", 1)
					path := append(append([]c16Op{}, nd.path...), op)
					cls := "refused"
					if ok {
						cls = "stored"
					} else if strings.HasPrefix(errMsg, "panic") {
						cls = "panic-refused"
					}
					run.Outcome("submit/" + op.Sig + "/" + cls)
					for _, b := range bad {
						run.Fail(ev.Finding{Clause: "proof-store-matches-reference", Detail: fmt.Sprint(path) + " => " + b, Replay: map[string]interface{}{"path": path}})
					}
					if !ok {
						continue
					}
					k := cw.w.Hash(nctx)
					if seen[k] {
						continue
					}
					seen[k] = true
					run.Distinct(fmt.Sprintf("%x", k[:12]))
					if run.Counter("sampled") < 2 {
						run.Count("sampled", 1)
						run.Sample(map[string]interface{}{"path": path})
					}
					next = append(next, node{nctx, m, path})
				}
			}
			frontier = next
			if len(frontier) == 0 {
				fix = true
				break
			}
		}
		run.Coverage["submission_search_fixpoint"] = fix
		// part 2
		for i, c := range routes {
			if i%n != shard {
				continue
			}
			fs, oc := c16RunRoute(c)
			if i < n {
				if fs2, oc2 := c16RunRoute(c); oc2 != oc || len(fs2) != len(fs) {
					fmt.Fprintln(os.Stderr, "HARNESS-NONDETERMINISM in C16 route", i)
					os.Exit(2)
				}
			}
			run.Count("transitions", int64(len(c.Proven)+1))
			run.Count("routing_cases", 1)
			run.Outcome("route/" + c.Routing + "/" + oc)
			run.Distinct(fmt.Sprintf("route:%v:%s:%s:%s:%s", c.Proven, c.Msg, c.Target, c.Routing, oc))
			if i%(len(routes)/2+1) == 0 {
				run.Sample(map[string]interface{}{"route": c, "outcome": oc})
			}
			for _, f := range fs {
				run.Fail(f)
			}
		}
	})
	run.Coverage["states"] = run.NumDistinct() + 1
	run.Coverage["traces_validated_against_impl"] = int(run.Counter("transitions"))
	run.Coverage["exhaustive"] = true
	run.Coverage["max_depth"] = maxDepth
	run.Coverage["rule"] = fmt.Sprintf("part 1: BFS over branch states with the %d-op submission alphabet (submitter {rich, exactly-the-fee, one-short} × account {A, B, submitter itself; A and B also under the upper-case spelling of the bech32 address} × 10 signature variants: A's, B's, upper-case hex, 64/66 bytes, empty, garbage, (r,n−s,v⊕1) malleated, signed other message, v+27) to depth %d or fixpoint, full store hash as state identity, compared with a 3-field reference (proven set, balances, supply) after every transition; part 2: %d complete-transaction cases (proven set {∅,{A},{A,B}} × 3 vesting-creation messages × target {A,B} × routing {top level, MsgExec nested 1..5 with grantee = granter, MsgGrant, the nested message / the grant listed after a harmless MsgExec or MsgSend, or after a harmless MsgExec inside an outer MsgExec}) through FinalizeBlock", len(alpha), maxDepth, len(routes))
	return run.Finish()
}

func (cw *c16World) initialModel() *c16Model {
	m := &c16Model{Proven: map[string]bool{}, Bal: map[string]*big.Int{}, Supply: cw.w.Supply(cw.root, world.Denom)}
	for _, n := range []string{"R", "E", "P"} {
		m.Bal[n] = cw.w.Balance(cw.root, cw.acct(n).Eth(), world.Denom)
	}
	return m
}
