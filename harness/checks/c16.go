package checks

import (
	"bytes"
	"encoding/hex"
	"encoding/json"
	"fmt"
	"math/big"
	"os"
	"sort"
	"strings"

	sdkmath "cosmossdk.io/math"
	storetypes "cosmossdk.io/store/types"
	codectypes "github.com/cosmos/cosmos-sdk/codec/types"
	sdk "github.com/cosmos/cosmos-sdk/types"
	authtypes "github.com/cosmos/cosmos-sdk/x/auth/types"
	vestingtypes "github.com/cosmos/cosmos-sdk/x/auth/vesting/types"
	"github.com/cosmos/cosmos-sdk/x/authz"
	banktypes "github.com/cosmos/cosmos-sdk/x/bank/types"
	"github.com/ethereum/go-ethereum/common"
	ethcrypto "github.com/ethereum/go-ethereum/crypto"

	"github.com/EscanBE/evermint/v12/app/antedl/cosmoslane"
	vauthkeeper "github.com/EscanBE/evermint/v12/x/vauth/keeper"
	vauthtypes "github.com/EscanBE/evermint/v12/x/vauth/types"

	"verif/harness/ev"
	"verif/harness/world"
)

func init() { Registry["C16"] = runC16 }

var c16Cost = new(big.Int).Exp(big.NewInt(10), big.NewInt(18), nil)

// c16SigLongAccount is the signature of the one genuine defect class this check knows on the unchanged tree: ValidateBasic of the
// submission (and of the stored record) compares the recovered signer with common.BytesToAddress(account) = the LAST 20 bytes of
// the account (left-padded when shorter), so for an account address whose length is not 20 bytes a proof is accepted and stored
// (under the exact long byte string) although no key's Ethereum address is that account; vesting accounts can then be created for it.
const c16SigLongAccount = "C16/proof-accepted-for-non-20-byte-account-signed-by-its-last-20-bytes"

// ---------------------------------------------------------------------------
// address expressions
// ---------------------------------------------------------------------------
//
// An address is written as a '|'-separated concatenation of parts:
//   A B R E P     the 20-byte address of that key
//   pad           12 fixed non-zero bytes;  zpad = 12 zero bytes (pad|X / zpad|X, X|pad: 32-byte module/ICA/ABI-word-like addresses)
//   X[:19] X[1:]  the first / last 19 bytes of key X's address
//   zero one ff   the 20-byte addresses 0x00…00, 0x00…01 (ecrecover precompile), 0xff…ff;  mod / fc = the vauth / fee collector module account
// so "B|A" is the 40-byte address victim||attacker, "A|pad" a 32-byte address that starts with A's 20 bytes, "pad|A" one that ends with them.

var c16Pad = []byte{0xc1, 0x6c, 0x16, 0x5a, 0xa5, 0x3c, 0xc3, 0x0f, 0xf0, 0x99, 0x66, 0x01}

type c16World struct {
	w             *world.World
	root          sdk.Context
	ms            vauthtypes.MsgServer
	R, E, P, A, B *world.Acct
	funded        []string // address expressions with a tracked balance (the submitters)
	sigA          []byte
	addrCache     map[string]sdk.AccAddress
	sigCache      map[string]c16Sig
	msgCache      map[c16Op]*vauthtypes.MsgSubmitProofExternalOwnedAccount
}

// c16Sig is one signature variant: the string offered, who made it according to the way it was built (key name | ""), and what the
// reference recovers from its bytes (c16Judge): the address it is a signature of the module's message by, if any.
type c16Sig struct {
	s, signer string
	rec       common.Address
	recOK     bool
	canonical bool
}

// the two funded submitters whose addresses are not 20 bytes (part 1 only; they cannot sign transactions)
const (
	c16LongRich  = "A|pad" // 3 fees; starts with A's bytes
	c16LongExact = "pad|B" // exactly 1 fee; ends with B's bytes
)

func c16Setup(longSubmitters bool) *c16World {
	cw := &c16World{R: world.NewAcct("c16-rich"), E: world.NewAcct("c16-exact"), P: world.NewAcct("c16-poor"), A: world.NewAcct("c16-A"), B: world.NewAcct("c16-B")}
	coin := func(v *big.Int) sdk.Coins { return sdk.NewCoins(sdk.NewCoin(world.Denom, sdkmath.NewIntFromBigInt(v))) }
	extra := []world.ExtraAccount{
		{Account: authtypes.NewBaseAccount(cw.R.Acc(), cw.R.Priv.PubKey(), 0, 0), Coins: coin(new(big.Int).Mul(c16Cost, big.NewInt(10)))},
		{Account: authtypes.NewBaseAccount(cw.E.Acc(), cw.E.Priv.PubKey(), 0, 0), Coins: coin(c16Cost)},
		{Account: authtypes.NewBaseAccount(cw.P.Acc(), cw.P.Priv.PubKey(), 0, 0), Coins: coin(new(big.Int).Sub(c16Cost, big.NewInt(1)))},
	}
	cw.funded = []string{"R", "E", "P"}
	if longSubmitters {
		extra = append(extra,
			world.ExtraAccount{Account: authtypes.NewBaseAccount(cw.addr(c16LongRich), nil, 0, 0), Coins: coin(new(big.Int).Mul(c16Cost, big.NewInt(3)))},
			world.ExtraAccount{Account: authtypes.NewBaseAccount(cw.addr(c16LongExact), nil, 0, 0), Coins: coin(c16Cost)},
		)
		cw.funded = append(cw.funded, c16LongRich, c16LongExact)
	}
	w := world.New(world.Config{NumWallets: 2, Extra: extra})
	w.Block(nil)
	cw.w, cw.root = w, w.Ctx()
	cw.ms = vauthkeeper.NewMsgServerImpl(w.App.VAuthKeeper)
	return cw
}

func (cw *c16World) acct(n string) *world.Acct {
	switch n {
	case "R":
		return cw.R
	case "E":
		return cw.E
	case "P":
		return cw.P
	case "A":
		return cw.A
	case "B":
		return cw.B
	case "T1":
		return c16T1
	case "T2":
		return c16T2
	}
	panic("acct " + n)
}

// addr resolves an address expression.
func (cw *c16World) addr(expr string) sdk.AccAddress {
	if a, ok := cw.addrCache[expr]; ok {
		return a
	}
	if cw.addrCache == nil {
		cw.addrCache = map[string]sdk.AccAddress{}
	}
	var out []byte
	for _, part := range strings.Split(expr, "|") {
		sp, isSpecial := c16Special(part)
		switch {
		case isSpecial:
			out = append(out, sp...)
		case part == "pad":
			out = append(out, c16Pad...)
		case part == "zpad":
			out = append(out, make([]byte, 12)...)
		case strings.HasSuffix(part, "[:19]"):
			out = append(out, cw.acct(strings.TrimSuffix(part, "[:19]")).Acc()[:19]...)
		case strings.HasSuffix(part, "[1:]"):
			out = append(out, cw.acct(strings.TrimSuffix(part, "[1:]")).Acc()[1:]...)
		default:
			out = append(out, cw.acct(part).Acc()...)
		}
	}
	cw.addrCache[expr] = sdk.AccAddress(out)
	return cw.addrCache[expr]
}

func (cw *c16World) balance(ctx sdk.Context, expr string) *big.Int {
	return cw.w.App.BankKeeper.GetBalance(ctx, cw.addr(expr), world.Denom).Amount.BigInt()
}

// c16Universe is the set of addresses whose proof status is observed after every transition: the keys, the special addresses no key
// controls, and for the two provable keys every longer / shorter address that collides with them on its first or last 20 (19) bytes.
func c16Universe() []string {
	u := append([]string{"A", "B", "R", "E", "P"}, c16Specials...)
	for _, p := range [][2]string{{"A", "B"}, {"B", "A"}} {
		x, y := p[0], p[1]
		u = append(u, x+"|pad", "pad|"+x, x+"|zpad", "zpad|"+x, x+"|"+y, x+"|R", "R|"+x, x+"[:19]", x+"[1:]")
	}
	return u
}

// ---------------------------------------------------------------------------
// part 1: proof submissions at message-server level
// ---------------------------------------------------------------------------

// c16Op is one proof submission.
type c16Op struct {
	Submitter string `json:"submitter"`       // address expression of a funded submitter: R (rich) | E (exactly the fee) | P (one short) | A|pad (rich, 32 bytes) | pad|B (exactly the fee, 32 bytes)
	Account   string `json:"account"`         // address expression | self
	Sig       string `json:"sig"`             // A | B | R | A-upper | A-64 | A-66 | empty | garbage | A-malleated | A-other-msg | A-v27 | the family of c16_shapes.go: x:<RS>:<V> | len1 | len64-2098 | len66-lead
	Spell     string `json:"spell,omitempty"` // "" = lower-case bech32 of the account, "upper" = the all-upper-case spelling of the same address
}

func (o c16Op) String() string {
	if o.Spell != "" {
		return fmt.Sprintf("submit(%s proves %s[%s-case bech32] with %s)", o.Submitter, o.Account, o.Spell, o.Sig)
	}
	return fmt.Sprintf("submit(%s proves %s with %s)", o.Submitter, o.Account, o.Sig)
}

func signMsg(a *world.Acct, msg string) []byte {
	key, _ := ethcrypto.ToECDSA(a.Priv.Key)
	sig, err := ethcrypto.Sign(ethcrypto.Keccak256([]byte(msg)), key)
	if err != nil {
		panic(err)
	}
	return sig
}

// sigOf returns the hex signature string for a variant and whether it is (an encoding of) a signature made by a known key
// over the module's message: signer = key name | "" ; canonical = produced exactly as a wallet would (lower-case hex, 65 bytes, low s).
func (cw *c16World) sigOf(v string) c16Sig {
	if c, ok := cw.sigCache[v]; ok {
		return c
	}
	if cw.sigCache == nil {
		cw.sigCache = map[string]c16Sig{}
	}
	s, signer, built, canonical := cw.sigOfUncached(v)
	c := c16Sig{s: s, signer: signer}
	c.rec, c.recOK, c.canonical = c16Judge(s)
	if built {
		// the variants built from a known key: what the reference recovers from the bytes must be what the construction says
		bad := false
		if signer != "" {
			bad = c.canonical != canonical || !c.recOK || c.rec != cw.acct(signer).Eth()
		} else {
			for _, k := range []string{"A", "B", "R", "E", "P"} {
				bad = bad || (c.recOK && c.rec == cw.acct(k).Eth())
			}
		}
		if bad {
			fmt.Fprintf(os.Stderr, "HARNESS-ERROR in C16: signature variant %s built as signer=%q canonical=%v, reference recovers (%s, %v) canonical=%v\n", v, signer, canonical, c.rec, c.recOK, c.canonical)
			os.Exit(2)
		}
	}
	cw.sigCache[v] = c
	return c
}

// sigOfUncached builds a variant; built = the signer / canonical results are known by construction (the older variants), otherwise
// (the structured family of c16_shapes.go) only the reference recovery says what the bytes are.
func (cw *c16World) sigOfUncached(v string) (s string, signer string, built, canonical bool) {
	if cw.sigA == nil {
		cw.sigA = signMsg(cw.A, vauthtypes.MessageToSign)
	}
	a := cw.sigA
	switch v {
	case "A":
		return "0x" + hex.EncodeToString(a), "A", true, true
	case "B", "R", "E", "P":
		return "0x" + hex.EncodeToString(signMsg(cw.acct(v), vauthtypes.MessageToSign)), v, true, true
	case "A-upper":
		return "0x" + strings.ToUpper(hex.EncodeToString(a)), "A", true, false
	case "A-64":
		return "0x" + hex.EncodeToString(a[:64]), "", true, false
	case "A-66":
		return "0x" + hex.EncodeToString(append(append([]byte{}, a...), 0)), "", true, false
	case "empty":
		return "0x", "", true, false
	case "garbage":
		return "0x" + strings.Repeat("ab", 65), "", true, false
	case "A-malleated":
		n := ethcrypto.S256().Params().N
		s := new(big.Int).Sub(n, new(big.Int).SetBytes(a[32:64]))
		m := append(append(append([]byte{}, a[:32]...), common32(s)...), a[64]^1)
		return "0x" + hex.EncodeToString(m), "A", true, false
	case "A-other-msg":
		return "0x" + hex.EncodeToString(signMsg(cw.A, vauthtypes.MessageToSign+"x")), "", true, false
	case "A-v27":
		m := append([]byte{}, a...)
		m[64] += 27
		return "0x" + hex.EncodeToString(m), "", true, false
	}
	if bz, ok := c16ShapeBytes(a, v); ok {
		return "0x" + hex.EncodeToString(bz), "", false, false
	}
	panic("sig " + v)
}

func common32(v *big.Int) []byte {
	b := v.Bytes()
	out := make([]byte, 32)
	copy(out[32-len(b):], b)
	return out
}

// c16Verdict is what the reference says about one (account, signature) pair.
type c16Verdict struct {
	sigValid    bool // the signature was made by the key whose Ethereum address IS the account (so the account is 20 bytes)
	defectShape bool // not valid, but exactly what the known defect accepts: account not 20 bytes, signer's address = BytesToAddress(account)
}

func (v c16Verdict) kind() int {
	switch {
	case v.sigValid:
		return c16Legit
	case v.defectShape:
		return c16KnownDefect
	}
	return c16Unexplained
}

// judge: a proof for acc is acceptable only with a signature of the module's message that recovers (reference recovery, from the bytes)
// to exactly acc; any recovery failure is "no signature", whatever the account.
func (cw *c16World) judge(acc []byte, sig c16Sig) c16Verdict {
	if !sig.recOK {
		return c16Verdict{}
	}
	if len(acc) == common.AddressLength && bytes.Equal(acc, sig.rec.Bytes()) {
		return c16Verdict{sigValid: true}
	}
	return c16Verdict{defectShape: len(acc) != common.AddressLength && common.BytesToAddress(acc) == sig.rec}
}

func (cw *c16World) opAddrs(op c16Op) (sub, acc sdk.AccAddress) {
	sub = cw.addr(op.Submitter)
	acc = sub
	if op.Account != "self" {
		acc = cw.addr(op.Account)
	}
	return
}

// opMsg builds the message of a submission (a fresh copy on every call).
func (cw *c16World) opMsg(op c16Op) *vauthtypes.MsgSubmitProofExternalOwnedAccount {
	if m, ok := cw.msgCache[op]; ok {
		c := *m
		return &c
	}
	if cw.msgCache == nil {
		cw.msgCache = map[c16Op]*vauthtypes.MsgSubmitProofExternalOwnedAccount{}
	}
	m := cw.opMsgUncached(op)
	cw.msgCache[op] = m
	c := *m
	return &c
}

func (cw *c16World) opMsgUncached(op c16Op) *vauthtypes.MsgSubmitProofExternalOwnedAccount {
	sub, acc := cw.opAddrs(op)
	sig := cw.sigOf(op.Sig).s
	accStr := acc.String()
	if op.Spell == "upper" {
		accStr = strings.ToUpper(accStr)
	}
	return &vauthtypes.MsgSubmitProofExternalOwnedAccount{Submitter: sub.String(), Account: accStr, Signature: sig}
}

// validateBasic is the stateless part of a submission (baseapp runs it before anything else); a panic counts as a refusal.
func (cw *c16World) validateBasic(op c16Op) (err error) {
	defer func() {
		if r := recover(); r != nil {
			err = fmt.Errorf("panic: %v", r)
		}
	}()
	return cw.opMsg(op).ValidateBasic()
}

func (cw *c16World) exec(parent sdk.Context, op c16Op) (ctx sdk.Context, ok bool, errMsg string) {
	ctx, _ = parent.CacheContext()
	defer func() {
		if r := recover(); r != nil {
			ctx, _ = parent.CacheContext()
			ok, errMsg = false, "panic: "+fmt.Sprint(r)
		}
	}()
	msg := cw.opMsg(op)
	// baseapp runs ValidateBasic of every message before the ante handler; a panic there is recovered like any other
	err := msg.ValidateBasic()
	if err == nil {
		_, err = cw.ms.SubmitProofExternalOwnedAccount(ctx, msg)
	}
	if err != nil {
		ctx, _ = parent.CacheContext()
		return ctx, false, err.Error()
	}
	return ctx, true, ""
}

// how an address got into the proof store according to the reference
const (
	c16Legit       = 1 // a valid proof for exactly this byte string was accepted
	c16KnownDefect = 2 // the implementation stored a proof the property forbids, of exactly the known defect's shape
	c16Unexplained = 3 // the implementation stored a proof the property forbids (reported when it happened)
)

// c16Rec is one stored proof according to the reference: how it got there and the strings of the first accepted submission.
type c16Rec struct {
	Kind         int
	Account, Sig string
}

// c16Model is the reference: the stored proofs as a set of exact byte strings (hex), balances of the submitters, supply.
type c16Model struct {
	Stored map[string]c16Rec
	Bal    map[string]*big.Int
	Supply *big.Int
}

func (m *c16Model) clone() *c16Model {
	n := &c16Model{Stored: map[string]c16Rec{}, Bal: map[string]*big.Int{}, Supply: new(big.Int).Set(m.Supply)}
	for k, v := range m.Stored {
		n.Stored[k] = v
	}
	for k, v := range m.Bal {
		n.Bal[k] = new(big.Int).Set(v)
	}
	return n
}

func (cw *c16World) initialModel() *c16Model {
	m := &c16Model{Stored: map[string]c16Rec{}, Bal: map[string]*big.Int{}, Supply: cw.w.Supply(cw.root, world.Denom)}
	for _, n := range cw.funded {
		m.Bal[n] = cw.balance(cw.root, n)
	}
	return m
}

// key identifies a reference state.
func (m *c16Model) key(funded []string) string {
	var ks []string
	for k, r := range m.Stored {
		ks = append(ks, k+"="+r.Account+"/"+r.Sig)
	}
	sort.Strings(ks)
	for _, n := range funded {
		ks = append(ks, n+":"+m.Bal[n].String())
	}
	return strings.Join(ks, ";")
}

// mayAccept is the reference's necessary condition for a submission to be stored (besides the signature): the account has no
// proof yet and the submitter can pay.
func (cw *c16World) mayAccept(m *c16Model, op c16Op) bool {
	_, acc := cw.opAddrs(op)
	return m.Stored[hex.EncodeToString(acc)].Kind == 0 && m.Bal[op.Submitter].Cmp(c16Cost) >= 0
}

// apply advances the reference by one transition, following what the implementation did (violations are reported by check).
func (cw *c16World) apply(m *c16Model, op c16Op, ok bool) {
	if !ok {
		return
	}
	_, acc := cw.opAddrs(op)
	v := cw.judge(acc, cw.sigOf(op.Sig))
	k := hex.EncodeToString(acc)
	if m.Stored[k].Kind == 0 {
		msg := cw.opMsg(op)
		m.Stored[k] = c16Rec{Kind: v.kind(), Account: msg.Account, Sig: msg.Signature}
	}
	m.Bal[op.Submitter] = new(big.Int).Sub(m.Bal[op.Submitter], c16Cost)
	m.Supply = new(big.Int).Sub(m.Supply, c16Cost)
}

// proofKey is the store key of the proof of an exact byte string, built here (not by the code under test).
func proofKey(acc []byte) []byte {
	return append(append([]byte{}, vauthtypes.KeyPrefixProofExternalOwnedAccount...), acc...)
}

func (cw *c16World) proofBytes(ctx sdk.Context, acc []byte) []byte {
	return ctx.KVStore(cw.w.Keys[vauthtypes.StoreKey]).Get(proofKey(acc))
}

// storedKeys lists (hex) the address part of every key of the proof store.
func (cw *c16World) storedKeys(ctx sdk.Context) []string {
	it := storetypes.KVStorePrefixIterator(ctx.KVStore(cw.w.Keys[vauthtypes.StoreKey]), vauthtypes.KeyPrefixProofExternalOwnedAccount)
	defer it.Close()
	var out []string
	for ; it.Valid(); it.Next() {
		out = append(out, hex.EncodeToString(it.Key()[len(vauthtypes.KeyPrefixProofExternalOwnedAccount):]))
	}
	sort.Strings(out)
	return out
}

type c16Bad struct{ msg, sig string }

var c16MsgHash = "0x" + hex.EncodeToString(ethcrypto.Keccak256([]byte(vauthtypes.MessageToSign)))

// observeProofs compares the proof store seen through the keeper and through the raw store with the reference set.
func (cw *c16World) observeProofs(stored map[string]c16Rec, parent *sdk.Context, post sdk.Context, fail func(f string, a ...interface{})) {
	for _, n := range c16Universe() {
		x := cw.addr(n)
		has := cw.w.App.VAuthKeeper.HasProofExternalOwnedAccount(post, x)
		rec := stored[hex.EncodeToString(x)]
		want := rec.Kind != 0
		if has != want {
			fail("HasProof(%s) = %v, reference %v (proven addresses are exact byte strings)", n, has, want)
			continue
		}
		p := cw.w.App.VAuthKeeper.GetProofExternalOwnedAccount(post, x)
		if (p != nil) != want {
			fail("GetProof(%s) present = %v, reference %v", n, p != nil, want)
		}
		if p != nil {
			if a, err := sdk.AccAddressFromBech32(p.Account); err != nil || !bytes.Equal(a, x) {
				fail("GetProof(%s) returns the record of another account: %s", n, p.Account)
			}
			if want && (p.Account != rec.Account || p.Signature != rec.Sig || p.Hash != c16MsgHash) {
				fail("GetProof(%s) = {%s %s %s}, reference: the strings of the first accepted submission {%s %s %s}", n, p.Account, p.Hash, p.Signature, rec.Account, c16MsgHash, rec.Sig)
			}
		}
		if parent != nil {
			if before := cw.proofBytes(*parent, x); before != nil && !bytes.Equal(before, cw.proofBytes(post, x)) {
				fail("stored proof of %s was altered", n)
			}
		}
	}
	var want []string
	for k := range stored {
		want = append(want, k)
	}
	sort.Strings(want)
	if got := cw.storedKeys(post); strings.Join(got, ",") != strings.Join(want, ",") {
		fail("proof store holds records for %v, reference %v", got, want)
	}
}

// check evaluates one transition and advances the model.
func (cw *c16World) check(m *c16Model, parent sdk.Context, parentHash [32]byte, post sdk.Context, op c16Op, ok bool, errMsg string, reached, observe bool) (bad []c16Bad) {
	fail := func(f string, a ...interface{}) { bad = append(bad, c16Bad{msg: fmt.Sprintf(f, a...)}) }
	sub, acc := cw.opAddrs(op)
	si := cw.sigOf(op.Sig)
	canonical := si.canonical
	v := cw.judge(acc, si)
	self := bytes.Equal(sub, acc)
	key := hex.EncodeToString(acc)
	canPay := m.Bal[op.Submitter].Cmp(c16Cost) >= 0
	if ok {
		switch {
		case v.sigValid:
		case v.defectShape:
			bad = append(bad, c16Bad{sig: c16SigLongAccount, msg: fmt.Sprintf("proof stored for the %d-byte account %s on a signature by %s, whose address is only the account's last 20 bytes", len(acc), op.Account, si.rec)})
		case !si.recOK:
			fail("proof stored for %s although the signature offered (%s) is no signature at all: no public key can be recovered from it", op.Account, op.Sig)
		default:
			fail("proof stored for %s although the signature was not made by that address's key over the module's message (it recovers to %s)", op.Account, si.rec)
		}
		if m.Stored[key].Kind != 0 {
			fail("an already proven account was proven again")
		}
		if !canPay {
			fail("submitter could not afford the fee")
		}
	} else {
		if v.sigValid && !self && canonical && canPay && m.Stored[key].Kind == 0 {
			fail("alphabet-sanity: a canonical valid submission was refused: %s", errMsg)
		}
		if (reached || observe) && cw.w.Hash(post) != parentHash {
			fail("a rejected submission changed state")
		}
		if !observe {
			// the refused branch was discarded (as baseapp does) and post is a fresh branch of parent: every observation below
			// would repeat the one made when the parent state was reached
			return bad
		}
	}
	cw.apply(m, op, ok)
	// observable state vs model
	for _, n := range cw.funded {
		if got := cw.balance(post, n); got.Cmp(m.Bal[n]) != 0 {
			fail("balance of %s = %s, reference %s", n, got, m.Bal[n])
		}
	}
	for _, n := range []string{"A", "B"} {
		if got := cw.balance(post, n); got.Sign() != 0 {
			fail("balance of %s = %s, reference 0", n, got)
		}
	}
	if got := cw.w.Supply(post, world.Denom); got.Cmp(m.Supply) != 0 {
		fail("supply = %s, reference %s (fee must be burnt, exactly once)", got, m.Supply)
	}
	if v := cw.w.Balance(post, world.ModuleAddr(vauthtypes.ModuleName), world.Denom); v.Sign() != 0 {
		fail("vauth module account holds %s", v)
	}
	cw.observeProofs(m.Stored, &parent, post, fail)
	return bad
}

// anteClause runs the real vesting authorization decorator on a proof-store state for every vesting-creation message kind and every
// address of the universe as target: it lets the message through iff a proof for exactly the target's bytes is stored.
func (cw *c16World) anteClause(m *c16Model, ctx sdk.Context, out func(kind, target string, passed bool), fail func(sig, msg string)) {
	tx := cw.w.Enc.TxConfig.NewTxBuilder()
	dec := cosmoslane.NewCosmosLaneVestingMessagesAuthorizationDecorator(cw.w.App.VAuthKeeper)
	for _, kind := range []string{"vesting", "periodic", "permanent"} {
		for _, tn := range c16Universe() {
			t := cw.addr(tn)
			if err := tx.SetMsgs(cw.vestingMsg(kind, cw.R, t)); err != nil {
				panic(err)
			}
			reached := false
			_, err := dec.AnteHandle(ctx, tx.GetTx(), false, func(c sdk.Context, _ sdk.Tx, _ bool) (sdk.Context, error) { reached = true; return c, nil })
			passed := err == nil && reached
			how := m.Stored[hex.EncodeToString(t)].Kind
			switch {
			case passed && how == c16KnownDefect:
				fail(c16SigLongAccount, fmt.Sprintf("the ante check lets a %s-creation message for the %d-byte target %s through (its proof was stored on a signature by the key of its last 20 bytes)", kind, len(t), tn))
			case passed && how != c16Legit:
				fail("", fmt.Sprintf("the ante check lets a %s-creation message for %s through although no valid proof for exactly that address was accepted", kind, tn))
			case !passed && how == c16Legit:
				fail("", fmt.Sprintf("alphabet-sanity: the ante check refuses a %s-creation message for the proven address %s: %v", kind, tn, err))
			}
			out(kind, tn, passed)
		}
	}
}

// c16CoreOps is the number of ops at the head of every alphabet that involve 20-byte addresses only.
const c16CoreOps = 94

// c16Alphabet is the submission alphabet, simplest first.
func c16Alphabet(thorough bool) []c16Op {
	var ops []c16Op
	sigs := []string{"A", "B", "A-upper", "A-64", "A-66", "empty", "garbage", "A-malleated", "A-other-msg", "A-v27"}
	// 20-byte accounts, 20-byte submitters
	for _, sig := range sigs {
		for _, acc := range []string{"A", "B", "self"} {
			for _, sub := range []string{"R", "E", "P"} {
				ops = append(ops, c16Op{Submitter: sub, Account: acc, Sig: sig})
			}
		}
	}
	// the same account under the other valid spelling of its bech32 address (with the signature that matches it)
	for _, acc := range []string{"A", "B"} {
		for _, sub := range []string{"R", "E"} {
			ops = append(ops, c16Op{Submitter: sub, Account: acc, Sig: acc, Spell: "upper"})
		}
	}
	if len(ops) != c16CoreOps {
		panic("c16CoreOps")
	}
	// accounts that are not 20 bytes and collide with A / B on their first or last 20 (19) bytes, signed by each plausible key
	long := []string{"A|pad", "pad|A", "A|B", "B|A", "B|pad", "pad|B"}
	short := []string{"A[:19]", "A[1:]"}
	if !thorough {
		for _, acc := range long {
			for _, sig := range []string{"A", "B", "garbage"} {
				for _, sub := range []string{"R", "E", "P"} {
					ops = append(ops, c16Op{Submitter: sub, Account: acc, Sig: sig})
				}
			}
		}
		for _, acc := range short {
			for _, sig := range []string{"A", "B"} {
				ops = append(ops, c16Op{Submitter: "R", Account: acc, Sig: sig})
			}
		}
		// submitters that are not 20 bytes (funded genesis accounts at A||pad and pad||B)
		for _, sub := range []string{c16LongRich, c16LongExact} {
			for _, acc := range []string{"A", "B", "self", "A|pad", "pad|A", "pad|B", "A|B", "B|A"} {
				for _, sig := range []string{"A", "B"} {
					ops = append(ops, c16Op{Submitter: sub, Account: acc, Sig: sig})
				}
			}
		}
		return ops
	}
	long = append(long, "zpad|A", "A|zpad", "A|R", "R|A")
	short = append(short, "B[:19]", "B[1:]")
	for _, acc := range append(append([]string{}, long...), short...) {
		for _, sig := range append([]string{"R"}, sigs...) {
			for _, sub := range []string{"R", "E", "P", c16LongRich, c16LongExact} {
				ops = append(ops, c16Op{Submitter: sub, Account: acc, Sig: sig})
			}
		}
	}
	for _, sub := range []string{c16LongRich, c16LongExact} {
		for _, acc := range []string{"A", "B", "self"} {
			for _, sig := range sigs {
				ops = append(ops, c16Op{Submitter: sub, Account: acc, Sig: sig})
			}
		}
	}
	// a key proving itself / an account signed by the submitter's own key
	for _, acc := range []string{"A", "B", "self"} {
		for _, sub := range []string{"R", "E"} {
			ops = append(ops, c16Op{Submitter: sub, Account: acc, Sig: sub})
		}
	}
	return ops
}

// ---------------------------------------------------------------------------
// part 2: vesting-creation routing at ABCI level
// ---------------------------------------------------------------------------

type c16Route struct {
	Proven  []string `json:"proven"`  // proof submissions sent by R in earlier blocks: "account" (signed by that key) or "account/signature variant" (address expression / variant of c16Op.Sig)
	Msg     string   `json:"msg"`     // vesting | periodic | permanent
	Target  string   `json:"target"`  // address expression
	Routing string   `json:"routing"` // top | exec1..exec5 | grant | beside-send | multi
	// Multi (routing "multi", c16_multi.go): the top-level messages of the ONE transaction; Msg and Target are unused
	Multi []c16MultiMsg `json:"multi,omitempty"`
}

func (cw *c16World) vestingMsg(kind string, from *world.Acct, to sdk.AccAddress) sdk.Msg {
	amt := sdk.NewCoins(sdk.NewCoin(world.Denom, sdkmath.NewInt(1000)))
	end := world.BlockTime(100).Unix()
	switch kind {
	case "vesting":
		return &vestingtypes.MsgCreateVestingAccount{FromAddress: from.Bech(), ToAddress: to.String(), Amount: amt, EndTime: end, Delayed: true}
	case "periodic":
		return &vestingtypes.MsgCreatePeriodicVestingAccount{FromAddress: from.Bech(), ToAddress: to.String(), StartTime: world.BlockTime(1).Unix(), VestingPeriods: []vestingtypes.Period{{Length: 3600, Amount: amt}}}
	case "permanent":
		return &vestingtypes.MsgCreatePermanentLockedAccount{FromAddress: from.Bech(), ToAddress: to.String(), Amount: amt}
	}
	panic(kind)
}

func vestingURL(kind string) string {
	switch kind {
	case "vesting":
		return sdk.MsgTypeURL(&vestingtypes.MsgCreateVestingAccount{})
	case "periodic":
		return sdk.MsgTypeURL(&vestingtypes.MsgCreatePeriodicVestingAccount{})
	}
	return sdk.MsgTypeURL(&vestingtypes.MsgCreatePermanentLockedAccount{})
}

func (cw *c16World) isVestingAccount(ctx sdk.Context, a sdk.AccAddress) bool {
	_, is := cw.w.App.AccountKeeper.GetAccount(ctx, a).(interface{ GetEndTime() int64 })
	return is
}

func c16RunRoute(c c16Route) (fs []ev.Finding, outcome string) {
	failS := func(clause, sig, detail string) {
		fs = append(fs, ev.Finding{Clause: clause, Signature: sig, Detail: detail, Replay: map[string]interface{}{"route": c}})
	}
	fail := func(clause, detail string) { failS(clause, "", detail) }
	cw := c16Setup(false)
	w := cw.w
	accNumR := w.AccNum(w.Ctx(), cw.R.Acc())
	seq := uint64(0)
	fee := new(big.Int).Mul(big.NewInt(2_000_000), big.NewInt(1_000_000_000))
	stored := map[string]c16Rec{}
	for _, p := range c.Proven {
		accExpr, signer := p, p
		if i := strings.IndexByte(p, '/'); i >= 0 {
			accExpr, signer = p[:i], p[i+1:]
		}
		acc := cw.addr(accExpr)
		si := cw.sigOf(signer)
		sig := si.s
		v := cw.judge(acc, si)
		msg := &vauthtypes.MsgSubmitProofExternalOwnedAccount{Submitter: cw.R.Bech(), Account: acc.String(), Signature: sig}
		supBefore := w.Supply(w.Ctx(), world.Denom)
		br := w.Block([][]byte{w.CosmosTx(cw.R, accNumR, seq, 2_000_000, fee, msg)})
		if br.Panic != "" || br.Err != nil {
			fail("block-executes", fmt.Sprintf("proof submission tx for %s: panic=%q err=%v", p, br.Panic, br.Err))
			return fs, "HALT"
		}
		r := br.Res.TxResults[0]
		// a submission refused by ValidateBasic never reaches the ante handler: neither fee nor sequence is consumed
		if w.App.AccountKeeper.GetAccount(w.Ctx(), cw.R.Acc()).GetSequence() > seq {
			seq++
		}
		key := hex.EncodeToString(acc)
		desc := fmt.Sprintf("tx by R proving %s (%d bytes) with the signature variant %s: code=%d log=%s", accExpr, len(acc), signer, r.Code, r.Log)
		if r.Code == 0 {
			if stored[key].Kind != 0 {
				fail("proven-address-never-proven-again", desc)
			} else {
				stored[key] = c16Rec{Kind: v.kind(), Account: msg.Account, Sig: msg.Signature}
			}
			switch {
			case v.sigValid:
			case v.defectShape:
				failS("proof-only-with-signature-of-the-account", c16SigLongAccount, desc)
			default:
				fail("proof-only-with-signature-of-the-account", desc)
			}
			if d := new(big.Int).Sub(supBefore, w.Supply(w.Ctx(), world.Denom)); d.Cmp(c16Cost) != 0 {
				fail("accepted-proof-burns-exactly-the-fee", fmt.Sprintf("%s: supply fell by %s", desc, d))
			}
		} else {
			if v.sigValid && stored[key].Kind == 0 {
				fail("alphabet-sanity", "valid proof submission failed: "+desc)
				return fs, "setup-failed"
			}
			if d := new(big.Int).Sub(supBefore, w.Supply(w.Ctx(), world.Denom)); d.Sign() != 0 {
				fail("rejected-proof-burns-nothing", fmt.Sprintf("%s: supply fell by %s", desc, d))
			}
		}
		cw.observeProofs(stored, nil, w.Ctx(), func(f string, a ...interface{}) {
			fail("proof-store-matches-reference", fmt.Sprintf("after %s: ", desc)+fmt.Sprintf(f, a...))
		})
	}
	if len(c.Multi) > 0 {
		return fs, c16RunMulti(cw, c, stored, accNumR, seq, fee, failS)
	}
	target := cw.addr(c.Target)
	inner := cw.vestingMsg(c.Msg, cw.R, target)
	var msgs []sdk.Msg
	switch {
	case c.Routing == "top":
		msgs = []sdk.Msg{inner}
	case c.Routing == "beside-send":
		msgs = []sdk.Msg{inner}
	case strings.HasPrefix(c.Routing, "exec"):
		depth := int(c.Routing[4] - '0')
		m := inner
		for i := 0; i < depth; i++ {
			e := authz.NewMsgExec(cw.R.Acc(), []sdk.Msg{m})
			m = &e
		}
		msgs = []sdk.Msg{m}
	case strings.HasPrefix(c.Routing, "sib-exec"), strings.HasPrefix(c.Routing, "send-exec"), strings.HasPrefix(c.Routing, "in-exec"):
		// the creation message nested in MsgExec (depth d) that is NOT the first element of its message list:
		// sib-exec: [MsgExec{send}, exec^d(inner)]; send-exec: [send, exec^d(inner)]; in-exec: MsgExec{[MsgExec{send}, exec^(d-1)(inner)]}
		depth := int(c.Routing[len(c.Routing)-1] - '0')
		send := &banktypes.MsgSend{FromAddress: cw.R.Bech(), ToAddress: w.Wallets[0].Bech(), Amount: sdk.NewCoins(sdk.NewCoin(world.Denom, sdkmath.NewInt(1)))}
		wrap := func(m sdk.Msg, n int) sdk.Msg {
			for i := 0; i < n; i++ {
				e := authz.NewMsgExec(cw.R.Acc(), []sdk.Msg{m})
				m = &e
			}
			return m
		}
		benign := wrap(send, 1)
		switch {
		case strings.HasPrefix(c.Routing, "sib-exec"):
			msgs = []sdk.Msg{benign, wrap(inner, depth)}
		case strings.HasPrefix(c.Routing, "send-exec"):
			msgs = []sdk.Msg{send, wrap(inner, depth)}
		default:
			e := authz.NewMsgExec(cw.R.Acc(), []sdk.Msg{benign, wrap(inner, depth-1)})
			msgs = []sdk.Msg{&e}
		}
	case c.Routing == "grant", c.Routing == "sib-grant":
		any, err := codectypes.NewAnyWithValue(authz.NewGenericAuthorization(vestingURL(c.Msg)))
		if err != nil {
			panic(err)
		}
		exp := world.BlockTime(1000)
		msgs = []sdk.Msg{&authz.MsgGrant{Granter: cw.R.Bech(), Grantee: w.Wallets[0].Bech(), Grant: authz.Grant{Authorization: any, Expiration: &exp}}}
		if c.Routing == "sib-grant" { // the grant listed after a harmless exec
			send := &banktypes.MsgSend{FromAddress: cw.R.Bech(), ToAddress: w.Wallets[0].Bech(), Amount: sdk.NewCoins(sdk.NewCoin(world.Denom, sdkmath.NewInt(1)))}
			e := authz.NewMsgExec(cw.R.Acc(), []sdk.Msg{send})
			msgs = []sdk.Msg{&e, msgs[0]}
		}
	default:
		panic(c.Routing)
	}
	supBefore := w.Supply(w.Ctx(), world.Denom)
	br := w.Block([][]byte{w.CosmosTx(cw.R, accNumR, seq, 2_000_000, fee, msgs...)})
	if br.Panic != "" || br.Err != nil {
		fail("block-executes", fmt.Sprintf("panic=%q err=%v", br.Panic, br.Err))
		return fs, "HALT"
	}
	r := br.Res.TxResults[0]
	ctx := w.Ctx()
	isVesting := cw.isVestingAccount(ctx, target)
	how := stored[hex.EncodeToString(target)].Kind
	desc := fmt.Sprintf("%s to %s (%d bytes) via %s, proof submissions=%v: code=%d vestingAccountCreated=%v log=%s", c.Msg, c.Target, len(target), c.Routing, c.Proven, r.Code, isVesting, r.Log)
	if isVesting && how != c16Legit {
		sig := ""
		if how == c16KnownDefect {
			sig = c16SigLongAccount
		}
		failS("vesting-account-only-for-proven-address", sig, desc)
	}
	if isVesting && c.Routing != "top" {
		fail("vesting-creation-never-through-exec-or-grant", desc)
	}
	for _, n := range c16Universe() {
		if x := cw.addr(n); !bytes.Equal(x, target) && cw.isVestingAccount(ctx, x) {
			fail("vesting-account-only-at-the-target", desc+": vesting account found at "+n)
		}
	}
	if c.Routing == "grant" || c.Routing == "sib-grant" {
		if r.Code == 0 {
			fail("grants-for-vesting-creation-refused", desc)
		}
		if g, _ := w.App.AuthzKeeper.GetAuthorizations(ctx, w.Wallets[0].Acc(), cw.R.Acc()); len(g) != 0 {
			fail("grants-for-vesting-creation-refused", desc+" (grant stored)")
		}
	}
	if c.Routing == "top" && how == c16Legit && !isVesting {
		fail("alphabet-sanity", "top-level vesting creation for a proven address did not create the account: "+desc)
	}
	if sup := w.Supply(ctx, world.Denom); sup.Cmp(supBefore) != 0 {
		fail("vesting-routing-leaves-supply-alone", fmt.Sprintf("%s -> %s", supBefore, sup))
	}
	cw.observeProofs(stored, nil, ctx, func(f string, a ...interface{}) {
		fail("proof-store-matches-reference", "after "+desc+": "+fmt.Sprintf(f, a...))
	})
	if isVesting {
		return fs, "created"
	}
	if r.Code == 0 {
		return fs, "accepted-no-account"
	}
	return fs, "rejected"
}

func c16Routes(thorough bool) []c16Route {
	setups := [][]string{nil, {"A"}, {"A", "B"},
		{"B|A/A"},        // forged: victim||attacker signed by the attacker
		{"A|B/A"},        // attacker||victim signed by the attacker
		{"A", "pad|A/A"}, // a 32-byte address ending with a proven EOA, signed by that EOA
		{"A|pad/A"},      // a 32-byte address starting with an EOA, signed by that EOA
	}
	targets := []string{"A", "B", "A|pad", "pad|A", "A|B", "B|A", "B|pad", "pad|B"}
	if thorough {
		setups = append(setups, []string{"B|A/B"}, []string{"A", "B|A/A"}, []string{"zpad|A/A"}, []string{"A|zpad/A"}, []string{"A[:19]/A"}, []string{"A[1:]/A"}, []string{"A", "B", "A|B/B", "B|A/A"})
		targets = append(targets, "zpad|A", "A|zpad", "A[:19]", "A[1:]", "B[:19]", "B[1:]")
	}
	var routes []c16Route
	for si, proven := range setups {
		for _, msg := range []string{"vesting", "periodic", "permanent"} {
			for _, target := range targets {
				for _, r := range []string{"top", "exec1", "exec2", "exec3", "exec4", "exec5", "grant", "sib-exec1", "sib-exec2", "send-exec1", "send-exec2", "in-exec1", "in-exec2", "sib-grant"} {
					if !thorough && r != "top" && r != "exec1" && r != "grant" && (si == 1 || si == 4 || si == 6) {
						// quick tier: the deeper / sibling routings are crossed with 4 of the 7 proof histories
						continue
					}
					routes = append(routes, c16Route{Proven: proven, Msg: msg, Target: target, Routing: r})
				}
			}
		}
	}
	return routes
}

// c16BFS explores the proof-store states reachable with an alphabet to a depth or to fixpoint. Every shard discovers the same
// state graph: only submissions that pass the stateless ValidateBasic can reach the message server and only those the reference
// does not rule out (account without proof, submitter able to pay) are followed; reference states identify nodes, and the full
// store hash of every accepted transition is compared with the hash of the node of the same reference state. The transitions
// (every state × every op, the ruled-out ones too), evaluated against the reference, are divided among the shards.
// The first c16CoreOps ops of an alphabet (20-byte accounts and submitters) are applied to every state of depth < maxDepth, the
// colliding-address ops to every state of depth < wideDepth, the family ops (alpha[famStart:], signature shapes × special accounts) to
// every state of depth < famDepth. A state reached by a family op that stored a proof the reference does not allow is reported,
// observed (store, ante decorator) and not expanded further: everything beyond it would repeat that violation.
func c16BFS(run *ev.Run, cw *c16World, name string, alpha []c16Op, famStart, maxDepth, wideDepth, famDepth, shard, n int) {
	type node struct {
		ctx   sdk.Context
		hash  [32]byte
		m     *c16Model
		path  []c16Op
		depth int
		leaf  bool
	}
	limit := func(oi int) int {
		switch {
		case oi < c16CoreOps:
			return maxDepth
		case oi < famStart:
			return wideDepth
		}
		return famDepth
	}
	var reach []int
	reaches := map[int]bool{}
	for oi, op := range alpha {
		if cw.validateBasic(op) == nil {
			reach = append(reach, oi)
			reaches[oi] = true
		}
	}
	root := cw.initialModel()
	byKey := map[string]int{root.key(cw.funded): 0}
	nodes := []node{{cw.root, cw.w.Hash(cw.root), root, nil, 0, false}}
	for i := 0; i < len(nodes); i++ {
		nd := nodes[i]
		if nd.depth >= maxDepth || nd.leaf {
			continue
		}
		for _, oi := range reach {
			op := alpha[oi]
			if nd.depth >= limit(oi) {
				continue
			}
			if !cw.mayAccept(nd.m, op) {
				continue
			}
			nctx, ok, _ := cw.exec(nd.ctx, op)
			if !ok {
				continue
			}
			m := nd.m.clone()
			cw.apply(m, op, true)
			k := m.key(cw.funded)
			if _, seen := byKey[k]; seen {
				continue
			}
			byKey[k] = len(nodes)
			_, acc := cw.opAddrs(op)
			leaf := oi >= famStart && cw.judge(acc, cw.sigOf(op.Sig)).kind() != c16Legit
			nodes = append(nodes, node{nctx, cw.w.Hash(nctx), m, append(append([]c16Op{}, nd.path...), op), nd.depth + 1, leaf})
		}
	}
	fix := nodes[len(nodes)-1].depth < maxDepth
	t := 0
	for ni, nd := range nodes {
		if ni%n == shard {
			if ni > 0 {
				run.Distinct(fmt.Sprintf("%x", nd.hash[:12]))
			}
			cw.anteClause(nd.m, nd.ctx, func(kind, target string, passed bool) {
				run.Count("ante_evaluations", 1)
				run.Outcome(fmt.Sprintf("ante/len%d/passed=%v", len(cw.addr(target)), passed))
			}, func(sig, msg string) {
				run.Fail(ev.Finding{Clause: "vesting-account-only-for-proven-address", Signature: sig, Detail: fmt.Sprint(nd.path) + " => " + msg, Replay: map[string]interface{}{"path": nd.path}})
			})
		}
		if nd.depth >= maxDepth || nd.leaf {
			continue
		}
		for oi, op := range alpha {
			if nd.depth >= limit(oi) {
				continue
			}
			t++
			if t%n != shard {
				continue
			}
			nctx, ok, errMsg := cw.exec(nd.ctx, op)
			path := append(append([]c16Op{}, nd.path...), op)
			if ni == 0 && oi < 4*n {
				// determinism: the first cases are executed twice
				nctx2, ok2, errMsg2 := cw.exec(nd.ctx, op)
				if ok2 != ok || errMsg2 != errMsg || cw.w.Hash(nctx2) != cw.w.Hash(nctx) {
					fmt.Fprintln(os.Stderr, "HARNESS-NONDETERMINISM in C16 submission", op)
					os.Exit(2)
				}
			}
			if ok && !reaches[oi] {
				fmt.Fprintln(os.Stderr, "HARNESS-NONDETERMINISM in C16: ValidateBasic refused this submission before", path)
				os.Exit(2)
			}
			m := nd.m.clone()
			bad := cw.check(m, nd.ctx, nd.hash, nctx, op, ok, errMsg, reaches[oi], ni == 0)
			run.Count("transitions", 1)
			cls := "refused"
			if ok {
				cls = "stored"
				if j, known := byKey[m.key(cw.funded)]; known && nodes[j].hash != cw.w.Hash(nctx) {
					bad = append(bad, c16Bad{msg: fmt.Sprintf("the store differs from the one reached by %v although the reference state (stored proofs, balances) is the same", nodes[j].path)})
				}
			} else if strings.HasPrefix(errMsg, "panic") {
				cls = "panic-refused"
			}
			_, acc := cw.opAddrs(op)
			run.Outcome(fmt.Sprintf("submit/%s/%s/%s", op.Sig, c16AccClass(op, acc), cls))
			if oi >= famStart {
				run.Count("family_transitions", 1)
			}
			for _, b := range bad {
				run.Fail(ev.Finding{Clause: "proof-store-matches-reference", Signature: b.sig, Detail: fmt.Sprint(path) + " => " + b.msg, Replay: map[string]interface{}{"path": path}})
			}
			if ok && run.Counter("sampled") < 2 {
				run.Count("sampled", 1)
				run.Sample(map[string]interface{}{"path": path})
			}
		}
	}
	run.Coverage["submission_search_fixpoint/"+name] = fix
	run.Coverage["submission_states/"+name] = len(nodes)
	run.Coverage["submission_depth_reached/"+name] = nodes[len(nodes)-1].depth
	run.Coverage["submission_ops/"+name] = len(alpha)
	run.Coverage["submission_family_ops/"+name] = len(alpha) - famStart
	run.Coverage["submission_ops_passing_validate_basic/"+name] = len(reach)
}

func runC16(replay string) int {
	run := ev.NewRun("C16", "model_checking")
	run.Assumptions = []string{
		"part 1 drives ValidateBasic + the real vauth message server on CacheContext branches (a refusal or a handler panic discards the branch as baseapp does) and the real vesting authorization ante decorator on every reached proof-store state; part 2 drives complete transactions through FinalizeBlock",
		"whether a byte string is a signature of the module's message, and by which address, is computed by the reference from the bytes alone: textbook public-key recovery in big-integer arithmetic on secp256k1 (65 bytes R||S||V, 1<=R,S<n, V in 0..3), cross-checked on every variant with go-ethereum's crypto.Ecrecover (a disagreement aborts the run with exit 2); any recovery failure means 'no signature'. x/vauth/utils is never consulted. For the variants built from a known key the recovered address must be that key's (exit 2 otherwise)",
		"upper-case, high-S (malleated) and self-proving encodings of a genuinely valid signature carry no expectation on acceptance, only on effects; a valid signature spelled as a wallet spells it (lower-case hex, 65 bytes, V in {0,1}, low S) for another account than the submitter must be accepted",
		"reference: the proven addresses are a set of exact byte strings; a proof for account X is acceptable only when the signature recovers to the 20-byte address X, so no proof is acceptable for an account address whose length is not 20 bytes, and none of the offered byte strings is acceptable for the addresses no key controls (zero address, 0x..01, 0xff..ff, module accounts)",
		"submitters whose address is not 20 bytes are funded genesis accounts driven at message-server level only (no key can sign a transaction for them)",
	}
	if replay != "" {
		return replayCase(run, replay, func(raw json.RawMessage) []ev.Finding {
			var c struct {
				Path  []c16Op   `json:"path"`
				Route *c16Route `json:"route"`
			}
			if err := json.Unmarshal(raw, &c); err != nil {
				fmt.Fprintln(os.Stderr, err)
				os.Exit(2)
			}
			if c.Route != nil {
				fs, oc := c16RunRoute(*c.Route)
				fmt.Println("outcome:", oc)
				return fs
			}
			cw := c16Setup(true)
			m := cw.initialModel()
			ctx := cw.root
			var fs []ev.Finding
			ante := func() {
				cw.anteClause(m, ctx, func(string, string, bool) {}, func(sig, msg string) {
					fs = append(fs, ev.Finding{Clause: "vesting-account-only-for-proven-address", Signature: sig, Detail: msg})
				})
			}
			ante()
			for i, op := range c.Path {
				nctx, ok, errMsg := cw.exec(ctx, op)
				fmt.Printf("step %d %s -> ok=%v %s\n", i, op, ok, errMsg)
				for _, b := range cw.check(m, ctx, cw.w.Hash(ctx), nctx, op, ok, errMsg, true, true) {
					fs = append(fs, ev.Finding{Clause: "proof-store-matches-reference", Signature: b.sig, Detail: b.msg})
				}
				ctx = nctx
				ante()
			}
			return fs
		})
	}
	routes := append(c16Routes(run.Thorough()), c16ShapeRoutes(run.Thorough())...)
	multiRoutes := c16MultiRoutes(run.Thorough())
	routes = append(routes, multiRoutes...)
	type pass struct {
		name      string
		alpha     []c16Op
		famStart  int
		maxDepth  int // ops on 20-byte addresses only
		wideDepth int // the colliding-address ops
		famDepth  int // the family ops: signature shapes × special accounts
	}
	mk := func(name string, thorough bool, maxDepth, wideDepth, famDepth int) pass {
		head := c16Alphabet(thorough)
		return pass{name, append(head, c16FamilyOps(thorough, head)...), len(head), maxDepth, wideDepth, famDepth}
	}
	passes := []pass{mk("quick-alphabet", false, 4, 3, 2)}
	if run.Thorough() {
		passes = []pass{mk("quick-alphabet", false, 8, 8, 8), mk("thorough-alphabet", true, 3, 3, 3)}
	}
	run.Sharded(Shards(), func(shard, n int) {
		// part 1
		cw := c16Setup(true)
		for _, p := range passes {
			c16BFS(run, cw, p.name, p.alpha, p.famStart, p.maxDepth, p.wideDepth, p.famDepth, shard, n)
		}
		// part 2
		for i, c := range routes {
			if i%n != shard {
				continue
			}
			fs, oc := c16RunRoute(c)
			if i < n {
				if fs2, oc2 := c16RunRoute(c); oc2 != oc || len(fs2) != len(fs) {
					fmt.Fprintln(os.Stderr, "HARNESS-NONDETERMINISM in C16 route", i)
					os.Exit(2)
				}
			}
			run.Count("transitions", int64(len(c.Proven)+1))
			run.Count("routing_cases", 1)
			if len(c.Multi) > 0 {
				run.Count("multi_message_cases", 1)
				run.Count("multi_message/"+c16MultiShape(c)+"/"+oc, 1)
				run.Outcome(fmt.Sprintf("route/multi/%s/%s", c16MultiShape(c), oc))
				run.Distinct(fmt.Sprintf("route:%v:%s:%s", c.Proven, c16MultiString(c.Multi), oc))
			} else {
				tl := fmt.Sprintf("len%d", len(c16AddrLen(c.Target)))
				if _, sp := c16Special(c.Target); sp {
					tl = c.Target
				}
				run.Outcome(fmt.Sprintf("route/%s/%s/%s", c.Routing, tl, oc))
				run.Distinct(fmt.Sprintf("route:%v:%s:%s:%s:%s", c.Proven, c.Msg, c.Target, c.Routing, oc))
			}
			if i%(len(routes)/2+1) == 0 {
				run.Sample(map[string]interface{}{"route": c, "outcome": oc})
			}
			for _, f := range fs {
				run.Fail(f)
			}
		}
	})
	run.Coverage["states"] = run.NumDistinct() + 1
	run.Coverage["traces_validated_against_impl"] = int(run.Counter("transitions"))
	run.Coverage["exhaustive"] = true
	md, desc := 0, ""
	for _, p := range passes {
		if p.maxDepth > md {
			md = p.maxDepth
		}
		desc += fmt.Sprintf("%s (%d ops; the %d ops on 20-byte key addresses applied to every state of depth < %d, the %d colliding-address ops to every state of depth < %d, the %d family ops to every state of depth < %d, or to fixpoint); ", p.name, len(p.alpha), c16CoreOps, p.maxDepth, p.famStart-c16CoreOps, p.wideDepth, len(p.alpha)-p.famStart, p.famDepth)
	}
	run.Coverage["max_depth"] = md
	run.Coverage["rule"] = fmt.Sprintf("addresses are expressions over the keys A, B (provable), R, E, P (submitters): the 20-byte key address, the special 20-byte addresses no key controls (zero address, 0x..01 = ecrecover precompile, 0xff..ff, the vauth and fee collector module accounts), and 32-, 40- and 19-byte addresses built to collide with them on their first or last 20 (19) bytes (X||pad, pad||X, X||zeros, zeros||X, victim||attacker, attacker||victim, X[:19], X[1:]); %d of them are observed (HasProof, GetProof record, raw store keys, ante decorator) on every reached state. "+
		"part 1: BFS over branch states with the submission alphabets %sops = submitter {rich, exactly-the-fee, one-short, funded 32-byte A||pad (3 fees), funded 32-byte pad||B (1 fee)} × account {A, B, submitter itself, the colliding non-20-byte addresses; A and B also under the upper-case spelling of the bech32 address} × signature variants {A's, B's (thorough alphabet: R's, the submitter's), upper-case hex, 64/66 bytes, empty, garbage, (r,n−s,v⊕1) malleated, signed other message, v+27}; the quick alphabet crosses the non-20-byte accounts with signatures {A's, B's, garbage} and the non-20-byte submitters with {A's, B's} only, the thorough alphabet is the full product; "+
		"family ops (applied to every state of depth < the family depth): signature shapes = the variants above + {1 byte, 64-byte EIP-2098 compact form, zero byte || signature} + 65-byte R||S||V with (R,S) in {A's genuine (r,s), R=0, S=0, R=S=0, R=n, R=n-1, S=n, S=n-s (high), all 0xff; thorough: R=n+1, R=p, R=1, S=n-1, S=n+1, S=1} × V in {0,1,2,27,28,29,255; thorough: 3,4,26,30,31,35,36,128,254} (%d shapes quick, %d thorough), crossed in the quick alphabet with account {A, zero address, 0x..01, vauth module account, 0xff..ff, the submitter itself} for the rich submitter and with {A, zero address} for the exactly-the-fee and one-short submitters, in the thorough alphabet with account {A, B, zero, 0x..01, vauth module, fee collector, 0xff..ff, submitter itself} × all 5 submitters; a state in which a family op stored a proof the reference forbids is reported, observed and not expanded; reference state (stored records as exact byte strings, balances) as state identity cross-checked with the full store hash, every transition compared with the reference, and the real vesting ante decorator run on every reached state for 3 message kinds × every observed address; "+
		"part 2: %d complete-transaction cases (proof submissions in earlier blocks {∅,{A},{A,B}, victim||attacker signed by the attacker, attacker||victim signed by the attacker, pad||A signed by A after A, A||pad signed by A; thorough: 7 more; quick: routings other than top / exec1 / grant with 4 of the 7} × 3 vesting-creation messages × target {A, B and the colliding 32/40-byte (thorough: also zero-padded and 19-byte) addresses} × routing {top level, MsgExec nested 1..5 with grantee = granter, MsgGrant, the nested message / the grant listed after a harmless MsgExec or MsgSend, or after a harmless MsgExec inside an outer MsgExec}; plus the widened dimensions: every signature shape offered by R for the zero address in an earlier block then each message kind with the zero address as top-level target; 11 representative shapes (unrecoverable classes, garbage, empty, A's genuine signature) offered for each special address then that address as target over the routings {top, exec1, grant, sib-exec1; thorough: all 14}; the special addresses as targets with no submission and after genuine proofs of A and B; A's genuine proof before / after a shape offered for the zero address, and the V=0/1/27 and R=S=0 shapes offered for A itself; plus %d multi-message cases: ONE transaction by R with several top-level messages after the proof history {A, B}: [v1→x, v2→y], [MsgSend, v→x], [v1→x, MsgSend, v2→y] over message kind v ∈ 3 kinds × recipient x, y ∈ {proven A, proven B, unproven fresh keys T1, T2} in every order (same recipient twice included); thorough: also [v1→x, v2→y, v3→z] (3³ kinds × 4³ recipients), the MsgSend first / last beside two vesting messages, recipients {A, pad||A, zero address, B}, and the history {A} with recipients {A, B, T1}; reference per case: accepted only if every vesting target has a proof for exactly its bytes, a refused transaction creates no vesting account, writes no account-store entry other than the signer's and moves no balance but the fee, an accepted one creates exactly the accounts (kind, 1000 each) for its targets) through FinalizeBlock",
		len(c16Universe()), desc, len(c16Shapes(false)), len(c16Shapes(true)), len(routes)-len(multiRoutes), len(multiRoutes))
	return run.Finish()
}

// c16AddrLen resolves an address expression without a world (the keys are fixed).
func c16AddrLen(expr string) []byte {
	cw := &c16World{R: world.NewAcct("c16-rich"), E: world.NewAcct("c16-exact"), P: world.NewAcct("c16-poor"), A: world.NewAcct("c16-A"), B: world.NewAcct("c16-B")}
	return cw.addr(expr)
}
