package checks

// C03 part A: explicit-state search over sequences of StateDB operations interleaved with Snapshot / RevertToSnapshot,
// validated step by step against a reference model made of plain Go values with a stack of deep copies.

import (
	"crypto/sha256"
	"fmt"
	"math/big"
	"sort"
	"strings"

	sdkmath "cosmossdk.io/math"
	abci "github.com/cometbft/cometbft/abci/types"
	sdk "github.com/cosmos/cosmos-sdk/types"
	distrtypes "github.com/cosmos/cosmos-sdk/x/distribution/types"
	stakingtypes "github.com/cosmos/cosmos-sdk/x/staking/types"
	"github.com/ethereum/go-ethereum/common"
	ethtypes "github.com/ethereum/go-ethereum/core/types"
	ethcrypto "github.com/ethereum/go-ethereum/crypto"

	evmtypes "github.com/EscanBE/evermint/v12/x/evm/types"
	evmvm "github.com/EscanBE/evermint/v12/x/evm/vm"

	"verif/harness/ev"
	"verif/harness/world"
)

// ---------------------------------------------------------------------------
// universe
// ---------------------------------------------------------------------------

var (
	// A0 does not exist at the root, A1 is a plain account (2 wei, 2 utwo, nonce 0), A2 is a contract
	// (code 0x00, nonce 1, 1 wei, committed storage slot0 = 7).
	c03Addr = [3]common.Address{
		common.HexToAddress("0x00000000000000000000000000000000a0a0a0a0"),
		common.HexToAddress("0x00000000000000000000000000000000a1a1a1a1"),
		common.HexToAddress("0x00000000000000000000000000000000a2a2a2a2"),
	}
	c03Slot  = [2]common.Hash{h(0), h(1)}
	c03Codes = [][]byte{nil, {0x00}, {0xfe}} // index 0 = no code
	c03Denom = [2]string{world.Denom, "utwo"}
)

const c03Absent = int16(-1)

// c03Op is one operation of the alphabet. A = address index, S = slot index, V = value / code index / position in the
// stack of live snapshots (Revert).
type c03Op struct {
	K string `json:"k"`
	A int    `json:"a,omitempty"`
	S int    `json:"s,omitempty"`
	V int    `json:"v,omitempty"`
}

func (o c03Op) String() string {
	switch o.K {
	case "AddBalance", "SubBalance", "IncNonce", "AddLog", "AddAddr", "Suicide", "Create", "Touch":
		return fmt.Sprintf("%s(A%d)", o.K, o.A)
	case "SetCode":
		return fmt.Sprintf("SetCode(A%d,c%d)", o.A, o.V)
	case "SetState", "SetTransient":
		return fmt.Sprintf("%s(A%d,k%d,%d)", o.K, o.A, o.S, o.V)
	case "AddSlot":
		return fmt.Sprintf("AddSlot(A%d,k%d)", o.A, o.S)
	case "Allow", "Revert":
		return fmt.Sprintf("%s(%d)", o.K, o.V)
	}
	return o.K
}

func c03PathString(p []c03Op) string {
	var s []string
	for _, o := range p {
		s = append(s, o.String())
	}
	return strings.Join(s, " ; ")
}

// ---------------------------------------------------------------------------
// reference model
// ---------------------------------------------------------------------------

type c03Acct struct {
	Exists   bool // an auth account is present
	Fresh    bool // the present account was made inside this StateDB (committed storage is no longer its storage)
	Suicided bool
	Touched  bool
	Bal      [2]int64 // wei, utwo
	Nonce    int64
	Code     int8     // index into c03Codes
	Store    [2]int16 // c03Absent or the stored value (a stored zero is a present entry)
}

type c03Log struct {
	A int8
	T int16 // position of the AddLog in the path (makes every log distinct)
}

type c03State struct {
	Acc     [3]c03Acct
	Refund  int64
	ALAddr  [3]bool
	ALSlot  [3][2]bool
	Trans   [3][2]int16
	Logs    []c03Log
	Allow   int64    // cpc allowance A1 -> A2
	Deleg   int64    // live 1-wei delegations A1 -> validator 0
	SupplyD [2]int64 // supply change relative to the root
}

var c03Orig = [3][2]int16{{c03Absent, c03Absent}, {c03Absent, c03Absent}, {7, c03Absent}}
var c03OrigExists = [3]bool{false, true, true}

func c03InitialState() c03State {
	var s c03State
	s.Acc[0] = c03Acct{Store: [2]int16{c03Absent, c03Absent}}
	s.Acc[1] = c03Acct{Exists: true, Bal: [2]int64{2, 2}, Store: [2]int16{c03Absent, c03Absent}}
	s.Acc[2] = c03Acct{Exists: true, Bal: [2]int64{1, 0}, Nonce: 1, Code: 1, Store: c03Orig[2]}
	return s
}

func (s c03State) clone() c03State {
	c := s
	c.Logs = append([]c03Log(nil), s.Logs...)
	return c
}

func (s *c03State) empty(a int) bool {
	x := &s.Acc[a]
	return x.Code == 0 && x.Bal[0] == 0 && x.Bal[1] == 0 && x.Nonce == 0 && x.Store[0] == c03Absent && x.Store[1] == c03Absent
}

func (s *c03State) ensure(a int) {
	if !s.Acc[a].Exists {
		s.Acc[a].Exists = true
		s.Acc[a].Fresh = true
	}
}

// render appends the canonical rendering (log topics are left out: they name the position of the operation, not state).
func (s *c03State) render(b []byte) []byte {
	fl := func(x ...bool) byte {
		var v byte
		for i, y := range x {
			if y {
				v |= 1 << uint(i)
			}
		}
		return v
	}
	for i := range s.Acc {
		a := &s.Acc[i]
		b = append(b, fl(a.Exists, a.Fresh, a.Suicided, a.Touched, s.ALAddr[i], s.ALSlot[i][0], s.ALSlot[i][1]),
			byte(a.Bal[0]), byte(a.Bal[1]), byte(a.Nonce), byte(a.Code), byte(a.Store[0]+1), byte(a.Store[1]+1),
			byte(s.Trans[i][0]), byte(s.Trans[i][1]))
	}
	b = append(b, byte(s.Refund), byte(s.Allow), byte(s.Deleg), byte(s.SupplyD[0]+64), byte(s.SupplyD[1]+64), byte(len(s.Logs)))
	for _, l := range s.Logs {
		b = append(b, byte(l.A))
	}
	return b
}

// afterCommit is the persistent state CommitMultiStore(true) must leave: touched accounts that self-destructed or are
// empty are removed together with all their coins (every denom), code and storage.
func (s c03State) afterCommit() (c03State, int) {
	c := s.clone()
	deleted := 0
	for i := range c.Acc {
		a := &c.Acc[i]
		if a.Touched && (a.Suicided || c.empty(i)) {
			if a.Exists {
				deleted++
			}
			for d := 0; d < 2; d++ {
				c.SupplyD[d] -= a.Bal[d]
				a.Bal[d] = 0
			}
			a.Exists, a.Fresh, a.Nonce, a.Code, a.Store = false, false, 0, 0, [2]int16{c03Absent, c03Absent}
		}
		a.Suicided, a.Touched = false, false
	}
	return c, deleted
}

type c03Model struct {
	Cur    c03State
	Stack  []c03State
	Taint  bool  // some RevertToSnapshot happened on the way here
	Surv   []int // positions (in the path) of the live non-snapshot operations
	SurvAt []int // len(Surv) at each live snapshot
}

func c03NewModel() *c03Model { return &c03Model{Cur: c03InitialState()} }

func (m *c03Model) clone() *c03Model {
	n := &c03Model{Cur: m.Cur.clone(), Taint: m.Taint}
	for _, s := range m.Stack {
		n.Stack = append(n.Stack, s.clone())
	}
	n.Surv = append([]int(nil), m.Surv...)
	n.SurvAt = append([]int(nil), m.SurvAt...)
	return n
}

func (m *c03Model) key() string {
	b := make([]byte, 0, 64*(1+len(m.Stack)))
	if m.Taint {
		b = append(b, 1)
	} else {
		b = append(b, 0)
	}
	b = m.Cur.render(b)
	for i := range m.Stack {
		b = append(b, 0xff)
		b = m.Stack[i].render(b)
	}
	return string(b)
}

func (m *c03Model) enabled(o c03Op) bool {
	s := &m.Cur
	switch o.K {
	case "SubBalance":
		return s.Acc[o.A].Bal[0] >= 1
	case "SubRefund":
		return s.Refund >= 1
	case "BankSend":
		return s.Acc[1].Bal[1] >= 1
	case "BankBack":
		return s.Acc[0].Bal[1] >= 1
	case "Delegate":
		return s.Acc[1].Bal[0] >= 1 && s.Acc[1].Exists
	case "Revert":
		return o.V < len(m.Stack)
	}
	return true
}

// apply advances the model; pos is the position of the operation in the (original) path. The returned value is what
// the implementation's call must return (Suicide), -1 when the call returns nothing.
func (m *c03Model) apply(o c03Op, pos int) int {
	s := &m.Cur
	ret := -1
	switch o.K {
	case "Snapshot":
		m.Stack = append(m.Stack, s.clone())
		m.SurvAt = append(m.SurvAt, len(m.Surv))
		return ret
	case "Revert":
		m.Cur = m.Stack[o.V].clone()
		m.Stack = m.Stack[:o.V]
		m.Surv = m.Surv[:m.SurvAt[o.V]]
		m.SurvAt = m.SurvAt[:o.V]
		m.Taint = true
		return ret
	}
	m.Surv = append(m.Surv, pos)
	a := &s.Acc[o.A]
	switch o.K {
	case "AddBalance":
		a.Touched = true
		s.ensure(o.A) // the bank module makes the recipient's account
		a.Bal[0]++
		s.SupplyD[0]++
	case "SubBalance":
		a.Touched = true
		a.Bal[0]--
		s.SupplyD[0]--
	case "Touch": // AddBalance(a, 0): what a zero-value call does to its target
		a.Touched = true
	case "IncNonce":
		a.Touched = true
		s.ensure(o.A)
		a.Nonce++
	case "SetCode":
		a.Touched = true
		s.ensure(o.A)
		a.Code = int8(o.V)
	case "SetState":
		a.Touched = true
		s.ensure(o.A)
		a.Store[o.S] = int16(o.V)
	case "SetTransient":
		s.Trans[o.A][o.S] = int16(o.V)
	case "AddLog":
		s.Logs = append(s.Logs, c03Log{A: int8(o.A), T: int16(pos)})
	case "AddRefund":
		s.Refund++
	case "SubRefund":
		s.Refund--
	case "AddAddr":
		s.ALAddr[o.A] = true
	case "AddSlot":
		s.ALAddr[o.A] = true
		s.ALSlot[o.A][o.S] = true
	case "Suicide":
		a.Touched = true
		ret = 0
		if a.Exists {
			ret = 1
			a.Suicided = true
			s.SupplyD[0] -= a.Bal[0]
			a.Bal[0] = 0
		}
	case "Create":
		// the old account object (nonce, code, storage) is dropped, every coin is carried over to the new one
		a.Touched = true
		a.Exists, a.Fresh, a.Nonce, a.Code, a.Store = true, true, 0, 0, [2]int16{c03Absent, c03Absent}
	case "BankSend": // 1 utwo A1 -> A0 through the bank keeper on the current context
		s.Acc[1].Bal[1]--
		s.ensure(0)
		s.Acc[0].Bal[1]++
	case "BankBack": // 1 utwo A0 -> A1
		s.Acc[0].Bal[1]--
		s.Acc[1].Bal[1]++
	case "Allow":
		s.Allow = int64(o.V)
	case "Delegate": // 1 wei A1 -> validator 0 through the staking message server on the current context
		s.Acc[1].Bal[0]--
		s.Deleg++
	default:
		panic("c03 model: unknown op " + o.K)
	}
	return ret
}

// ---------------------------------------------------------------------------
// views: the same list of observations is produced from the implementation and from the model
// ---------------------------------------------------------------------------

type c03View struct {
	Named bool // collect names too (only needed to describe a mismatch)
	Names []string
	Vals  []int64
	Logs  string
}

func (v *c03View) put(name string, val int64) {
	if v.Named {
		v.Names = append(v.Names, name)
	}
	v.Vals = append(v.Vals, val)
}

var (
	c03AN = [3]string{"A0.", "A1.", "A2."}
	c03KN = [2]string{"(k0)", "(k1)"}
)

func c03Diff(got, want *c03View, named func(v *c03View)) []string {
	var bad []string
	same := len(got.Vals) == len(want.Vals) && got.Logs == want.Logs
	for i := 0; same && i < len(got.Vals); i++ {
		same = got.Vals[i] == want.Vals[i]
	}
	if same {
		return nil
	}
	if named != nil {
		want = &c03View{Named: true}
		named(want)
	}
	if len(got.Vals) != len(want.Vals) {
		return []string{"HARNESS: view length mismatch"}
	}
	for i := range got.Vals {
		if got.Vals[i] != want.Vals[i] {
			name := fmt.Sprintf("#%d", i)
			if i < len(want.Names) {
				name = want.Names[i]
			}
			bad = append(bad, fmt.Sprintf("%s=%d, reference %d", name, got.Vals[i], want.Vals[i]))
		}
	}
	if got.Logs != want.Logs {
		bad = append(bad, fmt.Sprintf("logs=%s, reference %s", got.Logs, want.Logs))
	}
	return bad
}

var c03HashVal = map[common.Hash]int64{{}: 0, h(1): 1, h(7): 7}

func c03HashToVal(x common.Hash) int64 {
	if v, ok := c03HashVal[x]; ok {
		return v
	}
	return 9999
}

var (
	c03CodeIdx     = map[string]int64{}
	c03CodeHashIdx = map[common.Hash]int64{{}: -2, common.BytesToHash(evmtypes.EmptyCodeHash): 0}
)

func init() {
	for i, c := range c03Codes {
		c03CodeIdx[string(c)] = int64(i)
		if i > 0 {
			c03CodeHashIdx[ethcrypto.Keccak256Hash(c)] = int64(i)
		}
	}
}

func c03CodeToIdx(c []byte) int64 {
	if v, ok := c03CodeIdx[string(c)]; ok {
		return v
	}
	return 9999
}

func c03CodeHashToIdx(x common.Hash) int64 {
	if v, ok := c03CodeHashIdx[x]; ok {
		return v
	}
	return 9999
}

// c03World is the app and the root state shared by parts A and B.
type c03World struct {
	w          *world.World
	root       sdk.Context
	rootHash   [32]byte
	coinbase   common.Address
	supply0    [2]*big.Int
	bonded0    *big.Int
	valTok0    sdkmath.Int
	val        sdk.ValAddress
	msgServer  stakingtypes.MsgServer
	delegCtx   []sdk.Context // delegCtx[k] = root + k flat delegations (no StateDB involved)
	delegHash  [][32]byte    // hash of the staking and distribution stores of delegCtx[k]
	erc20      common.Address
	staking    common.Address
	flatMemo   map[string][32]byte // committed store hash of a flat (snapshot-free) operation list
	flatEvents map[string]string   // sorted Cosmos events that flat execution handed to the parent's event manager
}

func c03EventsDetail(got, flat string, ops []c03Op) string {
	s := fmt.Sprintf("the commit handed the parent context a different multiset of Cosmos events than the commit of the live operations alone [%s]: %s VERSUS %s", c03PathString(ops), got, flat)
	if len(s) > 900 {
		s = s[:900] + "…"
	}
	return s
}

func c03SortedEvents(ctx sdk.Context) string {
	var l []string
	for _, e := range ctx.EventManager().ABCIEvents() {
		l = append(l, world.EventsString([]abci.Event{e}))
	}
	sort.Strings(l)
	return strings.Join(l, "")
}

func (cw *c03World) storesHash(ctx sdk.Context, names ...string) [32]byte {
	hh := sha256.New()
	var l [8]byte
	put := func(b []byte) {
		n := len(b)
		for i := 0; i < 8; i++ {
			l[i] = byte(n >> (8 * i))
		}
		hh.Write(l[:])
		hh.Write(b)
	}
	for _, name := range names {
		put([]byte(name))
		it := ctx.KVStore(cw.w.Keys[name]).Iterator(nil, nil)
		for ; it.Valid(); it.Next() {
			put(it.Key())
			put(it.Value())
		}
		it.Close()
	}
	var r [32]byte
	copy(r[:], hh.Sum(nil))
	return r
}

func (cw *c03World) delegate(ctx sdk.Context, from common.Address, amt int64) error {
	msg := stakingtypes.NewMsgDelegate(sdk.AccAddress(from.Bytes()).String(), cw.val.String(), sdk.NewCoin(world.Denom, sdkmath.NewInt(amt)))
	_, err := cw.msgServer.Delegate(ctx, msg)
	return err
}

// flatDelegHash returns the hash of the staking and distribution stores after k delegations made directly on a branch
// of the root (no StateDB, no snapshots): what those modules must look like when exactly k delegations are alive.
func (cw *c03World) flatDelegHash(k int) [32]byte {
	for len(cw.delegCtx) <= k {
		prev := cw.root
		if n := len(cw.delegCtx); n > 0 {
			prev = cw.delegCtx[n-1]
		}
		ctx, _ := prev.CacheContext()
		if len(cw.delegCtx) > 0 {
			// fund the delegator first (bank only; the hash covers the staking and distribution stores)
			one := sdk.NewCoins(sdk.NewCoin(world.Denom, sdkmath.NewInt(1)))
			if err := cw.w.App.BankKeeper.MintCoins(ctx, evmtypes.ModuleName, one); err != nil {
				panic(err)
			}
			if err := cw.w.App.BankKeeper.SendCoinsFromModuleToAccount(ctx, evmtypes.ModuleName, c03Addr[1].Bytes(), one); err != nil {
				panic(err)
			}
			if err := cw.delegate(ctx, c03Addr[1], 1); err != nil {
				panic("c03: flat delegation failed: " + err.Error())
			}
		}
		cw.delegCtx = append(cw.delegCtx, ctx)
		cw.delegHash = append(cw.delegHash, cw.storesHash(ctx, stakingtypes.StoreKey, distrtypes.StoreKey))
	}
	return cw.delegHash[k]
}

func fold32(x [32]byte) int64 {
	var v int64
	for i := 0; i < 7; i++ {
		v = v<<8 | int64(x[i])
	}
	return v
}

// viewModel lists what the implementation must show in state s.
func (cw *c03World) viewModel(s *c03State) *c03View {
	v := &c03View{}
	cw.viewModelInto(v, s)
	return v
}

func (cw *c03World) viewModelInto(v *c03View, s *c03State) {
	for i := range s.Acc {
		a := &s.Acc[i]
		n := c03AN[i]
		v.put(n+"GetBalance", a.Bal[0])
		v.put(n+"bank(utwo)@current", a.Bal[1])
		v.put(n+"GetNonce", a.Nonce)
		v.put(n+"GetCode", int64(a.Code))
		v.put(n+"GetCodeSize", int64(len(c03Codes[a.Code])))
		if a.Exists {
			v.put(n+"GetCodeHash", int64(a.Code))
		} else {
			v.put(n+"GetCodeHash", -2)
		}
		nStore := int64(0)
		for k := 0; k < 2; k++ {
			if a.Store[k] == c03Absent {
				v.put(n+"GetState"+c03KN[k], 0)
			} else {
				v.put(n+"GetState"+c03KN[k], int64(a.Store[k]))
				nStore += 1 + 10*int64(k+1)*(int64(a.Store[k])+1)
			}
			if a.Exists && c03OrigExists[i] && !a.Fresh && c03Orig[i][k] != c03Absent {
				v.put(n+"GetCommittedState"+c03KN[k], int64(c03Orig[i][k]))
			} else {
				v.put(n+"GetCommittedState"+c03KN[k], 0)
			}
			v.put(n+"GetTransientState"+c03KN[k], int64(s.Trans[i][k]))
			v.put(n+"SlotInAccessList"+c03KN[k], b2i(s.ALAddr[i])+2*b2i(s.ALSlot[i][k]))
		}
		v.put(n+"ForEachStorage", nStore)
		v.put(n+"Exist", b2i(a.Exists || a.Suicided))
		v.put(n+"Empty", b2i(s.empty(i)))
		v.put(n+"HasSuicided", b2i(a.Suicided))
		v.put(n+"AddressInAccessList", b2i(s.ALAddr[i]))
		v.put(n+"auth.HasAccount@current", b2i(a.Exists))
		v.put(n+"touched", b2i(a.Touched))
	}
	v.put("GetRefund", s.Refund)
	v.put("cpc.allowance(A1,A2)@current", s.Allow)
	v.put("staking.delegation(A1,val0)@current", s.Deleg)
	v.put("staking.validatorTokens(val0)-root@current", s.Deleg)
	v.put("bank.bondedPool-root@current", s.Deleg)
	v.put("bank.supply(wei)-root@current", s.SupplyD[0])
	v.put("bank.supply(utwo)-root@current", s.SupplyD[1])
	v.put("staking+distribution stores = k flat delegations", fold32(cw.flatDelegHash(int(s.Deleg))))
	var ls []string
	for _, l := range s.Logs {
		ls = append(ls, fmt.Sprintf("A%d#%d", l.A, l.T))
	}
	v.Logs = "[" + strings.Join(ls, " ") + "]"
}

func c03AddrIdx(a common.Address) int {
	for i, x := range c03Addr {
		if x == a {
			return i
		}
	}
	return 99
}

// keeperView reads through ctx with the module keepers only (no StateDB): used for the committed state, and for the
// module reads through the current context.
func (cw *c03World) keeperTail(v *c03View, ctx sdk.Context, tag string) {
	app := cw.w.App
	v.put("cpc.allowance(A1,A2)"+tag, app.CPCKeeper.GetErc20CpcAllowance(ctx, c03Addr[1], c03Addr[2]).Int64())
	d, err := app.StakingKeeper.GetDelegation(ctx, c03Addr[1].Bytes(), cw.val)
	if err != nil {
		v.put("staking.delegation(A1,val0)"+tag, 0)
	} else {
		v.put("staking.delegation(A1,val0)"+tag, d.Shares.TruncateInt64()+b2i(!d.Shares.IsInteger())*1000000)
	}
	val, err := app.StakingKeeper.GetValidator(ctx, cw.val)
	if err != nil {
		panic(err)
	}
	v.put("staking.validatorTokens(val0)-root"+tag, val.Tokens.Sub(cw.valTok0).Int64())
	bp := cw.w.Balance(ctx, world.ModuleAddr(stakingtypes.BondedPoolName), world.Denom)
	v.put("bank.bondedPool-root"+tag, new(big.Int).Sub(bp, cw.bonded0).Int64())
	for d := 0; d < 2; d++ {
		v.put("bank.supply("+[2]string{"wei", "utwo"}[d]+")-root"+tag, new(big.Int).Sub(cw.w.Supply(ctx, c03Denom[d]), cw.supply0[d]).Int64())
	}
	v.put("staking+distribution stores = k flat delegations", fold32(cw.storesHash(ctx, stakingtypes.StoreKey, distrtypes.StoreKey)))
}

// viewReal reads every getter of the StateDB and the other modules through its current context.
func (cw *c03World) viewReal(sdb evmvm.CStateDB) *c03View {
	v := &c03View{}
	cur := sdb.GetCurrentContext()
	app := cw.w.App
	touched := sdb.ForTest_CloneTouched()
	for i, addr := range c03Addr {
		n := c03AN[i]
		v.put(n+"GetBalance", sdb.GetBalance(addr).Int64())
		v.put(n+"bank(utwo)@current", app.BankKeeper.GetBalance(cur, addr.Bytes(), "utwo").Amount.Int64())
		v.put(n+"GetNonce", int64(sdb.GetNonce(addr)))
		v.put(n+"GetCode", c03CodeToIdx(sdb.GetCode(addr)))
		v.put(n+"GetCodeSize", int64(sdb.GetCodeSize(addr)))
		v.put(n+"GetCodeHash", c03CodeHashToIdx(sdb.GetCodeHash(addr)))
		for k, slot := range c03Slot {
			v.put(n+"GetState"+c03KN[k], c03HashToVal(sdb.GetState(addr, slot)))
			v.put(n+"GetCommittedState"+c03KN[k], c03HashToVal(sdb.GetCommittedState(addr, slot)))
			v.put(n+"GetTransientState"+c03KN[k], c03HashToVal(sdb.GetTransientState(addr, slot)))
			aok, sok := sdb.SlotInAccessList(addr, slot)
			v.put(n+"SlotInAccessList"+c03KN[k], b2i(aok)+2*b2i(sok))
		}
		nStore := int64(0)
		_ = sdb.ForEachStorage(addr, func(key, val common.Hash) bool {
			k := c03HashToVal(key)
			if k > 1 {
				nStore += 1000000
			} else {
				nStore += 1 + 10*(k+1)*(c03HashToVal(val)+1)
			}
			return true
		})
		v.put(n+"ForEachStorage", nStore)
		v.put(n+"Exist", b2i(sdb.Exist(addr)))
		v.put(n+"Empty", b2i(sdb.Empty(addr)))
		v.put(n+"HasSuicided", b2i(sdb.HasSuicided(addr)))
		v.put(n+"AddressInAccessList", b2i(sdb.AddressInAccessList(addr)))
		v.put(n+"auth.HasAccount@current", b2i(app.AccountKeeper.HasAccount(cur, addr.Bytes())))
		v.put(n+"touched", b2i(touched.Has(addr)))
	}
	v.put("GetRefund", int64(sdb.GetRefund()))
	cw.keeperTail(v, cur, "@current")
	var ls []string
	for _, l := range sdb.GetTransactionLogs() {
		t := int64(-1)
		if len(l.Topics) == 1 {
			t = new(big.Int).SetBytes(l.Topics[0].Bytes()).Int64()
		}
		ls = append(ls, fmt.Sprintf("A%d#%d", c03AddrIdx(l.Address), t))
	}
	v.Logs = "[" + strings.Join(ls, " ") + "]"
	return v
}

// committed views: what the keepers report on the context the StateDB was created on, after CommitMultiStore.
func (cw *c03World) viewCommittedModel(s *c03State) *c03View {
	v := &c03View{}
	cw.viewCommittedModelInto(v, s)
	return v
}

func (cw *c03World) viewCommittedModelInto(v *c03View, s *c03State) {
	for i := range s.Acc {
		a := &s.Acc[i]
		n := c03AN[i]
		v.put(n+"auth.HasAccount", b2i(a.Exists))
		v.put(n+"bank(wei)", a.Bal[0])
		v.put(n+"bank(utwo)", a.Bal[1])
		v.put(n+"sequence", a.Nonce)
		if a.Exists {
			v.put(n+"evm.codeHash", int64(a.Code))
		} else {
			v.put(n+"evm.codeHash", -2)
		}
		nStore := int64(0)
		for k := 0; k < 2; k++ {
			if a.Store[k] != c03Absent {
				nStore += 1 + 10*int64(k+1)*(int64(a.Store[k])+1)
			}
		}
		v.put(n+"evm.storage", nStore)
	}
	v.put("cpc.allowance(A1,A2)", s.Allow)
	v.put("staking.delegation(A1,val0)", s.Deleg)
	v.put("staking.validatorTokens(val0)-root", s.Deleg)
	v.put("bank.bondedPool-root", s.Deleg)
	v.put("bank.supply(wei)-root", s.SupplyD[0])
	v.put("bank.supply(utwo)-root", s.SupplyD[1])
	v.put("staking+distribution stores = k flat delegations", fold32(cw.flatDelegHash(int(s.Deleg))))
	v.put("bank(evm module)", 0)
}

func (cw *c03World) viewCommittedReal(ctx sdk.Context) *c03View {
	v := &c03View{}
	app := cw.w.App
	for i, addr := range c03Addr {
		n := c03AN[i]
		v.put(n+"auth.HasAccount", b2i(app.AccountKeeper.HasAccount(ctx, addr.Bytes())))
		v.put(n+"bank(wei)", cw.w.Balance(ctx, addr, world.Denom).Int64())
		v.put(n+"bank(utwo)", cw.w.Balance(ctx, addr, "utwo").Int64())
		v.put(n+"sequence", int64(cw.w.Nonce(ctx, addr)))
		v.put(n+"evm.codeHash", c03CodeHashToIdx(app.EvmKeeper.GetCodeHash(ctx, addr.Bytes())))
		nStore := int64(0)
		app.EvmKeeper.ForEachStorage(ctx, addr, func(key, val common.Hash) bool {
			k := c03HashToVal(key)
			if k > 1 {
				nStore += 1000000
			} else {
				nStore += 1 + 10*(k+1)*(c03HashToVal(val)+1)
			}
			return true
		})
		v.put(n+"evm.storage", nStore)
	}
	cw.keeperTail(v, ctx, "")
	evmMod := world.ModuleAddr(evmtypes.ModuleName)
	v.put("bank(evm module)", cw.w.Balance(ctx, evmMod, world.Denom).Int64()+cw.w.Balance(ctx, evmMod, "utwo").Int64())
	return v
}

// ---------------------------------------------------------------------------
// execution on the implementation
// ---------------------------------------------------------------------------

type c03Exec struct {
	cw       *c03World
	parent   sdk.Context
	sdb      evmvm.CStateDB
	ids      []int      // ids the implementation returned for the live snapshots
	hashes   [][32]byte // full store hash through the current context right after each live Snapshot (wantHash only)
	hidden   []string   // the StateDB's own in-memory sets (touched, self-destructed, access list) at the same moments
	wantHash bool
	wantNow  [32]byte // after a Revert: what the stores looked like when the snapshot was taken
	wantHid  string
}

// c03Hidden renders the in-memory sets of the StateDB that its getters do not (fully) expose; the touched set decides
// which accounts CommitMultiStore may delete.
func c03Hidden(sdb evmvm.CStateDB) string {
	set := func(t evmvm.AccountTracker) string {
		var l []string
		for a := range t {
			l = append(l, a.Hex()[34:])
		}
		sort.Strings(l)
		return strings.Join(l, ",")
	}
	var al []string
	for a, slots := range sdb.ForTest_CloneAccessList().CloneElements() {
		var l []string
		for k := range slots {
			l = append(l, k.Hex()[60:])
		}
		sort.Strings(l)
		al = append(al, a.Hex()[34:]+":"+strings.Join(l, "+"))
	}
	sort.Strings(al)
	return "touched{" + set(sdb.ForTest_CloneTouched()) + "} selfDestructed{" + set(sdb.ForTest_CloneSelfDestructed()) + "} accessList{" + strings.Join(al, ",") + "}"
}

func (cw *c03World) newExec(wantHash bool) *c03Exec {
	parent, _ := cw.root.CacheContext()
	app := cw.w.App
	return &c03Exec{cw: cw, parent: parent, wantHash: wantHash,
		sdb: evmvm.NewStateDB(parent, cw.coinbase, app.EvmKeeper, app.AccountKeeper, app.BankKeeper)}
}

var c03Big1 = big.NewInt(1)

// do performs one operation; m is the model state BEFORE the operation (only used to pick the new nonce).
// ret follows c03Model.apply; problem reports a panic or a keeper error.
func (e *c03Exec) do(o c03Op, m *c03Model, pos int) (ret int, problem string) {
	defer func() {
		if r := recover(); r != nil {
			problem = "panic: " + fmt.Sprint(r)
		}
	}()
	ret = -1
	sdb := e.sdb
	app := e.cw.w.App
	var addr common.Address
	if o.A >= 0 && o.A < 3 {
		addr = c03Addr[o.A]
	}
	switch o.K {
	case "AddBalance":
		sdb.AddBalance(addr, c03Big1)
	case "SubBalance":
		sdb.SubBalance(addr, c03Big1)
	case "Touch":
		sdb.AddBalance(addr, new(big.Int))
	case "IncNonce":
		sdb.SetNonce(addr, uint64(m.Cur.Acc[o.A].Nonce+1))
	case "SetCode":
		sdb.SetCode(addr, c03Codes[o.V])
	case "SetState":
		sdb.SetState(addr, c03Slot[o.S], h(uint64(o.V)))
	case "SetTransient":
		sdb.SetTransientState(addr, c03Slot[o.S], h(uint64(o.V)))
	case "AddLog":
		sdb.AddLog(&ethtypes.Log{Address: addr, Topics: []common.Hash{h(uint64(pos))}})
	case "AddRefund":
		sdb.AddRefund(1)
	case "SubRefund":
		sdb.SubRefund(1)
	case "AddAddr":
		sdb.AddAddressToAccessList(addr)
	case "AddSlot":
		sdb.AddSlotToAccessList(addr, c03Slot[o.S])
	case "Suicide":
		ret = int(b2i(sdb.Suicide(addr)))
	case "Create":
		sdb.CreateAccount(addr)
	case "BankSend":
		if err := app.BankKeeper.SendCoins(sdb.GetCurrentContext(), c03Addr[1].Bytes(), c03Addr[0].Bytes(), sdk.NewCoins(sdk.NewCoin("utwo", sdkmath.NewInt(1)))); err != nil {
			problem = "bank send failed: " + err.Error()
		}
	case "BankBack":
		if err := app.BankKeeper.SendCoins(sdb.GetCurrentContext(), c03Addr[0].Bytes(), c03Addr[1].Bytes(), sdk.NewCoins(sdk.NewCoin("utwo", sdkmath.NewInt(1)))); err != nil {
			problem = "bank send failed: " + err.Error()
		}
	case "Allow":
		app.CPCKeeper.SetErc20CpcAllowance(sdb.GetCurrentContext(), c03Addr[1], c03Addr[2], big.NewInt(int64(o.V)))
	case "Delegate":
		if err := e.cw.delegate(sdb.GetCurrentContext(), c03Addr[1], 1); err != nil {
			problem = "delegate failed: " + err.Error()
		}
	case "Snapshot":
		e.ids = append(e.ids, sdb.Snapshot())
		if e.wantHash {
			e.hashes = append(e.hashes, e.cw.w.Hash(sdb.GetCurrentContext()))
			e.hidden = append(e.hidden, c03Hidden(sdb))
		}
	case "Revert":
		sdb.RevertToSnapshot(e.ids[o.V])
		e.ids = e.ids[:o.V]
		if e.wantHash {
			e.wantNow, e.wantHid = e.hashes[o.V], e.hidden[o.V]
			e.hashes, e.hidden = e.hashes[:o.V], e.hidden[:o.V]
		}
	default:
		panic("c03 exec: unknown op " + o.K)
	}
	return ret, ""
}

// run replays path silently on a fresh StateDB with the model alongside; stops at the first problem.
func (cw *c03World) run(path []c03Op, positions []int, wantHash bool) (*c03Exec, *c03Model, string) {
	e := cw.newExec(wantHash)
	m := c03NewModel()
	for i, o := range path {
		pos := i
		if positions != nil {
			pos = positions[i]
		}
		if !m.enabled(o) {
			return e, m, fmt.Sprintf("HARNESS: operation %d (%s) not enabled in the model", i, o)
		}
		ret, problem := e.do(o, m, pos)
		want := m.apply(o, pos)
		if problem != "" {
			return e, m, fmt.Sprintf("operation %d (%s): %s", i, o, problem)
		}
		if ret != want {
			return e, m, fmt.Sprintf("operation %d (%s) returned %d, reference %d", i, o, ret, want)
		}
	}
	return e, m, ""
}

func c03Finding(clause string, path []c03Op, search string, detail []string) ev.Finding {
	d := c03PathString(path) + " => " + strings.Join(detail, " | ")
	if len(d) > 1200 {
		d = d[:1200] + "…"
	}
	return ev.Finding{Clause: clause, Detail: d, Replay: map[string]interface{}{"part": "A", "search": search, "path": path}}
}

// checkTransition validates the last operation of path: every getter after it, and for a revert the complete store
// seen through the current context against what it was right after the snapshot was taken.
func (cw *c03World) checkTransition(path []c03Op, search string) (fs []ev.Finding, obs string) {
	last := path[len(path)-1]
	e, m, problem := cw.run(path, nil, last.K == "Revert")
	if problem != "" {
		return []ev.Finding{c03Finding("statedb-matches-reference", path, search, []string{problem})}, problem
	}
	got, want := cw.viewReal(e.sdb), cw.viewModel(&m.Cur)
	if bad := c03Diff(got, want, func(v *c03View) { cw.viewModelInto(v, &m.Cur) }); len(bad) > 0 {
		fs = append(fs, c03Finding("statedb-matches-reference", path, search, bad))
	}
	obs = fmt.Sprint(got.Vals, got.Logs)
	if last.K == "Revert" {
		now := cw.w.Hash(e.sdb.GetCurrentContext())
		obs += fmt.Sprintf(" %x", now[:8])
		if now != e.wantNow {
			fs = append(fs, c03Finding("revert-restores-every-store", path, search, []string{cw.storeDiff(path)}))
		}
		if hid := c03Hidden(e.sdb); hid != e.wantHid {
			fs = append(fs, c03Finding("revert-restores-in-memory-sets", path, search, []string{"after the revert: " + hid + "; when the snapshot was taken: " + e.wantHid}))
		}
	}
	return fs, obs
}

// storeDiff re-runs a path ending in a revert with dumps and describes the keys that differ (diagnostics only).
func (cw *c03World) storeDiff(path []c03Op) string {
	last := path[len(path)-1]
	e := cw.newExec(false)
	m := c03NewModel()
	var dumps []map[string][][2][]byte
	for i, o := range path {
		_, _ = e.do(o, m, i)
		m.apply(o, i)
		if o.K == "Snapshot" {
			dumps = append(dumps, cw.w.Dump(e.sdb.GetCurrentContext()))
		} else if o.K == "Revert" && i < len(path)-1 {
			dumps = dumps[:o.V]
		}
	}
	var out []string
	for _, d := range world.Diff(dumps[last.V], cw.w.Dump(e.sdb.GetCurrentContext())) {
		out = append(out, d.String())
	}
	s := "store differs from the snapshot: " + strings.Join(out, ", ")
	if len(s) > 600 {
		s = s[:600] + "…"
	}
	return s
}

// checkTerminal validates the end of a transaction after path: nothing reached the parent before the commit, the
// committed state is the reference's, and it is byte-identical to the commit of the flat execution of the live operations.
func (cw *c03World) checkTerminal(path []c03Op, search string, discard bool) (fs []ev.Finding, class string, obs string) {
	e, m, problem := cw.run(path, nil, false)
	if problem != "" {
		return []ev.Finding{c03Finding("statedb-matches-reference", path, search, []string{problem})}, "problem", problem
	}
	if discard && cw.w.Hash(e.parent) != cw.rootHash {
		fs = append(fs, c03Finding("discard-leaves-parent-unchanged", path, search, []string{"the context the StateDB was created on changed before CommitMultiStore"}))
	}
	if p := c03Commit(e.sdb); p != "" {
		return append(fs, c03Finding("commit-matches-reference", path, search, []string{p})), "problem", p
	}
	after, deleted := m.Cur.afterCommit()
	got := cw.viewCommittedReal(e.parent)
	if bad := c03Diff(got, cw.viewCommittedModel(&after), func(v *c03View) { cw.viewCommittedModelInto(v, &after) }); len(bad) > 0 {
		fs = append(fs, c03Finding("commit-matches-reference", path, search, bad))
	}
	obs = fmt.Sprint(got.Vals)
	class = fmt.Sprintf("commit/snapshots=%d/reverted=%v/deleted=%d", len(m.Stack), m.Taint, deleted)
	if len(m.Surv) == len(path) {
		return fs, class, obs
	}
	// flat execution of the live operations (original positions keep the log topics)
	var flat []c03Op
	for _, p := range m.Surv {
		flat = append(flat, path[p])
	}
	flatKey := c03PathString(flat)
	evs := c03SortedEvents(e.parent)
	mine := cw.w.Hash(e.parent)
	if hf, ok := cw.flatMemo[flatKey]; ok && hf == mine {
		if fe := cw.flatEvents[flatKey]; fe != evs {
			fs = append(fs, c03Finding("reverted-operations-emit-no-cosmos-events", path, search, []string{c03EventsDetail(evs, fe, flat)}))
		}
		return fs, class, obs // same bytes as an earlier flat execution of the same operations
	}
	e2, m2, problem := cw.run(flat, m.Surv, false)
	if problem != "" {
		return append(fs, c03Finding("commit-equals-flat-execution", path, search, []string{"flat execution: " + problem})), class, obs
	}
	if string(m2.Cur.render(nil)) != string(m.Cur.render(nil)) {
		return append(fs, c03Finding("commit-equals-flat-execution", path, search, []string{"HARNESS: flat model differs"})), class, obs
	}
	if p := c03Commit(e2.sdb); p != "" {
		return append(fs, c03Finding("commit-equals-flat-execution", path, search, []string{"flat execution: " + p})), class, obs
	}
	hf := cw.w.Hash(e2.parent)
	if cw.flatMemo == nil {
		cw.flatMemo = map[string][32]byte{}
	}
	cw.flatMemo[flatKey] = hf
	if cw.flatEvents == nil {
		cw.flatEvents = map[string]string{}
	}
	cw.flatEvents[flatKey] = c03SortedEvents(e2.parent)
	if fe := cw.flatEvents[flatKey]; fe != evs {
		fs = append(fs, c03Finding("reverted-operations-emit-no-cosmos-events", path, search, []string{c03EventsDetail(evs, fe, flat)}))
	}
	if mine != hf {
		var out []string
		for _, d := range world.Diff(cw.w.Dump(e2.parent), cw.w.Dump(e.parent)) {
			out = append(out, d.String())
		}
		s := "committed stores differ from the commit of the live operations alone [" + c03PathString(flat) + "]: " + strings.Join(out, ", ")
		if len(s) > 700 {
			s = s[:700] + "…"
		}
		fs = append(fs, c03Finding("commit-equals-flat-execution", path, search, []string{s}))
	}
	return fs, class, obs
}

func c03Commit(sdb evmvm.CStateDB) (problem string) {
	defer func() {
		if r := recover(); r != nil {
			problem = "CommitMultiStore panic: " + fmt.Sprint(r)
		}
	}()
	if err := sdb.CommitMultiStore(true); err != nil {
		return "CommitMultiStore: " + err.Error()
	}
	return ""
}

// ---------------------------------------------------------------------------
// alphabets and the search
// ---------------------------------------------------------------------------

type c03Search struct {
	Name  string
	Alpha []c03Op // without Snapshot and Revert(i) (generated first, for every live snapshot)
	Depth int
}

func c03Alphabet(name string, thorough bool) []c03Op {
	var ops []c03Op
	add := func(o ...c03Op) { ops = append(ops, o...) }
	all := []int{0, 1, 2}
	switch name {
	case "full":
		for _, a := range all {
			add(c03Op{K: "AddBalance", A: a})
		}
		for _, a := range all {
			add(c03Op{K: "SubBalance", A: a})
		}
		for _, a := range all {
			add(c03Op{K: "Touch", A: a})
		}
		for _, a := range all {
			add(c03Op{K: "IncNonce", A: a})
		}
		for _, a := range all {
			add(c03Op{K: "SetCode", A: a, V: 2})
			if thorough {
				add(c03Op{K: "SetCode", A: a, V: 0})
			}
		}
		for _, a := range all {
			add(c03Op{K: "SetState", A: a, S: 0, V: 1}, c03Op{K: "SetState", A: a, S: 0, V: 0}, c03Op{K: "SetState", A: a, S: 1, V: 1})
			if thorough {
				add(c03Op{K: "SetState", A: a, S: 1, V: 0})
			}
		}
		for _, a := range all {
			add(c03Op{K: "SetTransient", A: a, S: 0, V: 1}, c03Op{K: "SetTransient", A: a, S: 1, V: 1})
			if thorough {
				add(c03Op{K: "SetTransient", A: a, S: 0, V: 0}, c03Op{K: "SetTransient", A: a, S: 1, V: 0})
			}
		}
		for _, a := range all {
			add(c03Op{K: "AddLog", A: a})
		}
		add(c03Op{K: "AddRefund"}, c03Op{K: "SubRefund"})
		for _, a := range all {
			add(c03Op{K: "AddAddr", A: a})
		}
		for _, a := range all {
			add(c03Op{K: "AddSlot", A: a, S: 0}, c03Op{K: "AddSlot", A: a, S: 1})
		}
		for _, a := range all {
			add(c03Op{K: "Suicide", A: a})
		}
		for _, a := range all {
			add(c03Op{K: "Create", A: a})
		}
		add(c03Op{K: "BankSend"}, c03Op{K: "BankBack"}, c03Op{K: "Allow", V: 1}, c03Op{K: "Allow", V: 0}, c03Op{K: "Delegate"})
	case "mem": // the fields the StateDB keeps in memory and copies per snapshot
		add(c03Op{K: "AddRefund"}, c03Op{K: "SubRefund"})
		add(c03Op{K: "AddAddr", A: 0}, c03Op{K: "AddAddr", A: 1})
		add(c03Op{K: "AddSlot", A: 0, S: 0}, c03Op{K: "AddSlot", A: 0, S: 1}, c03Op{K: "AddSlot", A: 1, S: 0})
		add(c03Op{K: "AddLog", A: 0}, c03Op{K: "AddLog", A: 1})
		add(c03Op{K: "SetTransient", A: 0, S: 0, V: 1}, c03Op{K: "SetTransient", A: 0, S: 1, V: 1}, c03Op{K: "SetTransient", A: 0, S: 0, V: 0}, c03Op{K: "SetTransient", A: 1, S: 0, V: 1})
		add(c03Op{K: "Suicide", A: 1}, c03Op{K: "Suicide", A: 2})
	case "acct": // account objects: one absent and one contract account
		for _, a := range []int{0, 2} {
			add(c03Op{K: "AddBalance", A: a}, c03Op{K: "SubBalance", A: a}, c03Op{K: "Touch", A: a}, c03Op{K: "IncNonce", A: a}, c03Op{K: "SetCode", A: a, V: 2},
				c03Op{K: "SetState", A: a, S: 0, V: 1}, c03Op{K: "SetState", A: a, S: 0, V: 0}, c03Op{K: "Suicide", A: a}, c03Op{K: "Create", A: a})
		}
	case "foreign": // writes of other modules through the current context, mixed with StateDB writes to the same accounts
		add(c03Op{K: "BankSend"}, c03Op{K: "BankBack"}, c03Op{K: "Allow", V: 1}, c03Op{K: "Allow", V: 0}, c03Op{K: "Delegate"}, c03Op{K: "Touch", A: 0},
			c03Op{K: "AddBalance", A: 1}, c03Op{K: "SubBalance", A: 1}, c03Op{K: "Suicide", A: 1}, c03Op{K: "Create", A: 1}, c03Op{K: "Suicide", A: 0}, c03Op{K: "Create", A: 0})
	default:
		panic("c03 alphabet " + name)
	}
	return ops
}

type c03Node struct {
	Parent int32
	Op     c03Op
	Depth  int8
}

func c03PathOf(nodes []c03Node, i int) []c03Op {
	var rev []c03Op
	for i > 0 {
		rev = append(rev, nodes[i].Op)
		i = int(nodes[i].Parent)
	}
	for l, r := 0, len(rev)-1; l < r; l, r = l+1, r-1 {
		rev[l], rev[r] = rev[r], rev[l]
	}
	return rev
}

const c03Shallow = 2000

type c03Transition struct {
	From int32
	Op   c03Op
}

// c03Enumerate is the breadth-first search on the reference model alone: the distinct (state, snapshot stack, reverted?)
// keys reachable within depth operations, each with the first (shortest, alphabet-ordered) path that reaches it, and
// every transition leaving the states of depth < depth. It is deterministic, so every worker computes the same lists.
func c03Enumerate(sr c03Search) (nodes []c03Node, trans []c03Transition) {
	nodes, trans, _ = c03EnumerateShard(sr, 0, 1)
	return nodes, trans
}

// c03EnumerateShard keeps only the transitions whose index falls into the shard (all nodes are kept: paths need them).
func c03EnumerateShard(sr c03Search, shard, n int) (nodes []c03Node, trans []c03Transition, total int) {
	root := c03NewModel()
	seen := map[string]bool{root.key(): true}
	nodes = []c03Node{{Parent: -1}}
	type fr struct {
		idx int32
		m   *c03Model
	}
	frontier := []fr{{0, root}}
	for depth := 1; depth <= sr.Depth; depth++ {
		var next []fr
		for _, f := range frontier {
			ops := []c03Op{{K: "Snapshot"}}
			for p := range f.m.Stack {
				ops = append(ops, c03Op{K: "Revert", V: p})
			}
			ops = append(ops, sr.Alpha...)
			for _, o := range ops {
				if !f.m.enabled(o) {
					continue
				}
				// the first (shallowest) transitions all go to worker 0, whose findings are merged first: a shortest
				// counterexample is then the one that gets reported
				if (total < c03Shallow && shard == 0) || (total >= c03Shallow && total%n == shard) {
					trans = append(trans, c03Transition{From: f.idx, Op: o})
				}
				total++
				m := f.m.clone()
				m.apply(o, depth-1)
				k := m.key()
				if seen[k] {
					continue
				}
				seen[k] = true
				nodes = append(nodes, c03Node{Parent: f.idx, Op: o, Depth: int8(depth)})
				if depth < sr.Depth {
					next = append(next, fr{int32(len(nodes) - 1), m})
				}
			}
		}
		frontier = next
	}
	return nodes, trans, total
}

// c03SearchRun validates every transition and every distinct state of one search on the implementation.
func c03SearchRun(run *ev.Run, cw *c03World, sr c03Search, shard, n int, dl *ev.Deadline) {
	nodes, trans, total := c03EnumerateShard(sr, shard, n)
	if shard == 0 {
		run.Count("states", int64(len(nodes)))
		run.Count(sr.Name+"_states", int64(len(nodes)))
		run.Count(sr.Name+"_transitions_enumerated", int64(total))
	}
	checked := 0
	for _, t := range trans {
		if dl.Hit() {
			run.Coverage["exhaustive"] = false
			run.Note("%s: time budget hit in shard %d after %d transitions", sr.Name, shard, checked)
			return
		}
		path := append(c03PathOf(nodes, int(t.From)), t.Op)
		fs, obs := cw.checkTransition(path, sr.Name)
		if checked < 4 {
			if _, obs2 := cw.checkTransition(path, sr.Name); obs2 != obs {
				c03Nondeterminism("transition " + c03PathString(path))
			}
		}
		checked++
		run.Count("transitions", 1)
		snaps := 0
		for _, o := range path {
			if o.K == "Snapshot" {
				snaps++
			}
		}
		cls := "ok"
		if len(fs) > 0 {
			cls = "MISMATCH"
		}
		run.Outcome(fmt.Sprintf("A/%s/snapshots-in-path=%d/%s", t.Op.K, snaps, cls))
		for _, f := range fs {
			run.Fail(f)
		}
		if len(path) == sr.Depth && len(fs) == 0 && run.Counter("sampled_"+sr.Name) < 1 && snaps > 0 && t.Op.K == "Revert" {
			run.Count("sampled_"+sr.Name, 1)
			run.Sample(map[string]interface{}{"part": "A", "search": sr.Name, "path": c03PathString(path)})
		}
	}
	terms := 0
	for i := range nodes {
		if i%n != shard {
			continue
		}
		if dl.Hit() {
			run.Coverage["exhaustive"] = false
			run.Note("%s: time budget hit in shard %d after %d terminal checks", sr.Name, shard, terms)
			return
		}
		path := c03PathOf(nodes, i)
		discard := int(nodes[i].Depth) < sr.Depth || sr.Depth <= 3
		fs, class, obs := cw.checkTerminal(path, sr.Name, discard)
		if terms < 4 {
			if _, _, obs2 := cw.checkTerminal(path, sr.Name, discard); obs2 != obs {
				c03Nondeterminism("terminal " + c03PathString(path))
			}
		}
		terms++
		run.Count("terminal_checks", 1)
		run.Outcome("A/" + class)
		for _, f := range fs {
			run.Fail(f)
		}
	}
}

// c03ReplayA re-executes one path: every prefix as a transition, every prefix as a terminal state.
func c03ReplayA(cw *c03World, path []c03Op, search string) (fs []ev.Finding) {
	if f, _, _ := cw.checkTerminal(nil, search, true); len(f) > 0 {
		fs = append(fs, f...)
	}
	for i := 1; i <= len(path); i++ {
		f, _ := cw.checkTransition(path[:i], search)
		fs = append(fs, f...)
		f, _, _ = cw.checkTerminal(path[:i], search, true)
		fs = append(fs, f...)
	}
	return fs
}

// c03SanityA are cases built to behave in a known way: they must, or the alphabet is not doing what the rule says.
func c03SanityA(run *ev.Run, cw *c03World) {
	fail := func(what string) {
		run.Fail(ev.Finding{Clause: "alphabet-sanity", Detail: what, Replay: map[string]interface{}{"part": "A-sanity"}})
	}
	// the root state is what the model starts from
	e := cw.newExec(false)
	m := c03NewModel()
	if bad := c03Diff(cw.viewReal(e.sdb), cw.viewModel(&m.Cur), func(v *c03View) { cw.viewModelInto(v, &m.Cur) }); len(bad) > 0 {
		fail("root state differs from the model's initial state: " + strings.Join(bad, " | "))
	}
	// every operation of the full alphabet, applied alone, is accepted and visibly changes the view (except SubRefund, disabled)
	before := cw.viewReal(e.sdb)
	for _, o := range c03Alphabet("full", true) {
		if !m.enabled(o) || o.K == "Touch" || (o.K == "Allow" && o.V == 0) || (o.K == "SetTransient" && o.V == 0) {
			continue
		}
		e1, _, problem := cw.run([]c03Op{o}, nil, false)
		if problem != "" {
			fail("single operation " + o.String() + ": " + problem)
			continue
		}
		after := cw.viewReal(e1.sdb)
		if len(c03Diff(after, before, nil)) == 0 && !(o.K == "Suicide" && o.A == 0) && !(o.K == "Create" && o.A == 1) && !(o.K == "SetCode" && o.V == 0 && o.A == 1) {
			fail("single operation " + o.String() + " changed nothing observable")
		}
	}
	// a foreign write survives a commit and is undone by a revert
	for _, o := range []c03Op{{K: "BankSend"}, {K: "Allow", V: 1}, {K: "Delegate"}} {
		e1, _, _ := cw.run([]c03Op{o}, nil, false)
		_ = c03Commit(e1.sdb)
		if cw.w.Hash(e1.parent) == cw.rootHash {
			fail(o.String() + " then commit left the parent unchanged")
		}
		e2, _, _ := cw.run([]c03Op{{K: "Snapshot"}, o, {K: "Revert", V: 0}}, nil, false)
		_ = c03Commit(e2.sdb)
		if cw.w.Hash(e2.parent) != cw.rootHash {
			fail("Snapshot; " + o.String() + "; Revert(0); commit changed the parent")
		}
	}
	// EIP-158: a touched empty account disappears at commit, an untouched one stays, a touch inside a reverted snapshot does not count
	for _, c := range []struct {
		path []c03Op
		want bool
	}{
		{[]c03Op{{K: "BankSend"}, {K: "BankBack"}}, true},
		{[]c03Op{{K: "BankSend"}, {K: "BankBack"}, {K: "Touch", A: 0}}, false},
		{[]c03Op{{K: "BankSend"}, {K: "BankBack"}, {K: "Snapshot"}, {K: "Touch", A: 0}, {K: "Revert", V: 0}}, true},
	} {
		ex, _, problem := cw.run(c.path, nil, false)
		_ = c03Commit(ex.sdb)
		if problem != "" || cw.w.App.AccountKeeper.HasAccount(ex.parent, c03Addr[0].Bytes()) != c.want {
			fail(fmt.Sprintf("%s; commit: account A0 present=%v, expected %v %s", c03PathString(c.path), !c.want, c.want, problem))
		}
	}
	e3, _, _ := cw.run([]c03Op{{K: "AddBalance", A: 0}, {K: "SubBalance", A: 0}}, nil, false)
	_ = c03Commit(e3.sdb)
	if cw.w.App.AccountKeeper.HasAccount(e3.parent, c03Addr[0].Bytes()) {
		fail("touched empty account survived the commit")
	}
}
