package checks

// C03 — reverted EVM call frames leave no trace, in any module.
//   part A (c03_a.go): StateDB operation sequences with nested Snapshot / RevertToSnapshot against a reference model;
//   part B (c03_b.go): contract call trees through the real EVM, at keeper level and (failed top frame) at ABCI level.

import (
	"encoding/json"
	"fmt"
	"os"
	"runtime/debug"
	"strings"
	"time"

	sdk "github.com/cosmos/cosmos-sdk/types"
	stakingkeeper "github.com/cosmos/cosmos-sdk/x/staking/keeper"
	stakingtypes "github.com/cosmos/cosmos-sdk/x/staking/types"

	"verif/harness/ev"
	"verif/harness/world"
)

func init() { Registry["C03"] = runC03 }

func c03Nondeterminism(what string) {
	fmt.Fprintln(os.Stderr, "HARNESS-NONDETERMINISM in C03: "+what)
	os.Exit(2)
}

func c03Setup() *c03World {
	w := world.New(c03Config(nil))
	w.Block(nil)
	cw := &c03World{w: w, root: w.Ctx()}
	cw.rootHash = w.Hash(cw.root)
	cfg, err := w.App.EvmKeeper.EVMConfig(cw.root, nil)
	if err != nil {
		panic(err)
	}
	cw.coinbase = cfg.CoinBase
	for d := 0; d < 2; d++ {
		cw.supply0[d] = w.Supply(cw.root, c03Denom[d])
	}
	cw.bonded0 = w.Balance(cw.root, world.ModuleAddr(stakingtypes.BondedPoolName), world.Denom)
	cw.val = sdk.ValAddress(w.Validators[0].Val())
	val, err := w.App.StakingKeeper.GetValidator(cw.root, cw.val)
	if err != nil {
		panic(err)
	}
	cw.valTok0 = val.Tokens
	cw.msgServer = stakingkeeper.NewMsgServerImpl(w.App.StakingKeeper)
	a := w.App.CPCKeeper.GetErc20CustomPrecompiledContractAddressByMinDenom(cw.root, world.Denom)
	if a == nil {
		panic("c03: no ERC-20 precompile for the native denom")
	}
	cw.erc20 = *a
	for _, m := range w.App.CPCKeeper.GetAllCustomPrecompiledContractsMeta(cw.root) {
		if strings.Contains(m.Name, "Staking") {
			copy(cw.staking[:], m.Address)
		}
	}
	if cw.staking == zeroA {
		panic("c03: no staking precompile")
	}
	return cw
}

func runC03(replay string) int {
	run := ev.NewRun("C03", "model_checking")
	run.Assumptions = []string{
		"part A drives the real CStateDB (NewStateDB on a CacheContext branch of a committed state) and the real bank / cpc / staking keepers through GetCurrentContext(); no EVM, no ante handler, no fees",
		"part A deduplicates on the reference model's (state, snapshot stack, has-a-revert-happened) rendering; the implementation is re-executed from scratch for every transition (a StateDB cannot be cloned)",
		"RevertToSnapshot is only called with ids go-ethereum still considers valid (live snapshots, each reverted at most once)",
		"part B runs real bytecode through NewStateDB + NewEVM + evm.Call + CommitMultiStore at keeper level, and through FinalizeBlock + Commit for the failed-top-frame cases",
		"gas is not part of the compared state; Cosmos events are compared as a multiset (part A, at commit) only",
	}
	debug.SetGCPercent(400)
	cw := c03Setup()
	if replay != "" {
		return replayCase(run, replay, func(raw json.RawMessage) []ev.Finding {
			var c struct {
				Part   string    `json:"part"`
				Search string    `json:"search"`
				Path   []c03Op   `json:"path"`
				Tree   *c03Frame `json:"tree"`
				Create bool      `json:"create"`
			}
			if err := json.Unmarshal(raw, &c); err != nil {
				fmt.Fprintln(os.Stderr, err)
				os.Exit(2)
			}
			switch c.Part {
			case "A":
				return c03ReplayA(cw, c.Path, c.Search)
			case "B":
				fs, _, _ := cw.checkTree(c.Tree)
				return fs
			case "B-abci":
				fs, _, _ := cw.checkAbci(c.Tree, c.Create)
				return fs
			case "A-sanity":
				r2 := ev.NewRun("C03", "model_checking")
				c03SanityA(r2, cw)
				if r2.NumFindings() > 0 {
					return []ev.Finding{{Clause: "alphabet-sanity", Detail: "part A sanity cases fail"}}
				}
				return nil
			}
			fmt.Fprintln(os.Stderr, "unknown part "+c.Part)
			os.Exit(2)
			return nil
		})
	}
	th := run.Thorough()
	searches := []c03Search{{"full", c03Alphabet("full", false), 3}, {"mem", c03Alphabet("mem", false), 5}, {"acct", c03Alphabet("acct", false), 4}, {"foreign", c03Alphabet("foreign", false), 5}}
	budget := 200
	if th {
		searches = []c03Search{{"full", c03Alphabet("full", true), 4}, {"mem", c03Alphabet("mem", true), 6}, {"acct", c03Alphabet("acct", true), 6}, {"foreign", c03Alphabet("foreign", true), 7}}
		budget = 1800
	}
	if s := os.Getenv("C03_ONLY"); s != "" { // development aid: restrict to some searches / parts
		var keep []c03Search
		for _, sr := range searches {
			if strings.Contains(s, sr.Name) {
				keep = append(keep, sr)
			}
		}
		searches = keep
	}
	only := os.Getenv("C03_ONLY")
	run.Sharded(Shards(), func(shard, n int) {
		dl := ev.NewDeadline(secs(budget))
		if shard == 0 && only == "" {
			c03SanityA(run, cw)
		}
		for _, sr := range searches {
			t0 := time.Now()
			c03SearchRun(run, cw, sr, shard, n, dl)
			run.Count("worker_ms_"+sr.Name, time.Since(t0).Milliseconds())
		}
		t0 := time.Now()
		defer func() { run.Count("worker_ms_partB", time.Since(t0).Milliseconds()) }()
		if only == "" || strings.Contains(only, "B") {
			i := 0
			done := 0
			c03Trees(th, func(family string, t *c03Frame) {
				i++
				if i%n != shard {
					return
				}
				if dl.Hit() {
					run.Coverage["exhaustive"] = false
					return
				}
				fs, class, obs := cw.checkTree(t)
				if done < 4 {
					if _, _, obs2 := cw.checkTree(t); obs2 != obs {
						c03Nondeterminism("tree " + t.String())
					}
				}
				done++
				run.Count("trees", 1)
				run.Count("trees_"+family, 1)
				if len(fs) > 0 {
					class += "/MISMATCH"
				}
				run.Outcome(class)
				for _, f := range fs {
					run.Fail(f)
				}
				if done == 50 && shard == 1 {
					run.Sample(map[string]interface{}{"part": "B", "family": family, "tree": t.String()})
				}
			})
			for j, ac := range c03AbciCases(th) {
				t := ac.Tree
				if j%n != shard {
					continue
				}
				if dl.Hit() {
					run.Coverage["exhaustive"] = false
					return
				}
				fs, class, obs := cw.checkAbci(t, ac.Create)
				if j < 2 {
					if _, _, obs2 := cw.checkAbci(t, ac.Create); obs2 != obs {
						c03Nondeterminism("abci tree " + t.String())
					}
				}
				run.Count("abci_cases", 1)
				if len(fs) > 0 {
					class += "/MISMATCH"
				}
				run.Outcome(class)
				for _, f := range fs {
					run.Fail(f)
				}
				if j == 0 {
					run.Sample(map[string]interface{}{"part": "B-abci", "tree": t.String(), "observation": obs})
				}
			}
		}
	})
	var desc []string
	maxDepth := 0
	for _, sr := range searches {
		desc = append(desc, fmt.Sprintf("%s (Snapshot, Revert(i) for every live snapshot i, and %d operations) to depth %d", sr.Name, len(sr.Alpha), sr.Depth))
		if sr.Depth > maxDepth {
			maxDepth = sr.Depth
		}
	}
	run.Coverage["states"] = run.Counter("states")
	run.Coverage["transitions"] = run.Counter("transitions")
	run.Coverage["traces_validated_against_impl"] = run.Counter("transitions") + run.Counter("terminal_checks") + run.Counter("trees") + run.Counter("abci_cases")
	run.Coverage["max_depth"] = maxDepth
	run.Coverage["distinct_nontrivial"] = run.Counter("states") + run.Counter("trees") + run.Counter("abci_cases")
	if _, ok := run.Coverage["exhaustive"]; !ok {
		run.Coverage["exhaustive"] = true
	}
	run.Coverage["rule"] = "Part A: breadth-first search over sequences of operations on the real CStateDB, universe A0 (absent account), A1 (plain account, 2 wei + 2 utwo), A2 (contract, nonce 1, 1 wei, committed slot0=7) x slots k0,k1. Alphabets: " +
		strings.Join(desc, "; ") + ". full = AddBalance(1), SubBalance(1), AddBalance(0) (touch), SetNonce(+1), SetCode, SetState(k,0|1), SetTransientState(k,0|1), AddLog, AddRefund(1), SubRefund(1), AddAddressToAccessList, AddSlotToAccessList, Suicide, CreateAccount on every address (and slot), and through GetCurrentContext(): bank send of 1 utwo A1->A0 and A0->A1, cpc allowance A1->A2 := 1|0, staking Delegate(A1, validator 0, 1 wei) by the real message server (quick leaves out SetCode(empty), SetState(k1,0), SetTransientState(k,0)); mem / acct / foreign are sub-alphabets (in-memory journalled fields on A0,A1 + Suicide; account objects A0 and A2; other modules' writes mixed with StateDB writes to A0,A1). Operations that the EVM never issues are not generated (SubBalance / SubRefund / sends below zero; RevertToSnapshot of an id go-ethereum no longer considers valid). " +
		"States are deduplicated on the reference model's rendering of (state, snapshot stack, reverted-before flag). For every transition the implementation replays the shortest path on a fresh StateDB over a fresh CacheContext and every getter (balance, nonce, code, code hash, code size, state, committed state, transient state, ForEachStorage, Exist, Empty, HasSuicided, access list address+slot, refund, logs, touched set) plus bank / cpc / staking / auth reads and the staking+distribution store bytes through the current context are compared with the reference; a revert additionally compares the hash of all stores and the in-memory touched / self-destructed / access-list sets with those recorded when the snapshot was taken. For every distinct state: CommitMultiStore(true) against the reference (EIP-158 and self-destruct deletions included), byte-for-byte (all stores) and event-for-event (multiset) against the commit of the live operations executed without any snapshot, and - for states below the search depth (all states when the depth is <= 3) - the parent context byte-identical to the root before the commit (discard). " +
		"Part B: call trees of depth <= 3 and fan-out <= 2 (13 shapes), one contract per frame, effects per frame subset of {SSTORE, LOG1, erc20.approve, erc20.transfer(1), staking.delegate(7)} before its calls and SSTORE/LOG1 again after them, parent records each child's success flag, ending in RETURN/REVERT/INVALID: all subsets and endings independently per frame for trees of <= 2 frames; for larger shapes all endings per frame with one effect set for all frames (quick: all five, {SSTORE,LOG1}, {approve,transfer}, {delegate}; thorough: all 32 subsets) and (thorough) 3-frame shapes with per-frame effect sets from {none, each single effect, all five}; oracle: storage, logs, allowances, bank balances, delegations against the expectation, all stores against the run in which failed frames do nothing, and nothing at all changed when the top frame fails. ABCI level (FinalizeBlock+Commit, three fresh worlds per case): every shape with all five effects in every frame and a top frame ending in REVERT / INVALID, as a call and as the init code of a contract creation (thorough: also all inner endings of the complete binary tree), store diff against the same block without the transaction and against a successful no-op transaction of the same sender, gas limit and price"
	return run.Finish()
}
