package checks

// C06, routing dimension of the encodings alphabet.
//
// One Ethereum payload P is signed (or forged) once by the VICTIM (wallet 0) in every variant of the C06 encodings alphabet
// (valid, unprotected, wrong chain id, tampered signature / payload, stale / future nonce, declared sender ≠ signer) and then
// DELIVERED one or more times, each delivery through a route:
//
//	top      the Ethereum lane (MsgEthereumTx + extension option, no Cosmos signature), as in parts A and B
//	<shape>  a Cosmos-lane transaction signed and paid by the ATTACKER (wallet 2) whose message list has the given shape over
//	         S = bank send of the attacker, E = the MsgEthereumTx carrying P, X{…} = authz MsgExec with grantee = attacker
//	         (the granter of an inner message is its own signer, so every S and every E that declares From = attacker needs no grant)
//
// with the inner From field = attacker / = victim (without and with a genesis authz grant victim → attacker for MsgEthereumTx)
// / = whatever the variant declares.
//
// Oracle (the property's sentences, nothing about lanes): a delivery is AUTHORISED iff P is replay-protected for this chain id,
// its signature recovers to the From the delivery declares, and P's nonce equals the signer's sequence at that moment (so: only
// until P has executed once). An unauthorised delivery must leave the signer's nonce, balance and every other piece of state
// alone: the history is re-run with every unauthorised delivery replaced by what its wrapper is entitled to do on its own account
// (nothing when the ante handler refused it; fee + sequence of the attacker when it was accepted and failed; fee + sequence + the
// sends when it succeeded) and the states are compared. An authorised top-level delivery must be admitted. An authorised
// delivery through a Cosmos-lane route carries NO expectation on acceptance (C07 forbids it, this property does not); either
// way P executes at most once over the whole history, the signer's nonce moves by exactly the number of executions, and every
// accepted wrapper costs the attacker its fee and exactly one sequence number.

import (
	"bytes"
	"crypto/sha256"
	"encoding/binary"
	"encoding/json"
	"fmt"
	"math/big"
	"os"
	"strings"

	sdkmath "cosmossdk.io/math"
	abci "github.com/cometbft/cometbft/abci/types"
	codectypes "github.com/cosmos/cosmos-sdk/codec/types"
	sdk "github.com/cosmos/cosmos-sdk/types"
	"github.com/cosmos/cosmos-sdk/x/authz"
	banktypes "github.com/cosmos/cosmos-sdk/x/bank/types"

	chainapp "github.com/EscanBE/evermint/v12/app"
	"github.com/EscanBE/evermint/v12/app/params"
	evmtypes "github.com/EscanBE/evermint/v12/x/evm/types"

	"verif/harness/ev"
	"verif/harness/world"
)

const (
	c06RVictim   = 0
	c06RAttacker = 2
	c06RRcpt     = 3
	c06RGas      = uint64(2_000_000)
	c06REthURL   = "/ethermint.evm.v1.MsgEthereumTx"
)

// c06RPrice: every fee of the routing part is paid at this fixed price (legacy gas price; dynamic-fee cap = tip cap), well above
// the base fee, so that no balance depends on how the base fee moved and twin runs stay comparable block after block.
var c06RPrice = big.NewInt(2_000_000_000)

var c06RFee = new(big.Int).Mul(new(big.Int).SetUint64(c06RGas), c06RPrice)

// the routes of the task statement (quick and thorough) and further shapes (thorough only)
var c06RoutesQuick = []string{"X{E}", "X{X{E}}", "[S,X{E}]", "[X{S},X{E}]", "[X{S},S,X{E}]", "X{[S,E]}", "X{[X{S},E]}", "X{[X{S},X{E}]}"}
var c06RoutesMore = []string{"[X{E},S]", "[X{E},X{S}]", "X{[E,S]}", "X{X{X{E}}}", "[X{S},X{X{E}}]", "[X{S},X{S},X{E}]", "X{[S,X{S},E]}", "X{X{[X{S},E]}}", "[X{X{S}},X{E}]", "[S,E]", "E"}

type c06RDelivery struct {
	Route  string `json:"route"`                // "top" or a message-list shape
	From   string `json:"from"`                 // victim | attacker | declared
	Same   bool   `json:"same_block,omitempty"` // placed in the same block as the previous delivery
	Replay bool   `json:"replay,omitempty"`     // the exact transaction bytes of the previous delivery
}

type c06RCase struct {
	Routing    bool           `json:"routing"` // marks the case family in replay files
	Kind       string         `json:"kind"`    // tx kind of the payload, or "route-sanity"
	Variant    string         `json:"variant,omitempty"`
	TxType     string         `json:"tx_type,omitempty"`
	Grant      bool           `json:"grant,omitempty"` // genesis authz grant victim → attacker for MsgEthereumTx
	Deliveries []c06RDelivery `json:"deliveries"`
}

// ---------------------------------------------------------------------------
// shapes
// ---------------------------------------------------------------------------

type c06Shape struct {
	Leaf byte // 'S', 'E' or 'X'
	Sub  []c06Shape
}

func c06ParseShape(s string) []c06Shape {
	pos := 0
	var list func() []c06Shape
	var elem func() c06Shape
	fail := func() { panic(fmt.Sprintf("c06: route shape %q, position %d", s, pos)) }
	elem = func() c06Shape {
		if pos >= len(s) {
			fail()
		}
		switch s[pos] {
		case 'S', 'E':
			pos++
			return c06Shape{Leaf: s[pos-1]}
		case 'X':
			if pos+1 >= len(s) || s[pos+1] != '{' {
				fail()
			}
			pos += 2
			sub := list()
			if pos >= len(s) || s[pos] != '}' {
				fail()
			}
			pos++
			return c06Shape{Leaf: 'X', Sub: sub}
		}
		fail()
		return c06Shape{}
	}
	list = func() []c06Shape {
		if pos < len(s) && s[pos] == '[' {
			pos++
			var out []c06Shape
			for {
				out = append(out, elem())
				if pos < len(s) && s[pos] == ',' {
					pos++
					continue
				}
				if pos < len(s) && s[pos] == ']' {
					pos++
					return out
				}
				fail()
			}
		}
		return []c06Shape{elem()}
	}
	out := list()
	if pos != len(s) {
		fail()
	}
	return out
}

func c06ShapeSends(sh []c06Shape) int64 {
	var n int64
	for _, x := range sh {
		switch x.Leaf {
		case 'S':
			n++
		case 'X':
			n += c06ShapeSends(x.Sub)
		}
	}
	return n
}

// c06ShapeMsgs turns a shape into messages; e == nil drops every E (and every MsgExec that becomes empty).
func c06ShapeMsgs(w *world.World, sh []c06Shape, e sdk.Msg) []sdk.Msg {
	att, rcpt := w.Wallets[c06RAttacker], w.Wallets[c06RRcpt]
	var out []sdk.Msg
	for _, x := range sh {
		switch x.Leaf {
		case 'S':
			out = append(out, &banktypes.MsgSend{FromAddress: att.Bech(), ToAddress: rcpt.Bech(), Amount: sdk.NewCoins(sdk.NewCoin(world.Denom, sdkmath.NewInt(1)))})
		case 'E':
			if e != nil {
				out = append(out, e)
			}
		case 'X':
			inner := c06ShapeMsgs(w, x.Sub, e)
			if len(inner) == 0 {
				continue
			}
			m := authz.NewMsgExec(att.Acc(), inner)
			out = append(out, &m)
		}
	}
	return out
}

// ---------------------------------------------------------------------------
// world
// ---------------------------------------------------------------------------

func c06RWorld(grant bool) *world.World {
	cfg := world.Config{NumWallets: 4, Contracts: StdContracts()}
	if grant {
		victim, att := world.NewAcct("wal1"), world.NewAcct("wal3")
		cfg.GenesisMutator = func(enc params.EncodingConfig, gs chainapp.GenesisState) {
			a, err := codectypes.NewAnyWithValue(authz.NewGenericAuthorization(c06REthURL))
			if err != nil {
				panic(err)
			}
			exp := world.BlockTime(100000)
			ag := authz.GenesisState{Authorization: []authz.GrantAuthorization{{Granter: victim.Bech(), Grantee: att.Bech(), Authorization: a, Expiration: &exp}}}
			gs[authz.ModuleName] = enc.Codec.MustMarshalJSON(&ag)
		}
	}
	return world.New(cfg)
}

func c06RAntePassed(r *abci.ExecTxResult) bool {
	if r.Code == 0 {
		return true
	}
	// a Cosmos-lane tx that passed the ante handler and failed afterwards keeps the ante handler's events (fee, sequence, signature)
	for _, e := range r.Events {
		if e.Type != "tx" {
			continue
		}
		for _, a := range e.Attributes {
			if a.Key == "fee" || a.Key == "acc_seq" {
				return true
			}
		}
	}
	return false
}

// ---------------------------------------------------------------------------
// execution
// ---------------------------------------------------------------------------

type c06RObs struct {
	Findings []ev.Finding
	Abort    bool // the run could not be evaluated (alphabet-sanity / halted block)
	Outcome  string
	Hashes   [][]byte
	Plan     []string // per delivery: keep | omit | feeonly | strip
	TwinKey  string
	Info     map[string]int64
	Dumps    []map[string][][2][]byte // only when c06RKeepDumps
}

var c06RKeepDumps bool

func c06RFromIsSigner(c c06RCase, d c06RDelivery) bool {
	switch d.From {
	case "victim":
		return true
	case "declared":
		return !strings.HasPrefix(c.Variant, "from-")
	}
	return false
}

func c06RStatic(variant string) int {
	switch variant {
	case "", "from-other", "from-contract", "from-empty": // the from-* variants are judged by who is declared, see c06RFromIsSigner
		return 1
	case "s-malleated":
		return -1
	}
	return 0
}

// c06RRun executes the case. plan == nil: the real run, every delivery as described, oracle evaluated, Plan filled in.
// plan != nil: the reference (twin) run, every delivery replaced as the plan says, no oracle except the sanity of the replacements.
func c06RRun(c c06RCase, plan []string) c06RObs {
	twin := plan != nil
	obs := c06RObs{Info: map[string]int64{}}
	fail := func(clause, detail string) {
		obs.Findings = append(obs.Findings, ev.Finding{Clause: clause, Detail: detail + " " + c06RDescribe(c), Replay: c})
	}
	w := c06RWorld(c.Grant)
	if len(w.Wallets) != 4 || w.Wallets[c06RVictim].Bech() != world.NewAcct("wal1").Bech() || w.Wallets[c06RAttacker].Bech() != world.NewAcct("wal3").Bech() {
		fail("alphabet-sanity", "wallet naming of package world changed")
		obs.Abort = true
		return obs
	}
	victim, att := w.Wallets[c06RVictim], w.Wallets[c06RAttacker]
	attAccNum := uint64(len(w.Validators) + c06RAttacker)
	w.Block(nil)
	if c.Grant {
		if a, _ := w.App.AuthzKeeper.GetAuthorization(w.Ctx(), att.Acc(), victim.Acc(), c06REthURL); a == nil {
			fail("alphabet-sanity", "the genesis grant victim → attacker for MsgEthereumTx is not in the authz store")
			obs.Abort = true
			return obs
		}
	}
	// prelude: one honest transfer of the victim, so that its sequence is 1 (nonce-1 is then a really stale nonce)
	{
		bz := c06RTop(w, c06Item{Kind: "transfer", Sender: c06RVictim, ReplayOf: -1}, 0)
		br := w.Block([][]byte{bz})
		if br.Panic != "" || br.Err != nil || len(br.Res.TxResults) != 1 || br.Res.TxResults[0].Code != 0 || w.Nonce(w.Ctx(), victim.Eth()) != 1 {
			fail("alphabet-sanity", "the prelude transfer of the victim was not accepted")
			obs.Abort = true
			return obs
		}
	}
	if c.Kind == "route-sanity" {
		c06RSanity(w, c, &obs, fail)
		return obs
	}
	ctx := w.Ctx()
	nonce0 := w.Nonce(ctx, victim.Eth())
	sink0 := w.Balance(ctx, AddrSink, world.Denom)
	it := c06Item{Kind: c.Kind, Sender: c06RVictim, Variant: c.Variant, ReplayOf: -1, TxType: c.TxType}
	ptx, declared, emptyFrom := c06BuildEth(w, it, nonce0, c06RPrice, c06RPrice)
	static := c06RStatic(c.Variant)

	// blocks of delivery indexes
	var blocks [][]int
	for i, d := range c.Deliveries {
		if i == 0 || !d.Same {
			blocks = append(blocks, nil)
		}
		blocks[len(blocks)-1] = append(blocks[len(blocks)-1], i)
	}
	executed := false // reference model: P has executed
	var prevBytes []byte
	var oc []string
	obs.Plan = make([]string, len(c.Deliveries))
	var tk strings.Builder
	fmt.Fprintf(&tk, "grant=%v;", c.Grant)
	needP := false
	for bi, blk := range blocks {
		ctx = w.Ctx()
		vN, vB := w.Nonce(ctx, victim.Eth()), w.Balance(ctx, victim.Eth(), world.Denom)
		aN, aB := w.Nonce(ctx, att.Eth()), w.Balance(ctx, att.Eth(), world.Denom)
		sB := w.Balance(ctx, AddrSink, world.Denom)
		type meta struct {
			i        int
			auth     int
			included bool
			sends    int64
		}
		var metas []meta
		var txs [][]byte
		wrapIdx := uint64(0)
		modelExec := executed
		for k, i := range blk {
			d := c.Deliveries[i]
			m := meta{i: i}
			// authorisation by the reference model
			switch {
			case !c06RFromIsSigner(c, d) || modelExec:
				m.auth = 0
			default:
				m.auth = static
			}
			last := k == len(blk)-1
			if m.auth != 0 && !last && !(d.Route == "top" && m.auth == 1) {
				panic("c06: ill-formed routing case (a delivery whose execution is optional must close its block): " + c06RDescribe(c))
			}
			if m.auth == 1 && d.Route == "top" {
				modelExec = true
			}
			// bytes of the delivery as described
			from := declared
			empty := emptyFrom
			switch d.From {
			case "victim":
				from, empty = victim.Eth(), false
			case "attacker":
				from, empty = att.Eth(), false
			}
			var bz []byte
			var shape []c06Shape
			if d.Route != "top" {
				shape = c06ParseShape(d.Route)
				m.sends = c06ShapeSends(shape)
			}
			seq := aN + wrapIdx
			switch {
			case d.Replay:
				bz = prevBytes
			case d.Route == "top":
				var err error
				if bz, err = wrapEthFrom(w, ptx, from, empty); err != nil {
					bz = []byte("unbuildable:" + err.Error())
				}
			default:
				e := &evmtypes.MsgEthereumTx{}
				if err := e.FromEthereumTx(ptx, from); err != nil {
					bz = []byte("unbuildable:" + err.Error())
				} else {
					if empty {
						e.From = ""
					}
					bz = c06RCosmos(w, attAccNum, seq, c06ShapeMsgs(w, shape, e)...)
				}
			}
			prevBytes = bz
			// what goes into the block
			p := "keep"
			if twin {
				p = plan[i]
			}
			switch p {
			case "keep":
				m.included = true
				txs = append(txs, bz)
				needP = true
				fmt.Fprintf(&tk, "keep:%s:%d,", c06ROrigin(c, i), wrapIdx)
			case "omit":
			case "feeonly":
				m.included = true
				huge := new(big.Int).Exp(big.NewInt(10), big.NewInt(30), nil)
				txs = append(txs, c06RCosmos(w, attAccNum, seq, &banktypes.MsgSend{FromAddress: att.Bech(), ToAddress: w.Wallets[c06RRcpt].Bech(), Amount: sdk.NewCoins(sdk.NewCoin(world.Denom, sdkmath.NewIntFromBigInt(huge)))}))
				fmt.Fprintf(&tk, "feeonly:%d,", wrapIdx)
			case "strip":
				m.included = true
				msgs := c06ShapeMsgs(w, shape, nil)
				if len(msgs) == 0 { // nothing but E in the shape: a send of the attacker to itself
					msgs = []sdk.Msg{&banktypes.MsgSend{FromAddress: att.Bech(), ToAddress: att.Bech(), Amount: sdk.NewCoins(sdk.NewCoin(world.Denom, sdkmath.NewInt(1)))}}
				}
				txs = append(txs, c06RCosmos(w, attAccNum, seq, msgs...))
				fmt.Fprintf(&tk, "strip:%s:%d,", d.Route, wrapIdx)
			default:
				panic("c06: plan " + p)
			}
			if d.Route != "top" {
				wrapIdx++
			}
			metas = append(metas, m)
		}
		tk.WriteString("|")
		br := w.Block(txs)
		if br.Panic != "" || br.Err != nil {
			fail("block-executes", fmt.Sprintf("block %d: panic=%q err=%v", bi, br.Panic, br.Err))
			obs.Abort = true
			return obs
		}
		ctx = w.Ctx()
		obs.Hashes = append(obs.Hashes, c06RHash(w, ctx))
		if c06RKeepDumps {
			obs.Dumps = append(obs.Dumps, w.Dump(ctx))
		}
		if twin {
			ri := 0
			for _, m := range metas {
				if !m.included {
					continue
				}
				r := br.Res.TxResults[ri]
				ri++
				switch plan[m.i] {
				case "feeonly":
					if r.Code == 0 || !c06RAntePassed(r) {
						fail("alphabet-sanity", fmt.Sprintf("reference run: the fee-only stand-in of delivery %d did not pass the ante handler and fail afterwards: code=%d %s", m.i, r.Code, r.Log))
						obs.Abort = true
					}
				case "strip":
					if r.Code != 0 {
						fail("alphabet-sanity", fmt.Sprintf("reference run: delivery %d without its Ethereum message failed: %s", m.i, r.Log))
						obs.Abort = true
					}
				}
			}
			continue
		}
		// ---- oracle of the real run
		lo, either := uint64(0), false
		passed, sends := int64(0), int64(0)
		for ri, m := range metas {
			d := c.Deliveries[m.i]
			r := br.Res.TxResults[ri]
			rc, _ := world.ParseReceipt(ri, r)
			where := fmt.Sprintf("block %d delivery %d (%s from=%s): code=%d log=%q", bi, m.i, d.Route, d.From, r.Code, r.Log)
			tag := map[int]string{0: "U", 1: "A", -1: "?"}[m.auth]
			if d.Route == "top" {
				admitted := rc != nil && rc.HasEthTx
				switch m.auth {
				case 0:
					obs.Plan[m.i] = "omit"
					if r.Code == 0 || admitted {
						fail("unauthorised-tx-never-executes", where)
					}
				case 1:
					obs.Plan[m.i] = "keep"
					if !admitted {
						fail("authorised-tx-is-admitted", where)
					}
				default:
					obs.Plan[m.i] = "keep"
				}
				if admitted && m.auth != 0 {
					lo++
				}
				switch {
				case !admitted:
					oc = append(oc, tag+":top-rej")
				case r.Code == 0:
					oc = append(oc, tag+":top-ok")
				default:
					oc = append(oc, tag+":top-adm-fail")
				}
				continue
			}
			ante := c06RAntePassed(r)
			cls := "ante-rej"
			switch {
			case r.Code == 0:
				cls = "ok"
				passed++
				sends += m.sends
			case ante:
				cls = "exec-fail"
				passed++
			}
			oc = append(oc, tag+":"+cls)
			if m.auth == 0 {
				obs.Plan[m.i] = map[string]string{"ante-rej": "omit", "exec-fail": "feeonly", "ok": "strip"}[cls]
				if rc != nil && (rc.HasEthTx || rc.HasReceipt) {
					fail("unauthorised-tx-never-executes", where+": the result carries the events of an executed Ethereum transaction")
				}
				obs.Info["unauthorised_through_route_"+cls]++
			} else {
				obs.Plan[m.i] = "keep"
				either = true
				obs.Info["authorised_through_route_wrapper_"+cls]++
			}
		}
		vN2, vB2 := w.Nonce(ctx, victim.Eth()), w.Balance(ctx, victim.Eth(), world.Denom)
		aN2, aB2 := w.Nonce(ctx, att.Eth()), w.Balance(ctx, att.Eth(), world.Denom)
		sB2 := w.Balance(ctx, AddrSink, world.Denom)
		hi := lo
		if either {
			hi++
		}
		state := fmt.Sprintf("block %d (%s): signer nonce %d -> %d, signer balance %s -> %s, sink %s -> %s", bi, strings.Join(oc, ","), vN, vN2, vB, vB2, sB, sB2)
		if vN2 < vN {
			fail("sequence-never-decreases", state)
		} else if d := vN2 - vN; d < lo || d > hi {
			fail("signer-nonce-moves-only-with-authorised-executions", fmt.Sprintf("%s: between %d and %d authorised executions", state, lo, hi))
		}
		if hi == 0 && (vB2.Cmp(vB) != 0 || sB2.Cmp(sB) != 0) {
			fail("unauthorised-delivery-leaves-signer-untouched", state)
		}
		if either {
			if vN2-vN > lo {
				obs.Info["authorised_through_route_executed"]++
				oc = append(oc, "route-executed")
			} else {
				obs.Info["authorised_through_route_not_executed"]++
			}
		}
		if vN2 > vN {
			executed = true
		}
		wantBal := new(big.Int).Sub(aB, new(big.Int).Mul(big.NewInt(passed), c06RFee))
		wantBal.Sub(wantBal, big.NewInt(sends))
		if aN2 != aN+uint64(passed) || aB2.Cmp(wantBal) != 0 {
			fail("wrapper-sender-pays-and-advances-once-per-accepted-tx", fmt.Sprintf("block %d (%s): attacker sequence %d -> %d, balance %s -> %s with %d accepted wrappers (fee %s each, %d wei sent)", bi, strings.Join(oc, ","), aN, aN2, aB, aB2, passed, c06RFee, sends))
		}
		oc = append(oc, fmt.Sprintf("|v+%d", vN2-vN))
	}
	if needP {
		fmt.Fprintf(&tk, "P=%s/%s/%s", c.Kind, c.Variant, c.TxType)
	}
	obs.TwinKey = tk.String()
	if twin {
		return obs
	}
	ctx = w.Ctx()
	nonceN := w.Nonce(ctx, victim.Eth())
	sinkN := w.Balance(ctx, AddrSink, world.Denom)
	if nonceN > nonce0+1 {
		fail("signed-payload-executes-at-most-once", fmt.Sprintf("signer nonce %d -> %d over the history (%s)", nonce0, nonceN, strings.Join(oc, ",")))
	}
	if c.Kind == "transfer" && nonceN >= nonce0 {
		if want := new(big.Int).Add(sink0, big.NewInt(3*int64(nonceN-nonce0))); sinkN.Cmp(want) != 0 {
			fail("payload-effects-once-per-nonce", fmt.Sprintf("signer nonce %d -> %d but the recipient of the 3 wei transfer went %s -> %s (%s)", nonce0, nonceN, sink0, sinkN, strings.Join(oc, ",")))
		}
	}
	obs.Outcome = strings.Join(oc, ",")
	return obs
}

// c06RHash is the SHA-256 of every store except (a) the fee market's (the base fee follows the gas of refused transactions too)
// and (b) x/staking's historical-info records (prefix 0x50), which embed the previous block's header and with it the AppHash,
// i.e. (a) again. Every fee of this part is paid at a fixed price, so nothing else depends on the base fee.
func c06RHash(w *world.World, ctx sdk.Context) []byte {
	h := sha256.New()
	var l [8]byte
	put := func(b []byte) {
		binary.LittleEndian.PutUint64(l[:], uint64(len(b)))
		h.Write(l[:])
		h.Write(b)
	}
	for _, name := range w.StoreNames() {
		if name == "feemarket" {
			continue
		}
		put([]byte(name))
		it := ctx.KVStore(w.Keys[name]).Iterator(nil, nil)
		for ; it.Valid(); it.Next() {
			if name == "staking" && len(it.Key()) > 0 && it.Key()[0] == 0x50 {
				continue
			}
			put(it.Key())
			put(it.Value())
		}
		it.Close()
	}
	return h.Sum(nil)
}

// c06RTop is an honest top-level Ethereum-lane tx of the routing world (fixed price).
func c06RTop(w *world.World, it c06Item, nonce uint64) []byte {
	tx, from, empty := c06BuildEth(w, it, nonce, c06RPrice, c06RPrice)
	bz, err := wrapEthFrom(w, tx, from, empty)
	if err != nil {
		panic(err)
	}
	return bz
}

func c06RCosmos(w *world.World, accNum, seq uint64, msgs ...sdk.Msg) (bz []byte) {
	defer func() {
		if r := recover(); r != nil {
			bz = []byte(fmt.Sprintf("unbuildable:%v", r))
		}
	}()
	return w.CosmosTx(w.Wallets[c06RAttacker], accNum, seq, c06RGas, c06RFee, msgs...)
}

// c06RSanity: non-vacuity of a route shape: with a bank send in the place of the Ethereum message the attacker's wrapper is
// accepted and executed (grantee = granter needs no grant, nesting is within the limits), costs the fee and one sequence number.
func c06RSanity(w *world.World, c c06RCase, obs *c06RObs, fail func(clause, detail string)) {
	att := w.Wallets[c06RAttacker]
	shape := c06ParseShape(c.Deliveries[0].Route)
	send := &banktypes.MsgSend{FromAddress: att.Bech(), ToAddress: w.Wallets[c06RRcpt].Bech(), Amount: sdk.NewCoins(sdk.NewCoin(world.Denom, sdkmath.NewInt(1)))}
	ctx := w.Ctx()
	aN, aB := w.Nonce(ctx, att.Eth()), w.Balance(ctx, att.Eth(), world.Denom)
	br := w.Block([][]byte{c06RCosmos(w, uint64(len(w.Validators)+c06RAttacker), aN, c06ShapeMsgs(w, shape, send)...)})
	if br.Panic != "" || br.Err != nil {
		fail("block-executes", fmt.Sprintf("panic=%q err=%v", br.Panic, br.Err))
		return
	}
	r := br.Res.TxResults[0]
	ctx = w.Ctx()
	want := new(big.Int).Sub(aB, c06RFee)
	want.Sub(want, big.NewInt(c06ShapeSends(shape)+1))
	obs.Outcome = fmt.Sprintf("sanity:code=%d", r.Code)
	if r.Code != 0 {
		obs.Outcome = "sanity:refused"
		obs.Info["route_shape_not_executable_even_with_a_bank_send"]++
		// a shape the chain refuses whatever it carries (nesting limit, MsgEthereumTx-free or not) is no evidence either way: counted, not failed
		if w.Nonce(ctx, att.Eth()) != aN && w.Nonce(ctx, att.Eth()) != aN+1 {
			fail("wrapper-sender-pays-and-advances-once-per-accepted-tx", fmt.Sprintf("refused shape: attacker sequence %d -> %d", aN, w.Nonce(ctx, att.Eth())))
		}
		return
	}
	if w.Nonce(ctx, att.Eth()) != aN+1 || w.Balance(ctx, att.Eth(), world.Denom).Cmp(want) != 0 {
		fail("wrapper-sender-pays-and-advances-once-per-accepted-tx", fmt.Sprintf("shape with sends only: attacker sequence %d -> %d, balance %s -> %s, expected %s", aN, w.Nonce(ctx, att.Eth()), aB, w.Balance(ctx, att.Eth(), world.Denom), want))
	}
}

// twin results are a function of the effective reference history only; most cases share a handful of them
var c06RTwinCache = map[string][][]byte{}

func c06RCheck(c c06RCase) c06RObs {
	o := c06RRun(c, nil)
	if o.Abort || c.Kind == "route-sanity" {
		return o
	}
	replaced := false
	for _, p := range o.Plan {
		if p != "keep" {
			replaced = true
		}
	}
	if !replaced {
		return o
	}
	// the key of the reference history is only known after building it; build it cheaply from the plan
	key := c06RTwinKey(c, o.Plan)
	hashes, ok := c06RTwinCache[key]
	if !ok {
		t := c06RRun(c, o.Plan)
		o.Findings = append(o.Findings, t.Findings...)
		if t.Abort {
			return o
		}
		if t.TwinKey != key {
			panic("c06: twin key mismatch: " + key + " / " + t.TwinKey)
		}
		hashes = t.Hashes
		c06RTwinCache[key] = hashes
		o.Info["reference_runs"]++
	} else {
		o.Info["reference_runs_shared"]++
	}
	for i := range o.Hashes {
		if i >= len(hashes) || !bytes.Equal(o.Hashes[i], hashes[i]) {
			o.Findings = append(o.Findings, ev.Finding{Clause: "unauthorised-tx-changes-nothing", Detail: fmt.Sprintf("block %d: state (all stores except the fee market's) differs from the same history in which every unauthorised delivery is replaced by what its wrapper may do on the attacker's own account (plan %v; outcome %s) %s; differing keys (reference -> observed): %s", i, o.Plan, o.Outcome, c06RDescribe(c), c06RDiff(c, o.Plan, i)), Replay: c})
			break
		}
	}
	return o
}

// c06RDiff re-runs both histories keeping the store dumps and lists the first differing keys of block i (failure path only).
func c06RDiff(c c06RCase, plan []string, i int) string {
	c06RKeepDumps = true
	defer func() { c06RKeepDumps = false }()
	a, b := c06RRun(c, plan), c06RRun(c, nil)
	if i >= len(a.Dumps) || i >= len(b.Dumps) {
		return "?"
	}
	for _, d := range []map[string][][2][]byte{a.Dumps[i], b.Dumps[i]} {
		delete(d, "feemarket")
		var kept [][2][]byte
		for _, kv := range d["staking"] {
			if len(kv[0]) == 0 || kv[0][0] != 0x50 {
				kept = append(kept, kv)
			}
		}
		d["staking"] = kept
	}
	var out []string
	for k, d := range world.Diff(a.Dumps[i], b.Dumps[i]) {
		if k == 6 {
			out = append(out, "…")
			break
		}
		short := func(b []byte) string {
			if b == nil {
				return "absent"
			}
			if len(b) > 40 {
				return fmt.Sprintf("%x…(%d bytes)", b[len(b)-40:], len(b))
			}
			return fmt.Sprintf("%x", b)
		}
		out = append(out, fmt.Sprintf("%s/%x: %s -> %s", d.Store, d.Key, short(d.A), short(d.B)))
	}
	return strings.Join(out, "; ")
}

// c06RTwinKey mirrors the key c06RRun builds (checked against it whenever a reference run is executed).
func c06RTwinKey(c c06RCase, plan []string) string {
	var tk strings.Builder
	fmt.Fprintf(&tk, "grant=%v;", c.Grant)
	needP := false
	wrapIdx := 0
	for i, d := range c.Deliveries {
		if i > 0 && !d.Same {
			tk.WriteString("|")
			wrapIdx = 0
		}
		switch plan[i] {
		case "keep":
			needP = true
			fmt.Fprintf(&tk, "keep:%s:%d,", c06ROrigin(c, i), wrapIdx)
		case "feeonly":
			fmt.Fprintf(&tk, "feeonly:%d,", wrapIdx)
		case "strip":
			fmt.Fprintf(&tk, "strip:%s:%d,", d.Route, wrapIdx)
		}
		if d.Route != "top" {
			wrapIdx++
		}
	}
	tk.WriteString("|")
	if needP {
		fmt.Fprintf(&tk, "P=%s/%s/%s", c.Kind, c.Variant, c.TxType)
	}
	return tk.String()
}

// c06ROrigin identifies the bytes of delivery i: its own route / From / position, or those of the delivery it replays.
func c06ROrigin(c c06RCase, i int) string {
	j := i
	for j > 0 && c.Deliveries[j].Replay {
		j--
	}
	blk, idx := 0, 0
	for k := 1; k <= j; k++ {
		if !c.Deliveries[k].Same {
			blk, idx = blk+1, 0
		} else if c.Deliveries[k-1].Route != "top" {
			idx++
		}
	}
	return fmt.Sprintf("%s:%s:b%d:w%d", c.Deliveries[j].Route, c.Deliveries[j].From, blk, idx)
}

func c06RDescribe(c c06RCase) string {
	var sb strings.Builder
	fmt.Fprintf(&sb, "[payload %s/%s/%s signed by wallet 0", c.Kind, map[bool]string{true: "valid", false: c.Variant}[c.Variant == ""], map[bool]string{true: "legacy", false: c.TxType}[c.TxType == ""])
	if c.Grant {
		sb.WriteString(", genesis grant victim→attacker for MsgEthereumTx")
	}
	sb.WriteString(";")
	for i, d := range c.Deliveries {
		sep := " | "
		if i == 0 {
			sep = " "
		} else if d.Same {
			sep = " , "
		}
		fmt.Fprintf(&sb, "%s%s", sep, d.Route)
		if d.Route != "top" {
			fmt.Fprintf(&sb, " From=%s", d.From)
		}
		if d.Replay {
			sb.WriteString(" (same bytes)")
		}
	}
	sb.WriteString("]")
	return sb.String()
}

// ---------------------------------------------------------------------------
// enumeration
// ---------------------------------------------------------------------------

func c06RouteCases(thorough bool) []c06RCase {
	var cases []c06RCase
	routes := append([]string{}, c06RoutesQuick...)
	if thorough {
		routes = append(routes, c06RoutesMore...)
	}
	for _, r := range routes {
		cases = append(cases, c06RCase{Routing: true, Kind: "route-sanity", Deliveries: []c06RDelivery{{Route: r, From: "attacker"}}})
	}
	kinds := []string{"transfer"}
	if thorough {
		kinds = []string{"transfer", "revert", "create-ok", "value-too-high"}
	}
	variants := append([]string{""}, c06EthVariants...)
	type fromOpt struct {
		from  string
		grant bool
	}
	top := c06RDelivery{Route: "top", From: "declared"}
	for _, k := range kinds {
		for _, tt := range []string{"legacy", "dynamic"} {
			for _, v := range variants {
				if tt == "dynamic" && v == "unprotected" {
					continue
				}
				if tt == "dynamic" && !thorough && v != "" && v != "chainid+1" && v != "from-other" {
					continue
				}
				if k != "transfer" && tt == "dynamic" && v != "" && v != "chainid+1" {
					continue
				}
				froms := []fromOpt{{"attacker", false}, {"victim", false}, {"victim", true}}
				if strings.HasPrefix(v, "from-") {
					froms = []fromOpt{{"declared", false}}
					if thorough {
						froms = append(froms, fromOpt{"declared", true})
					}
				}
				for _, f := range froms {
					for _, r := range routes {
						if k != "transfer" && !c06RIn(c06RoutesQuick, r) {
							continue
						}
						R := c06RDelivery{Route: r, From: f.from}
						same := func(d c06RDelivery) c06RDelivery { d.Same = true; return d }
						rep := func(d c06RDelivery) c06RDelivery { d.Same, d.Replay = true, true; return d }
						probe := c06RCase{Variant: v}
						definite := !c06RFromIsSigner(probe, R) || c06RStatic(v) == 0 // the route delivery is unauthorised whatever happened before
						hist := [][]c06RDelivery{
							{R},
							{R, R},
							{R, top},
							{top, R},
						}
						if c06RStatic(v) != -1 {
							hist = append(hist, []c06RDelivery{top, same(R)})
						}
						if definite {
							hist = append(hist, []c06RDelivery{R, same(R)}, []c06RDelivery{R, same(top)})
							if thorough || v == "unprotected" || v == "nonce-1" || v == "" {
								hist = append(hist, []c06RDelivery{R, rep(R)})
							}
						}
						if thorough && k == "transfer" {
							hist = append(hist, []c06RDelivery{R, top, R}, []c06RDelivery{top, R, R})
							if definite {
								hist = append(hist, []c06RDelivery{R, same(top), R}, []c06RDelivery{R, same(R), top})
							}
						}
						for _, h := range hist {
							cases = append(cases, c06RCase{Routing: true, Kind: k, Variant: v, TxType: tt, Grant: f.grant, Deliveries: h})
						}
					}
				}
			}
		}
	}
	return cases
}

func c06RIn(l []string, s string) bool {
	for _, x := range l {
		if x == s {
			return true
		}
	}
	return false
}

func c06RouteShard(run *ev.Run, cases []c06RCase, shard, n int) {
	for i, c := range cases {
		if i%n != shard {
			continue
		}
		o := c06RCheck(c)
		if i < 2*n {
			if o2 := c06RCheck(c); o2.Outcome != o.Outcome || len(o2.Findings) != len(o.Findings) {
				fmt.Fprintf(os.Stderr, "HARNESS-NONDETERMINISM in C06 routing case %d\n", i)
				os.Exit(2)
			}
		}
		run.Count("transitions", int64(len(o.Hashes)))
		run.Count("traces_validated_against_impl", 1)
		run.Count("routing_histories", 1)
		run.Count("routing_deliveries", int64(len(c.Deliveries)))
		run.Outcome("route:" + o.Outcome)
		for k, v := range o.Info {
			run.Count("routing_"+k, v)
		}
		if strings.Contains(o.Outcome, "U:") {
			key, _ := json.Marshal(c)
			run.Distinct(string(key))
		}
		if i%(len(cases)/4+1) == 0 {
			run.Sample(map[string]interface{}{"case": c, "outcome": o.Outcome})
		}
		for _, f := range o.Findings {
			run.Fail(f)
		}
	}
}

func c06RouteReplay(raw json.RawMessage) ([]ev.Finding, bool) {
	var probe struct {
		Routing bool `json:"routing"`
	}
	if err := json.Unmarshal(raw, &probe); err != nil || !probe.Routing {
		return nil, false
	}
	var c c06RCase
	if err := json.Unmarshal(raw, &c); err != nil {
		fmt.Fprintln(os.Stderr, err)
		os.Exit(2)
	}
	o := c06RCheck(c)
	fmt.Println("outcome:", o.Outcome, "plan:", o.Plan)
	return o.Findings, true
}

func c06RouteRule(thorough bool) string {
	n := len(c06RoutesQuick)
	if thorough {
		n += len(c06RoutesMore)
	}
	return fmt.Sprintf("R (routing): one Ethereum payload signed by the victim in each of the %d encodings (valid + the adversarial ones) is delivered 1–%d times, each delivery either top-level (Ethereum lane) or inside a Cosmos-lane tx signed and paid by an attacker through %d message-list shapes over S=bank send, E=the MsgEthereumTx, X{…}=authz MsgExec with grantee=granter=attacker (%s), with the inner From = attacker / victim / victim holding a genesis authz grant to the attacker / the variant's own; histories: route alone, route twice (next block, same block with the next sequence, same bytes), route then / before the top-level submission (same block and next block)%s. Every history with an unauthorised delivery is compared with the reference history in which that delivery is replaced by nothing / a fee-only failing tx / the same wrapper without E, according to how far the wrapper got.", len(c06EthVariants)+1, map[bool]int{false: 2, true: 3}[thorough], n, strings.Join(append(append([]string{}, c06RoutesQuick...), map[bool][]string{false: nil, true: c06RoutesMore}[thorough]...), " "), map[bool]string{false: "", true: ", three-delivery histories; payload kinds transfer, revert, create, unaffordable value"}[thorough])
}

// C06RouteCount is exported for scratch debugging.
func C06RouteCount(thorough bool) int { return len(c06RouteCases(thorough)) }
