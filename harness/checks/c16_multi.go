package checks

import (
	"bytes"
	"encoding/hex"
	"fmt"
	"math/big"
	"strings"

	sdkmath "cosmossdk.io/math"
	sdk "github.com/cosmos/cosmos-sdk/types"
	authtypes "github.com/cosmos/cosmos-sdk/x/auth/types"
	vestingtypes "github.com/cosmos/cosmos-sdk/x/auth/vesting/types"
	banktypes "github.com/cosmos/cosmos-sdk/x/bank/types"

	"verif/harness/world"
)

// ---------------------------------------------------------------------------
// part 2, multi-message routing cases: ONE Cosmos transaction (signed by R) that carries several top-level messages, two or three of
// them vesting-creation messages (any mix of the three kinds, any recipients in any order), optionally interleaved with a MsgSend.
// The authorisation rule quantifies over every vesting-creation message of the transaction separately: the transaction may be
// accepted only if EVERY vesting target has a stored proof for exactly its bytes; whatever an earlier message of the same
// transaction targets says nothing about a later one.
// ---------------------------------------------------------------------------

// c16MultiMsg is one top-level message of a multi-message routing case.
type c16MultiMsg struct {
	Kind   string `json:"kind"`             // vesting | periodic | permanent | send (MsgSend of 1 from R to wallet 0)
	Target string `json:"target,omitempty"` // address expression of the recipient (vesting kinds)
}

// the keys of the two recipients nobody submits a proof for (no account at genesis, like A and B)
var c16T1, c16T2 = world.NewAcct("c16-T1"), world.NewAcct("c16-T2")

// c16MultiPattern is the shape of a case seen by the reference: per message P (proven target), U (unproven target), S (send).
func c16MultiPattern(cw *c16World, c c16Route, stored map[string]c16Rec) string {
	var p []string
	for _, m := range c.Multi {
		switch {
		case m.Kind == "send":
			p = append(p, "S")
		case stored[hex.EncodeToString(cw.addr(m.Target))].Kind == c16Legit:
			p = append(p, "P")
		default:
			p = append(p, "U")
		}
	}
	return strings.Join(p, "")
}

// c16RunMulti executes the transaction of a multi-message case on the world prepared by c16RunRoute (proof submissions done).
func c16RunMulti(cw *c16World, c c16Route, stored map[string]c16Rec, accNumR, seq uint64, fee *big.Int, failS func(clause, sig, detail string)) string {
	fail := func(clause, detail string) { failS(clause, "", detail) }
	w := cw.w
	type tgt struct {
		expr  string
		addr  sdk.AccAddress
		kinds map[string]bool
		how   int
	}
	var msgs []sdk.Msg
	var targets []*tgt
	find := func(a sdk.AccAddress) *tgt {
		for _, t := range targets {
			if bytes.Equal(t.addr, a) {
				return t
			}
		}
		return nil
	}
	sends, vmsgs, repeated := 0, 0, false
	for _, m := range c.Multi {
		if m.Kind == "send" {
			msgs = append(msgs, &banktypes.MsgSend{FromAddress: cw.R.Bech(), ToAddress: w.Wallets[0].Bech(), Amount: sdk.NewCoins(sdk.NewCoin(world.Denom, sdkmath.NewInt(1)))})
			sends++
			continue
		}
		a := cw.addr(m.Target)
		msgs = append(msgs, cw.vestingMsg(m.Kind, cw.R, a))
		vmsgs++
		t := find(a)
		if t == nil {
			t = &tgt{expr: m.Target, addr: a, kinds: map[string]bool{}, how: stored[hex.EncodeToString(a)].Kind}
			targets = append(targets, t)
		} else {
			repeated = true
		}
		t.kinds[m.Kind] = true
	}
	allProven, onlyDefect := true, true
	for _, t := range targets {
		if t.how != c16Legit {
			allProven = false
			if t.how != c16KnownDefect {
				onlyDefect = false
			}
		}
	}
	defectSig := ""
	if !allProven && onlyDefect {
		defectSig = c16SigLongAccount
	}
	// the addresses watched for vesting accounts: the universe of part 1 and every recipient
	type watched struct {
		name string
		addr sdk.AccAddress
	}
	var watch []watched
	for _, n := range c16Universe() {
		watch = append(watch, watched{n, cw.addr(n)})
	}
	for _, n := range []string{"T1", "T2"} {
		watch = append(watch, watched{n, cw.addr(n)})
	}
	for _, t := range targets {
		known := false
		for _, x := range watch {
			known = known || bytes.Equal(x.addr, t.addr)
		}
		if !known {
			watch = append(watch, watched{t.expr, t.addr})
		}
	}
	accStore := func(ctx sdk.Context) map[string]string {
		out := map[string]string{}
		it := ctx.KVStore(w.Keys[authtypes.StoreKey]).Iterator(nil, nil)
		defer it.Close()
		for ; it.Valid(); it.Next() {
			out[string(it.Key())] = string(it.Value())
		}
		return out
	}
	bal := func(ctx sdk.Context, a sdk.AccAddress) *big.Int {
		return w.App.BankKeeper.GetBalance(ctx, a, world.Denom).Amount.BigInt()
	}
	pre := w.Ctx()
	preAcc := accStore(pre)
	preBal := map[string]*big.Int{}
	for _, x := range watch {
		preBal[x.name] = bal(pre, x.addr)
		if cw.isVestingAccount(pre, x.addr) {
			fail("alphabet-sanity", fmt.Sprintf("multi-message case %v: %s is a vesting account before the transaction", c.Multi, x.name))
			return "setup-failed"
		}
	}
	preW0, preR, supBefore := bal(pre, w.Wallets[0].Acc()), bal(pre, cw.R.Acc()), w.Supply(pre, world.Denom)

	br := w.Block([][]byte{w.CosmosTx(cw.R, accNumR, seq, 2_000_000, fee, msgs...)})
	if br.Panic != "" || br.Err != nil {
		fail("block-executes", fmt.Sprintf("multi-message case %v: panic=%q err=%v", c.Multi, br.Panic, br.Err))
		return "HALT"
	}
	r := br.Res.TxResults[0]
	ctx := w.Ctx()
	accepted := r.Code == 0
	anteReached := w.App.AccountKeeper.GetAccount(ctx, cw.R.Acc()).GetSequence() > seq
	var created []string
	for _, x := range watch {
		if cw.isVestingAccount(ctx, x.addr) {
			created = append(created, x.name)
		}
	}
	desc := fmt.Sprintf("one transaction with the messages %s, proof submissions=%v (reference pattern %s): code=%d vestingAccountsCreated=%v log=%s",
		c16MultiString(c.Multi), c.Proven, c16MultiPattern(cw, c, stored), r.Code, created, r.Log)

	if accepted && !allProven {
		failS("tx-accepted-only-if-every-vesting-target-proven", defectSig, desc)
	}
	for _, x := range watch {
		is := cw.isVestingAccount(ctx, x.addr)
		t := find(x.addr)
		switch {
		case is && t == nil:
			fail("vesting-account-only-at-the-target", desc+": vesting account found at "+x.name)
		case is && t.how != c16Legit:
			sig := ""
			if t.how == c16KnownDefect {
				sig = c16SigLongAccount
			}
			failS("vesting-account-only-for-proven-address", sig, desc+": vesting account at "+x.name)
		}
		if is && !accepted {
			fail("refused-tx-creates-no-vesting-account", desc+": vesting account at "+x.name)
		}
		if is && t != nil {
			// the account is of a kind one of the transaction's messages for that recipient asked for
			k := ""
			switch w.App.AccountKeeper.GetAccount(ctx, x.addr).(type) {
			case *vestingtypes.DelayedVestingAccount:
				k = "vesting"
			case *vestingtypes.PeriodicVestingAccount:
				k = "periodic"
			case *vestingtypes.PermanentLockedAccount:
				k = "permanent"
			}
			if !t.kinds[k] {
				fail("accepted-tx-creates-exactly-its-accounts", fmt.Sprintf("%s: the account at %s is of kind %q, which no message for that recipient creates", desc, x.name, k))
			}
		}
	}
	postAcc := accStore(ctx)
	// raw account store: entries may appear / change only for the signer and (accepted transaction) the recipients
	allowed := func(k string) bool {
		if len(k) == 0 || k[0] != 0x01 {
			return accepted // the global account number and the by-number index move when accounts are created
		}
		a := []byte(k[1:])
		if bytes.Equal(a, cw.R.Acc()) {
			return true
		}
		return accepted && find(a) != nil
	}
	for k, v := range postAcc {
		if pv, was := preAcc[k]; (!was || pv != v) && !allowed(k) {
			fail("refused-tx-changes-nothing", fmt.Sprintf("%s: account store entry %x written (existed before: %v)", desc, k, was))
		}
	}
	for k := range preAcc {
		if _, still := postAcc[k]; !still {
			fail("refused-tx-changes-nothing", fmt.Sprintf("%s: account store entry %x removed", desc, k))
		}
	}
	spent := new(big.Int).Sub(preR, bal(ctx, cw.R.Acc()))
	if !accepted {
		for _, x := range watch {
			if bytes.Equal(x.addr, cw.R.Acc()) || x.name == "fc" || x.name == "mod" {
				continue // the signer: below; the module accounts: moved by the block itself (fee distribution)
			}
			if b := bal(ctx, x.addr); b.Cmp(preBal[x.name]) != 0 {
				fail("refused-tx-changes-nothing", fmt.Sprintf("%s: balance of %s %s -> %s", desc, x.name, preBal[x.name], b))
			}
		}
		if b := bal(ctx, w.Wallets[0].Acc()); b.Cmp(preW0) != 0 {
			fail("refused-tx-changes-nothing", fmt.Sprintf("%s: balance of the MsgSend recipient %s -> %s", desc, preW0, b))
		}
		// the signer loses nothing (refused by the ante handler) or exactly the fee (a message failed)
		if spent.Sign() != 0 && spent.Cmp(fee) != 0 {
			fail("refused-tx-changes-nothing", fmt.Sprintf("%s: the signer's balance fell by %s (fee %s)", desc, spent, fee))
		}
	} else {
		for _, t := range targets {
			if !cw.isVestingAccount(ctx, t.addr) {
				fail("accepted-tx-creates-exactly-its-accounts", desc+": no vesting account at "+t.expr)
			}
		}
		for _, x := range watch {
			if bytes.Equal(x.addr, cw.R.Acc()) || x.name == "fc" || x.name == "mod" {
				continue // the signer: below; the module accounts: moved by the block itself (fee distribution)
			}
			want := new(big.Int).Set(preBal[x.name])
			if find(x.addr) != nil {
				want.Add(want, big.NewInt(1000))
			}
			if b := bal(ctx, x.addr); b.Cmp(want) != 0 {
				fail("accepted-tx-creates-exactly-its-accounts", fmt.Sprintf("%s: balance of %s = %s, reference %s", desc, x.name, b, want))
			}
		}
		if b, want := bal(ctx, w.Wallets[0].Acc()), new(big.Int).Add(preW0, big.NewInt(int64(sends))); b.Cmp(want) != 0 {
			fail("accepted-tx-creates-exactly-its-accounts", fmt.Sprintf("%s: balance of the MsgSend recipient = %s, reference %s", desc, b, want))
		}
		if want := new(big.Int).Add(fee, big.NewInt(int64(1000*len(targets)+sends))); spent.Cmp(want) != 0 {
			fail("accepted-tx-creates-exactly-its-accounts", fmt.Sprintf("%s: the signer's balance fell by %s, reference %s", desc, spent, want))
		}
	}
	// non-vacuity: every target proven, no recipient twice => the transaction goes through and creates them all
	if allProven && !repeated && vmsgs > 0 && !accepted {
		fail("alphabet-sanity", "a transaction whose vesting-creation messages all target distinct proven addresses was refused: "+desc)
	}
	if sup := w.Supply(ctx, world.Denom); sup.Cmp(supBefore) != 0 {
		fail("vesting-routing-leaves-supply-alone", fmt.Sprintf("%s: %s -> %s", desc, supBefore, sup))
	}
	cw.observeProofs(stored, nil, ctx, func(f string, a ...interface{}) {
		fail("proof-store-matches-reference", "after "+desc+": "+fmt.Sprintf(f, a...))
	})
	switch {
	case len(created) > 0:
		return fmt.Sprintf("created-%d", len(created))
	case accepted:
		return "accepted-no-account"
	case anteReached:
		return "rejected-by-a-message"
	}
	return "rejected-by-ante"
}

func c16MultiString(ms []c16MultiMsg) string {
	var p []string
	for _, m := range ms {
		if m.Kind == "send" {
			p = append(p, "send")
		} else {
			p = append(p, m.Kind+"→"+m.Target)
		}
	}
	return "[" + strings.Join(p, ", ") + "]"
}

// c16MultiRoutes enumerates the multi-message cases, simplest first.
func c16MultiRoutes(thorough bool) []c16Route {
	kinds := []string{"vesting", "periodic", "permanent"}
	recips := []string{"A", "B", "T1", "T2"} // with the proof history {A, B}: two proven, two unproven
	proven := []string{"A", "B"}
	send := c16MultiMsg{Kind: "send"}
	var routes []c16Route
	add := func(pr []string, ms ...c16MultiMsg) {
		routes = append(routes, c16Route{Proven: pr, Routing: "multi", Multi: append([]c16MultiMsg{}, ms...)})
	}
	// two vesting-creation messages: kind × kind × recipient × recipient (every order, the same recipient twice included)
	pairs := func(pr, rs []string, f func(a, b c16MultiMsg)) {
		for _, k1 := range kinds {
			for _, k2 := range kinds {
				for _, x := range rs {
					for _, y := range rs {
						f(c16MultiMsg{Kind: k1, Target: x}, c16MultiMsg{Kind: k2, Target: y})
					}
				}
			}
		}
	}
	pairs(proven, recips, func(a, b c16MultiMsg) { add(proven, a, b) })
	// [MsgSend, vesting→r]
	for _, k := range kinds {
		for _, x := range recips {
			add(proven, send, c16MultiMsg{Kind: k, Target: x})
		}
	}
	// [vesting→x, MsgSend, vesting→y]
	pairs(proven, recips, func(a, b c16MultiMsg) { add(proven, a, send, b) })
	if !thorough {
		return routes
	}
	// three vesting-creation messages: kind³ × recipient³
	for _, k1 := range kinds {
		for _, k2 := range kinds {
			for _, k3 := range kinds {
				for _, x := range recips {
					for _, y := range recips {
						for _, z := range recips {
							add(proven, c16MultiMsg{Kind: k1, Target: x}, c16MultiMsg{Kind: k2, Target: y}, c16MultiMsg{Kind: k3, Target: z})
						}
					}
				}
			}
		}
	}
	// the MsgSend first / last
	pairs(proven, recips, func(a, b c16MultiMsg) { add(proven, send, a, b) })
	pairs(proven, recips, func(a, b c16MultiMsg) { add(proven, a, b, send) })
	// unproven recipients that are no fresh key: a 32-byte address ending with the proven A's bytes, the zero address
	wide := []string{"A", "pad|A", "zero", "B"}
	pairs(proven, wide, func(a, b c16MultiMsg) {
		if (a.Target == "A" || a.Target == "B") && (b.Target == "A" || b.Target == "B") {
			return // in the first group
		}
		add(proven, a, b)
	})
	// another proof history: only A proven, so B (a key that could prove itself, but has not) is an unproven recipient
	onlyA := []string{"A"}
	pairs(onlyA, []string{"A", "B", "T1"}, func(a, b c16MultiMsg) { add(onlyA, a, b) })
	return routes
}

// c16MultiShape classifies a case without a world for the outcome histogram: per message P (recipient in the proof history),
// U (any other recipient), S (send), plus "=" when a recipient occurs twice.
func c16MultiShape(c c16Route) string {
	s, seen, dup := "", map[string]bool{}, ""
	for _, m := range c.Multi {
		if m.Kind == "send" {
			s += "S"
			continue
		}
		l := "U"
		for _, p := range c.Proven {
			if p == m.Target {
				l = "P"
			}
		}
		s += l
		if seen[m.Target] {
			dup = "="
		}
		seen[m.Target] = true
	}
	return s + dup
}
