package checks

// C20 part (c): begin- and end-of-block processing never fails
//   c-cfg   for valid consensus parameters: MaxGas × MaxBytes × block shapes, InitChain + 3 blocks;
//   c-kind  for the reachable transient bookkeeping states: every kind of the shared tx alphabet at every position of a 3-tx block;
//   c-fee   for reachable fee-market states: blocks that are full for many heights in a row (the base fee rises 12.5 % per block).

import (
	"fmt"
	"math"
	"math/big"
	"strings"

	sdkmath "cosmossdk.io/math"
	cmttypes "github.com/cometbft/cometbft/types"
	sdk "github.com/cosmos/cosmos-sdk/types"
	banktypes "github.com/cosmos/cosmos-sdk/x/bank/types"
	ethtypes "github.com/ethereum/go-ethereum/core/types"

	"verif/harness/world"
)

var c20CfgMaxGas = []int64{-1, 0, 1, 2, 21_000, math.MaxInt64}

// 1 MiB is the smallest Block.MaxBytes that CometBFT accepts together with the default evidence size limit (ValidateBasic:
// Evidence.MaxBytes <= Block.MaxBytes); the byte limit the application actually sees is PrepareProposal's MaxTxBytes, which is
// exercised with 1 and with MaxBytes on every block.
var c20CfgMaxBytes = []int64{1_048_576, 22_020_096}
var c20CfgShapes = []string{"empty", "one-transfer", "several", "gas-above-max"}

func c20CfgUnits(tier string) []c20Unit {
	var out []c20Unit
	for _, mg := range c20CfgMaxGas {
		for _, mb := range c20CfgMaxBytes {
			for _, sh := range c20CfgShapes {
				out = append(out, c20Unit{Part: "c-cfg", Tier: tier, MaxGas: mg, MaxBytes: mb, Shape: sh, Blocks: 3})
			}
		}
	}
	kinds := c20AllKinds()
	for _, mg := range []int64{40_000_000, 100_000} {
		for _, filler := range []TxKind{KTransfer, KLog1} {
			for _, k := range kinds {
				for pos := 0; pos < 3; pos++ {
					blk := []TxKind{filler, filler, filler}
					blk[pos] = k
					out = append(out, c20Unit{Part: "c-kind", Tier: tier, MaxGas: mg, Kinds: blk})
				}
			}
		}
		for _, k := range kinds { // the same kind three times
			out = append(out, c20Unit{Part: "c-kind", Tier: tier, MaxGas: mg, Kinds: []TxKind{k, k, k}})
		}
	}
	two62 := new(big.Int).Lsh(big.NewInt(1), 62)
	two64 := new(big.Int).Lsh(big.NewInt(1), 64)
	out = append(out,
		c20Unit{Part: "c-fee", Tier: tier, MaxGas: 40_000_000, BaseFee: Gwei.String(), Blocks: 10, Shape: "full"},  // control: blocks far below the gas target
		c20Unit{Part: "c-fee", Tier: tier, MaxGas: 42_000, BaseFee: Gwei.String(), Blocks: 210, Shape: "full"},     // 1 gwei * 1.125^n passes 2^63 at n = 195
		c20Unit{Part: "c-fee", Tier: tier, MaxGas: 42_000, BaseFee: two62.String(), Blocks: 12, Shape: "full"},     // same state reached from a higher (valid) genesis fee
		c20Unit{Part: "c-fee", Tier: tier, MaxGas: 42_000, BaseFee: "0", Blocks: 12, Shape: "full"},                // base fee 0 stays 0
		c20Unit{Part: "c-fee", Tier: tier, MaxGas: 21_000, BaseFee: Gwei.String(), Blocks: 12, Shape: "full"},      // one tx fills the block
		c20Unit{Part: "c-fee", Tier: tier, MaxGas: -1, BaseFee: Gwei.String(), Blocks: 12, Shape: "full"},          // unlimited block gas
		c20Unit{Part: "c-fee", Tier: tier, MaxGas: 40_000_000, BaseFee: two64.String(), Blocks: 3, Shape: "empty"}, // valid fee-market parameter, no transaction at all
		c20Unit{Part: "c-fee", Tier: tier, MaxGas: 40_000_000, BaseFee: Gwei.String(), Blocks: 3, Shape: "empty", Family: "min-gas-price=" + c20Two63.String()},
	)
	return out
}

func c20CfgWorldMaxGas(v int64) int64 {
	if v == 0 {
		return world.MaxGasZero
	}
	return v
}

var c20CfgBalance = new(big.Int).Exp(big.NewInt(10), big.NewInt(30), nil)

// c20CfgBlock builds the transactions of one block of the given shape with the current nonces.
func c20CfgBlock(w *world.World, shape string, maxGas int64) [][]byte {
	ctx := w.Ctx()
	base := w.App.FeeMarketKeeper.GetBaseFee(ctx).BigInt()
	nonce := func(i int) uint64 { return w.Nonce(ctx, w.Wallets[i].Eth()) }
	spec := func(k TxKind, s int) []byte { return BuildTx(w, TxSpec{Kind: k, Sender: s, Nonce: nonce(s)}, base) }
	switch shape {
	case "empty":
		return nil
	case "one-transfer":
		return [][]byte{spec(KTransfer, 0)}
	case "several":
		return [][]byte{spec(KTransfer, 0), spec(KLog1, 1), spec(KBurn, 2), spec(KCreateOK, 3), spec(KCosmosSend, 4), spec(KTransfer, 5)}
	case "gas-above-max":
		gas := uint64(math.MaxInt64)
		if maxGas > 0 && maxGas < math.MaxInt64 {
			gas = uint64(maxGas) + 1
			if gas < 21_000 {
				gas = 21_000
			}
		}
		sink := AddrSink
		eth := w.EthTx(w.Wallets[0], &ethtypes.LegacyTx{Nonce: nonce(0), GasPrice: base, Gas: gas, To: &sink, Value: big.NewInt(3)})
		a, b := w.Wallets[1], w.Wallets[2]
		msg := &banktypes.MsgSend{FromAddress: a.Bech(), ToAddress: b.Bech(), Amount: sdk.NewCoins(sdk.NewCoin(world.Denom, sdkmath.NewInt(5)))}
		cosmos := w.CosmosTx(a, uint64(len(w.Validators)+1), nonce(1), math.MaxUint64, big.NewInt(1_000_000_000_000_000), msg)
		return [][]byte{eth, cosmos}
	}
	panic("shape " + shape)
}

func c20RunCCfg(u c20Unit, rec *c20Rec) {
	cfg := world.Config{MaxGas: c20CfgWorldMaxGas(u.MaxGas), MaxBytes: u.MaxBytes, NumWallets: 6, Contracts: StdContracts(), WalletBalance: c20CfgBalance}
	where := fmt.Sprintf("MaxGas=%d MaxBytes=%d shape=%s", u.MaxGas, u.MaxBytes, u.Shape)
	w, err := world.NewE(cfg)
	rec.count("abci_calls", 1)
	if err != nil {
		rec.fail("init-chain-succeeds", c20Signature(err.Error()), where+": "+err.Error(), u)
		return
	}
	if cp := cmttypes.ConsensusParamsFromProto(*w.ConsParams); cp.ValidateBasic() != nil || cp.Block.MaxGas != u.MaxGas || cp.Block.MaxBytes != u.MaxBytes {
		rec.fail("alphabet-sanity", "", fmt.Sprintf("%s: consensus parameters are not the valid ones intended: %v (%+v)", where, cp.ValidateBasic(), cp.Block), u)
		return
	}
	var vec []string
	for b := 0; b < u.Blocks; b++ {
		txs := c20CfgBlock(w, u.Shape, u.MaxGas)
		kept1, prob, p := c20Prepare(w, txs, 1)
		rec.count("abci_calls", 1)
		if p == "" && prob == "" && kept1 != 0 {
			prob = fmt.Sprintf("%d transactions returned for MaxTxBytes = 1", kept1)
		}
		if p != "" || prob != "" {
			rec.fail("prepare-proposal-answers", c20Signature(p), fmt.Sprintf("%s block %d: PrepareProposal(MaxTxBytes=1) %s %s", where, b, prob, p), u)
			return
		}
		kept, prob, p := c20Prepare(w, txs, u.MaxBytes)
		rec.count("abci_calls", 1)
		if p != "" || prob != "" {
			rec.fail("prepare-proposal-answers", c20Signature(p), fmt.Sprintf("%s block %d: PrepareProposal %s %s", where, b, prob, p), u)
			return
		}
		st, prob, p := c20Process(w, txs)
		rec.count("abci_calls", 1)
		if p != "" || prob != "" {
			rec.fail("process-proposal-answers", c20Signature(p), fmt.Sprintf("%s block %d: ProcessProposal %s %s", where, b, prob, p), u)
			return
		}
		br := w.Block(txs)
		rec.count("abci_calls", 2)
		rec.count("blocks", 1)
		if prob := c20BlockProblem(br, len(txs)); prob != "" {
			rec.fail("begin-end-block-never-fail", c20Signature(prob), fmt.Sprintf("%s block %d (height %d): %s", where, b, br.Height, prob), u)
			return
		}
		if _, n := world.BlockBloom(br.Res); n != 1 {
			rec.fail("block-bloom-event", "", fmt.Sprintf("%s block %d: %d block_bloom events", where, b, n), u)
		}
		var codes []string
		for _, r := range br.Res.TxResults {
			codes = append(codes, c20Code(r.Codespace, r.Code))
			if c20IsRecoveredPanic(r.Codespace, r.Code) {
				rec.recovered(where, r.Log)
			}
		}
		if u.Shape == "one-transfer" && (u.MaxGas <= 0 || u.MaxGas >= 21_000) && br.Res.TxResults[0].Code != 0 {
			rec.fail("alphabet-sanity", "", fmt.Sprintf("%s block %d: the transfer fits the block and must succeed: %s", where, b, br.Res.TxResults[0].Log), u)
		}
		vec = append(vec, fmt.Sprintf("prep=%d/%s[%s]", kept, st, strings.Join(codes, ",")))
		rec.count("inputs", int64(len(txs)))
	}
	v := fmt.Sprintf("c-cfg: %s %s", u.Shape, strings.Join(vec, " "))
	rec.outcome(v)
	rec.distinct(fmt.Sprintf("c-cfg|%d|%d|%s", u.MaxGas, u.MaxBytes, v))
	rec.count("configurations", 1)
}

func c20RunCKind(u c20Unit, rec *c20Rec) {
	w := world.New(world.Config{MaxGas: u.MaxGas, NumWallets: 5, Contracts: StdContracts()})
	w.Block(nil)
	where := fmt.Sprintf("MaxGas=%d block %v", u.MaxGas, u.Kinds)
	base := w.App.FeeMarketKeeper.GetBaseFee(w.Ctx()).BigInt()
	var txs [][]byte
	for pos, k := range u.Kinds {
		txs = append(txs, BuildTx(w, TxSpec{Kind: k, Sender: pos, Nonce: 0}, base))
	}
	var codes []string
	for b, blk := range [][][]byte{txs, nil} { // the block itself, then an empty one on top of the state it leaves behind
		br := w.Block(blk)
		rec.count("abci_calls", 2)
		rec.count("blocks", 1)
		if prob := c20BlockProblem(br, len(blk)); prob != "" {
			rec.fail("begin-end-block-never-fail", c20Signature(prob), fmt.Sprintf("%s (+%d): %s", where, b, prob), u)
			return
		}
		if _, n := world.BlockBloom(br.Res); n != 1 {
			rec.fail("block-bloom-event", "", fmt.Sprintf("%s (+%d): %d block_bloom events", where, b, n), u)
		}
		for _, r := range br.Res.TxResults {
			c := c20TxClass(w, r)
			codes = append(codes, c)
			if c20IsRecoveredPanic(r.Codespace, r.Code) {
				rec.recovered(where, r.Log)
			}
		}
	}
	rec.count("inputs", int64(len(txs)))
	v := "c-kind: " + strings.Join(codes, " | ")
	rec.outcome(v)
	rec.distinct(fmt.Sprintf("c-kind|%d|%v", u.MaxGas, u.Kinds))
}

var c20Two63 = new(big.Int).Lsh(big.NewInt(1), 63)

// c20RunCFee fills every block up to the gas limit with plain transfers whose fee cap is 2^64 wei (tip 1 wei): the only inputs are
// ordinary user transactions, the base fee follows EIP-1559 from the genesis value.
func c20RunCFee(u c20Unit, rec *c20Rec) {
	bf, _ := new(big.Int).SetString(u.BaseFee, 10)
	bal := new(big.Int).Exp(big.NewInt(10), big.NewInt(27), nil)
	cfg := world.Config{MaxGas: u.MaxGas, NumWallets: 3, Contracts: StdContracts(), WalletBalance: bal, BaseFee: bf}
	minGasPrice := new(big.Int)
	if strings.HasPrefix(u.Family, "min-gas-price=") {
		cfg.MinGasPrice = strings.TrimPrefix(u.Family, "min-gas-price=")
		minGasPrice.SetString(cfg.MinGasPrice, 10)
	}
	where := fmt.Sprintf("MaxGas=%d genesis base fee %s min gas price %s", u.MaxGas, u.BaseFee, minGasPrice)
	w, err := world.NewE(cfg)
	if err != nil {
		rec.fail("init-chain-succeeds", "", where+": "+err.Error(), u)
		return
	}
	if got := w.App.FeeMarketKeeper.GetBaseFee(w.Ctx()).BigInt(); got.Cmp(bf) != 0 {
		rec.fail("alphabet-sanity", "", fmt.Sprintf("%s: base fee after InitChain is %s", where, got), u)
		return
	}
	cap64 := new(big.Int).Lsh(big.NewInt(1), 64)
	perBlock := 2
	switch {
	case u.Shape == "empty":
		perBlock = 0
	case u.MaxGas == 21_000:
		perBlock = 1
	}
	sink := AddrSink
	maxFee := new(big.Int)
	for b := 0; b < u.Blocks; b++ {
		ctx := w.Ctx()
		cur := w.App.FeeMarketKeeper.GetBaseFee(ctx).BigInt()
		if cur.Cmp(maxFee) > 0 {
			maxFee = cur
		}
		var txs [][]byte
		for s := 0; s < perBlock; s++ {
			txs = append(txs, w.EthTx(w.Wallets[s], &ethtypes.DynamicFeeTx{ChainID: big.NewInt(world.EvmChainID), Nonce: w.Nonce(ctx, w.Wallets[s].Eth()),
				GasTipCap: big.NewInt(1), GasFeeCap: cap64, Gas: 21_000, To: &sink, Value: big.NewInt(1)}))
		}
		br := w.Block(txs)
		rec.count("abci_calls", 2)
		rec.count("blocks", 1)
		rec.count("inputs", int64(len(txs)))
		if prob := c20BlockProblem(br, len(txs)); prob != "" {
			// Defect-aware classification: the signature is given only when the observation is exactly what the defect predicts —
			// the panic text of sdkmath.Int.Int64 and a base fee to be stored (EIP-1559: at most +12.5 % for a full block, at least
			// -12.5 % for an empty one, never below the min gas price) that does not fit into an int64.
			lowest := new(big.Int).Div(new(big.Int).Mul(cur, big.NewInt(7)), big.NewInt(8))
			highest := new(big.Int).Div(new(big.Int).Mul(cur, big.NewInt(9)), big.NewInt(8))
			sig := ""
			if strings.Contains(prob, "Int64() out of bound") &&
				(lowest.Cmp(c20Two63) >= 0 || minGasPrice.Cmp(c20Two63) >= 0 || (perBlock > 0 && u.MaxGas > 0 && highest.Cmp(c20Two63) >= 0)) {
				sig = c20SigBaseFeeInt64
			}
			rec.fail("begin-end-block-never-fail", sig, fmt.Sprintf("%s: block %d (height %d, base fee %s, %d transfers filling the block): %s", where, b, br.Height, cur, len(txs), prob), u)
			rec.outcome("c-fee: crash")
			return
		}
		for i, r := range br.Res.TxResults {
			if r.Code != 0 && cur.Cmp(cap64) < 0 {
				rec.fail("alphabet-sanity", "", fmt.Sprintf("%s: block %d transfer %d must succeed (base fee %s): %s", where, b, i, cur, r.Log), u)
				return
			}
		}
	}
	rec.outcome(fmt.Sprintf("c-fee: %d blocks ok, base fee %s -> bits %d", u.Blocks, u.BaseFee, maxFee.BitLen()))
	rec.distinct(fmt.Sprintf("c-fee|%d|%s|%d", u.MaxGas, u.BaseFee, maxFee.BitLen()))
}
