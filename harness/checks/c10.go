package checks

import (
	"bytes"
	"encoding/json"
	"fmt"
	"math/big"
	"os"
	"strings"

	sdkmath "cosmossdk.io/math"
	sdk "github.com/cosmos/cosmos-sdk/types"
	authtypes "github.com/cosmos/cosmos-sdk/x/auth/types"
	"github.com/ethereum/go-ethereum/common"
	ethtypes "github.com/ethereum/go-ethereum/core/types"

	cpctypes "github.com/EscanBE/evermint/v12/x/cpc/types"

	"verif/harness/asm"
	"verif/harness/ev"
	"verif/harness/world"
)

func init() { Registry["C10"] = runC10 }

var (
	c10A   = common.HexToAddress("0x00000000000000000000000000000000000a000a")
	c10B   = common.HexToAddress("0x00000000000000000000000000000000000b000b")
	c10C   = common.HexToAddress("0x00000000000000000000000000000000000c0c0c") // forwarder contract
	c10D   = common.HexToAddress("0x00000000000000000000000000000000000d0d0d") // multicall contract: several precompile calls in one message
	c10F   = world.ModuleAddr(authtypes.FeeCollectorName)
	zeroA  = common.Address{}
	maxU   = new(big.Int).Sub(new(big.Int).Lsh(big.NewInt(1), 256), big.NewInt(1))
	c10Den = []string{world.Denom, "utwo"}
)

// c10Tok holds the addresses of the two ERC-20 precompiles once the world is built; c10E is a holder of utwo only
// (no gas coin, sequence 0, no code): go-ethereum would call such an account empty, the bank does not.
var (
	c10Tok [2]common.Address
	c10E   = common.HexToAddress("0x00000000000000000000000000000000000e000e")
)

var transferTopic = common.HexToHash("0xddf252ad1be2c89b69c2b068fc378daa952ba7f163c4a11628f55a4df523b3ef")
var approvalTopic = common.HexToHash("0x8c5be1e5ebec7d5bd14f71427d1e84f3dd0314c0f7b2291e5b200ac8c7c3b925")

// c10Op is one operation of the alphabet.
type c10Op struct {
	Token  int    `json:"token"`       // 0 | 1 ; -1 for native bank send
	Caller string `json:"caller"`      // A | B | C-call | C-deleg
	Method string `json:"method"`      // transfer | transferFrom | approve | burn | burnFrom | bank-send
	X      string `json:"x,omitempty"` // first address argument (name)
	Y      string `json:"y,omitempty"` // second address argument (name)
	Amt    string `json:"amt,omitempty"`
}

func (o c10Op) String() string {
	return fmt.Sprintf("T%d.%s(%s,%s,%s)@%s", o.Token, o.Method, o.X, o.Y, o.Amt, o.Caller)
}

func c10Addr(n string) common.Address {
	switch n {
	case "A":
		return c10A
	case "B":
		return c10B
	case "C":
		return c10C
	case "D":
		return c10D
	case "F":
		return c10F
	case "T0", "T1": // the token contracts' own addresses (set by c10Setup)
		return c10Tok[n[1]-'0']
	case "E":
		return c10E
	case "0", "":
		return zeroA
	}
	if a, ok := c10V[n]; ok { // vesting-account holders (c10_vest.go)
		return a
	}
	panic("addr " + n)
}

func c10Amt(s string) *big.Int {
	if s == "max" {
		return new(big.Int).Set(maxU)
	}
	v, ok := new(big.Int).SetString(s, 10)
	if !ok {
		panic("amt " + s)
	}
	return v
}

// c10Model is the reference: plain maps.
type c10Model struct {
	Bal    [2]map[common.Address]*big.Int
	Allow  [2]map[[2]common.Address]*big.Int
	Supply [2]*big.Int
	Shared bool // allowances shared across tokens (explains the known defect)
}

func (m *c10Model) clone() *c10Model {
	n := &c10Model{Shared: m.Shared}
	for t := 0; t < 2; t++ {
		n.Bal[t] = map[common.Address]*big.Int{}
		for k, v := range m.Bal[t] {
			n.Bal[t][k] = new(big.Int).Set(v)
		}
		n.Allow[t] = map[[2]common.Address]*big.Int{}
		for k, v := range m.Allow[t] {
			n.Allow[t][k] = new(big.Int).Set(v)
		}
		n.Supply[t] = new(big.Int).Set(m.Supply[t])
	}
	return n
}

func (m *c10Model) bal(t int, a common.Address) *big.Int {
	if v := m.Bal[t][a]; v != nil {
		return v
	}
	return new(big.Int)
}

func (m *c10Model) allow(t int, o, s common.Address) *big.Int {
	if v := m.Allow[t][[2]common.Address{o, s}]; v != nil {
		return v
	}
	return new(big.Int)
}

func (m *c10Model) setAllow(t int, o, s common.Address, v *big.Int) {
	ts := []int{t}
	if m.Shared {
		ts = []int{0, 1}
	}
	for _, x := range ts {
		if v.Sign() == 0 {
			delete(m.Allow[x], [2]common.Address{o, s})
		} else {
			m.Allow[x][[2]common.Address{o, s}] = new(big.Int).Set(v)
		}
	}
}

type c10World struct {
	w             *world.World
	root          sdk.Context
	tokens        [2]common.Address
	tracked       []common.Address
	viewCache     map[[32]byte]*c10Views
	viewsObserved int
	skipViews     bool // batch mode: views are compared once, after the last call of the message
	// locked[t][holder]: coins of token t's denomination the SDK's vesting schedule keeps locked at the block time (c10_vest.go)
	locked     [2]map[common.Address]*big.Int
	allowPairs [][2]common.Address // (owner, spender) pairs whose allowance view is compared in every state
}

func c10Setup() *c10World {
	coins := func(n int64) sdk.Coins {
		return sdk.NewCoins(sdk.NewCoin(world.Denom, sdkmath.NewInt(n)), sdk.NewCoin("utwo", sdkmath.NewInt(n)))
	}
	w := world.New(world.Config{
		NumWallets: 2,
		Extra: append([]world.ExtraAccount{
			{Account: authtypes.NewBaseAccount(c10A.Bytes(), nil, 0, 1), Coins: coins(3)},
			{Account: authtypes.NewBaseAccount(c10B.Bytes(), nil, 0, 1), Coins: coins(1)},
			{Account: authtypes.NewBaseAccount(c10E.Bytes(), nil, 0, 0), Coins: sdk.NewCoins(sdk.NewCoin("utwo", sdkmath.NewInt(2)))},
		}, c10VestExtras()...),
		Contracts: []world.Contract{{Addr: c10C, Code: asm.Forwarder(false)}, {Addr: c10D, Code: asm.Multicall(), Coins: coins(2)}},
	})
	w.Block(nil)
	cw := &c10World{w: w, root: w.Ctx(), viewCache: map[[32]byte]*c10Views{}}
	for i, d := range c10Den {
		addr, err := w.App.CPCKeeper.DeployErc20CustomPrecompiledContract(cw.root, "Token "+d, cpctypes.Erc20CustomPrecompiledContractMeta{Symbol: fmt.Sprintf("TK%d", i), Decimals: 6, MinDenom: d})
		if err != nil {
			panic(err)
		}
		cw.tokens[i] = addr
		c10Tok[i] = addr
	}
	cw.tracked = []common.Address{c10A, c10B, c10C, c10D, c10E, c10F, zeroA, world.ModuleAddr(cpctypes.ModuleName), cw.tokens[0], cw.tokens[1]}
	for _, o := range []common.Address{c10A, c10B, c10C, c10D} {
		for _, s := range []common.Address{c10A, c10B, c10C, c10D} {
			cw.allowPairs = append(cw.allowPairs, [2]common.Address{o, s})
		}
	}
	cw.initVesting()
	return cw
}

func (cw *c10World) initialModel(shared bool) *c10Model {
	m := &c10Model{Shared: shared}
	for t, d := range c10Den {
		m.Bal[t] = map[common.Address]*big.Int{}
		m.Allow[t] = map[[2]common.Address]*big.Int{}
		for _, a := range cw.tracked {
			m.Bal[t][a] = cw.w.Balance(cw.root, a, d)
		}
		m.Supply[t] = cw.w.Supply(cw.root, d)
	}
	return m
}

// c10Exec applies op on a branch of parent and returns the branch and the observation.
type c10Obs struct {
	Res     CallResult
	Success bool
	Caller  common.Address // effective caller as the precompile sees it
}

func (cw *c10World) exec(parent sdk.Context, op c10Op) (sdk.Context, c10Obs) {
	ctx, _ := parent.CacheContext()
	var o c10Obs
	if op.Method == "bank-send" {
		from, to := c10Addr(op.X), c10Addr(op.Y)
		err := cw.w.App.BankKeeper.SendCoins(ctx, from.Bytes(), to.Bytes(), sdk.NewCoins(sdk.NewCoin(c10Den[op.Token], sdkmath.NewIntFromBigInt(c10Amt(op.Amt)))))
		o.Success = err == nil
		if err != nil {
			ctx, _ = parent.CacheContext()
		}
		return ctx, o
	}
	tok := cw.tokens[op.Token]
	var data []byte
	switch op.Method {
	case "transfer":
		data = Enc("transfer(address,uint256)", AddrWord(c10Addr(op.X)), Word(c10Amt(op.Amt)))
	case "transferFrom":
		data = Enc("transferFrom(address,address,uint256)", AddrWord(c10Addr(op.X)), AddrWord(c10Addr(op.Y)), Word(c10Amt(op.Amt)))
	case "approve":
		data = Enc("approve(address,uint256)", AddrWord(c10Addr(op.X)), Word(c10Amt(op.Amt)))
	case "burn":
		data = Enc("burn(uint256)", Word(c10Amt(op.Amt)))
	case "burnFrom":
		data = Enc("burnFrom(address,uint256)", AddrWord(c10Addr(op.X)), Word(c10Amt(op.Amt)))
	default:
		panic("method " + op.Method)
	}
	switch op.Caller {
	case "A", "B", "V1", "V2", "V3", "V4":
		o.Caller = c10Addr(op.Caller)
		o.Res = CallEVM(cw.w, ctx, o.Caller, tok, data, nil, 1_000_000)
	case "C-call":
		o.Caller = c10C
		o.Res = CallEVM(cw.w, ctx, c10A, c10C, asm.ForwardData(asm.KCall, tok, data), nil, 1_000_000)
	case "C-deleg":
		o.Caller = c10C
		o.Res = CallEVM(cw.w, ctx, c10A, c10C, asm.ForwardData(asm.KDelegateCall, tok, data), nil, 1_000_000)
	default:
		panic("caller " + op.Caller)
	}
	o.Success = o.Res.Err == nil && o.Res.Panic == ""
	return ctx, o
}

// check evaluates the property's clauses for one transition against model m (which is advanced in place).
// It returns the violated clauses.
func (cw *c10World) check(m *c10Model, op c10Op, o c10Obs, post sdk.Context, key [32]byte) []string {
	var bad []string
	fail := func(f string, a ...interface{}) { bad = append(bad, fmt.Sprintf(f, a...)) }
	if o.Res.Panic != "" {
		fail("panic: %s", o.Res.Panic)
		return bad
	}
	t := op.Token
	if op.Method == "bank-send" {
		from, to, amt := c10Addr(op.X), c10Addr(op.Y), c10Amt(op.Amt)
		// x/bank moves exactly the coins that are not locked by a vesting schedule: the send succeeds iff amount <= spendable
		if can := cw.spendable(m, t, from).Cmp(amt) >= 0; o.Success && !can {
			fail("bank send of %s succeeded with only %s spendable (balance %s, locked %s)", amt, cw.spendable(m, t, from), m.bal(t, from), cw.lockedOf(t, from))
		} else if !o.Success && can {
			fail("valid bank send failed (amount %s, spendable %s)", amt, cw.spendable(m, t, from))
		}
		if o.Success {
			m.Bal[t][from] = new(big.Int).Sub(m.bal(t, from), amt)
			m.Bal[t][to] = new(big.Int).Add(m.bal(t, to), amt)
		}
		return append(bad, cw.views(m, post, key)...)
	}
	tok := cw.tokens[t]
	caller := o.Caller
	var from, to common.Address
	amt := c10Amt(op.Amt)
	isApprove := op.Method == "approve"
	burn := false
	switch op.Method {
	case "transfer":
		from, to = caller, c10Addr(op.X)
	case "transferFrom":
		from, to = c10Addr(op.X), c10Addr(op.Y)
	case "burn":
		from, burn = caller, true
	case "burnFrom":
		from, burn = c10Addr(op.X), true
	}
	if !o.Success {
		if len(o.Res.Logs) != 0 {
			fail("failed call emitted %d log(s)", len(o.Res.Logs))
		}
		// liveness guard: a call that standard ERC-20 accepts must succeed
		if isApprove {
			if c10Addr(op.X) != zeroA {
				fail("valid approve failed: %v", o.Res.Err)
			}
		} else {
			authorised := from == caller || m.allow(t, from, caller).Cmp(amt) >= 0
			// "enough coins" = enough coins that the bank layer lets the holder move: locked coins of a vesting account do not count
			if from != zeroA && (burn || to != zeroA) && authorised && cw.spendable(m, t, from).Cmp(amt) >= 0 {
				fail("valid %s failed: %v", op.Method, o.Res.Err)
			}
		}
		return append(bad, cw.views(m, post, key)...)
	}
	// success
	if isApprove {
		spender := c10Addr(op.X)
		m.setAllow(t, caller, spender, amt)
		if len(o.Res.Logs) != 1 || !logIs(o.Res.Logs[0], tok, approvalTopic, caller, spender, amt) {
			fail("approve must emit exactly one matching Approval log, got %s", fmtLogs(o.Res.Logs))
		}
		if !bytes.Equal(o.Res.Ret, Word(big.NewInt(1))) {
			fail("approve must return true")
		}
		return append(bad, cw.views(m, post, key)...)
	}
	if from != caller {
		al := m.allow(t, from, caller)
		if al.Cmp(amt) < 0 {
			fail("%s moved %s of %s's coins with an allowance of only %s on this token", op.Method, amt, op.X, al)
		}
		if al.Cmp(maxU) != 0 {
			n := new(big.Int).Sub(al, amt)
			if n.Sign() < 0 {
				n = new(big.Int)
			}
			m.setAllow(t, from, caller, n)
		}
	}
	if m.bal(t, from).Cmp(amt) < 0 {
		fail("%s succeeded with balance %s < amount %s", op.Method, m.bal(t, from), amt)
	} else if sp := cw.spendable(m, t, from); sp.Cmp(amt) < 0 && !(amt.Sign() == 0 || (!burn && from == to)) {
		// nothing moves for amount 0 or a transfer to oneself; everything else must be refused by x/bank
		fail("%s moved %s of a vesting account's coins with only %s spendable (balance %s, locked %s)", op.Method, amt, sp, m.bal(t, from), cw.lockedOf(t, from))
	}
	dst := to
	if burn {
		dst = zeroA
		m.Bal[t][from] = new(big.Int).Sub(m.bal(t, from), amt)
		m.Supply[t] = new(big.Int).Sub(m.Supply[t], amt)
	} else {
		if to == zeroA {
			fail("transfer to the zero address succeeded")
		}
		m.Bal[t][from] = new(big.Int).Sub(m.bal(t, from), amt)
		m.Bal[t][to] = new(big.Int).Add(m.bal(t, to), amt)
	}
	if len(o.Res.Logs) != 1 || !logIs(o.Res.Logs[0], tok, transferTopic, from, dst, amt) {
		fail("%s must emit exactly one matching Transfer log, got %s", op.Method, fmtLogs(o.Res.Logs))
	}
	if (op.Method == "transfer" || op.Method == "transferFrom") && !bytes.Equal(o.Res.Ret, Word(big.NewInt(1))) {
		fail("%s must return true", op.Method)
	}
	return append(bad, cw.views(m, post, key)...)
}

func logIs(l *ethtypes.Log, addr common.Address, topic common.Hash, a, b common.Address, amt *big.Int) bool {
	return l.Address == addr && len(l.Topics) == 3 && l.Topics[0] == topic &&
		l.Topics[1] == common.BytesToHash(a.Bytes()) && l.Topics[2] == common.BytesToHash(b.Bytes()) && bytes.Equal(l.Data, Word(amt))
}

func fmtLogs(ls []*ethtypes.Log) string {
	var s []string
	for _, l := range ls {
		s = append(s, fmt.Sprintf("{%s %v %x}", l.Address.Hex(), l.Topics, l.Data))
	}
	return "[" + strings.Join(s, " ") + "]"
}

// c10Views is everything the views and the bank keeper report in one state.
type c10Views struct {
	Bank, BalOf   [2]map[common.Address]*big.Int
	Supply, Total [2]*big.Int
	Allow         [2]map[[2]common.Address]*big.Int
	VestBad       []string // vesting schedules that lock another amount than in the initial state (c10_vest.go)
}

// observe reads every view of both tokens once per distinct state (cached on the canonical key).
func (cw *c10World) observe(ctx sdk.Context, key [32]byte) *c10Views {
	if v, ok := cw.viewCache[key]; ok {
		return v
	}
	v := &c10Views{}
	for t, d := range c10Den {
		tok := cw.tokens[t]
		view := func(data []byte) *big.Int {
			b, _ := ctx.CacheContext()
			r := CallEVM(cw.w, b, c10B, tok, data, nil, 100_000)
			if r.Err != nil || r.Panic != "" || len(r.Ret) != 32 {
				return big.NewInt(-1)
			}
			return new(big.Int).SetBytes(r.Ret)
		}
		v.Bank[t], v.BalOf[t], v.Allow[t] = map[common.Address]*big.Int{}, map[common.Address]*big.Int{}, map[[2]common.Address]*big.Int{}
		for _, a := range cw.tracked {
			v.Bank[t][a] = cw.w.Balance(ctx, a, d)
			if a != zeroA {
				v.BalOf[t][a] = view(Enc("balanceOf(address)", AddrWord(a)))
			}
		}
		v.Supply[t] = cw.w.Supply(ctx, d)
		v.Total[t] = view(Enc("totalSupply()"))
		for _, p := range cw.allowPairs {
			v.Allow[t][p] = view(Enc("allowance(address,address)", AddrWord(p[0]), AddrWord(p[1])))
		}
	}
	v.VestBad = cw.vestingUnchanged(ctx)
	cw.viewCache[key] = v
	cw.viewsObserved++
	return v
}

// views compares every view method and the bank keeper with the model, for both tokens.
func (cw *c10World) views(m *c10Model, ctx sdk.Context, key [32]byte) []string {
	if cw.skipViews {
		return nil
	}
	var bad []string
	v := cw.observe(ctx, key)
	for t := range c10Den {
		for _, a := range cw.tracked {
			bank := v.Bank[t][a]
			if bank.Cmp(m.bal(t, a)) != 0 {
				bad = append(bad, fmt.Sprintf("bank balance T%d[%s]=%s, reference %s", t, a.Hex()[36:], bank, m.bal(t, a)))
			}
			if a == zeroA {
				continue
			}
			if x := v.BalOf[t][a]; x.Cmp(bank) != 0 {
				bad = append(bad, fmt.Sprintf("balanceOf T%d[%s]=%s, bank %s", t, a.Hex()[36:], x, bank))
			}
		}
		if v.Supply[t].Cmp(m.Supply[t]) != 0 {
			bad = append(bad, fmt.Sprintf("bank supply T%d=%s, reference %s", t, v.Supply[t], m.Supply[t]))
		}
		if v.Total[t].Cmp(v.Supply[t]) != 0 {
			bad = append(bad, fmt.Sprintf("totalSupply T%d=%s, bank %s", t, v.Total[t], v.Supply[t]))
		}
		for _, p := range cw.allowPairs {
			o, s := p[0], p[1]
			if x := v.Allow[t][p]; x.Cmp(m.allow(t, o, s)) != 0 {
				bad = append(bad, fmt.Sprintf("allowance T%d[%s→%s]=%s, reference %s", t, o.Hex()[36:], s.Hex()[36:], x, m.allow(t, o, s)))
			}
		}
	}
	return append(bad, v.VestBad...)
}

func c10Alphabet(full bool) []c10Op {
	var ops []c10Op
	callers := []string{"A", "B", "C-call", "C-deleg"}
	amts := []string{"0", "1", "2", "4", "max"}
	tos := []string{"A", "B", "C", "0", "F", "E", "T0", "T1"}
	froms := []string{"A", "B", "C", "0"}
	if !full {
		callers = []string{"A", "B", "C-call"}
		amts = []string{"1", "2", "max"}
		tos = []string{"A", "B", "0", "E", "T1"}
		froms = []string{"A", "B"}
	}
	for t := 0; t < 2; t++ {
		for _, c := range callers {
			for _, a := range amts {
				for _, x := range tos {
					ops = append(ops, c10Op{Token: t, Caller: c, Method: "transfer", X: x, Amt: a})
				}
				for _, f := range froms {
					for _, x := range []string{"A", "B", "0"} {
						if !full && x == "0" {
							continue
						}
						ops = append(ops, c10Op{Token: t, Caller: c, Method: "transferFrom", X: f, Y: x, Amt: a})
					}
					ops = append(ops, c10Op{Token: t, Caller: c, Method: "burnFrom", X: f, Amt: a})
				}
				for _, s := range []string{"A", "B", "C", "0"} {
					if !full && (s == "0") {
						continue
					}
					ops = append(ops, c10Op{Token: t, Caller: c, Method: "approve", X: s, Amt: a})
				}
				ops = append(ops, c10Op{Token: t, Caller: c, Method: "burn", Amt: a})
			}
		}
		ops = append(ops, c10Op{Token: t, Method: "bank-send", X: "A", Y: "B", Amt: "1"})
	}
	return ops
}

type c10Path []c10Op

// c10RunPath replays a path from the root and returns the findings met on its last transition (replay mode: on all).
func (cw *c10World) runPath(p c10Path, all bool) (fs []ev.Finding) {
	ctx := cw.root
	mf, ms := cw.initialModel(false), cw.initialModel(true)
	if all {
		// replay mode: the views must hold in the initial state too (same clause as at the start of every search)
		if bad := cw.views(mf, cw.root, CanonKey(cw.w, cw.root)); len(bad) > 0 {
			fs = append(fs, ev.Finding{Clause: "erc20-exact-view", Detail: "initial state: " + strings.Join(bad, " | "), Replay: map[string]interface{}{"path": c10Path{}}})
		}
	}
	for i, op := range p {
		nctx, o := cw.exec(ctx, op)
		key := CanonKey(cw.w, nctx)
		bf := cw.check(mf, op, o, nctx, key)
		bs := cw.check(ms, op, o, nctx, key)
		if all || i == len(p)-1 {
			fs = append(fs, c10Classify(p[:i+1], bf, bs)...)
		}
		ctx = nctx
	}
	return fs
}

func c10Classify(p c10Path, bf, bs []string) []ev.Finding {
	if len(bf) == 0 {
		return nil
	}
	var names []string
	for _, o := range p {
		names = append(names, o.String())
	}
	f := ev.Finding{Clause: "erc20-exact-view", Detail: strings.Join(names, " ; ") + " => " + strings.Join(bf, " | "), Replay: map[string]interface{}{"path": p}}
	if len(bs) == 0 {
		f.Signature = "C10/allowance-shared-across-tokens"
	}
	if len(f.Detail) > 900 {
		f.Detail = f.Detail[:900] + "…"
	}
	return []ev.Finding{f}
}

type c10Node struct {
	ctx  sdk.Context
	mf   *c10Model
	ms   *c10Model
	path c10Path
	key  [32]byte
}

// c10Search is a BFS over branch states with dedup on the canonical state key.
func c10Search(run *ev.Run, cw *c10World, alpha []c10Op, maxDepth int, shard, n int, tag string, dl *ev.Deadline) (fixpoint bool, depthDone int) {
	seen := map[[32]byte]bool{}
	root := c10Node{ctx: cw.root, mf: cw.initialModel(false), ms: cw.initialModel(true), key: CanonKey(cw.w, cw.root)}
	seen[root.key] = true
	frontier := []c10Node{root}
	// the views must hold in the initial state too
	if bad := cw.views(root.mf, cw.root, root.key); len(bad) > 0 {
		run.Fail(ev.Finding{Clause: "erc20-exact-view", Detail: "initial state: " + strings.Join(bad, " | "), Replay: map[string]interface{}{"path": c10Path{}}})
	}
	for depth := 1; depth <= maxDepth; depth++ {
		var next []c10Node
		for _, nd := range frontier {
			for oi, op := range alpha {
				if depth == 1 && oi%n != shard {
					continue
				}
				if dl.Hit() {
					run.Coverage["exhaustive"] = false
					run.Note("%s: time budget hit at depth %d; depth %d fully covered", tag, depth, depth-1)
					return false, depth - 1
				}
				nctx, o := cw.exec(nd.ctx, op)
				mf, ms := nd.mf.clone(), nd.ms.clone()
				k := nd.key
				if o.Success {
					k = CanonKey(cw.w, nctx)
				} else if depth <= 2 || run.Counter("transitions")%16 == 0 {
					// a failing call changes nothing (modulo the account-number counter); checked on every failing
					// transition up to depth 2 and on every 16th one deeper down (the key costs as much as the call)
					if CanonKey(cw.w, nctx) != nd.key {
						run.Fail(ev.Finding{Clause: "failing-call-changes-nothing", Detail: fmt.Sprint(append(append(c10Path{}, nd.path...), op)), Replay: map[string]interface{}{"path": append(append(c10Path{}, nd.path...), op)}})
					}
					run.Count("failing_calls_state_compared", 1)
				}
				bf := cw.check(mf, op, o, nctx, k)
				bs := cw.check(ms, op, o, nctx, k)
				run.Count("transitions", 1)
				path := append(append(c10Path{}, nd.path...), op)
				cls := "fail"
				if o.Success {
					cls = "ok"
				}
				run.Outcome(fmt.Sprintf("%s/%s/%s", op.Method, strings.SplitN(op.Caller, "-", 2)[0], cls))
				for _, f := range c10Classify(path, bf, bs) {
					run.Fail(f)
				}
				if !o.Success {
					continue
				}
				if seen[k] {
					continue
				}
				seen[k] = true
				run.Distinct(fmt.Sprintf("%x", k[:12]))
				if len(path) >= 2 && run.Counter("sampled_"+tag) < 2 {
					run.Count("sampled_"+tag, 1)
					run.Sample(map[string]interface{}{"search": tag, "path": path})
				}
				next = append(next, c10Node{ctx: nctx, mf: mf, ms: ms, path: path, key: k})
			}
		}
		depthDone = depth
		frontier = next
		if len(frontier) == 0 {
			return true, maxDepth // nothing left to expand: this subtree is explored for every depth
		}
	}
	return false, depthDone
}

// ---------------------------------------------------------------------------------------------------------------
// batch pass: several precompile calls inside ONE EVM message (multicall contract D is the caller of every call).
// Logs stay referenced by the StateDB until the message ends, so "exactly one matching log per successful call" must
// also hold for the log list read at the end of the message; intermediate states are not observable, the views are
// compared once after the last call.
// ---------------------------------------------------------------------------------------------------------------

type c10Batch struct {
	Prefix c10Path `json:"prefix"` // ordinary operations executed first (one message each)
	Calls  []c10Op `json:"calls"`  // executed by D in one message; Caller is "D"
}

func c10OpData(cw *c10World, op c10Op) (common.Address, []byte) {
	tok := cw.tokens[op.Token]
	switch op.Method {
	case "transfer":
		return tok, Enc("transfer(address,uint256)", AddrWord(c10Addr(op.X)), Word(c10Amt(op.Amt)))
	case "transferFrom":
		return tok, Enc("transferFrom(address,address,uint256)", AddrWord(c10Addr(op.X)), AddrWord(c10Addr(op.Y)), Word(c10Amt(op.Amt)))
	case "approve":
		return tok, Enc("approve(address,uint256)", AddrWord(c10Addr(op.X)), Word(c10Amt(op.Amt)))
	case "burn":
		return tok, Enc("burn(uint256)", Word(c10Amt(op.Amt)))
	case "burnFrom":
		return tok, Enc("burnFrom(address,uint256)", AddrWord(c10Addr(op.X)), Word(c10Amt(op.Amt)))
	}
	panic("method " + op.Method)
}

func (cw *c10World) runBatch(b c10Batch) (fs []ev.Finding) {
	ctx := cw.root
	mf, ms := cw.initialModel(false), cw.initialModel(true)
	for _, op := range b.Prefix {
		nctx, o := cw.exec(ctx, op)
		key := CanonKey(cw.w, nctx)
		cw.check(mf, op, o, nctx, key)
		cw.check(ms, op, o, nctx, key)
		ctx = nctx
	}
	var entries []asm.MulticallEntry
	for _, op := range b.Calls {
		to, data := c10OpData(cw, op)
		entries = append(entries, asm.MulticallEntry{To: to, Data: data})
	}
	data, offs := asm.MulticallData(entries)
	post, _ := ctx.CacheContext()
	// every inner CALL forwards 63/64 of the remaining gas and a failing precompile call consumes all of it: after k failing
	// calls 1/64^k of the limit is left, so the limit is chosen for up to three failing calls before a succeeding one
	res := CallEVM(cw.w, post, c10A, c10D, data, nil, 400_000_000_000)
	var bf, bs []string
	if res.Err != nil || res.Panic != "" || len(res.Ret) != len(data) {
		bf = append(bf, fmt.Sprintf("multicall message failed: err=%v panic=%q ret=%d bytes", res.Err, res.Panic, len(res.Ret)))
		bs = bf
	} else {
		logs := res.Logs
		cw.skipViews = true
		for i, op := range b.Calls {
			o := c10Obs{Caller: c10D, Success: res.Ret[offs[i]] == 1}
			if o.Success {
				o.Res.Ret = Word(big.NewInt(1)) // the multicall contract does not hand the inner return data back
				if len(logs) > 0 {
					o.Res.Logs, logs = logs[:1], logs[1:]
				}
			} else {
				o.Res.Err = fmt.Errorf("inner call %d failed", i)
			}
			for _, x := range cw.check(mf, op, o, post, [32]byte{}) {
				bf = append(bf, fmt.Sprintf("call %d (%s): %s", i, op, x))
			}
			for _, x := range cw.check(ms, op, o, post, [32]byte{}) {
				bs = append(bs, fmt.Sprintf("call %d (%s): %s", i, op, x))
			}
		}
		cw.skipViews = false
		if len(logs) > 0 {
			bf = append(bf, fmt.Sprintf("%d log(s) more than successful calls: %s", len(logs), fmtLogs(logs)))
			bs = append(bs, bf[len(bf)-1])
		}
		key := CanonKey(cw.w, post)
		bf = append(bf, cw.views(mf, post, key)...)
		bs = append(bs, cw.views(ms, post, key)...)
	}
	if len(bf) == 0 {
		return nil
	}
	var names []string
	for _, o := range b.Prefix {
		names = append(names, o.String())
	}
	var calls []string
	for _, o := range b.Calls {
		calls = append(calls, o.String())
	}
	f := ev.Finding{Clause: "erc20-exact-view", Detail: strings.Join(names, " ; ") + " ; one message {" + strings.Join(calls, " , ") + "} => " + strings.Join(bf, " | "), Replay: map[string]interface{}{"batch": b}}
	if len(bs) == 0 {
		f.Signature = "C10/allowance-shared-across-tokens"
	}
	if len(f.Detail) > 900 {
		f.Detail = f.Detail[:900] + "…"
	}
	return []ev.Finding{f}
}

// c10Batches enumerates prefix x ordered pairs (thorough: also triples over a smaller set) of calls made by D.
func c10Batches(thorough bool) []c10Batch {
	var alpha []c10Op
	for t := 0; t < 2; t++ {
		alpha = append(alpha,
			c10Op{Token: t, Caller: "D", Method: "transfer", X: "A", Amt: "1"},
			c10Op{Token: t, Caller: "D", Method: "transfer", X: "B", Amt: "2"},
			c10Op{Token: t, Caller: "D", Method: "transfer", X: "B", Amt: "4"}, // more than D holds: fails
			c10Op{Token: t, Caller: "D", Method: "approve", X: "A", Amt: "1"},
			c10Op{Token: t, Caller: "D", Method: "approve", X: "B", Amt: "2"},
			c10Op{Token: t, Caller: "D", Method: "transferFrom", X: "A", Y: "B", Amt: "1"},
			c10Op{Token: t, Caller: "D", Method: "transferFrom", X: "A", Y: "D", Amt: "2"},
			c10Op{Token: t, Caller: "D", Method: "burn", Amt: "1"},
			c10Op{Token: t, Caller: "D", Method: "burnFrom", X: "A", Amt: "1"},
		)
	}
	prefixes := []c10Path{nil,
		{c10Op{Token: 0, Caller: "A", Method: "approve", X: "D", Amt: "2"}},
		{c10Op{Token: 1, Caller: "A", Method: "approve", X: "D", Amt: "max"}},
	}
	var out []c10Batch
	for _, p := range prefixes {
		for _, a := range alpha {
			for _, b := range alpha {
				out = append(out, c10Batch{Prefix: p, Calls: []c10Op{a, b}})
			}
		}
	}
	if thorough {
		small := []c10Op{alpha[0], alpha[1], alpha[3], alpha[5], alpha[7], alpha[9], alpha[14]}
		for _, p := range prefixes {
			for _, a := range small {
				for _, b := range small {
					for _, c := range small {
						out = append(out, c10Batch{Prefix: p, Calls: []c10Op{a, b, c}})
					}
				}
			}
		}
	}
	return out
}

func runC10(replay string) int {
	run := ev.NewRun("C10", "model_checking")
	run.Assumptions = []string{
		"operations are driven at keeper level through the real NewStateDB + NewEVM + evm.Call + CommitMultiStore on CacheContext branches (no ante handler, no fees)",
		"state identity = every store byte for byte except auth account numbers (CanonKey)",
		"the reference model is a set of Go maps; success/failure of a call is taken from the implementation and constrained by the property's clauses, valid standard calls must succeed",
	}
	cw := c10Setup()
	if replay != "" {
		return replayCase(run, replay, func(raw json.RawMessage) []ev.Finding {
			var c struct {
				Path  c10Path   `json:"path"`
				Batch *c10Batch `json:"batch"`
			}
			if err := json.Unmarshal(raw, &c); err != nil {
				fmt.Fprintln(os.Stderr, err)
				os.Exit(2)
			}
			if c.Batch != nil {
				return cw.runBatch(*c.Batch)
			}
			return cw.runPath(c.Path, true)
		})
	}
	full, reduced := c10Alphabet(true), c10Alphabet(false)
	var tiny []c10Op
	for t := 0; t < 2; t++ {
		for _, c := range []string{"A", "B"} {
			o := map[string]string{"A": "B", "B": "A"}[c]
			tiny = append(tiny,
				c10Op{Token: t, Caller: c, Method: "approve", X: o, Amt: "1"},
				c10Op{Token: t, Caller: c, Method: "approve", X: o, Amt: "max"},
				c10Op{Token: t, Caller: c, Method: "transferFrom", X: o, Y: c, Amt: "1"},
				c10Op{Token: t, Caller: c, Method: "burnFrom", X: o, Amt: "1"},
				c10Op{Token: t, Caller: c, Method: "transfer", X: o, Amt: "1"},
			)
		}
	}
	type search struct {
		name  string
		alpha []c10Op
		depth int
	}
	vest := c10VestAlphabet()
	searches := []search{{"vest", vest, 2}, {"full", full, 2}, {"reduced", reduced, 2}, {"tiny", tiny, 4}}
	budget := 150
	if run.Thorough() {
		searches = []search{{"vest", vest, 2}, {"full", full, 2}, {"reduced", reduced, 3}, {"tiny", tiny, 8}, {"reduced-deeper", reduced, 4}}
		budget = 1500
	}
	run.Sharded(Shards(), func(shard, n int) {
		dl := ev.NewDeadline(secs(budget))
		for _, sr := range searches {
			fp, d := c10Search(run, cw, sr.alpha, sr.depth, shard, n, sr.name, dl)
			run.Coverage[sr.name+"_alphabet_depth_completed"] = d
			run.Coverage[sr.name+"_alphabet_fixpoint"] = fp
		}
		batches := c10Batches(run.Thorough())
		okCalls := 0
		for i, b := range batches {
			if i%n != shard {
				continue
			}
			fs := cw.runBatch(b)
			for _, f := range fs {
				run.Fail(f)
			}
			run.Count("transitions", 1)
			run.Count("batch_messages", 1)
			if len(fs) == 0 {
				okCalls++
			}
			if i < 2 {
				run.Sample(map[string]interface{}{"batch": b})
			}
		}
		if shard == 0 {
			// non-vacuity: a message with two successful transfers must produce two distinct matching logs
			b := c10Batch{Calls: []c10Op{{Token: 0, Caller: "D", Method: "transfer", X: "A", Amt: "1"}, {Token: 0, Caller: "D", Method: "transfer", X: "B", Amt: "1"}}}
			to, d0 := c10OpData(cw, b.Calls[0])
			_, d1 := c10OpData(cw, b.Calls[1])
			data, offs := asm.MulticallData([]asm.MulticallEntry{{To: to, Data: d0}, {To: to, Data: d1}})
			ctx, _ := cw.root.CacheContext()
			r := CallEVM(cw.w, ctx, c10A, c10D, data, nil, 3_000_000)
			if r.Err != nil || len(r.Ret) != len(data) || r.Ret[offs[0]] != 1 || r.Ret[offs[1]] != 1 || len(r.Logs) != 2 {
				fmt.Fprintf(os.Stderr, "HARNESS: C10 batch sanity failed: err=%v ret=%x logs=%d\n", r.Err, r.Ret, len(r.Logs))
				os.Exit(2)
			}
		}
		if shard == 0 {
			// non-vacuity of the vesting-holder dimension, per account kind: 1 <= spendable moves, 2 > spendable is refused by
			// x/bank, and after receiving 1 more coin 2 moves
			for _, v := range c10VestNames {
				for _, c := range []struct {
					path c10Path
					want bool
				}{
					{c10Path{{Token: 1, Caller: v, Method: "transfer", X: "B", Amt: "1"}}, true},
					{c10Path{{Token: 1, Caller: v, Method: "transfer", X: "B", Amt: "2"}}, false},
					{c10Path{{Token: 1, Caller: "A", Method: "transfer", X: v, Amt: "1"}, {Token: 1, Caller: v, Method: "transfer", X: "B", Amt: "2"}}, true},
					{c10Path{{Token: 0, Method: "bank-send", X: "A", Y: v, Amt: "1"}, {Token: 0, Caller: v, Method: "burn", Amt: "2"}}, true},
				} {
					ctx, ok := cw.root, false
					for _, op := range c.path {
						var o c10Obs
						ctx, o = cw.exec(ctx, op)
						ok = o.Success
					}
					if ok != c.want {
						run.Fail(ev.Finding{Clause: "alphabet-sanity", Detail: fmt.Sprintf("%v: success=%v, built to give %v", c.path, ok, c.want), Replay: map[string]interface{}{"path": c.path}})
					}
					run.Count("vesting_sanity_cases", 1)
				}
			}
		}
		if shard == 0 {
			// determinism self-check: a sample path replays to the same verdict twice
			p := c10Path{full[0], full[len(full)/2]}
			a, b := cw.runPath(p, true), cw.runPath(p, true)
			if len(a) != len(b) {
				fmt.Fprintln(os.Stderr, "HARNESS-NONDETERMINISM in C10")
				os.Exit(2)
			}
		}
	})
	var desc []string
	for _, sr := range searches {
		desc = append(desc, fmt.Sprintf("%s (%d ops) to depth %d", sr.name, len(sr.alpha), sr.depth))
	}
	run.Coverage["states"] = run.NumDistinct() + 1
	run.Coverage["traces_validated_against_impl"] = int(run.Counter("transitions"))
	if _, ok := run.Coverage["exhaustive"]; !ok {
		run.Coverage["exhaustive"] = true
	}
	run.Coverage["rule"] = "BFS over branch states (CacheContext tree) of a world with two ERC-20 precompiles (wei, utwo), holders A=3 B=1, forwarder contract C, and four vesting-account holders V1 delayed / V2 continuous mid-schedule / V3 periodic after its first period / V4 permanently locked, each with 3 coins of both denominations of which the SDK's LockedCoins(block time) keeps 2 locked (tracked holders in every search: balanceOf is compared with the bank balance for all of them in every distinct state; the fee-collector and cpc module accounts are tracked too); alphabets: vest = 2 tokens × 4 vesting holders × {A transfers 1 to V, bank send A→V 1, V transfers 1|2|4 to B, V burns 1|2, bank send V→B 1|2, V approves B 2, B transferFrom V 1|2, B burnFrom V 2} with reference: succeeds iff amount <= balance − locked; full = 2 tokens × callers {A,B,C by CALL,C by DELEGATECALL} × transfer/transferFrom/approve/burn/burnFrom × addresses {A,B,C,0,fee collector,E = holder of utwo only with sequence 0,the token contracts themselves} × amounts {0,1,2,4,2^256−1} + native bank sends; reduced = 3 callers × amounts {1,2,max} × addresses {A,B,0}; tiny = approve(1|max)/transferFrom/burnFrom/transfer between A and B on both tokens. Searches: " + strings.Join(desc, "; ") + ". Batch pass: multicall contract D (2 of each token) makes 2 (thorough: also 3) precompile calls inside one message, after prefixes {none, A approves D 2 on T0, A approves D max on T1}: all ordered pairs over an 18-call alphabet; the log list read at the end of the message must hold exactly one matching log per successful call, in order. Sharded on the first operation; every view of both tokens and the bank keeper is compared with the reference in every distinct state. states = distinct canonical state keys"
	return run.Finish()
}
