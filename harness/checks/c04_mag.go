package checks

import (
	"fmt"
	"math/big"
	"sort"

	"verif/harness/ev"
)

// ---------------------------------------------------------------------------------------------------------------------
// C04, magnitude dimension: how MUCH money a tx moves is an alphabet dimension of its own. The amounts of the basic alphabet
// (base fee 1 gwei x at most 6M gas, values of a few wei, wallets of 2e18) never leave the range of a 64-bit integer; here the
// fee paid (gas used x price), the fee taken up-front (gas limit x price), the refund of unused gas ((limit - used) x price) and
// the transferred value are each placed just below / at / just above the integer-width boundaries 2^63, 2^64, 2^96, 2^128,
// with wallets funded so that the txs are affordable. The ledger oracle (c04Oracle) is unchanged: it recomputes every amount
// with big integers from the tx fields and the receipts.
// ---------------------------------------------------------------------------------------------------------------------

// c04MagBoundaries are the widths an amount may silently be cut to: int64, uint64, 96 bits (uint64 + uint32, 12-byte fields), 128 bits.
var c04MagBoundaries = []uint{63, 64, 96, 128}

// c04MagWallet funds every wallet of a magnitude world (per denom): 2^160 makes every fee and value of the alphabet affordable
// (the largest fee is about 2^146) and keeps the total supply far below the 256-bit limit of the bank module.
var c04MagWallet = pow2(160)

// c04MagKinds are the behaviours the amounts are applied to: plain transfer, storage write, storage clear (refund counter),
// revert, out of gas, INVALID (consumes any limit completely), contract creation.
var c04MagKinds = []TxKind{KTransfer, KSstore, KSclear, KLogRevert, KOutOfGas, KInvalid, KCreateOK}

const c04MagBigLimit = 6_000_000

// c04MagFixedPrices: gas prices that are large by themselves (legacy txs): 1e15, 2^44, 2^70.
func c04MagFixedPrices() []*big.Int {
	return []*big.Int{new(big.Int).Exp(big.NewInt(10), big.NewInt(15), nil), pow2(44), pow2(70)}
}

// c04MagValues are the transferred amounts: around 2^63, 2^64, 2^128 and 2^96, and the whole wallet (not affordable together with a fee).
func c04MagValues() []*big.Int {
	one := big.NewInt(1)
	return []*big.Int{
		new(big.Int).Sub(pow2(63), one), pow2(63),
		new(big.Int).Sub(pow2(64), one), pow2(64), new(big.Int).Add(pow2(64), one),
		pow2(96),
		new(big.Int).Sub(pow2(128), one), pow2(128), new(big.Int).Add(pow2(128), one),
		new(big.Int).Set(c04MagWallet),
	}
}

// c04MagPilot is what the magnitude alphabet needs to know about a kind: gas used with a comfortable limit, the smallest limit
// with that same outcome (peak: above `used` when the refund counter gives gas back) and gas used with the big limit.
type c04MagPilot struct {
	used, peak, usedBig uint64
}

func c04MagPilots(used map[TxKind]uint64) map[TxKind]c04MagPilot {
	out := map[TxKind]c04MagPilot{}
	probe := func(k TxKind, g uint64) (string, uint64) {
		_, bl := ledgerRun(ledgerCase{MaxGas: 40_000_000, Blocks: [][]TxSpec{{{Kind: k, Sender: 0, Fee: FLegacyB, GasLimit: g}}}})
		t := bl[0].Txs[0]
		if t.Rc != nil && t.Rc.HasReceipt {
			return t.Class, t.Rc.GasUsed
		}
		return t.Class, g
	}
	for _, k := range c04MagKinds {
		u, ok := used[k]
		if !ok {
			panic("no pilot for " + k)
		}
		p := c04MagPilot{used: u, peak: u}
		ref, _ := probe(k, 0)
		if cl, _ := probe(k, u); cl != ref {
			// smallest limit in (used, default] that gives the outcome of the default limit
			lo, hi := u, DefaultGas(k)
			for lo+1 < hi {
				mid := lo + (hi-lo)/2
				if cl, _ := probe(k, mid); cl == ref {
					hi = mid
				} else {
					lo = mid
				}
			}
			p.peak = hi
		}
		_, p.usedBig = probe(k, c04MagBigLimit)
		out[k] = p
	}
	return out
}

// predictedUsed is the gas the pilot expects the kind to use with limit g (only steers the choice of prices; the oracle and the
// coverage counters work with the observed receipts).
func (p c04MagPilot) predictedUsed(g uint64) uint64 {
	switch {
	case g == c04MagBigLimit:
		return p.usedBig
	case g >= p.peak:
		return p.used
	}
	return g // below the peak the execution runs out of gas and everything is used
}

// limits: used == limit, limit = used+1, the peak (refund counter pays back: limit > used although nothing was left over during
// execution), peak+1, large unused gas.
func (p c04MagPilot) limits() []uint64 {
	var out []uint64
	seen := map[uint64]bool{}
	for _, g := range []uint64{p.used, p.used + 1, p.peak, p.peak + 1, c04MagBigLimit} {
		if !seen[g] {
			seen[g] = true
			out = append(out, g)
		}
	}
	return out
}

// c04MagBoundaryPrices: for every boundary B and every gas quantity q of the tx (limit, used, unused) the two prices that put
// q x price just at-or-below and just above B: floor(B/q) and floor(B/q)+1. With q = 1 (limit = used+1) the refund is exactly B, B+1.
func c04MagBoundaryPrices(limit, used uint64, boundaries []uint, quantities string) []*big.Int {
	var out []*big.Int
	seen := map[string]bool{}
	qs := map[byte]uint64{'l': limit, 'u': used}
	if limit > used {
		qs['r'] = limit - used
	}
	for _, b := range boundaries {
		for i := 0; i < len(quantities); i++ {
			q := qs[quantities[i]]
			if q == 0 {
				continue
			}
			lo := new(big.Int).Div(pow2(b), new(big.Int).SetUint64(q))
			for _, p := range []*big.Int{lo, new(big.Int).Add(lo, big.NewInt(1))} {
				if p.Cmp(Gwei) < 0 || seen[p.String()] { // below the base fee of the worlds: not a valid price
					continue
				}
				seen[p.String()] = true
				out = append(out, p)
			}
		}
	}
	return out
}

// c04MagDynForms: dynamic-fee shapes that pay (or claim) the price x: tip == cap == x; cap 2x with tip x - b (the tip decides, the
// effective price is exactly x); huge cap x with tip 1 wei (the tx is charged b+1 while its fee field says x per gas); and the
// vice versa shape, tip x above a cap of b (not a valid tx).
func c04MagDynForms(x, b *big.Int) []FeeKind {
	out := []FeeKind{FAbsDyn(x, x)}
	if x.Cmp(b) > 0 {
		out = append(out, FAbsDyn(new(big.Int).Lsh(x, 1), new(big.Int).Sub(x, b)))
	}
	out = append(out, FAbsDyn(x, big.NewInt(1)), FAbsDyn(b, x))
	return out
}

func c04MagCase(maxGas int64, warm, rich bool, txs ...TxSpec) ledgerCase {
	c := ledgerCase{MaxGas: maxGas, Warm: warm, Blocks: [][]TxSpec{txs}}
	if rich {
		c.WalletBalance = c04MagWallet.String()
	}
	return c
}

// c04MagCases enumerates the magnitude part of C04. b is the base fee of the worlds (1 gwei).
func c04MagCases(thorough bool, used map[TxKind]uint64) []ledgerCase {
	b := Gwei
	pilots := c04MagPilots(used)
	var cases []ledgerCase
	type magWorld struct {
		maxGas int64
		warm   bool
	}
	worlds := []magWorld{{40_000_000, false}}
	if thorough {
		worlds = []magWorld{{40_000_000, false}, {40_000_000, true}, {100_000, false}}
	}

	// (1) single-tx blocks, legacy price: kinds x limits x (fixed prices + boundary prices of limit / used / unused gas)
	// (2) the same with the dynamic-fee shapes of a price (quick: of the fixed prices 2^44, 2^70 and the prices that put the fee
	//     taken up-front and the refund just above 2^64, and the fee up-front just above 2^128; thorough: of every price)
	for _, wd := range worlds {
		for _, k := range c04MagKinds {
			p := pilots[k]
			for _, g := range p.limits() {
				pu := p.predictedUsed(g)
				prices := append(c04MagFixedPrices(), c04MagBoundaryPrices(g, pu, c04MagBoundaries, "lur")...)
				for _, x := range prices {
					cases = append(cases, c04MagCase(wd.maxGas, wd.warm, true, TxSpec{Kind: k, Sender: 0, Fee: FAbsLegacy(x), GasLimit: g}))
				}
				dynPrices := prices
				if !thorough {
					dynPrices = append([]*big.Int{pow2(44), pow2(70)}, c04MagBoundaryPrices(g, pu, []uint{64}, "lr")...)
					dynPrices = append(dynPrices, c04MagBoundaryPrices(g, pu, []uint{128}, "l")[1:]...)
				}
				for _, x := range dynPrices {
					for _, f := range c04MagDynForms(x, b) {
						cases = append(cases, c04MagCase(wd.maxGas, wd.warm, true, TxSpec{Kind: k, Sender: 0, Fee: f, GasLimit: g}))
					}
				}
			}
		}
	}

	// (3) values: kinds x values x {normal price, 2^70 (thorough: + the dynamic shape "tip decides" of the price that puts the
	//     refund just above 2^64)} x limits {peak+1, big} (thorough: all limits)
	for _, k := range c04MagKinds {
		p := pilots[k]
		limits := []uint64{p.peak + 1, c04MagBigLimit}
		if thorough {
			limits = p.limits()
		}
		for _, g := range limits {
			fees := []FeeKind{FLegacyB, FAbsLegacy(pow2(70))}
			if thorough {
				if bp := c04MagBoundaryPrices(g, p.predictedUsed(g), []uint{64}, "r"); len(bp) > 0 {
					fees = append(fees, c04MagDynForms(bp[len(bp)-1], b)[1])
				}
			}
			for _, f := range fees {
				for _, v := range c04MagValues() {
					cases = append(cases, c04MagCase(40_000_000, false, true, TxSpec{Kind: k, Sender: 0, Fee: f, GasLimit: g, Value: v.String()}))
				}
			}
		}
	}

	// (4) the same prices against the default wallets (2e18 wei = 2^60.8): most of the fees are not affordable, the tx must then
	//     leave the ledger alone (quick: transfer; thorough: every kind)
	poorKinds := []TxKind{KTransfer}
	if thorough {
		poorKinds = c04MagKinds
	}
	for _, k := range poorKinds {
		p := pilots[k]
		for _, g := range []uint64{p.peak + 1, c04MagBigLimit} {
			pu := p.predictedUsed(g)
			for _, x := range append(c04MagFixedPrices(), c04MagBoundaryPrices(g, pu, c04MagBoundaries, "lur")...) {
				cases = append(cases, c04MagCase(40_000_000, false, false, TxSpec{Kind: k, Sender: 0, Fee: FAbsLegacy(x), GasLimit: g}))
			}
		}
	}

	// (5) two-tx blocks: (element of the pair alphabet)^2 x {same, different sender}
	elems := c04MagPairAlphabet(thorough, pilots, b)
	for _, e1 := range elems {
		for _, e2 := range elems {
			for _, s2 := range []int{1, 0} {
				e2.Sender = s2
				cases = append(cases, c04MagCase(40_000_000, false, true, e1, e2))
			}
		}
	}
	return cases
}

// c04MagPairAlphabet: the txs combined in two-tx blocks. Quick: one or two hand-picked shapes per kind, so that every amount class
// (fee / refund / value beyond 2^64, refund exactly 2^64, refund-counter refund beyond 2^64, nothing unusual, refused tx) meets every
// other one in a block. Thorough: those and kinds x {refund just above 2^64 (legacy), 2^70 as "tip decides" dynamic shape with value 2^64+1,
// fee up-front just above 2^128 with tip == cap} x limits {peak+1, big}.
func c04MagPairAlphabet(thorough bool, pilots map[TxKind]c04MagPilot, b *big.Int) []TxSpec {
	last := func(k TxKind, g uint64, boundary uint, q string) *big.Int {
		bp := c04MagBoundaryPrices(g, pilots[k].predictedUsed(g), []uint{boundary}, q)
		if len(bp) == 0 { // no unused gas expected (the kind consumes any limit): let the fee taken up-front cross the boundary instead
			bp = c04MagBoundaryPrices(g, pilots[k].predictedUsed(g), []uint{boundary}, "l")
		}
		return bp[len(bp)-1]
	}
	v64 := new(big.Int).Add(pow2(64), big.NewInt(1)).String()
	if thorough {
		out := c04MagPairAlphabet(false, pilots, b)
		for _, k := range c04MagKinds {
			for _, g := range []uint64{pilots[k].peak + 1, c04MagBigLimit} {
				out = append(out,
					TxSpec{Kind: k, Fee: FAbsLegacy(last(k, g, 64, "r")), GasLimit: g},
					TxSpec{Kind: k, Fee: c04MagDynForms(pow2(70), b)[1], GasLimit: g, Value: v64},
					TxSpec{Kind: k, Fee: FAbsDyn(last(k, g, 128, "l"), last(k, g, 128, "l")), GasLimit: g},
				)
			}
		}
		return out
	}
	big6 := uint64(c04MagBigLimit)
	tr, sc, cr := pilots[KTransfer], pilots[KSclear], pilots[KCreateOK]
	return []TxSpec{
		{Kind: KTransfer, Fee: FLegacyB, GasLimit: tr.used},                                                                    // nothing unusual
		{Kind: KTransfer, Fee: FAbsLegacy(last(KTransfer, big6, 64, "r")), GasLimit: big6},                                     // refund just above 2^64
		{Kind: KTransfer, Fee: FAbsLegacy(pow2(64)), GasLimit: tr.used + 1},                                                    // refund exactly 2^64
		{Kind: KTransfer, Fee: FLegacyB, GasLimit: tr.used + 1, Value: pow2(64).String()},                                      // value 2^64
		{Kind: KSstore, Fee: FAbsLegacy(pow2(70)), GasLimit: pilots[KSstore].used + 1},                                         // price 2^70
		{Kind: KSclear, Fee: FAbsLegacy(last(KSclear, sc.peak, 64, "r")), GasLimit: sc.peak},                                   // refund-counter refund just above 2^64
		{Kind: KLogRevert, Fee: c04MagDynForms(pow2(70), b)[1], GasLimit: big6, Value: pow2(128).String()},                     // revert gives 2^128 back
		{Kind: KOutOfGas, Fee: FAbsLegacy(last(KOutOfGas, pilots[KOutOfGas].used, 64, "l")), GasLimit: pilots[KOutOfGas].used}, // fee just above 2^64, no refund
		{Kind: KInvalid, Fee: FAbsLegacy(c04MagFixedPrices()[0]), GasLimit: big6},                                              // 6M x 1e15 consumed
		{Kind: KCreateOK, Fee: FAbsDyn(last(KCreateOK, big6, 96, "r"), last(KCreateOK, big6, 96, "r")), GasLimit: big6, Value: v64},
		{Kind: KCreateOK, Fee: FAbsLegacy(last(KCreateOK, cr.used+1, 128, "l")), GasLimit: cr.used + 1}, // fee up-front just above 2^128
		{Kind: KSstore, Fee: FAbsDyn(pow2(128), big.NewInt(1)), GasLimit: big6},                         // huge cap, tip 1
		{Kind: KTransfer, Fee: FAbsDyn(b, pow2(70)), GasLimit: tr.used + 1},                             // tip above cap
	}
}

// c04IsMagCase tells whether the case belongs to the magnitude part (funded wallets, absolute fee fields or an explicit value).
func c04IsMagCase(c ledgerCase) bool {
	if c.WalletBalance != "" {
		return true
	}
	for _, blk := range c.Blocks {
		for _, s := range blk {
			if _, _, _, abs := s.Fee.Absolute(); abs || s.Value != "" {
				return true
			}
		}
	}
	return false
}

// c04MagBucket names the width class of an amount.
func c04MagBucket(x *big.Int) string {
	switch {
	case x.Sign() == 0:
		return "zero"
	case x.BitLen() <= 63:
		return "lt2^63"
	case x.BitLen() <= 64:
		return "lt2^64"
	case x.Cmp(pow2(64)) == 0:
		return "eq2^64"
	case x.BitLen() <= 96:
		return "lt2^96"
	case x.BitLen() <= 128:
		return "lt2^128"
	}
	return "ge2^128"
}

// c04MagObserve counts, from the observed receipts, in which width class the amounts of every executed tx fall (non-vacuity of the
// magnitude alphabet), and holds the alphabet to its own claim: in a funded world every valid tx is admitted, whatever its price.
func c04MagObserve(run *ev.Run, c ledgerCase, blocks []*blockObs) (out []ev.Finding) {
	run.Count("magnitude_cases", 1)
	for bi, blk := range blocks {
		if blk.Panic != "" || blk.Err != nil {
			return
		}
		nonceGap := map[int]bool{} // senders with an earlier tx of the block that was not admitted: their later nonces are ahead
		for i := range blk.Txs {
			t := &blk.Txs[i]
			if t.Eth == nil || !t.Spec.Kind.IsEth() {
				continue
			}
			validFee := true
			if dyn, feeCap, tip, ok := t.Spec.Fee.Absolute(); ok && dyn && tip.Cmp(feeCap) > 0 {
				validFee = false
			}
			if t.Class == "not-admitted" {
				run.Count("magnitude_txs_not_admitted", 1)
				gap := nonceGap[t.Spec.Sender]
				nonceGap[t.Spec.Sender] = true
				if c.WalletBalance != "" && validFee && !gap && int64(t.Eth.Gas()) <= c.MaxGas {
					out = append(out, ev.Finding{Clause: "alphabet-sanity", Replay: c,
						Detail: fmt.Sprintf("block %d tx %d (%s) of a funded world (wallets hold %s) was not admitted: code=%d log=%.200q", bi, i, t.Spec, c.WalletBalance, t.Code, t.Log)})
				}
				continue
			}
			p := price(t, blk.BaseFee)
			limit := new(big.Int).SetUint64(t.Eth.Gas())
			usedGas := limit
			if t.Class != "failed-after-admission" {
				usedGas = new(big.Int).SetUint64(t.Rc.GasUsed)
			}
			fee := new(big.Int).Mul(usedGas, p)
			refund := new(big.Int).Mul(new(big.Int).Sub(limit, usedGas), p)
			run.Count("magnitude_txs_"+t.Class, 1)
			run.Count("magnitude_fee_paid_"+c04MagBucket(fee), 1)
			run.Count("magnitude_fee_upfront_"+c04MagBucket(new(big.Int).Mul(limit, p)), 1)
			run.Count("magnitude_refund_"+c04MagBucket(refund), 1)
			if refund.Sign() > 0 && new(big.Int).And(refund, new(big.Int).Sub(pow2(64), big.NewInt(1))).Sign() == 0 {
				run.Count("magnitude_refund_multiple_of_2^64", 1)
			}
			if t.Class == "committed-ok" {
				run.Count("magnitude_value_moved_"+c04MagBucket(t.Eth.Value()), 1)
			} else if t.Eth.Value().Sign() > 0 {
				run.Count("magnitude_value_not_moved_"+c04MagBucket(t.Eth.Value()), 1)
			}
		}
	}
	return
}

// c04MagRule describes the bounds of the magnitude part for the evidence.
func c04MagRule(thorough bool) string {
	var vals []string
	for _, v := range c04MagValues() {
		vals = append(vals, v.String())
	}
	sort.Strings(vals)
	return fmt.Sprintf("; magnitude part (wallets funded with 2^160 per denom, 40M world%s): single-tx blocks of %d kinds %v x gas limits {used, used+1, peak = smallest limit that succeeds, peak+1, 6M} x legacy prices {1e15, 2^44, 2^70} + {floor(B/q), floor(B/q)+1 : B in 2^{63,64,96,128}, q in {limit, used, unused gas}}; dynamic-fee shapes {tip == cap == x, cap 2x with tip x-b, cap x with tip 1 wei, tip x above cap b} of %s; values {2^63-1, 2^63, 2^64-1, 2^64, 2^64+1, 2^96, 2^128-1, 2^128, 2^128+1, whole wallet} x kinds x %s; the legacy prices against default wallets of 2e18 (%s); two-tx blocks (%s)^2 x {same, different sender}. Amount classes reached are counted from the receipts (coverage keys magnitude_*)",
		map[bool]string{false: "", true: ", also after a warm-up block and in the 100k world"}[thorough],
		len(c04MagKinds), c04MagKinds,
		map[bool]string{false: "x in {2^44, 2^70, fee up-front / refund just around 2^64, fee up-front just above 2^128}", true: "every such price"}[thorough],
		map[bool]string{false: "prices {base fee, 2^70} x limits {peak+1, 6M}", true: "prices {base fee, 2^70, refund just above 2^64 as dynamic fee} x all limits"}[thorough],
		map[bool]string{false: "transfer", true: "all kinds"}[thorough],
		map[bool]string{false: "13 hand-picked shapes covering every amount class", true: "the 13 shapes of the quick tier + kinds x 3 fee shapes x limits {peak+1, 6M} = 55 shapes"}[thorough])
}
