package checks

// C15 — lifecycle product for the last sentence of the property: "Accounts that are deleted (self-destructed contracts,
// touched empty accounts) are removed completely: account record, balances of every denomination, code hash and all storage."
//
// Product  how the account came to exist × what it did before dying × how it dies × what happens afterwards, every case
// executed on the real application at two levels:
//
//	tx   complete transactions through FinalizeBlock + Commit, one fresh application per case, oracle after every block;
//	evm  the same programs through the real NewStateDB + NewEVM + evm.Call / evm.Create + CommitMultiStore on a CacheContext
//	     branch of one application (evmkit.go CallEVM), oracle after every message.
//
// Programs are straight-line scripts executed by a universal executor contract F (it deploys its call data as a contract and
// DELEGATECALLs it, so the script runs as F: CREATE / CREATE2 / CALL come from F's address and spend F's balance). The subject
// account X is the contract created by F (CREATE, CREATE2), by a top-level creation transaction, installed at genesis (at the
// CREATE2 address of F, so that it can be re-created), or an empty genesis base account.
//
// Oracle: a small reference model of X (exists, nonce, code, storage, balances, self-destructed / touched flags, frame snapshots)
// interprets the same plan; after every committed block (evm level: message) X is read directly from the KV stores / keepers — auth
// account, all bank balances, raw code-hash entry, raw iteration of X's storage prefix in the x/evm store, raw scan of the auth /
// bank / evm stores for X's address bytes — and compared with the model. A deleted X must have left nothing; a re-created X must
// observe zero in every slot an earlier incarnation (or the genesis) wrote: its init code returns SLOAD(1), SLOAD(2), SLOAD(3) as
// its runtime code. Everything that is not X goes through c15Oracle (the protections: nothing else changed), F and the beneficiary
// additionally through exact accounting. Orphaned code blobs keyed by code hash are not part of the oracle.

import (
	"bytes"
	"encoding/hex"
	"encoding/json"
	"fmt"
	"math/big"
	"sort"
	"strings"

	storetypes "cosmossdk.io/store/types"
	sdk "github.com/cosmos/cosmos-sdk/types"
	authtypes "github.com/cosmos/cosmos-sdk/x/auth/types"
	banktypes "github.com/cosmos/cosmos-sdk/x/bank/types"
	"github.com/ethereum/go-ethereum/common"
	ethtypes "github.com/ethereum/go-ethereum/core/types"
	corevm "github.com/ethereum/go-ethereum/core/vm"
	ethcrypto "github.com/ethereum/go-ethereum/crypto"

	evmtypes "github.com/EscanBE/evermint/v12/x/evm/types"
	evmvm "github.com/EscanBE/evermint/v12/x/evm/vm"

	"verif/harness/asm"
	"verif/harness/ev"
	"verif/harness/world"
)

// ---------------------------------------------------------------------------
// alphabets
// ---------------------------------------------------------------------------

// c15Life is one case of the lifecycle product (and its replay value).
type c15Life struct {
	Life   bool   `json:"life"` // marks the replay value as a lifecycle case
	Level  string `json:"level"`
	Origin string `json:"origin"`
	Act    string `json:"act"`
	Death  string `json:"death"`
	After  string `json:"after"`
	Ben    string `json:"ben,omitempty"` // SELFDESTRUCT beneficiary: "" = the fresh address B, "self" = the dying contract itself
}

func (c c15Life) id() string {
	s := fmt.Sprintf("%s|%s|%s|%s|%s", c.Level, c.Origin, c.Act, c.Death, c.After)
	if c.Ben != "" {
		s += "|ben=" + c.Ben
	}
	return s
}

var c15LifeLevels = []string{"tx", "evm"}

// how the account came to exist
//
//	genesis   contract with code, two storage slots and two denominations installed at genesis
//	earlier   created by CREATE2 in an earlier block
//	create    created by CREATE in the transaction under test
//	create2   created by CREATE2 in the transaction under test
//	toplevel  created by a top-level creation transaction
//	empty     an empty base account (zero sequence, no balance) installed at genesis
var c15LifeOrigins = []string{"genesis", "earlier", "create", "create2", "toplevel", "empty"}

// what it did (what happened to it) before dying
//
//	none        nothing
//	sstore-init SSTORE of two slots in the init code
//	sstore-run  SSTORE of two slots in the runtime code
//	sstore-many SSTORE of twelve slots in the init code (when there is one) and twelve other values in the runtime code (when it runs)
//	paid        received value after / at its creation: native (CREATE value or CALL value) and, when a transaction slot exists
//	            before the death, utwo + native through a bank MsgSend
//	prefund     the address received native (plain transaction) and utwo (bank MsgSend) BEFORE the contract was created there
//	            (= a code-less address that only received value)
//	pre-empty   an empty base account exists at the address before the contract is created there
//	log         emitted a log (init code when there is one, else runtime code)
//	all         everything above that is feasible for the case
var c15LifeActsQuick = []string{"none", "sstore-init", "sstore-run", "sstore-many", "paid", "prefund", "pre-empty", "all"}
var c15LifeActsThorough = []string{"none", "sstore-init", "sstore-run", "sstore-many", "paid", "prefund", "pre-empty", "log", "all"}

// SELFDESTRUCT beneficiary: the fresh address B, or the dying contract itself (its balance is burnt)
var c15LifeBensQuick = []string{"", "self"} // quick tier: "self" only with afterwards ∈ c15LifeSelfAftersQuick
var c15LifeSelfAftersQuick = map[string]bool{"nothing": true, "recreate-next": true}
var c15LifeBensThorough = []string{"", "self"}

// how it dies
//
//	sd-init           SELFDESTRUCT in the init code
//	sd-init-refund    the same, then the creator sends value to the address in the same transaction
//	sd-run            SELFDESTRUCT in the runtime code, in the creating transaction (genesis / earlier: in the transaction that
//	                  also performs the activity)
//	sd-run-refund     the same, then the caller sends value to the address in the same transaction
//	sd-run-noise      as sd-run, then a sub-frame of the same transaction pays the address and reverts (the committed SELFDESTRUCT
//	                  must survive the revert of a later frame)
//	sd-later          SELFDESTRUCT in the runtime code by a later top-level transaction of the same block
//	sd-nextblock      the same in the next block
//	sd-reverted-init  creation with SELFDESTRUCT in the init code inside a sub-frame that reverts: the address must stay as it was
//	sd-reverted-run   SSTORE + SELFDESTRUCT in the runtime code inside a sub-frame that reverts: the contract must stay as it was
//	sd-reverted-init-call / sd-reverted-run-call  the same, and after the reverted sub-frame the same transaction makes a committed
//	                  zero-value CALL to the address (it is touched again while the reverted SELFDESTRUCT must stay forgotten)
//	touch             zero-value CALL to the empty account
//	touch-reverted    the same inside a sub-frame that reverts
var c15LifeDeaths = []string{"sd-init", "sd-init-refund", "sd-run", "sd-run-refund", "sd-run-noise", "sd-later", "sd-nextblock", "sd-reverted-init", "sd-reverted-run",
	"sd-reverted-init-call", "sd-reverted-run-call", "touch", "touch-reverted"}

// what happens afterwards
//
//	nothing
//	recreate-same    CREATE2 at the same address by a later transaction of the block of the death; the init code returns the old slots
//	recreate-next    the same in the next block
//	transfer         plain value transfer to the address (later transaction of the same block)
//	touch            zero-value transaction to the address
//	relive-same      a second life at the same address: CREATE2 of the same init code (normal branch), the same activity and the same
//	                 death again, starting in the block of the first death; then, in the next block, the re-creation that returns the old slots
//	relive-next      the same, the second life starting in the next block
var c15LifeAftersQuick = []string{"nothing", "recreate-same", "recreate-next", "transfer", "touch", "relive-next"}
var c15LifeAftersThorough = []string{"nothing", "recreate-same", "recreate-next", "transfer", "touch", "relive-same", "relive-next"}

func c15LifeCases(thorough bool) []c15Life {
	acts, afters, bens := c15LifeActsQuick, c15LifeAftersQuick, c15LifeBensQuick
	if thorough {
		acts, afters, bens = c15LifeActsThorough, c15LifeAftersThorough, c15LifeBensThorough
	}
	var out []c15Life
	for _, lvl := range c15LifeLevels {
		for _, ben := range bens {
			for _, o := range c15LifeOrigins {
				for _, a := range acts {
					for _, d := range c15LifeDeaths {
						for _, f := range afters {
							if !thorough && ben == "self" && !c15LifeSelfAftersQuick[f] {
								continue
							}
							c := c15Life{Life: true, Level: lvl, Origin: o, Act: a, Death: d, After: f, Ben: ben}
							if _, why := c15LifeBuildPlan(c); why == "" {
								out = append(out, c)
							}
						}
					}
				}
			}
		}
	}
	return out
}

// ---------------------------------------------------------------------------
// addresses, constants, contracts
// ---------------------------------------------------------------------------

var (
	c15LifeF      = common.HexToAddress("0x00000000000000000000000000000000c15f0001") // universal script executor, 1000 base at genesis
	c15LifeB      = common.HexToAddress("0x00000000000000000000000000000000c15b0b01") // SELFDESTRUCT beneficiary, absent at genesis
	c15LifeEmptyX = common.HexToAddress("0x00000000000000000000000000000000c15e0001") // origin "empty"
)

const (
	c15LifeObserver  = 7      // CALLVALUE that selects the observer branch of the init code
	c15LifeDead      = 0xdead // call-data word that makes the runtime code SELFDESTRUCT(B)
	c15LifeDeadSelf  = 0xdeaf // call-data word that makes the runtime code SELFDESTRUCT(ADDRESS)
	c15LifePokeStore = 1      // call-data word: SSTORE the two slots
	c15LifePokeLog   = 2      // call-data word: LOG1
	c15LifePokeMany  = 3      // call-data word: SSTORE twelve slots
	c15LifeManySlots = 12
	c15LifeFFunds    = 1000
	c15LifeSalt      = 0x15
	c15LifeScriptGas = 3_000_000
	c15LifeCallGas   = 300_000
	c15LifeDeployGas = 1_000_000
	c15LifeBankGas   = 200_000
)

var (
	c15LifeWatch      = []uint64{1, 2, 3}                 // slots the observer incarnation reads
	c15LifeSlots      = [][2]uint64{{1, 0x2a}, {3, 0x2b}} // written by the init / runtime code
	c15LifeGenStorage = map[uint64]uint64{1: 7, 2: 9}     // storage of the genesis incarnation
	c15LifeGenCoins   = c15Coins(1000, 5, 0)              // balances of the genesis incarnation
	c15LifePrice      = big.NewInt(1_000_000_000)         // gas price of every transaction
)

// c15LifeInit selects what the init code does in its normal (non-observer) branch.
type c15LifeInit struct {
	Sstore bool
	Many   bool // SSTORE slots 1..12 := 0x100+k
	Log    bool
	SD     bool
	Self   bool // SELFDESTRUCT(ADDRESS) instead of SELFDESTRUCT(B)
}

// c15LifeRuntime is the runtime code of every incarnation of X:
//
//	no call data      STOP (accepts value)
//	word 1            SSTORE the two slots
//	word 2            LOG1
//	word 3            SSTORE slots 1..12 := 0x200+k
//	word 0xdead       SELFDESTRUCT(B)
//	word 0xdeaf       SELFDESTRUCT(ADDRESS)
func c15LifeRuntime() []byte {
	p := asm.NewProg()
	p.Op(asm.CALLDATASIZE, asm.ISZERO)
	p.JumpIf("end")
	p.PushU(0).Op(asm.CALLDATALOAD)
	p.Op(asm.DUP1).PushU(c15LifePokeStore).Op(asm.EQ)
	p.JumpIf("store")
	p.Op(asm.DUP1).PushU(c15LifePokeLog).Op(asm.EQ)
	p.JumpIf("log")
	p.Op(asm.DUP1).PushU(c15LifePokeMany).Op(asm.EQ)
	p.JumpIf("many")
	p.Op(asm.DUP1).PushU(c15LifeDead).Op(asm.EQ)
	p.JumpIf("die")
	p.Op(asm.DUP1).PushU(c15LifeDeadSelf).Op(asm.EQ)
	p.JumpIf("dieself")
	p.Label("end")
	p.Op(asm.STOP)
	p.Label("store")
	for _, s := range c15LifeSlots {
		p.Sstore(s[0], s[1])
	}
	p.Op(asm.STOP)
	p.Label("log")
	p.Log1(0x12)
	p.Op(asm.STOP)
	p.Label("many")
	for k := uint64(1); k <= c15LifeManySlots; k++ {
		p.Sstore(k, 0x200+k)
	}
	p.Op(asm.STOP)
	p.Label("die")
	p.SelfDestruct(c15LifeB)
	p.Label("dieself")
	p.Op(asm.ADDRESS, asm.SELFDESTRUCT)
	return p.Assemble()
}

// c15LifeObserverCode is what the observer incarnation installs as its code on a blank account: one zero word per watched slot.
func c15LifeObserverCode() []byte { return make([]byte, 32*len(c15LifeWatch)) }

// c15LifeInitCode: CALLVALUE == 7 → return SLOAD(watch…) as the runtime code; otherwise the activity, then SELFDESTRUCT(B) or
// return the runtime code.
func c15LifeInitCode(iv c15LifeInit) []byte {
	p := asm.NewProg()
	p.Op(asm.CALLVALUE).PushU(c15LifeObserver).Op(asm.EQ, asm.ISZERO)
	p.JumpIf("main")
	for i, k := range c15LifeWatch {
		p.PushU(k).Op(asm.SLOAD).PushU(uint64(32 * i)).Op(asm.MSTORE)
	}
	p.PushU(uint64(32 * len(c15LifeWatch))).PushU(0).Op(asm.RETURN)
	p.Label("main")
	if iv.Sstore {
		for _, s := range c15LifeSlots {
			p.Sstore(s[0], s[1])
		}
	}
	if iv.Many {
		for k := uint64(1); k <= c15LifeManySlots; k++ {
			p.Sstore(k, 0x100+k)
		}
	}
	if iv.Log {
		p.Log1(0x11)
	}
	if iv.SD {
		if iv.Self {
			p.Op(asm.ADDRESS, asm.SELFDESTRUCT)
		} else {
			p.SelfDestruct(c15LifeB)
		}
		return p.Assemble()
	}
	return asm.InitCodeWith(p.Assemble(), c15LifeRuntime())
}

// c15LifeExecutor is the code of F: deploy the call data as a contract S (init prefix "return everything after me") and
// DELEGATECALL it; revert when the script reverted.
func c15LifeExecutor() []byte {
	const P = 13
	// PUSH1 P; CODESIZE; SUB; DUP1; PUSH1 P; PUSH1 0; CODECOPY; PUSH1 0; RETURN
	prefix := []byte{asm.PUSH1, P, 0x38, asm.SUB, asm.DUP1, asm.PUSH1, P, asm.PUSH1, 0, asm.CODECOPY, asm.PUSH1, 0, asm.RETURN}
	if len(prefix) != P {
		panic("c15 life: executor prefix length")
	}
	c := asm.New()
	c.MstoreBytes(0, prefix)
	c.Op(asm.CALLDATASIZE).PushU(0).PushU(P).Op(asm.CALLDATACOPY)
	c.Op(asm.CALLDATASIZE).PushU(P).Op(asm.ADD).PushU(0).PushU(0).Op(asm.CREATE)
	c.PushU(0).PushU(0).PushU(0).PushU(0).Op(asm.DUP1+4).Op(asm.GAS, asm.DELEGATECALL)
	c.RevertIfZero()
	return c.Stop().Bytes()
}

// ---------------------------------------------------------------------------
// plans
// ---------------------------------------------------------------------------

type c15LifeStep struct {
	Op     string // create | create2 | callx | sub
	Value  uint64
	Word   uint64        // callx: call-data word, 0 = no call data
	Sub    []c15LifeStep // sub: steps of the sub-frame (a CALL of F to itself)
	Revert bool          // sub: the sub-frame ends with REVERT
}

type c15LifeTx struct {
	Kind  string // script | deploy | tox | bank
	Steps []c15LifeStep
	Value uint64 // deploy / tox: value; bank: base amount
	Word  uint64 // tox: call-data word
	Utwo  uint64 // bank: utwo amount
}

func (t c15LifeTx) String() string {
	switch t.Kind {
	case "script":
		return "script" + c15LifeStepsString(t.Steps)
	case "deploy":
		return fmt.Sprintf("deploy(value=%d)", t.Value)
	case "tox":
		return fmt.Sprintf("toX(value=%d,word=%#x)", t.Value, t.Word)
	case "bank":
		return fmt.Sprintf("bankSend(base=%d,utwo=%d)", t.Value, t.Utwo)
	}
	return "?"
}

func c15LifeStepsString(steps []c15LifeStep) string {
	var parts []string
	for _, s := range steps {
		switch s.Op {
		case "sub":
			end := "stop"
			if s.Revert {
				end = "REVERT"
			}
			parts = append(parts, "sub"+c15LifeStepsString(s.Sub)+end)
		case "callx":
			parts = append(parts, fmt.Sprintf("callX(value=%d,word=%#x)", s.Value, s.Word))
		default:
			parts = append(parts, fmt.Sprintf("%s(value=%d)", s.Op, s.Value))
		}
	}
	return "[" + strings.Join(parts, " ") + "]"
}

type c15LifePlan struct {
	Case         c15Life
	Init         c15LifeInit
	GenesisX     bool // X is installed at genesis as a contract
	GenesisEmpty bool // an empty base account is installed at genesis at X's address
	Blocks       [][]c15LifeTx
}

// c15LifeBuildPlan compiles a case into blocks of transactions; why != "" = the combination does not exist.
func c15LifeBuildPlan(c c15Life) (plan *c15LifePlan, why string) {
	in := func(s string, l ...string) bool {
		for _, x := range l {
			if s == x {
				return true
			}
		}
		return false
	}
	o, act, death, after := c.Origin, c.Act, c.Death, c.After
	all := act == "all"
	hasInit := in(o, "earlier", "create", "create2", "toplevel") // an init code runs in the plan
	thisTx := in(o, "create", "create2", "toplevel")             // created by the transaction under test
	recreatable := in(o, "genesis", "earlier", "create2")        // X sits at a CREATE2 address of F
	thenCall := in(death, "sd-reverted-init-call", "sd-reverted-run-call")
	if thenCall {
		death = strings.TrimSuffix(death, "-call")
	}
	sdInit := in(death, "sd-init", "sd-init-refund", "sd-reverted-init")
	touchDeath := in(death, "touch", "touch-reverted")

	// feasibility
	if !in(c.Ben, "", "self") || (c.Ben != "" && o == "empty") {
		return nil, "beneficiary"
	}
	if o == "empty" {
		if act != "none" || !touchDeath || !in(after, "nothing", "transfer", "touch") {
			return nil, "an empty base account has no activity, dies by a touch and sits at a fixed address"
		}
	} else if touchDeath {
		return nil, "only an empty account dies by a touch"
	}
	if sdInit && !thisTx {
		return nil, "SELFDESTRUCT in the init code needs a creation in the transaction under test"
	}
	if death == "sd-reverted-init" && o == "toplevel" {
		return nil, "a top-level creation has no enclosing frame"
	}
	if o == "toplevel" && in(death, "sd-init-refund", "sd-run", "sd-run-refund", "sd-run-noise") {
		return nil, "a top-level creation transaction cannot do anything after the creation"
	}
	if in(act, "sstore-init", "prefund", "pre-empty") && !hasInit {
		return nil, "needs a creation in the plan"
	}
	if act == "sstore-run" && sdInit {
		return nil, "a contract that dies in its init code never runs runtime code"
	}
	if in(after, "recreate-same", "recreate-next", "relive-same", "relive-next") && (!recreatable || death == "sd-reverted-run") {
		return nil, "re-creation needs a CREATE2 address of F that is free again"
	}

	p := &c15LifePlan{Case: c}
	p.Init = c15LifeInit{Sstore: hasInit && (act == "sstore-init" || all), Many: hasInit && act == "sstore-many", Log: hasInit && (act == "log" || all), SD: sdInit, Self: sdInit && c.Ben == "self"}
	dead := uint64(c15LifeDead)
	if c.Ben == "self" {
		dead = c15LifeDeadSelf
	}
	p.GenesisX = o == "genesis"
	p.GenesisEmpty = o == "empty" || act == "pre-empty"
	wantPrefund := hasInit && (act == "prefund" || all)
	wantPaid := act == "paid" || all
	wantStoreRun := (act == "sstore-run" || all) && !sdInit
	wantLogRun := (act == "log" || all) && !hasInit

	var cur []c15LifeTx
	closeBlock := func() {
		p.Blocks = append(p.Blocks, cur)
		cur = nil
	}
	script := func(steps ...c15LifeStep) c15LifeTx { return c15LifeTx{Kind: "script", Steps: steps} }
	callx := func(value, word uint64) c15LifeStep { return c15LifeStep{Op: "callx", Value: value, Word: word} }

	// 1. the address receives value before anything is created there
	if wantPrefund {
		cur = append(cur, c15LifeTx{Kind: "tox", Value: 5}, c15LifeTx{Kind: "bank", Value: 2, Utwo: 3})
	}
	// 2.–4. one life: creation, run-time activity, death
	life := func(o string) {
		createValue := uint64(0)
		if wantPaid && sdInit {
			createValue = 5
		}
		createOp := "create2"
		if o == "create" {
			createOp = "create"
		}
		create := c15LifeStep{Op: createOp, Value: createValue}
		switch o {
		case "earlier":
			cur = append(cur, script(create))
			closeBlock()
		case "toplevel":
			cur = append(cur, c15LifeTx{Kind: "deploy", Value: createValue})
		}
		viaScript := o == "create" || o == "create2" // the creation is a step of a script of the transaction under test
		// 3. run-time activity
		var acts []c15LifeStep
		if wantStoreRun {
			acts = append(acts, callx(0, c15LifePokeStore))
		}
		if act == "sstore-many" && !sdInit {
			acts = append(acts, callx(0, c15LifePokeMany))
		}
		if wantLogRun {
			acts = append(acts, callx(0, c15LifePokeLog))
		}
		if wantPaid && !sdInit {
			acts = append(acts, callx(5, 0))
		}
		bank := c15LifeTx{Kind: "bank", Value: 2, Utwo: 3}
		// 4. death
		switch death {
		case "sd-init", "sd-init-refund":
			if viaScript {
				steps := []c15LifeStep{create}
				if death == "sd-init-refund" {
					steps = append(steps, callx(4, 0))
				}
				cur = append(cur, script(steps...))
			}
		case "sd-run", "sd-run-refund", "sd-run-noise":
			var steps []c15LifeStep
			if viaScript {
				steps = append(steps, create)
			} else if wantPaid {
				cur = append(cur, bank)
			}
			steps = append(steps, acts...)
			steps = append(steps, callx(0, dead))
			if death == "sd-run-refund" {
				steps = append(steps, callx(4, 0))
			}
			if death == "sd-run-noise" {
				steps = append(steps, c15LifeStep{Op: "sub", Revert: true, Sub: []c15LifeStep{callx(4, 0)}})
			}
			cur = append(cur, script(steps...))
		case "sd-later", "sd-nextblock", "sd-reverted-run":
			if viaScript {
				cur = append(cur, script(create))
			}
			if len(acts) > 0 {
				cur = append(cur, script(acts...))
			}
			if wantPaid {
				cur = append(cur, bank)
			}
			switch death {
			case "sd-later":
				cur = append(cur, c15LifeTx{Kind: "tox", Word: dead})
			case "sd-nextblock":
				closeBlock()
				cur = append(cur, c15LifeTx{Kind: "tox", Word: dead})
			case "sd-reverted-run":
				steps := []c15LifeStep{{Op: "sub", Revert: true, Sub: []c15LifeStep{callx(0, c15LifePokeStore), callx(0, dead)}}}
				if thenCall {
					steps = append(steps, callx(0, 0))
				}
				cur = append(cur, script(steps...))
			}
		case "sd-reverted-init":
			steps := []c15LifeStep{{Op: "sub", Revert: true, Sub: []c15LifeStep{create}}}
			if thenCall {
				steps = append(steps, callx(0, 0))
			}
			cur = append(cur, script(steps...))
		case "touch":
			cur = append(cur, script(callx(0, 0)))
		case "touch-reverted":
			cur = append(cur, script(c15LifeStep{Op: "sub", Revert: true, Sub: []c15LifeStep{callx(0, 0)}}))
		}
	}
	life(o)
	// 5. afterwards
	switch after {
	case "recreate-same":
		cur = append(cur, script(c15LifeStep{Op: "create2", Value: c15LifeObserver}))
	case "recreate-next":
		closeBlock()
		cur = append(cur, script(c15LifeStep{Op: "create2", Value: c15LifeObserver}))
	case "transfer":
		cur = append(cur, c15LifeTx{Kind: "tox", Value: 1})
	case "touch":
		cur = append(cur, c15LifeTx{Kind: "tox"})
	case "relive-same", "relive-next":
		if after == "relive-next" {
			closeBlock()
		}
		life("create2")
		closeBlock()
		cur = append(cur, script(c15LifeStep{Op: "create2", Value: c15LifeObserver}))
	}
	closeBlock()
	p.Blocks = append(p.Blocks, nil) // one more (empty) block: block processing must not bring anything back
	return p, ""
}

// ---------------------------------------------------------------------------
// reference model
// ---------------------------------------------------------------------------

type c15LifeAcct struct {
	Exists  bool
	Nonce   uint64
	Code    string // "" | "runtime" | "observer"
	Storage map[uint64]uint64
	Base    int64
	Utwo    int64
}

func (a c15LifeAcct) String() string {
	if !a.Exists {
		return "absent"
	}
	var ks []uint64
	for k := range a.Storage {
		ks = append(ks, k)
	}
	sort.Slice(ks, func(i, j int) bool { return ks[i] < ks[j] })
	var st []string
	for _, k := range ks {
		st = append(st, fmt.Sprintf("%d:%#x", k, a.Storage[k]))
	}
	return fmt.Sprintf("{nonce=%d code=%q storage={%s} base=%d utwo=%d}", a.Nonce, a.Code, strings.Join(st, ","), a.Base, a.Utwo)
}

func (a c15LifeAcct) class() string {
	switch {
	case !a.Exists:
		return "absent"
	case a.Code == "observer":
		return "re-created"
	case a.Code == "runtime":
		return "alive"
	case a.Nonce == 0 && a.Base == 0 && a.Utwo == 0:
		return "empty-account"
	case a.Nonce == 0:
		return "plain-funded"
	}
	return "codeless-nonce"
}

type c15LifeModel struct {
	Level   string
	Init    c15LifeInit
	X       c15LifeAcct
	SD      bool // X executed SELFDESTRUCT in the current transaction (un-reverted)
	Touched bool
	FNonce  uint64
	FSpent  int64
	BGain   int64
	W0Nonce uint64
	W0Spent int64
	W1Base  int64
	W1Utwo  int64
	// sticky (not restored by a revert)
	XNonce    int64 // creator nonce that defines X's CREATE / top-level address, -1 = none
	Collision bool  // a creation met an occupied address (never planned)
	// statistics for the vacuity guards (sticky)
	DeletedWithStorage bool
	DeletedWithUtwo    bool
	DeletedWithCode    bool
	DeletedInitOnly    bool // deleted although no code was ever installed (died in its init code)
	EmptyDeleted       bool
	RevertedSD         bool
	Recreated          bool
}

func (m *c15LifeModel) snapshot() c15LifeModel {
	c := *m
	c.X.Storage = map[uint64]uint64{}
	for k, v := range m.X.Storage {
		c.X.Storage[k] = v
	}
	return c
}

func (m *c15LifeModel) restore(s c15LifeModel) {
	keep := *m
	*m = s
	m.XNonce, m.Collision = keep.XNonce, keep.Collision
	m.DeletedWithStorage, m.DeletedWithUtwo, m.DeletedWithCode, m.DeletedInitOnly = keep.DeletedWithStorage, keep.DeletedWithUtwo, keep.DeletedWithCode, keep.DeletedInitOnly
	m.EmptyDeleted, m.Recreated = keep.EmptyDeleted, keep.Recreated
	m.RevertedSD = keep.RevertedSD || keep.SD && !s.SD
}

func c15LifeNewModel(p *c15LifePlan) *c15LifeModel {
	m := &c15LifeModel{Level: p.Case.Level, Init: p.Init, FNonce: 1, XNonce: -1}
	m.X.Storage = map[uint64]uint64{}
	switch {
	case p.GenesisX:
		m.X = c15LifeAcct{Exists: true, Nonce: 1, Code: "runtime", Storage: map[uint64]uint64{}, Base: c15LifeGenCoins.AmountOf(world.Denom).Int64(), Utwo: c15LifeGenCoins.AmountOf("utwo").Int64()}
		for k, v := range c15LifeGenStorage {
			m.X.Storage[k] = v
		}
	case p.GenesisEmpty:
		m.X.Exists = true
	}
	return m
}

// pay moves v native units to X (CALL value, transaction value, CREATE endowment).
func (m *c15LifeModel) pay(from string, v uint64) {
	m.Touched = true
	if v == 0 {
		return
	}
	m.X.Base += int64(v)
	m.X.Exists = true
	if from == "F" {
		m.FSpent += int64(v)
	} else {
		m.W0Spent += int64(v)
	}
}

func (m *c15LifeModel) selfDestruct(self bool) {
	if !self {
		m.BGain += m.X.Base
	}
	m.X.Base = 0 // beneficiary = the contract itself: the balance is burnt
	m.SD = true
	m.Touched = true
}

// callX is a message call to X.
func (m *c15LifeModel) callX(from string, v, word uint64) {
	m.pay(from, v)
	if m.X.Code != "runtime" || word == 0 {
		return
	}
	switch word {
	case c15LifePokeStore:
		for _, s := range c15LifeSlots {
			m.X.Storage[s[0]] = s[1]
		}
	case c15LifePokeMany:
		for k := uint64(1); k <= c15LifeManySlots; k++ {
			m.X.Storage[k] = 0x200 + k
		}
	case c15LifeDead:
		m.selfDestruct(false)
	case c15LifeDeadSelf:
		m.selfDestruct(true)
	}
}

// create is CREATE / CREATE2 by F or a top-level creation by wallet 0 at X's address.
func (m *c15LifeModel) create(from, op string, v uint64) {
	if op == "create" {
		m.XNonce = int64(m.FNonce)
	}
	if from == "F" {
		m.FNonce++
	}
	if m.X.Nonce != 0 || m.X.Code != "" {
		m.Collision = true
		return
	}
	// a new account replaces whatever was at the address; the balances of every denomination are carried over
	m.X = c15LifeAcct{Exists: true, Nonce: 1, Storage: map[uint64]uint64{}, Base: m.X.Base, Utwo: m.X.Utwo}
	m.pay(from, v)
	if v == c15LifeObserver {
		m.X.Code = "observer" // a blank account: every watched slot reads zero
		m.Recreated = true
		return
	}
	if m.Init.Sstore {
		for _, s := range c15LifeSlots {
			m.X.Storage[s[0]] = s[1]
		}
	}
	if m.Init.Many {
		for k := uint64(1); k <= c15LifeManySlots; k++ {
			m.X.Storage[k] = 0x100 + k
		}
	}
	if m.Init.SD {
		m.selfDestruct(m.Init.Self)
		return
	}
	m.X.Code = "runtime"
}

func (m *c15LifeModel) steps(steps []c15LifeStep) {
	for _, s := range steps {
		switch s.Op {
		case "create", "create2":
			m.create("F", s.Op, s.Value)
		case "callx":
			m.callX("F", s.Value, s.Word)
		case "sub":
			snap := m.snapshot()
			m.FNonce++ // F deploys the sub-script
			m.steps(s.Sub)
			if s.Revert {
				m.restore(snap)
			}
		default:
			panic("c15 life: step " + s.Op)
		}
	}
}

// apply runs one transaction (evm level: one message) including its end-of-transaction deletions.
func (m *c15LifeModel) apply(t c15LifeTx) {
	switch t.Kind {
	case "bank":
		m.X.Base += int64(t.Value)
		m.X.Utwo += int64(t.Utwo)
		m.X.Exists = true
		m.W1Base += int64(t.Value)
		m.W1Utwo += int64(t.Utwo)
		return
	case "script":
		if m.Level == "tx" {
			m.W0Nonce++
		}
		m.FNonce++ // F deploys the script
		m.steps(t.Steps)
	case "tox":
		if m.Level == "tx" {
			m.W0Nonce++
		}
		m.callX("W0", t.Value, t.Word)
	case "deploy":
		m.XNonce = int64(m.W0Nonce)
		m.W0Nonce++
		m.create("W0", "deploy", t.Value)
	default:
		panic("c15 life: tx " + t.Kind)
	}
	// commit: self-destructed accounts and touched empty accounts are deleted
	empty := m.X.Exists && m.X.Nonce == 0 && m.X.Code == "" && len(m.X.Storage) == 0 && m.X.Base == 0 && m.X.Utwo == 0
	if m.SD || (m.Touched && empty) {
		if m.SD {
			m.DeletedWithStorage = m.DeletedWithStorage || len(m.X.Storage) > 0
			m.DeletedWithUtwo = m.DeletedWithUtwo || m.X.Utwo > 0
			m.DeletedWithCode = m.DeletedWithCode || m.X.Code != ""
			m.DeletedInitOnly = m.DeletedInitOnly || m.X.Code == ""
		} else {
			m.EmptyDeleted = true
		}
		m.X = c15LifeAcct{Storage: map[uint64]uint64{}}
	}
	m.SD, m.Touched = false, false
}

// ---------------------------------------------------------------------------
// compilation of plans into bytes
// ---------------------------------------------------------------------------

// c15LifeResolveX runs the model once to learn which creator nonce defines X's address.
func c15LifeResolveX(p *c15LifePlan, w0 common.Address) common.Address {
	m := c15LifeNewModel(p)
	for _, blk := range p.Blocks {
		for _, t := range blk {
			m.apply(t)
		}
	}
	if m.Collision {
		panic("c15 life: plan " + p.Case.id() + " creates at an occupied address")
	}
	switch p.Case.Origin {
	case "empty":
		return c15LifeEmptyX
	case "create":
		if m.XNonce < 0 {
			panic("c15 life: no CREATE in " + p.Case.id())
		}
		return ethcrypto.CreateAddress(c15LifeF, uint64(m.XNonce))
	case "toplevel":
		if m.XNonce < 0 {
			panic("c15 life: no deployment in " + p.Case.id())
		}
		return ethcrypto.CreateAddress(w0, uint64(m.XNonce))
	}
	return ethcrypto.CreateAddress2(c15LifeF, h(c15LifeSalt), ethcrypto.Keccak256(c15LifeInitCode(p.Init)))
}

func c15LifeCompile(steps []c15LifeStep, init []byte, x common.Address) *asm.Code {
	c := asm.New()
	for _, s := range steps {
		switch s.Op {
		case "create":
			c.Create(init, s.Value)
		case "create2":
			c.Create2(init, s.Value, c15LifeSalt)
		case "callx":
			if s.Word == 0 {
				c.Call(asm.KCall, x, s.Value, 0, 0, 0, 0, 0).Op(asm.POP)
			} else {
				c.CallData(asm.KCall, x, s.Value, 0, Word(new(big.Int).SetUint64(s.Word)))
			}
		case "sub":
			sub := c15LifeCompile(s.Sub, init, x)
			if s.Revert {
				sub.Revert()
			} else {
				sub.Stop()
			}
			c.CallData(asm.KCall, c15LifeF, 0, 0, sub.Bytes())
		}
	}
	return c
}

func c15LifeWordData(word uint64) []byte {
	if word == 0 {
		return nil
	}
	return Word(new(big.Int).SetUint64(word))
}

// ---------------------------------------------------------------------------
// worlds
// ---------------------------------------------------------------------------

// c15LifeWorld: the standing population of c15 (module accounts, base accounts, the storage contract, the gadget contracts) as
// bystanders, plus F and the per-case genesis items.
func c15LifeWorld(contracts []world.Contract, extra []world.ExtraAccount) *world.World {
	const clock = "2100"
	var xs []world.ExtraAccount
	for _, t := range c15SingleTargets() {
		if x, skip := c15GenesisAccount(t, clock); x != nil && skip == "" {
			xs = append(xs, *x)
		}
	}
	cs := append(c15Gadgets(), world.Contract{Addr: c15LifeF, Code: c15LifeExecutor(), Coins: c15Coins(c15LifeFFunds, 0, 0)})
	w := world.New(world.Config{NumWallets: 2, Extra: append(xs, extra...), Contracts: append(cs, contracts...), GenesisTime: c15Genesis(clock)})
	br := w.Block(nil)
	if br.Panic != "" || br.Err != nil {
		panic(fmt.Sprintf("C15 life world: first block: %q %v", br.Panic, br.Err))
	}
	return w
}

func c15LifeGenesisX(x common.Address) world.Contract {
	st := map[common.Hash]common.Hash{}
	for k, v := range c15LifeGenStorage {
		st[h(k)] = h(v)
	}
	return world.Contract{Addr: x, Code: c15LifeRuntime(), Storage: st, Coins: c15LifeGenCoins}
}

// c15LifeKeeperWorld is the shared application of the evm-level cases (one per worker process).
type c15LifeKeeperWorld struct {
	w    *world.World
	root sdk.Context
}

func c15LifeNewKeeperWorld() *c15LifeKeeperWorld {
	w := c15LifeWorld(nil, nil)
	return &c15LifeKeeperWorld{w: w, root: w.Ctx()}
}

// c15LifeInstall puts a genesis item on a branch context the way InitGenesis of x/auth, x/bank and x/evm do.
func c15LifeInstall(w *world.World, ctx sdk.Context, c world.Contract, seq uint64) {
	ak := w.App.AccountKeeper
	acc := ak.NewAccountWithAddress(ctx, c.Addr.Bytes())
	if err := acc.SetSequence(seq); err != nil {
		panic(err)
	}
	ak.SetAccount(ctx, acc)
	if len(c.Code) > 0 {
		hash := ethcrypto.Keccak256Hash(c.Code)
		w.App.EvmKeeper.SetCodeHash(ctx, c.Addr, hash)
		w.App.EvmKeeper.SetCode(ctx, hash.Bytes(), c.Code)
	}
	for k, v := range c.Storage {
		w.App.EvmKeeper.SetState(ctx, c.Addr, k, v.Bytes())
	}
	if !c.Coins.IsZero() {
		if err := w.App.BankKeeper.MintCoins(ctx, evmtypes.ModuleName, c.Coins); err != nil {
			panic(err)
		}
		if err := w.App.BankKeeper.SendCoinsFromModuleToAccount(ctx, evmtypes.ModuleName, c.Addr.Bytes(), c.Coins); err != nil {
			panic(err)
		}
	}
}

// c15LifeCreateEVM is CallEVM for a top-level creation: real NewStateDB + NewEVM + evm.Create + CommitMultiStore.
func c15LifeCreateEVM(w *world.World, ctx sdk.Context, from common.Address, code []byte, value *big.Int, gas uint64) (addr common.Address, res CallResult) {
	defer func() {
		if r := recover(); r != nil {
			res.Panic = c15FirstLine(fmt.Sprint(r))
		}
	}()
	k := w.App.EvmKeeper
	cfg, err := k.EVMConfig(ctx, nil)
	if err != nil {
		panic(err)
	}
	zero := new(big.Int)
	msg := ethtypes.NewMessage(from, nil, 0, value, gas, zero, zero, zero, code, nil, true)
	sdb := evmvm.NewStateDB(ctx, cfg.CoinBase, k, w.App.AccountKeeper, w.App.BankKeeper)
	evm := k.NewEVM(ctx, msg, cfg, evmtypes.NewNoOpTracer(), sdb)
	rules := cfg.ChainConfig.Rules(big.NewInt(ctx.BlockHeight()), false)
	sdb.PrepareAccessList(from, nil, append(corevm.ActivePrecompiles(rules), evm.GetCustomPrecompiledContractsAddress()...), nil)
	res.Ret, addr, res.GasLeft, res.Err = evm.Create(corevm.AccountRef(from), code, gas, value)
	res.Logs = sdb.GetTransactionLogs()
	if err := sdb.CommitMultiStore(true); err != nil {
		panic(err)
	}
	return addr, res
}

// ---------------------------------------------------------------------------
// observation of X and the oracle
// ---------------------------------------------------------------------------

// c15LifeStorage iterates the raw storage prefix of addr in the x/evm store.
func c15LifeStorage(w *world.World, ctx sdk.Context, addr common.Address) map[common.Hash]common.Hash {
	out := map[common.Hash]common.Hash{}
	it := storetypes.KVStorePrefixIterator(ctx.KVStore(w.Keys[evmtypes.StoreKey]), evmtypes.AddressStoragePrefix(addr))
	defer it.Close()
	for ; it.Valid(); it.Next() {
		out[common.BytesToHash(it.Key()[len(evmtypes.AddressStoragePrefix(addr)):])] = common.BytesToHash(it.Value())
	}
	return out
}

func c15LifeStorageString(st map[common.Hash]common.Hash) string {
	var ks []string
	for k := range st {
		ks = append(ks, k.Hex())
	}
	sort.Strings(ks)
	var out []string
	for _, k := range ks {
		v := st[common.HexToHash(k)]
		out = append(out, fmt.Sprintf("%s=%s", new(big.Int).SetBytes(common.HexToHash(k).Bytes()).Text(16), new(big.Int).SetBytes(v.Bytes()).Text(16)))
	}
	return "{" + strings.Join(out, ",") + "}"
}

// c15LifeCheckX compares X as stored with the reference model.
func c15LifeCheckX(w *world.World, ctx sdk.Context, x common.Address, snap *c15Snap, m *c15LifeModel, when string) (fails []c15Fail) {
	o := snap.get(x)
	st := c15LifeStorage(w, ctx, x)
	seen := fmt.Sprintf("%s storage=%s", o, c15LifeStorageString(st))
	everDeleted := m.DeletedWithStorage || m.DeletedWithCode || m.DeletedInitOnly || m.EmptyDeleted
	if !m.X.Exists {
		if o.Exists || !o.Bal.IsZero() || o.Code != "" || len(st) != 0 || o.NStorage != 0 || o.RawAuth != 0 || o.RawBank != 0 || o.RawEvm != 0 {
			clause := "deleted-accounts-are-removed-completely"
			if !everDeleted && !m.RevertedSD {
				clause = "lifecycle-state-matches-reference"
			}
			fails = append(fails, c15Fail{clause, fmt.Sprintf("%s: X=%s must hold nothing (no account record, no balance in any denomination, no code hash, no storage entry) but the stores hold %s", when, x.Hex(), seen)})
		}
		return fails
	}
	var diffs []string
	if !o.Exists {
		diffs = append(diffs, "no account record")
	}
	if o.Seq != m.X.Nonce {
		diffs = append(diffs, fmt.Sprintf("sequence %d, expected %d", o.Seq, m.X.Nonce))
	}
	if want := c15Coins(m.X.Base, m.X.Utwo, 0); !o.Bal.Equal(want) {
		diffs = append(diffs, fmt.Sprintf("balances %s, expected %s", o.Bal, want))
	}
	wantCode := ""
	switch m.X.Code {
	case "runtime":
		wantCode = hex.EncodeToString(ethcrypto.Keccak256(c15LifeRuntime()))
	case "observer":
		wantCode = hex.EncodeToString(ethcrypto.Keccak256(c15LifeObserverCode()))
	}
	inherited := false
	if o.Code != wantCode {
		d := fmt.Sprintf("code hash %q, expected %q", o.Code, wantCode)
		if m.X.Code == "observer" && o.Code != "" {
			hash, _ := hex.DecodeString(o.Code)
			code := ctx.KVStore(w.Keys[evmtypes.StoreKey]).Get(append(append([]byte{}, evmtypes.KeyPrefixCode...), hash...))
			if len(code) == 32*len(c15LifeWatch) {
				var obs []string
				for i, k := range c15LifeWatch {
					obs = append(obs, fmt.Sprintf("slot %d = %#x", k, new(big.Int).SetBytes(code[32*i:32*i+32])))
				}
				d += "; the re-created contract read from its fresh storage: " + strings.Join(obs, ", ")
				inherited = true
			}
		}
		diffs = append(diffs, d)
	}
	want := map[common.Hash]common.Hash{}
	for k, v := range m.X.Storage {
		want[h(k)] = h(v)
	}
	if c15LifeStorageString(st) != c15LifeStorageString(want) {
		diffs = append(diffs, fmt.Sprintf("storage %s, expected %s", c15LifeStorageString(st), c15LifeStorageString(want)))
		if m.Recreated || everDeleted {
			inherited = true
		}
	}
	if len(diffs) > 0 {
		clause := "lifecycle-state-matches-reference"
		switch {
		case inherited:
			clause = "deleted-accounts-are-removed-completely"
		case !o.Exists:
			clause = "only-empty-or-selfdestructed-accounts-disappear"
		}
		fails = append(fails, c15Fail{clause, fmt.Sprintf("%s: X=%s is %s, the reference says %s: %s", when, x.Hex(), seen, m.X, strings.Join(diffs, "; "))})
	}
	return fails
}

// c15LifeCheckOthers: the protections for every account that is not X (c15Oracle) plus exact accounting for F and B.
func c15LifeCheckOthers(T sdk.Context, x common.Address, pre, post *c15Snap, before c15LifeModel, m *c15LifeModel, sender common.Address, w1 common.Address, maxFee, w1Fee *big.Int, ntx int, when string) (fails []c15Fail) {
	d := func(a, b int64) *big.Int { return big.NewInt(a - b) }
	ex := c15Exec{X: x, Sender: &sender, MaxFee: maxFee, NTx: ntx,
		MaySpend: map[common.Address]*big.Int{
			sender:   d(m.W0Spent, before.W0Spent),
			w1:       new(big.Int).Add(d(m.W1Base, before.W1Base), w1Fee),
			c15LifeF: d(m.FSpent, before.FSpent),
		},
		MayGain:   map[common.Address]*big.Int{c15LifeB: d(m.BGain, before.BGain)},
		SelfDestr: map[common.Address]bool{},
		Skip:      map[common.Address]bool{x: true},
		MaySpendD: map[string]map[common.Address]*big.Int{"utwo": {w1: d(m.W1Utwo, before.W1Utwo)}},
	}
	for _, f := range c15Oracle(T.BlockTime(), pre, post, ex) {
		fails = append(fails, c15Fail{f.Clause, when + ": " + f.Detail})
	}
	f, b := post.get(c15LifeF), post.get(c15LifeB)
	if want := c15Coins(c15LifeFFunds-m.FSpent, 0, 0); !f.Bal.Equal(want) || f.Seq != m.FNonce {
		fails = append(fails, c15Fail{"balances-change-only-as-entitled", fmt.Sprintf("%s: the executor F is %s, the reference says balance %s sequence %d", when, f, want, m.FNonce)})
	}
	if want := c15Coins(m.BGain, 0, 0); !b.Bal.Equal(want) || b.Exists != (m.BGain > 0) || b.Code != "" || b.NStorage != 0 {
		fails = append(fails, c15Fail{"balances-change-only-as-entitled", fmt.Sprintf("%s: the beneficiary B is %s, the reference says balance %s", when, b, want)})
	}
	return fails
}

// ---------------------------------------------------------------------------
// execution
// ---------------------------------------------------------------------------

type c15LifeResult struct {
	Case   c15Life
	Class  string // final state of X according to the stores' agreement with the model (model class)
	Detail string
	Fails  []c15Fail
	Model  *c15LifeModel
	Blocks int
	Txs    int
}

func c15LifeAlso(x common.Address) []common.Address {
	return append([]common.Address{x, c15AddrNone, c15LifeF, c15LifeB}, c15GadgetAddrs...)
}

// c15RunLife executes one case. kw is the shared application for the evm level (created on first use).
func c15RunLife(c c15Life, kw **c15LifeKeeperWorld) c15LifeResult {
	plan, why := c15LifeBuildPlan(c)
	if why != "" {
		panic("c15 life: infeasible case " + c.id() + ": " + why)
	}
	switch c.Level {
	case "tx":
		return c15RunLifeTx(plan)
	case "evm":
		if *kw == nil {
			*kw = c15LifeNewKeeperWorld()
		}
		return c15RunLifeEVM(plan, *kw)
	}
	panic("c15 life: level " + c.Level)
}

func c15RunLifeTx(plan *c15LifePlan) (res c15LifeResult) {
	res.Case = plan.Case
	var contracts []world.Contract
	var extra []world.ExtraAccount
	// X's address depends on wallet 0 for top-level creations; the wallets of every world are the same fixed keys
	x := c15LifeResolveX(plan, c15LifeWallet0())
	if plan.GenesisX {
		contracts = append(contracts, c15LifeGenesisX(x))
	}
	if plan.GenesisEmpty {
		extra = append(extra, world.ExtraAccount{Account: c15LifeEmptyAccount(x)})
	}
	w := c15LifeWorld(contracts, extra)
	w0, w1 := w.Wallets[0], w.Wallets[1]
	if w0.Eth() != c15LifeWallet0() {
		panic("c15 life: wallet 0 is not where the plan expects it")
	}
	m := c15LifeNewModel(plan)
	m.W0Nonce = w.Nonce(w.Ctx(), w0.Eth())
	init := c15LifeInitCode(plan.Init)
	also := c15LifeAlso(x)
	var trace []string
	fail := func(clause, f string, a ...interface{}) {
		res.Fails = append(res.Fails, c15Fail{clause, fmt.Sprintf(f, a...)})
	}
	// the genesis state itself must agree with the model (alphabet sanity)
	for _, f := range c15LifeCheckX(w, w.Ctx(), x, c15Observe(w, w.Ctx(), also), m, "before the first block") {
		fail("alphabet-sanity", "%s", f.Detail)
	}
	for bi, blk := range plan.Blocks {
		ctx := w.Ctx()
		pre := c15Observe(w, ctx, also)
		before := m.snapshot()
		nonce0 := w.Nonce(ctx, w0.Eth())
		seq1 := w.Nonce(ctx, w1.Eth())
		maxFee, w1Fee := new(big.Int), new(big.Int)
		var txs [][]byte
		var names []string
		eth := func(to *common.Address, value uint64, data []byte, gas uint64) {
			txs = append(txs, w.EthTx(w0, &ethtypes.LegacyTx{Nonce: nonce0, GasPrice: c15LifePrice, Gas: gas, To: to, Value: new(big.Int).SetUint64(value), Data: data}))
			nonce0++
			maxFee.Add(maxFee, new(big.Int).Mul(new(big.Int).SetUint64(gas), c15LifePrice))
		}
		for _, t := range blk {
			names = append(names, t.String())
			switch t.Kind {
			case "script":
				f := c15LifeF
				eth(&f, 0, c15LifeCompile(t.Steps, init, x).Stop().Bytes(), c15LifeScriptGas)
			case "tox":
				to := x
				eth(&to, t.Value, c15LifeWordData(t.Word), c15LifeCallGas)
			case "deploy":
				eth(nil, t.Value, init, c15LifeDeployGas)
			case "bank":
				fee := new(big.Int).Mul(big.NewInt(c15LifeBankGas), c15LifePrice)
				msg := &banktypes.MsgSend{FromAddress: w1.Bech(), ToAddress: sdk.AccAddress(x.Bytes()).String(), Amount: c15Coins(int64(t.Value), int64(t.Utwo), 0)}
				txs = append(txs, w.CosmosTx(w1, w.AccNum(ctx, w1.Acc()), seq1, c15LifeBankGas, fee, msg))
				seq1++
				w1Fee.Add(w1Fee, fee)
			}
			m.apply(t)
		}
		when := fmt.Sprintf("after block %d %v", w.Height+1, names)
		br := w.Block(txs)
		res.Blocks++
		res.Txs += len(txs)
		if br.Panic != "" || br.Err != nil {
			fail("block-executes", "%s: panic=%q err=%v", when, c15FirstLine(br.Panic), br.Err)
			break
		}
		ok := true
		for i, r := range br.Res.TxResults {
			vmErr := ""
			if er := w.EthResponse(r); er != nil {
				vmErr = er.VmError
			}
			if r.Code != 0 || vmErr != "" {
				ok = false
				fail("alphabet-sanity", "%s: transaction %d (%s) of a plan built to succeed failed: code=%d vmError=%q %s", when, i, names[i], r.Code, vmErr, c15FirstLine(r.Log))
			}
		}
		if !ok {
			break
		}
		post := c15Observe(w, w.Ctx(), also)
		if got := w.Nonce(w.Ctx(), w0.Eth()); got != m.W0Nonce {
			fail("alphabet-sanity", "%s: wallet 0 has sequence %d, the reference says %d", when, got, m.W0Nonce)
		}
		res.Fails = append(res.Fails, c15LifeCheckX(w, w.Ctx(), x, post, m, when)...)
		res.Fails = append(res.Fails, c15LifeCheckOthers(ctx, x, pre, post, before, m, w0.Eth(), w1.Eth(), maxFee, w1Fee, len(txs), when)...)
		trace = append(trace, fmt.Sprintf("b%d%v X=%s", bi, names, post.get(x)))
		if len(res.Fails) > 0 {
			break
		}
	}
	res.Model = m
	res.Class = m.X.class()
	res.Detail = fmt.Sprintf("X=%s; %s", x.Hex(), strings.Join(trace, " | "))
	return res
}

func c15RunLifeEVM(plan *c15LifePlan, kw *c15LifeKeeperWorld) (res c15LifeResult) {
	res.Case = plan.Case
	w := kw.w
	ctx, _ := kw.root.CacheContext()
	w0, w1 := w.Wallets[0], w.Wallets[1]
	x := c15LifeResolveX(plan, w0.Eth())
	if plan.GenesisX {
		c15LifeInstall(w, ctx, c15LifeGenesisX(x), 1)
	}
	if plan.GenesisEmpty {
		c15LifeInstall(w, ctx, world.Contract{Addr: x}, 0)
	}
	m := c15LifeNewModel(plan)
	m.W0Nonce = w.Nonce(ctx, w0.Eth())
	init := c15LifeInitCode(plan.Init)
	also := c15LifeAlso(x)
	var trace []string
	fail := func(clause, f string, a ...interface{}) {
		res.Fails = append(res.Fails, c15Fail{clause, fmt.Sprintf(f, a...)})
	}
	for _, f := range c15LifeCheckX(w, ctx, x, c15Observe(w, ctx, also), m, "before the first message") {
		fail("alphabet-sanity", "%s", f.Detail)
	}
	n := 0
outer:
	for _, blk := range plan.Blocks {
		for _, t := range blk {
			n++
			when := fmt.Sprintf("after message %d %s", n, t)
			pre := c15Observe(w, ctx, also)
			before := m.snapshot()
			var cr CallResult
			switch t.Kind {
			case "script":
				cr = CallEVM(w, ctx, w0.Eth(), c15LifeF, c15LifeCompile(t.Steps, init, x).Stop().Bytes(), nil, c15LifeScriptGas)
			case "tox":
				cr = CallEVM(w, ctx, w0.Eth(), x, c15LifeWordData(t.Word), new(big.Int).SetUint64(t.Value), c15LifeCallGas)
			case "deploy":
				var at common.Address
				at, cr = c15LifeCreateEVM(w, ctx, w0.Eth(), init, new(big.Int).SetUint64(t.Value), c15LifeDeployGas)
				if cr.Err == nil && cr.Panic == "" && at != x {
					fail("alphabet-sanity", "%s: the creation went to %s, the plan expects %s", when, at.Hex(), x.Hex())
				}
			case "bank":
				if err := w.App.BankKeeper.SendCoins(ctx, w1.Acc(), x.Bytes(), c15Coins(int64(t.Value), int64(t.Utwo), 0)); err != nil {
					fail("alphabet-sanity", "%s: bank send failed: %v", when, err)
				}
			}
			res.Txs++
			if cr.Panic != "" || cr.Err != nil {
				fail("alphabet-sanity", "%s: a message of a plan built to succeed failed: err=%v panic=%q", when, cr.Err, c15FirstLine(cr.Panic))
				break outer
			}
			m.apply(t)
			post := c15Observe(w, ctx, also)
			if got := w.Nonce(ctx, w0.Eth()); got != m.W0Nonce {
				fail("alphabet-sanity", "%s: wallet 0 has sequence %d, the reference says %d", when, got, m.W0Nonce)
			}
			res.Fails = append(res.Fails, c15LifeCheckX(w, ctx, x, post, m, when)...)
			res.Fails = append(res.Fails, c15LifeCheckOthers(ctx, x, pre, post, before, m, w0.Eth(), w1.Eth(), new(big.Int), new(big.Int), 1, when)...)
			trace = append(trace, fmt.Sprintf("m%d %s X=%s", n, t, post.get(x)))
			if len(res.Fails) > 0 {
				break outer
			}
		}
	}
	res.Model = m
	res.Class = m.X.class()
	res.Detail = fmt.Sprintf("X=%s; %s", x.Hex(), strings.Join(trace, " | "))
	return res
}

// ---------------------------------------------------------------------------
// driver pieces (called from runC15)
// ---------------------------------------------------------------------------

func c15LifeFindings(r c15LifeResult) (out []ev.Finding) {
	for _, f := range r.Fails {
		out = append(out, ev.Finding{Clause: f.Clause, Detail: fmt.Sprintf("[lifecycle %s] origin=%s activity=%s death=%s after=%s%s: %s (case: %s)",
			r.Case.Level, r.Case.Origin, r.Case.Act, r.Case.Death, r.Case.After, map[bool]string{true: " beneficiary=" + r.Case.Ben}[r.Case.Ben != ""], f.Detail, r.Detail), Replay: r.Case})
	}
	return out
}

// c15LifeIsReplay recognises the replay value of a lifecycle case.
func c15LifeIsReplay(raw json.RawMessage) (c15Life, bool) {
	var c c15Life
	if !bytes.Contains(raw, []byte(`"life"`)) {
		return c, false
	}
	if err := json.Unmarshal(raw, &c); err != nil || !c.Life {
		return c, false
	}
	return c, true
}

func c15LifeCount(run *ev.Run, r c15LifeResult) {
	run.Count("evaluations", 1)
	run.Count("lifecycle_cases", 1)
	run.Count("lifecycle_cases_"+r.Case.Level+"_level", 1)
	run.Count("lifecycle_blocks", int64(r.Blocks))
	run.Count("lifecycle_transactions", int64(r.Txs))
	if r.Case.Level == "tx" {
		run.Count("tx_level_cases", 1)
	} else {
		run.Count("statedb_level_cases", 1)
	}
	run.Outcome(fmt.Sprintf("lifecycle %s: %s/%s/%s%s => X %s", r.Case.Level, r.Case.Origin, r.Case.Death, r.Case.After, map[bool]string{true: "/ben=" + r.Case.Ben}[r.Case.Ben != ""], r.Class))
	run.Count("by_program/life-"+r.Case.Death+"/"+r.Class, 1)
	run.Distinct("life|" + r.Case.id() + "|" + r.Class)
	if len(r.Fails) > 0 || r.Model == nil {
		return
	}
	m := r.Model
	for name, hit := range map[string]bool{
		"sanity/life_selfdestructed_with_storage_deleted":                 m.DeletedWithStorage,
		"sanity/life_selfdestructed_in_init_code_deleted":                 m.DeletedInitOnly,
		"sanity/life_selfdestructed_with_second_denom_deleted":            m.DeletedWithUtwo,
		"sanity/life_empty_account_touched_deleted":                       m.EmptyDeleted,
		"sanity/life_reverted_selfdestruct_kept":                          m.RevertedSD,
		"sanity/life_recreated_on_blank_account":                          m.Recreated,
		"sanity/life_selfdestructed_in_init_with_storage_" + r.Case.Level: m.DeletedInitOnly && m.DeletedWithStorage,
	} {
		if hit {
			run.Count(name, 1)
		}
	}
}

func c15LifeRule(thorough bool) string {
	acts, afters, bens := c15LifeActsQuick, c15LifeAftersQuick, c15LifeBensQuick
	if thorough {
		acts, afters, bens = c15LifeActsThorough, c15LifeAftersThorough, c15LifeBensThorough
	}
	return fmt.Sprintf(" LIFECYCLE product for accounts that get deleted, every feasible combination executed at the levels %v (tx = FinalizeBlock+Commit on a fresh app per case, oracle after every block; "+
		"evm = NewStateDB+NewEVM+evm.Call/Create+CommitMultiStore per message on a CacheContext branch, oracle after every message): origin %v × activity %v × death %v × afterwards %v × SELFDESTRUCT beneficiary %q (\"\" = fresh address B, self = the dying contract; quick tier: self only with afterwards ∈ {nothing, recreate-next}). "+
		"Scripts run as the executor contract F (deploys its call data, DELEGATECALLs it); X's runtime code: no data = accept value, word 1 = SSTORE slots 1,3, word 2 = LOG1, word 3 = SSTORE slots 1..12, word 0xdead = SELFDESTRUCT(B), word 0xdeaf = SELFDESTRUCT(ADDRESS); "+
		"X's init code: CALLVALUE 7 = return SLOAD(1),SLOAD(2),SLOAD(3) as code (re-creation on an address that must be blank), else optional SSTORE (2 or 12 slots) / LOG1, then SELFDESTRUCT(B) or install the runtime code; "+
		"the genesis incarnation holds slots {1:7,2:9}, 1000 base + 5 utwo. Reference model of X (exists, nonce, code, storage, base, utwo; self-destructed / touched flags; frame snapshots) decides the exact expected state; "+
		"X is read from the auth / bank keepers and by raw iteration of the x/evm store (code-hash entry, storage prefix, scan of auth/bank/evm keys for the address bytes); every other account goes through the protections oracle, F and B through exact accounting.",
		c15LifeLevels, c15LifeOrigins, acts, c15LifeDeaths, afters, bens)
}

// c15LifeWallet0 is the address of wallet 0 of every world (world.New derives the wallet keys from fixed names).
func c15LifeWallet0() common.Address { return world.NewAcct("wal1").Eth() }

func c15LifeEmptyAccount(x common.Address) authtypes.GenesisAccount {
	return authtypes.NewBaseAccount(x.Bytes(), nil, 0, 0)
}
